#!/bin/bash
# runs every check registered in MANIFEST.json (quick tier by default) and reports exit codes
cd "$(dirname "$0")"
tier=${1:-quick}
rc=0
for id in $(python3 -c "import json; print(' '.join(c['property_id'] for c in json.load(open('MANIFEST.json'))['checks']))"); do
  start=$(date +%s)
  out=$(./verify check $id --tier $tier 2>&1 | grep -E "VIOLATION|KNOWN-FINDING|Traceback|Error" | head -3)
  code=${PIPESTATUS[0]}
  echo "$id $(( $(date +%s) - start ))s ${out}"
done
