#!/bin/bash
# usage: tools/seedscratch.sh up <seed-dir-name>   -> /tmp/sx_repo (worktree of /repo with the seed applied) and
#                                                      /tmp/sx_verif (copy of /verif pointed at it); run checks there
#        tools/seedscratch.sh down                  -> removes both
set -u
R=/tmp/sx_repo; V=/tmp/sx_verif
case "$1" in
  up)
    rm -rf $R $V; git -C /repo worktree prune
    git -C /repo worktree add -f --detach $R HEAD >/dev/null 2>&1 || exit 2
    cp /repo/Cargo.lock $R/ 2>/dev/null
    git -C $R apply /verif/seeded/$2/patch.diff || exit 2
    rsync -a --exclude .git --exclude replays /verif/ $V/
    sed -i "s|path = \"/repo|path = \"$R|g" $V/harness/Cargo.toml
    sed -i "s|^REPO = \"/repo\"|REPO = \"$R\"|" $V/vlib.py
    echo "ready: cd $V && ./verify check <id> --tier quick" ;;
  down)
    cd /; git -C /repo worktree remove --force $R 2>/dev/null; rm -rf $V $R; git -C /repo worktree prune ;;
esac
