#!/bin/bash
# usage: tools/harmlesscheck.sh <tag> <patch>...
# Applies behaviour-preserving patches (seeded/harmless/*.diff) to a scratch worktree of /repo, points a scratch
# copy of /verif at it, runs all twenty quick checks and appends "<tag> <id> <VIOLATION line or nothing>" to
# /tmp/harmless.log.  Nothing under /repo or /verif is touched; the scratch copies are removed at the end.
tag=$1; shift
R=/tmp/hx_repo_$tag; V=/tmp/hx_verif_$tag
rm -rf $R $V; git -C /repo worktree prune
git -C /repo worktree add -f --detach $R HEAD >/dev/null 2>&1 || exit 2
cp /repo/Cargo.lock $R/ 2>/dev/null
for p in "$@"; do git -C $R apply $p || { echo "$tag: $p does not apply" >> /tmp/harmless.log; exit 2; }; done
rsync -a --exclude .git --exclude replays /verif/ $V/
sed -i "s|path = \"/repo|path = \"$R|g" $V/harness/Cargo.toml
sed -i "s|^REPO = \"/repo\"|REPO = \"$R\"|" $V/vlib.py
cd $V
for i in $(seq -w 1 20); do
  id=C$i
  out=$(./verify check $id --tier quick 2>&1 | grep -E "^VIOLATION" | head -2)
  echo "$tag $id $(echo $out | cut -c1-200)" >> /tmp/harmless.log
done
cd /; git -C /repo worktree remove --force $R 2>/dev/null; rm -rf $V $R; git -C /repo worktree prune
echo "$tag done" >> /tmp/harmless.log
