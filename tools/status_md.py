#!/usr/bin/env python3
"""prints the per-property status table of DESIGN.md section 11.9 from Properties/*.v and gen_manifest.SCOPE"""
import os, re, sys
ROOT = os.path.dirname(os.path.dirname(os.path.abspath(__file__)))
sys.path.insert(0, ROOT)
import gen_manifest as G
import vlib
rows = ["| id | theorems (coq/theories/Properties) | what they cover, and what is left to correspondence + oracle |", "|----|----|----|"]
for i in range(1, 21):
    pid = "C%02d" % i
    th = vlib.pinned_theorems(pid)
    scope = G.SCOPE.get(pid, "see Properties/%s.v" % pid)
    rows.append("| %s | %d | %s |" % (pid, len(th), scope.replace("|", "/")))
print("\n".join(rows))
