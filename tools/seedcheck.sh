#!/bin/bash
# usage: tools/seedcheck.sh <patch.diff> <out-file> [property ids...]
# applies a seeded change to /repo, runs the quick checks, restores /repo; writes "<id> rc=<n> <violation line>" lines.
# The evidence and replays written during the run are restored afterwards (they describe a patched tree).
set -u
patch=$1; out=$2; shift 2
ids=${@:-C01 C02 C03 C04 C05 C06 C07 C08 C09 C10 C11 C12 C13 C15 C17 C18 C19}
cd ${VERIF_DIR:-/verif}
if ! git -C /repo diff --quiet; then echo "/repo is dirty" >&2; exit 2; fi
git -C /repo apply "$patch" || exit 2
trap 'git -C /repo checkout -- .; git -C ${VERIF_DIR:-/verif} checkout -- evidence 2>/dev/null' EXIT
: > "$out"
for id in $ids; do
  log=$(mktemp)
  timeout 1800 ./verify check $id --tier quick > "$log" 2>&1; rc=$?
  echo "$id rc=$rc $(grep -m1 '^VIOLATION' "$log")" >> "$out"
  if [ $rc -ne 0 ]; then
    rp=$(grep -m1 '^VIOLATION' "$log" | sed -n 's/.*replay=\([^ ]*\).*/\1/p')
    [ -n "$rp" ] && [ -f "$rp" ] && cp "$rp" "${out%.txt}.$id.replay.json"
  fi
  rm -f "$log"
done
