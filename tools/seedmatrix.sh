#!/bin/bash
# usage: [SUFFIX=_x] [IDS="C01 C02"|IDS=own] tools/seedmatrix.sh <outdir> [seed dirs...]
# Runs every registered quick check against every seeded change, on scratch copies of /repo and /verif (so
# neither is touched): the copy of /verif has its harness pointed at the copy of /repo.  The copies are
# removed at the end.  Writes <outdir>/<seed>.txt with one "<id> rc=<n> <violation line>" line per check.
set -u
out=$1; shift
seeds=${@:-$(ls -d /verif/seeded/*/ | xargs -n1 basename)}
R=/tmp/matrix_repo${SUFFIX:-}; V=/tmp/matrix_verif${SUFFIX:-}
rm -rf $R $V; mkdir -p "$out"
git -C /repo worktree add -f --detach $R HEAD >/dev/null 2>&1 || exit 2
cp /repo/Cargo.lock $R/ 2>/dev/null
rsync -a --exclude .git --exclude replays /verif/ $V/
sed -i "s|path = \"/repo|path = \"$R|g" $V/harness/Cargo.toml
sed -i "s|^REPO = \"/repo\"|REPO = \"$R\"|" $V/vlib.py
ids=${IDS:-$(python3 -c "import json; print(' '.join(c['property_id'] for c in json.load(open('/verif/MANIFEST.json'))['checks']))")}
cd $V
for s in $seeds; do
  git -C $R checkout -q -- . ; git -C $R apply /verif/seeded/$s/patch.diff || { echo "$s: patch does not apply" > $out/$s.txt; continue; }
  : > $out/$s.txt
  runids=$ids; [ "$ids" = "own" ] && runids=${s%-*}
  for id in $runids; do
    log=$(mktemp)
    timeout 1800 ./verify check $id --tier quick > "$log" 2>&1; rc=$?
    echo "$id rc=$rc $(grep -m1 '^VIOLATION' "$log")" >> $out/$s.txt
    rm -f "$log"
  done
done
git -C $R checkout -q -- .
cd /; git -C /repo worktree remove --force $R; rm -rf $V
echo done > $out/matrix.done
