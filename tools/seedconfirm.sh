#!/bin/bash
# usage: tools/seedconfirm.sh <worktree> ; expects <worktree>/OUT/{patch.diff,demo.rs}
# Confirms in the scratch worktree: (1) with the patch, the repository's own tests pass (demo excluded),
# (2) with the patch the demo fails, (3) without the patch the demo passes.  Prints a summary.
set -u
wt=$1
export CARGO_NET_OFFLINE=true CARGO_TARGET_DIR=$wt/target
cd "$wt" || exit 2
if grep -q "incremental_map" OUT/demo.rs; then demo=incremental-map/tests/seeded_demo.rs; pkg=incremental-map; feat="--features im"; else demo=tests/seeded_demo.rs; pkg=incremental; feat=""; fi
git checkout -q -- . ; rm -f tests/seeded_demo.rs incremental-map/tests/seeded_demo.rs
git apply OUT/patch.diff || { echo "patch does not apply"; exit 2; }
cargo test --workspace --no-fail-fast --offline > OUT/confirm_suite.log 2>&1; suite=$?
cp OUT/demo.rs $demo
cargo test --offline -p $pkg $feat --test seeded_demo > OUT/confirm_demo_with.log 2>&1; with=$?
git checkout -q -- .
cargo test --offline -p $pkg $feat --test seeded_demo > OUT/confirm_demo_without.log 2>&1; without=$?
rm -f $demo
echo "suite_with_patch_rc=$suite demo_with_patch_rc=$with demo_without_patch_rc=$without"
grep -h "^test result" OUT/confirm_suite.log | awk '{p+=$4; f+=$6} END {print "suite passed=" p " failed=" f}'
