#!/usr/bin/env python3
"""usage: tools/rawtrace.py <replay.json> [from_op]  -- print model and crate output side by side from an op on"""
import json, sys, os
sys.path.insert(0, os.path.dirname(os.path.dirname(os.path.abspath(__file__))))
sys.path.insert(0, os.path.join(os.path.dirname(os.path.dirname(os.path.abspath(__file__))), "gen"))
from checks import engine_common as ec
r = json.load(open(sys.argv[1]))
start = int(sys.argv[2]) if len(sys.argv) > 2 else 0
prof = r.get("profile", "debug")
model, impl = ec.build([prof])
texts = [("replay", ec.history_text("replay", r["source"], debug=1 if prof == "debug" else 0, dump=int(os.environ.get("DUMP", "0"))))]
mo = ec.run_all(model, texts).get("replay", [])
io = ec.run_all(impl[prof], texts).get("replay", [])
def cut(lines):
    out, on = [], False
    for l in lines:
        if l.startswith("op "):
            on = int(l.split()[1]) >= start
        if on:
            out.append(l)
    return out
print("---- model"); print("\n".join(cut(mo)))
print("---- crate"); print("\n".join(cut(io)))
