#!/usr/bin/env python3
"""usage: tools/matrix_md.py <dir with <seed>.txt files from tools/seedmatrix.sh>  -> seeded/MATRIX.md"""
import os, sys, glob, json
d = sys.argv[1]
ROOT = os.path.dirname(os.path.dirname(os.path.abspath(__file__)))
ids = [c["property_id"] for c in json.load(open(os.path.join(ROOT, "MANIFEST.json")))["checks"]]
rows = []
for f in sorted(glob.glob(os.path.join(d, "*.txt"))):
    seed = os.path.basename(f)[:-4]
    res = {}
    for l in open(f):
        t = l.split()
        if len(t) >= 2 and t[1].startswith("rc="):
            if t[1] == "rc=0":
                res[t[0]] = "."
            elif "no-failing-input-found" in l:
                res[t[0]] = "c"
            else:
                res[t[0]] = "F"
    rows.append((seed, res))
out = ["# Which quick check reports which seeded change", "",
       "Produced by `tools/seedmatrix.sh` (every registered quick check against every change in seeded/, on scratch copies of",
       "/repo and /verif).  `F` = VIOLATION with a concrete failing input, `c` = VIOLATION because the model and the crate",
       "disagree (or a proof obligation broke) without the oracle finding a failing input (`no-failing-input-found`),",
       "`.` = the check passed, blank = check not registered when the matrix ran.", "",
       "| seed | " + " | ".join(i[1:] for i in ids) + " |", "|---|" + "---|" * len(ids)]
for seed, res in rows:
    out.append(f"| {seed} | " + " | ".join(res.get(i, " ") for i in ids) + " |")
own = sum(1 for seed, res in rows if res.get(seed.split("-")[0]) in ("F", "c"))
out += ["", f"{own} of {len(rows)} changes are reported by the check of the property they were written against; "
        f"{sum(1 for s, r in rows if any(v in ('F', 'c') for v in r.values()))} of {len(rows)} by at least one check."]
open(os.path.join(ROOT, "seeded", "MATRIX.md"), "w").write("\n".join(out) + "\n")
print("\n".join(out[-12:]))
