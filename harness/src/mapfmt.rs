//! Text format shared with ocaml/mapsrun.ml.
use std::collections::BTreeMap;

pub type M = BTreeMap<i64, i64>;

pub fn parse_map(s: &str) -> M {
    let s = s.trim();
    assert!(s.starts_with('{') && s.ends_with('}'), "bad map: {s}");
    let body = &s[1..s.len() - 1];
    let mut m = M::new();
    for kv in body.split_whitespace() {
        let (k, v) = kv.split_once(':').expect("bad entry");
        m.insert(k.parse().unwrap(), v.parse().unwrap());
    }
    m
}

pub fn show_map<'a>(it: impl Iterator<Item = (&'a i64, &'a i64)>) -> String {
    let parts: Vec<String> = it.map(|(k, v)| format!("{k}:{v}")).collect();
    format!("{{{}}}", parts.join(" "))
}

/// top-level tokens; "{...}" groups (possibly joined by '/') are single tokens
pub fn tokens(line: &str) -> Vec<String> {
    let mut out = vec![];
    let mut cur = String::new();
    let mut depth = 0;
    for c in line.chars() {
        match c {
            '{' => {
                depth += 1;
                cur.push(c)
            }
            '}' => {
                depth -= 1;
                cur.push(c)
            }
            ' ' | '\t' if depth == 0 => {
                if !cur.is_empty() {
                    out.push(std::mem::take(&mut cur));
                }
            }
            _ => cur.push(c),
        }
    }
    if !cur.is_empty() {
        out.push(cur);
    }
    out
}
