//! Runs the real incremental-map operators on the commands also given to ocaml/mapsrun.
//! Input: one command per line, first token = map type (bt | rc | om):
//!   bt symdiff {a} {b}
//!   om fm <id> +{m1} -{m2} +{m3}        (+ = output observed in that round, - = not)
//!   rc uf <id> <upd> <revert> <init> +{m1} ...
//!   bt mg <id> +{l1}/{r1} ...
//!   om pt <id> +{m1} ...
//! Output: one line per command. Sequences print one entry per round, " | "-separated:
//!   observed round:   "<out> c=<downstream ran?> calls=<user fn calls>"
//!   unobserved round: "unobs calls=<user fn calls>"
use std::cell::RefCell;
use std::collections::BTreeMap;
use std::io::{BufRead, Write};
use std::panic::{catch_unwind, AssertUnwindSafe};
use std::rc::Rc;

use im_rc::OrdMap;
use incremental::{Incr, IncrState, Value};
use incremental_map::prelude::*;
use verif_harness::fns::*;
use verif_harness::mapfmt::*;

trait MapType: Value + SymmetricFoldMap<i64, i64> {
    fn from_bt(m: &M) -> Self;
    fn to_bt(&self) -> M;
}
impl MapType for BTreeMap<i64, i64> {
    fn from_bt(m: &M) -> Self {
        m.clone()
    }
    fn to_bt(&self) -> M {
        self.clone()
    }
}
impl MapType for Rc<BTreeMap<i64, i64>> {
    fn from_bt(m: &M) -> Self {
        Rc::new(m.clone())
    }
    fn to_bt(&self) -> M {
        (**self).clone()
    }
}
impl MapType for OrdMap<i64, i64> {
    fn from_bt(m: &M) -> Self {
        m.iter().map(|(k, v)| (*k, *v)).collect()
    }
    fn to_bt(&self) -> M {
        self.iter().map(|(k, v)| (*k, *v)).collect()
    }
}

fn symdiff<T: MapType>(a: &M, b: &M) -> String {
    let a = T::from_bt(a);
    let b = T::from_bt(b);
    let out: Vec<String> = a.symmetric_fold(&b, vec![], |mut acc, (k, d)| {
        acc.push(match d {
            DiffElement::Left(v) => format!("L {k} {v}"),
            DiffElement::Right(v) => format!("R {k} {v}"),
            DiffElement::Unequal(v, w) => format!("U {k} {v} {w}"),
        });
        acc
    });
    if out.is_empty() {
        "-".into()
    } else {
        out.join(";")
    }
}

type Calls = Rc<RefCell<Vec<String>>>;

thread_local! {
    /// map type token ended in '!': the input variables never cut off, so the operator recomputes in every
    /// observed round, also when the new input equals the previous one (empty diff)
    static NOCUT: std::cell::Cell<bool> = std::cell::Cell::new(false);
}
fn input_var<T: Value>(state: &IncrState, v: T) -> incremental::Var<T> {
    let var = state.var(v);
    if NOCUT.with(|c| c.get()) {
        var.set_cutoff(incremental::Cutoff::Never);
    }
    var
}

/// Drive an operator output through the rounds. `set_round(i)` writes the inputs of round i.
fn drive<O: Value>(
    state: &IncrState,
    out: Incr<O>,
    show: impl Fn(&O) -> String,
    rounds: &[bool],
    mut set_round: impl FnMut(usize),
    calls: &Calls,
) -> String {
    let ran = Rc::new(RefCell::new(false));
    let ran_ = ran.clone();
    let down = out.map(move |x| {
        *ran_.borrow_mut() = true;
        x.clone()
    });
    let mut obs = None;
    let mut res = vec![];
    for (i, observed) in rounds.iter().enumerate() {
        set_round(i);
        if *observed {
            if obs.is_none() {
                obs = Some(down.observe());
            }
        } else {
            obs = None;
        }
        calls.borrow_mut().clear();
        *ran.borrow_mut() = false;
        state.stabilise();
        let c = calls.borrow().join(",");
        match &obs {
            Some(o) => {
                let v = o.try_get_value().expect("observer value");
                res.push(format!(
                    "{} c={} calls={}",
                    show(&v),
                    if *ran.borrow() { 1 } else { 0 },
                    c
                ));
            }
            None => res.push(format!("unobs calls={c}")),
        }
    }
    res.join(" | ")
}

fn split_obs(tok: &str) -> (bool, &str) {
    match tok.as_bytes()[0] {
        b'+' => (true, &tok[1..]),
        b'-' => (false, &tok[1..]),
        _ => panic!("round token must start with + or -: {tok}"),
    }
}

fn run_fm<T>(id: i64, toks: &[String]) -> String
where
    T: MapType + SymmetricMapMap<i64, i64>,
    T::OutputMap<i64>: Value + MapType,
{
    let rounds: Vec<(bool, M)> = toks
        .iter()
        .map(|t| {
            let (o, m) = split_obs(t);
            (o, parse_map(m))
        })
        .collect();
    let state = IncrState::new();
    let var = input_var(&state, T::from_bt(&M::new()));
    let calls: Calls = Rc::new(RefCell::new(vec![]));
    let calls_ = calls.clone();
    let log = move |k: &i64| calls_.borrow_mut().push(k.to_string());
    // incr_map / incr_filter_map / incr_mapi / incr_filter_mapi, by function id
    let out: Incr<T::OutputMap<i64>> = match id {
        0 => {
            // incr_map has no key: log the value's key by a side table is impossible, so log via mapi for calls
            // and use incr_map only for the output when id = 0 is requested with "keyless" flavour.
            var.incr_mapi(move |k, v| {
                log(k);
                fm_fn(0, *k, *v).unwrap()
            })
        }
        1 => var.incr_filter_mapi(move |k, v| {
            log(k);
            fm_fn(1, *k, *v)
        }),
        2 => var.incr_mapi(move |k, v| {
            log(k);
            fm_fn(2, *k, *v).unwrap()
        }),
        _ => var.incr_filter_mapi(move |k, v| {
            log(k);
            fm_fn(id, *k, *v)
        }),
    };
    let obs_flags: Vec<bool> = rounds.iter().map(|r| r.0).collect();
    drive(
        &state,
        out,
        |o| {
            let m = o.to_bt();
            let s = show_map(m.iter());
            s
        },
        &obs_flags,
        |i| var.set(T::from_bt(&rounds[i].1)),
        &calls,
    )
}

/// keyless flavours (incr_map, incr_filter_map): calls are logged by value
fn run_fmv<T>(id: i64, toks: &[String]) -> String
where
    T: MapType + SymmetricMapMap<i64, i64>,
    T::OutputMap<i64>: Value + MapType,
{
    let rounds: Vec<(bool, M)> = toks
        .iter()
        .map(|t| {
            let (o, m) = split_obs(t);
            (o, parse_map(m))
        })
        .collect();
    let state = IncrState::new();
    let var = input_var(&state, T::from_bt(&M::new()));
    let calls: Calls = Rc::new(RefCell::new(vec![]));
    let calls_ = calls.clone();
    let out: Incr<T::OutputMap<i64>> = if id == 0 {
        var.incr_map(move |v| {
            calls_.borrow_mut().push(format!("v{v}"));
            fm_fn(0, 0, *v).unwrap()
        })
    } else {
        var.incr_filter_map(move |v| {
            calls_.borrow_mut().push(format!("v{v}"));
            fm_fn(1, 0, *v)
        })
    };
    let obs_flags: Vec<bool> = rounds.iter().map(|r| r.0).collect();
    drive(
        &state,
        out,
        |o| show_map(o.to_bt().iter()),
        &obs_flags,
        |i| var.set(T::from_bt(&rounds[i].1)),
        &calls,
    )
}

fn run_uf<T: MapType>(id: i64, upd: bool, revert: bool, init: i64, toks: &[String]) -> String {
    let rounds: Vec<(bool, M)> = toks
        .iter()
        .map(|t| {
            let (o, m) = split_obs(t);
            (o, parse_map(m))
        })
        .collect();
    let state = IncrState::new();
    let var = input_var(&state, T::from_bt(&M::new()));
    let calls: Calls = Rc::new(RefCell::new(vec![]));
    let (c1, c2, c3) = (calls.clone(), calls.clone(), calls.clone());
    let add = move |acc: i64, k: &i64, v: &i64| {
        c1.borrow_mut().push(format!("A{k}"));
        uf_add(id, acc, *k, *v)
    };
    let remove = move |acc: i64, k: &i64, v: &i64| {
        c2.borrow_mut().push(format!("R{k}"));
        uf_remove(id, acc, *k, *v)
    };
    let out: Incr<i64> = if upd {
        var.incr_unordered_fold_update(
            init,
            add,
            remove,
            move |acc: i64, k: &i64, old: &i64, new: &i64| {
                c3.borrow_mut().push(format!("U{k}"));
                uf_update(id, acc, *k, *old, *new)
            },
            revert,
        )
    } else {
        var.incr_unordered_fold(init, add, remove, revert)
    };
    let obs_flags: Vec<bool> = rounds.iter().map(|r| r.0).collect();
    drive(
        &state,
        out,
        |o| o.to_string(),
        &obs_flags,
        |i| var.set(T::from_bt(&rounds[i].1)),
        &calls,
    )
}

fn parse_pairs(toks: &[String]) -> Vec<(bool, M, M)> {
    toks.iter()
        .map(|t| {
            let (o, rest) = split_obs(t);
            let (a, b) = rest.split_once('/').expect("pair");
            (o, parse_map(a), parse_map(b))
        })
        .collect()
}

fn run_mg_bt(id: i64, toks: &[String]) -> String {
    let rounds = parse_pairs(toks);
    let state = IncrState::new();
    let l = input_var(&state, M::new());
    let r = input_var(&state, M::new());
    let calls: Calls = Rc::new(RefCell::new(vec![]));
    let calls_ = calls.clone();
    let out = l.incr_merge(&r.watch(), move |k, m| {
        calls_.borrow_mut().push(k.to_string());
        mg_fn(id, *k, m)
    });
    let obs_flags: Vec<bool> = rounds.iter().map(|r| r.0).collect();
    drive(
        &state,
        out,
        |o| show_map(o.iter()),
        &obs_flags,
        |i| {
            l.set(rounds[i].1.clone());
            r.set(rounds[i].2.clone());
        },
        &calls,
    )
}

fn run_mg_om(id: i64, toks: &[String]) -> String {
    let rounds = parse_pairs(toks);
    let state = IncrState::new();
    let l = input_var(&state, OrdMap::<i64, i64>::new());
    let r = input_var(&state, OrdMap::<i64, i64>::new());
    let calls: Calls = Rc::new(RefCell::new(vec![]));
    let calls_ = calls.clone();
    let out = l.incr_merge(&r.watch(), move |k, m| {
        calls_.borrow_mut().push(k.to_string());
        mg_fn(id, *k, m)
    });
    let obs_flags: Vec<bool> = rounds.iter().map(|r| r.0).collect();
    drive(
        &state,
        out,
        |o| show_map(o.to_bt().iter()),
        &obs_flags,
        |i| {
            l.set(OrdMap::from_bt(&rounds[i].1));
            r.set(OrdMap::from_bt(&rounds[i].2));
        },
        &calls,
    )
}

fn run_pt(id: i64, toks: &[String]) -> String {
    let rounds: Vec<(bool, M)> = toks
        .iter()
        .map(|t| {
            let (o, m) = split_obs(t);
            (o, parse_map(m))
        })
        .collect();
    let state = IncrState::new();
    let var = input_var(&state, OrdMap::<i64, i64>::new());
    let calls: Calls = Rc::new(RefCell::new(vec![]));
    let calls_ = calls.clone();
    // the partition function is the only user function; which of add/remove/update invoked it is
    // not observable, so calls are logged by key only
    let out = var.incr_partition_mapi(move |k, v| {
        calls_.borrow_mut().push(k.to_string());
        pt_fn(id, *k, *v)
    });
    let obs_flags: Vec<bool> = rounds.iter().map(|r| r.0).collect();
    drive(
        &state,
        out,
        |(a, b)| format!("{}/{}", show_map(a.to_bt().iter()), show_map(b.to_bt().iter())),
        &obs_flags,
        |i| var.set(OrdMap::from_bt(&rounds[i].1)),
        &calls,
    )
}

fn handle(line: &str) -> String {
    let t = tokens(line);
    if t.is_empty() {
        return String::new();
    }
    let nocut = t[0].ends_with('!');
    NOCUT.with(|c| c.set(nocut));
    let ty = t[0].trim_end_matches('!');
    let int = |s: &String| s.parse::<i64>().expect("int");
    match (t[1].as_str(), ty) {
        ("symdiff", "bt") => symdiff::<BTreeMap<i64, i64>>(&parse_map(&t[2]), &parse_map(&t[3])),
        ("symdiff", "rc") => symdiff::<Rc<BTreeMap<i64, i64>>>(&parse_map(&t[2]), &parse_map(&t[3])),
        ("symdiff", "om") => symdiff::<OrdMap<i64, i64>>(&parse_map(&t[2]), &parse_map(&t[3])),
        ("fm", "bt") => run_fm::<BTreeMap<i64, i64>>(int(&t[2]), &t[3..]),
        ("fm", "rc") => run_fm::<Rc<BTreeMap<i64, i64>>>(int(&t[2]), &t[3..]),
        ("fm", "om") => run_fm::<OrdMap<i64, i64>>(int(&t[2]), &t[3..]),
        ("fmv", "bt") => run_fmv::<BTreeMap<i64, i64>>(int(&t[2]), &t[3..]),
        ("fmv", "rc") => run_fmv::<Rc<BTreeMap<i64, i64>>>(int(&t[2]), &t[3..]),
        ("fmv", "om") => run_fmv::<OrdMap<i64, i64>>(int(&t[2]), &t[3..]),
        ("uf", "bt") => run_uf::<BTreeMap<i64, i64>>(int(&t[2]), t[3] == "1", t[4] == "1", int(&t[5]), &t[6..]),
        ("uf", "rc") => run_uf::<Rc<BTreeMap<i64, i64>>>(int(&t[2]), t[3] == "1", t[4] == "1", int(&t[5]), &t[6..]),
        ("uf", "om") => run_uf::<OrdMap<i64, i64>>(int(&t[2]), t[3] == "1", t[4] == "1", int(&t[5]), &t[6..]),
        ("mg", "bt") => run_mg_bt(int(&t[2]), &t[3..]),
        ("mg", "om") => run_mg_om(int(&t[2]), &t[3..]),
        ("pt", "om") => run_pt(int(&t[2]), &t[3..]),
        _ => panic!("bad command: {line}"),
    }
}

fn main() {
    std::panic::set_hook(Box::new(|_| {}));
    let stdin = std::io::stdin();
    let stdout = std::io::stdout();
    let mut out = stdout.lock();
    for line in stdin.lock().lines() {
        let line = line.unwrap();
        let r = catch_unwind(AssertUnwindSafe(|| handle(&line)));
        match r {
            Ok(s) => writeln!(out, "{s}").unwrap(),
            Err(e) => {
                let msg = e
                    .downcast_ref::<String>()
                    .cloned()
                    .or_else(|| e.downcast_ref::<&str>().map(|s| s.to_string()))
                    .unwrap_or_default();
                writeln!(out, "PANIC {}", msg.replace('\n', " ")).unwrap()
            }
        }
    }
}
