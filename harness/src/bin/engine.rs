//! Interprets operation histories (the DSL of coq/theories/Model/Api.v) against the real
//! `incremental` crate and prints the trace in the text format of ocaml/enginerun.ml.
//! Built with `--cfg cormacrelf_incremental_rs_verif` (state dump, event sink, node ranks).
use std::cell::{Cell, RefCell};
use std::io::{BufRead, Write};
use std::panic::{catch_unwind, AssertUnwindSafe};
use std::rc::Rc;

use incremental::{Cutoff, Incr, IncrState, Observer, ObserverError, SubscriptionToken, Update, Var, WeakState};

// ---------------------------------------------------------------- values
#[derive(Clone, PartialEq, Default)]
enum Val {
    Int(i64),
    Pair(Box<Val>, Box<Val>),
    #[default]
    Unit,
    /// key-sorted map with integer values (inputs and outputs of the per-key operators)
    Map(std::collections::BTreeMap<i64, i64>),
}
impl std::fmt::Debug for Val {
    fn fmt(&self, f: &mut std::fmt::Formatter<'_>) -> std::fmt::Result {
        match self {
            Val::Int(z) => write!(f, "{z}"),
            Val::Pair(a, b) => write!(f, "({a:?},{b:?})"),
            Val::Unit => write!(f, "()"),
            Val::Map(m) => {
                let v: Vec<String> = m.iter().map(|(k, v)| format!("{k}:{v}")).collect();
                write!(f, "{{{}}}", v.join(","))
            }
        }
    }
}
impl Val {
    fn as_int(&self) -> i64 {
        match self {
            Val::Int(z) => *z,
            Val::Pair(a, _) => match **a {
                Val::Int(z) => z,
                _ => 0,
            },
            Val::Unit => 0,
            Val::Map(_) => 0,
        }
    }
    fn as_zmap(&self) -> std::collections::BTreeMap<i64, i64> {
        match self {
            Val::Map(m) => m.clone(),
            _ => panic!("harness: not a map value"),
        }
    }
}
type I = Incr<Val>;

fn show_vals(l: &[Val]) -> String {
    let v: Vec<String> = l.iter().map(|x| format!("{x:?}")).collect();
    format!("[{}]", v.join(" "))
}

// mirror of Model/Base.v: fn_sem, fold_sem, wo_sem, proj_sem, cut_sem
fn fn_sem(fid: i64, cap: i64, args: &[Val]) -> Val {
    let ints: Vec<i64> = args.iter().map(|a| a.as_int()).collect();
    let a = ints.first().copied().unwrap_or(0);
    let b = ints.get(1).copied().unwrap_or(0);
    let sum: i64 = ints.iter().sum();
    match fid {
        0 => args.first().cloned().unwrap_or(Val::Unit),
        1 => Val::Int(sum + cap),
        2 => Val::Int(a * 2 + cap),
        3 => Val::Int(a - b),
        4 => Val::Int(a.max(b)),
        5 => Val::Int(sum.rem_euclid(3)),
        6 => Val::Int(cap),
        10 => Val::Unit,
        7 => Val::Pair(
            Box::new(args.first().cloned().unwrap_or(Val::Unit)),
            Box::new(args.get(1).cloned().unwrap_or(Val::Unit)),
        ),
        8 => Val::Int(100 * cap + a),
        _ => Val::Int(a.div_euclid(2)),
    }
}
fn fold_sem(fid: i64, cap: i64, acc: &Val, x: &Val) -> Val {
    match fid {
        0 => Val::Int(acc.as_int() + x.as_int()),
        1 => Val::Int(acc.as_int().max(x.as_int())),
        _ => Val::Int(acc.as_int() * 3 + x.as_int() + cap),
    }
}
fn wo_sem(fid: i64, cap: i64, old: &Option<Val>, x: &Val) -> (Val, bool) {
    match fid {
        0 => {
            let new = Val::Int(x.as_int() * 2 + cap);
            let same = old.as_ref().map_or(false, |o| *o == new);
            (new, !same)
        }
        1 => (x.clone(), true),
        2 => {
            let new = Val::Int(x.as_int().rem_euclid(2));
            let same = old.as_ref().map_or(false, |o| *o == new);
            (new, !same)
        }
        _ => (Val::Int(x.as_int() + old.as_ref().map_or(0, |o| o.as_int())), true),
    }
}
fn proj_sem(p: i64, v: &Val) -> &Val {
    match v {
        Val::Pair(a, b) => {
            if p == 0 {
                a
            } else {
                b
            }
        }
        _ => v,
    }
}
fn cut_sem(cid: i64, old: &Val, new: &Val) -> bool {
    match cid {
        0 => old == new,
        1 => (old.as_int() - new.as_int()).abs() < 2,
        _ => old.as_int().rem_euclid(2) == new.as_int().rem_euclid(2),
    }
}

// ---------------------------------------------------------------- DSL
#[derive(Clone, Debug)]
enum Effect {
    DropVar(usize),
    Set(usize, i64),
    SetArg(usize),
    Update(usize, i64),
    Modify(usize, i64),
    Replace(usize, i64),
    ReplaceWith(usize, i64),
    Get(usize),
    Read(usize),
    AddDep(usize, usize, usize, bool),
    RemoveDep(usize, usize),
    SwapDep(usize, usize, Vec<usize>, bool),
    MakeStale(usize),
    InvalidateExpert(usize),
    Subscribe(usize, i64),
    Unsubscribe(usize, i64),
    SetMaxHeight(i64),
    Stabilise,
    Panic,
}
#[derive(Clone, Debug)]
enum CutoffD {
    Eq,
    Never,
    Always,
    Fn(i64),
    Boxed(i64),
}
#[derive(Clone)]
enum Operand {
    Handle(usize),      // top-level node handle (only before resolution)
    Outer(I),           // captured node
    Late(usize),        // looked up in the handle table when the closure runs
    Foreign,            // a node of another IncrState
    Local(usize, usize),
}
#[derive(Clone)]
enum TInstr {
    Const(i64),
    ConstLhs,
    Map(i64, Vec<Effect>, Vec<Operand>),
    MapRef(i64, Operand),
    MapOld(i64, Operand),
    Fold(i64, i64, Vec<Operand>),
    Cutoff(Operand, CutoffD),
    Export(Operand),
    MemoCall(usize, Option<i64>),
    MemoNew(BindFn),
    Bind(Operand, BindFn),
}
#[derive(Clone)]
struct BindFn {
    effs: Vec<Effect>,
    templates: Vec<(Vec<TInstr>, Operand)>,
}

fn tokenize(s: &str) -> Vec<String> {
    let mut out = vec![];
    let mut cur = String::new();
    for c in s.chars() {
        match c {
            ' ' | '\t' | '\r' => {
                if !cur.is_empty() {
                    out.push(std::mem::take(&mut cur))
                }
            }
            '{' | '}' | '|' | ';' | '[' | ']' => {
                if !cur.is_empty() {
                    out.push(std::mem::take(&mut cur))
                }
                out.push(c.to_string())
            }
            c => cur.push(c),
        }
    }
    if !cur.is_empty() {
        out.push(cur)
    }
    out
}

struct P {
    toks: Vec<String>,
    pos: usize,
}
impl P {
    fn peek(&self) -> Option<&str> {
        self.toks.get(self.pos).map(|s| s.as_str())
    }
    fn next(&mut self) -> String {
        let t = self.toks.get(self.pos).cloned().unwrap_or_else(|| panic!("parse: eof"));
        self.pos += 1;
        t
    }
    fn int(&mut self) -> i64 {
        self.next().parse().expect("parse: int")
    }
    fn nat(&mut self) -> usize {
        self.next().parse().expect("parse: nat")
    }
    fn expect(&mut self, s: &str) {
        let t = self.next();
        assert!(t == s, "parse: expected {s} got {t}");
    }
    fn zmap(&mut self) -> std::collections::BTreeMap<i64, i64> {
        self.expect("{");
        let mut m = std::collections::BTreeMap::new();
        loop {
            let t = self.next();
            if t == "}" {
                return m;
            }
            let (k, v) = t.split_once(':').expect("parse: map entry");
            m.insert(k.parse().unwrap(), v.parse().unwrap());
        }
    }
    fn effect(t: &str) -> Effect {
        let p: Vec<&str> = t.split(':').collect();
        let n = |i: usize| p[i].parse::<usize>().unwrap();
        let z = |i: usize| p[i].parse::<i64>().unwrap();
        match p[0] {
            "dropvar" => Effect::DropVar(n(1)),
            "set" => Effect::Set(n(1), z(2)),
            "setarg" => Effect::SetArg(n(1)),
            "update" => Effect::Update(n(1), z(2)),
            "modify" => Effect::Modify(n(1), z(2)),
            "replace" => Effect::Replace(n(1), z(2)),
            "replacewith" => Effect::ReplaceWith(n(1), z(2)),
            "get" => Effect::Get(n(1)),
            "read" => Effect::Read(n(1)),
            "adddep" => Effect::AddDep(n(1), n(2), n(3), p[4] == "1"),
            "rmdep" => Effect::RemoveDep(n(1), n(2)),
            "swapdep" => Effect::SwapDep(n(1), n(2), p[4].split(',').map(|x| x.parse().unwrap()).collect(), p[3] == "1"),
            "subscribe" => Effect::Subscribe(n(1), z(2)),
            "unsub" => Effect::Unsubscribe(n(1), z(2)),
            "makestale" => Effect::MakeStale(n(1)),
            "invalidate" => Effect::InvalidateExpert(n(1)),
            "setmaxheight" => Effect::SetMaxHeight(z(1)),
            "stabilise" => Effect::Stabilise,
            "panic" => Effect::Panic,
            _ => panic!("parse: effect {t}"),
        }
    }
    fn effs(&mut self) -> Vec<Effect> {
        self.expect("[");
        let mut v = vec![];
        loop {
            let t = self.next();
            if t == "]" {
                return v;
            }
            v.push(Self::effect(&t));
        }
    }
    fn cutoff(t: &str) -> CutoffD {
        let p: Vec<&str> = t.split(':').collect();
        match p[0] {
            "eq" => CutoffD::Eq,
            "never" => CutoffD::Never,
            "always" => CutoffD::Always,
            "fn" => CutoffD::Fn(p[1].parse().unwrap()),
            "boxed" => CutoffD::Boxed(p[1].parse().unwrap()),
            _ => panic!("parse: cutoff {t}"),
        }
    }
    fn is_operand(t: &str) -> bool {
        let b = t.as_bytes();
        b.len() >= 2 && (b[0] == b'o' || b[0] == b'l' || b[0] == b't') && b[1].is_ascii_digit()
    }
    fn operand_of(t: &str) -> Operand {
        if t == "foreign" {
            return Operand::Foreign;
        }
        if let Some(r) = t.strip_prefix('o') {
            Operand::Handle(r.parse().unwrap())
        } else if let Some(r) = t.strip_prefix('t') {
            Operand::Late(r.parse().unwrap())
        } else if let Some(r) = t.strip_prefix('l') {
            let (d, i) = r.split_once('.').expect("operand");
            Operand::Local(d.parse().unwrap(), i.parse().unwrap())
        } else {
            panic!("parse: operand {t}")
        }
    }
    fn operand(&mut self) -> Operand {
        let t = self.next();
        Self::operand_of(&t)
    }
    fn operands(&mut self) -> Vec<Operand> {
        let mut v = vec![];
        while let Some(t) = self.peek() {
            if Self::is_operand(t) {
                v.push(self.operand());
            } else {
                break;
            }
        }
        v
    }
    fn bindfn(&mut self) -> BindFn {
        self.expect("{");
        let effs = self.effs();
        let mut templates = vec![];
        loop {
            templates.push(self.template());
            match self.next().as_str() {
                "|" => continue,
                "}" => break,
                t => panic!("parse: template separator {t}"),
            }
        }
        BindFn { effs, templates }
    }
    fn template(&mut self) -> (Vec<TInstr>, Operand) {
        let mut body = vec![];
        loop {
            if self.peek() == Some("ret") {
                self.next();
                let o = self.operand();
                return (body, o);
            }
            body.push(self.instr());
            self.expect(";");
        }
    }
    fn instr(&mut self) -> TInstr {
        match self.next().as_str() {
            "const" => TInstr::Const(self.int()),
            "constlhs" => TInstr::ConstLhs,
            "map" => {
                let fid = self.int();
                let effs = self.effs();
                TInstr::Map(fid, effs, self.operands())
            }
            "mapref" => {
                let p = self.int();
                TInstr::MapRef(p, self.operand())
            }
            "mapold" => {
                let f = self.int();
                TInstr::MapOld(f, self.operand())
            }
            "fold" => {
                let f = self.int();
                let init = self.int();
                TInstr::Fold(f, init, self.operands())
            }
            "cutoff" => {
                let tg = self.operand();
                let c = self.next();
                TInstr::Cutoff(tg, Self::cutoff(&c))
            }
            "export" => TInstr::Export(self.operand()),
            "memocall" => {
                let m = self.nat();
                if self.peek() == Some("lhs") {
                    self.next();
                    TInstr::MemoCall(m, None)
                } else {
                    TInstr::MemoCall(m, Some(self.int()))
                }
            }
            "memonew" => TInstr::MemoNew(self.bindfn()),
            "bind" => {
                let lhs = self.operand();
                TInstr::Bind(lhs, self.bindfn())
            }
            t => panic!("parse: instr {t}"),
        }
    }
}

// ---------------------------------------------------------------- context shared with closures
type MemoFn = Rc<dyn Fn(i64) -> I>;
/// what the program keeps about one dependency of an expert node
struct DepRec {
    id: usize,
    dep: incremental::expert::Dependency<Val>,
    seen: Rc<RefCell<Option<Val>>>,
}
struct ExRec {
    weak: incremental::expert::WeakNode<Val>,
    deps: Rc<RefCell<Vec<DepRec>>>,
}
struct Ctx {
    state: WeakState,
    vars: RefCell<Vec<Option<Var<Val>>>>,
    obs: RefCell<Vec<Vec<Observer<Val>>>>,
    exports: RefCell<Vec<I>>,
    hnodes: RefCell<Vec<Option<I>>>,
    memos: RefCell<Vec<MemoFn>>,
    experts: RefCell<std::collections::HashMap<usize, Rc<ExRec>>>,
    dep_slots: RefCell<Vec<Option<usize>>>,
    next_edge: Cell<usize>,
    next_perkey: Cell<usize>,
    tokens: RefCell<std::collections::HashMap<(usize, i64), SubscriptionToken>>,
    node_handlers: RefCell<std::collections::HashMap<usize, usize>>,
    foreign_node: I,
    _foreign_state: IncrState,
    inv_count: Cell<usize>,
    crash_at: Cell<Option<usize>>,
}
/// counts the closures handed to the library that have not been dropped yet (C12: captured values
/// are released together with their node)
struct Guard;
impl Guard {
    fn new() -> Guard {
        LIVE_CLOSURES.with(|c| c.set(c.get() + 1));
        Guard
    }
}
impl Drop for Guard {
    fn drop(&mut self) {
        LIVE_CLOSURES.with(|c| c.set(c.get() - 1));
    }
}
impl Clone for Guard {
    fn clone(&self) -> Guard {
        Guard::new()
    }
}
thread_local! {
    static LIVE_CLOSURES: Cell<i64> = Cell::new(0);
    static CTX: RefCell<Option<Rc<Ctx>>> = RefCell::new(None);
    static LAST_PANIC: RefCell<Option<(String, String)>> = RefCell::new(None);
}
fn ctx() -> Rc<Ctx> {
    CTX.with(|c| c.borrow().clone().expect("no ctx"))
}
fn ev(s: String) {
    incremental::verif::event(s);
}
fn user_call() {
    // closures can still be called while everything is torn down at the end of a history (an expert node's
    // observability callback when its last observer goes away): there is no context any more
    let Some(c) = CTX.with(|c| c.borrow().clone()) else { return };
    c.inv_count.set(c.inv_count.get() + 1);
    if c.crash_at.get() == Some(c.inv_count.get()) {
        panic!("injected");
    }
}
fn err_code(e: &ObserverError) -> i64 {
    match e {
        ObserverError::CurrentlyStabilising => 1,
        ObserverError::NeverStabilised => 2,
        ObserverError::Disallowed => 3,
        ObserverError::ObservingInvalid => 4,
        ObserverError::Mismatch => 5,
        _ => 99,
    }
}
fn show_read(r: &Result<Val, ObserverError>) -> String {
    match r {
        Ok(v) => format!("v:{v:?}"),
        Err(e) => format!("e:{}", err_code(e)),
    }
}
fn run_effects(arg: &Val, effs: &[Effect]) {
    for e in effs {
        let c = ctx();
        // take clones of handles so no RefCell borrow of the context is held while user code runs
        match e {
            Effect::DropVar(x) => {
                // the closure owns the program's handle from now on and lets it go
                let v = c.vars.borrow_mut()[*x].take();
                drop(v);
            }
            Effect::Set(x, v) => {
                let Some(var) = c.vars.borrow()[*x].clone() else { continue };
                var.set(Val::Int(*v))
            }
            Effect::SetArg(x) => {
                let Some(var) = c.vars.borrow()[*x].clone() else { continue };
                var.set(arg.clone())
            }
            Effect::Update(x, d) => {
                let Some(var) = c.vars.borrow()[*x].clone() else { continue };
                var.update(|v| Val::Int(v.as_int() + d))
            }
            Effect::Modify(x, d) => {
                let Some(var) = c.vars.borrow()[*x].clone() else { continue };
                var.modify(|v| *v = Val::Int(v.as_int() + d))
            }
            Effect::Replace(x, v) => {
                let Some(var) = c.vars.borrow()[*x].clone() else { continue };
                let old = var.replace(Val::Int(*v));
                ev(format!("effreplace {x} {old:?}"));
            }
            Effect::ReplaceWith(x, d) => {
                let Some(var) = c.vars.borrow()[*x].clone() else { continue };
                let old = var.replace_with(|v| Val::Int(v.as_int() + d));
                ev(format!("effreplace {x} {old:?}"));
            }
            Effect::Get(x) => {
                let Some(var) = c.vars.borrow()[*x].clone() else { continue };
                ev(format!("effget {x} {:?}", var.get()));
            }
            Effect::Read(o) => {
                let ob = c.obs.borrow()[*o].first().cloned();
                match ob {
                    Some(ob) => ev(format!("effread {o} {}", show_read(&ob.try_get_value()))),
                    None => ev(format!("effread {o} nohandle")),
                }
            }
            Effect::AddDep(e, h, sl, cb) => {
                if let Some(d) = expert_add_dep(*e, *h, *cb) {
                    slot_set(*sl, Some(d));
                }
            }
            Effect::RemoveDep(e, sl) => expert_remove_slot(*e, *sl),
            Effect::SwapDep(e, sl, hs, cb) => {
                let h = hs[arg.as_int().rem_euclid(hs.len() as i64) as usize];
                // add the new dependency, then remove the previous one (the join/bind idiom)
                if c.hnodes.borrow().get(*e).cloned().flatten().is_some() {
                    if let Some(new) = expert_add_dep(*e, h, *cb) {
                        expert_remove_slot(*e, *sl);
                        slot_set(*sl, Some(new));
                    }
                }
            }
            Effect::Subscribe(o, hid) => {
                let ob = c.obs.borrow().get(*o).and_then(|v| v.first().cloned());
                if let Some(ob) = ob {
                    let _ = do_subscribe(&ob, *o, *hid, vec![]);
                }
            }
            Effect::Unsubscribe(o, tok) => {
                let ob = c.obs.borrow().get(*o).and_then(|v| v.first().cloned());
                let t = c.tokens.borrow().get(&(*o, *tok)).copied();
                if let (Some(ob), Some(t)) = (ob, t) {
                    let _ = ob.unsubscribe(t);
                }
            }
            Effect::MakeStale(e) => {
                if let Some(rec) = expert_rec(*e) {
                    rec.weak.make_stale()
                }
            }
            Effect::InvalidateExpert(e) => {
                if let Some(rec) = expert_rec(*e) {
                    rec.weak.invalidate()
                }
            }
            Effect::SetMaxHeight(n) => {
                if let Some(s) = c.state.upgrade() {
                    s.set_max_height_allowed(*n as usize)
                }
            }
            Effect::Stabilise => {
                if let Some(s) = c.state.upgrade() {
                    s.stabilise()
                }
            }
            Effect::Panic => panic!("injected"),
        }
    }
}

// ---------------------------------------------------------------- subscriptions
/// observer.try_subscribe(handler): the handler logs what it is given, then performs its effects
fn do_subscribe(ob: &Observer<Val>, o: usize, hid: i64, effs: Vec<Effect>) -> Result<SubscriptionToken, ObserverError> {
    let tok = Rc::new(Cell::new(-1i64));
    let tok2 = tok.clone();
    let g = Guard::new();
    let r = ob.try_subscribe(move |u: Update<&Val>| {
        let _g = &g;
        user_call();
        let (kind, v) = match u {
            Update::Initialised(v) => ("Initialised", Some(v.clone())),
            Update::Changed(v) => ("Changed", Some(v.clone())),
            Update::Invalidated => ("Invalidated", None),
        };
        ev(format!(
            "upd obs={} tok={} hid={} {} {}",
            o,
            tok2.get(),
            hid,
            kind,
            v.as_ref().map_or("-".to_string(), |v| format!("{v:?}"))
        ));
        run_effects(v.as_ref().unwrap_or(&Val::Unit), &effs);
    });
    if let Ok(t) = &r {
        tok.set(token_number(t));
        ctx().tokens.borrow_mut().insert((o, token_number(t)), *t);
    }
    r
}

// ---------------------------------------------------------------- expert nodes
fn slot_set(sl: usize, v: Option<usize>) {
    let c = ctx();
    let mut s = c.dep_slots.borrow_mut();
    while s.len() <= sl {
        s.push(None);
    }
    s[sl] = v;
}
/// the expert node behind node handle `e`, if the program still holds that handle
fn expert_rec(e: usize) -> Option<Rc<ExRec>> {
    let c = ctx();
    let n = c.hnodes.borrow().get(e).cloned().flatten()?;
    let r = c.experts.borrow().get(&n.verif_rank()).cloned();
    r
}
fn expert_new(state: &WeakState, mode: i64) -> I {
    let rank = Rc::new(Cell::new(usize::MAX));
    let deps: Rc<RefCell<Vec<DepRec>>> = Rc::new(RefCell::new(vec![]));
    let (r1, r2, d1) = (rank.clone(), rank.clone(), deps.clone());
    let node = incremental::expert::Node::<Val>::new_(
        state,
        move || {
            user_call();
            let mut total = 0i64;
            for d in d1.borrow().iter() {
                total += if mode == 0 {
                    d.seen.borrow().as_ref().map_or(0, |v| v.as_int())
                } else {
                    d.dep.value_cloned().as_int()
                };
            }
            ev(format!("exrun {} {}", r1.get(), total));
            Val::Int(total)
        },
        move |b| {
            user_call();
            ev(format!("obschange {} {}", r2.get(), if b { 1 } else { 0 }));
        },
    );
    let w = node.watch();
    rank.set(w.verif_rank());
    ctx().experts.borrow_mut().insert(w.verif_rank(), Rc::new(ExRec { weak: node.weak(), deps }));
    w
}
/// expert.add_dependency(_with)(child): returns the edge number, None when a handle is gone
fn expert_add_dep(e: usize, h: usize, cb: bool) -> Option<usize> {
    let c = ctx();
    let rec = expert_rec(e)?;
    let child = c.hnodes.borrow().get(h).cloned().flatten()?;
    let id = c.next_edge.get();
    c.next_edge.set(id + 1);
    let seen: Rc<RefCell<Option<Val>>> = Rc::new(RefCell::new(None));
    let dep = if cb {
        let seen_ = seen.clone();
        let erank = rec.weak.watch().upgrade().map_or(usize::MAX, |n| n.verif_rank());
        rec.weak.add_dependency_with(&child, move |v: &Val| {
            user_call();
            ev(format!("edgecb {erank} {id} {v:?}"));
            *seen_.borrow_mut() = Some(v.clone());
        })
    } else {
        rec.weak.add_dependency(&child)
    };
    rec.deps.borrow_mut().push(DepRec { id, dep, seen });
    Some(id)
}
/// expert.remove_dependency(slot.take())
fn expert_remove_slot(e: usize, sl: usize) {
    let c = ctx();
    let Some(rec) = expert_rec(e) else { return };
    let Some(id) = c.dep_slots.borrow().get(sl).cloned().flatten() else { return };
    slot_set(sl, None);
    let pos = rec.deps.borrow().iter().position(|d| d.id == id);
    let Some(pos) = pos else { return };
    let d = rec.deps.borrow_mut().remove(pos);
    rec.weak.remove_dependency(d.dep);
}

// ---------------------------------------------------------------- per-key operators of incremental-map
fn to_cutoff(c: &CutoffD) -> Cutoff<Val> {
    match c {
        CutoffD::Eq => Cutoff::PartialEq,
        CutoffD::Never => Cutoff::Never,
        CutoffD::Always => Cutoff::Always,
        CutoffD::Fn(cid) | CutoffD::Boxed(cid) => Cutoff::Fn(match cid {
            0 => cut0,
            1 => cut1,
            _ => cut2,
        }),
    }
}
/// inp.map(to map type).incr_mapi_(user fn).map(back to Val)
fn perkey_new(state: &WeakState, inp: &I, cutoff: Option<CutoffD>, f: BindFn, ordmap: bool, filter: bool) -> I {
    use incremental_map::prelude::*;
    use std::collections::BTreeMap;
    let c = ctx();
    let pk = c.next_perkey.get();
    c.next_perkey.set(pk + 1);
    let st = state.clone();
    let (body, r) = f.templates[0].clone();
    let userfn = move |key: &i64, input: Incr<Val>| -> Incr<Val> {
        user_call();
        ev(format!("perkeyfn {pk} {key}"));
        let f2 = subst_bindfn(0, &[input], &BindFn { effs: vec![], templates: vec![(body.clone(), r.clone())] });
        let (b2, r2) = &f2.templates[0];
        instantiate(&st, &Val::Int(*key), b2, r2)
    };
    // the filter flavour: the per-key result is Some(x) unless 3 divides x (fn_sem 11 of the model)
    fn keep(v: &Val) -> Option<Val> {
        if v.as_int().rem_euclid(3) == 0 {
            None
        } else {
            Some(v.clone())
        }
    }
    if !ordmap {
        let conv_in: Incr<BTreeMap<i64, Val>> =
            inp.map(|v: &Val| v.as_zmap().iter().map(|(k, v)| (*k, Val::Int(*v))).collect());
        let out: Incr<BTreeMap<i64, Val>> = if filter {
            let mut uf = userfn;
            let ff = move |key: &i64, input: Incr<Val>| -> Incr<Option<Val>> { uf(key, input).map(keep) };
            match &cutoff {
                None => conv_in.incr_filter_mapi_(ff),
                Some(cd) => conv_in.incr_filter_mapi_cutoff(ff, to_cutoff(cd)),
            }
        } else {
            match &cutoff {
                None => conv_in.incr_mapi_(userfn),
                Some(cd) => conv_in.incr_mapi_cutoff(userfn, to_cutoff(cd)),
            }
        };
        out.map(|m| Val::Map(m.iter().map(|(k, v)| (*k, v.as_int())).collect()))
    } else {
        let conv_in: Incr<im_rc::OrdMap<i64, Val>> =
            inp.map(|v: &Val| v.as_zmap().iter().map(|(k, v)| (*k, Val::Int(*v))).collect());
        let out: Incr<im_rc::OrdMap<i64, Val>> = if filter {
            let mut uf = userfn;
            let ff = move |key: &i64, input: Incr<Val>| -> Incr<Option<Val>> { uf(key, input).map(keep) };
            match &cutoff {
                None => conv_in.incr_filter_mapi_(ff),
                Some(cd) => conv_in.incr_filter_mapi_cutoff(ff, to_cutoff(cd)),
            }
        } else {
            match &cutoff {
                None => conv_in.incr_mapi_(userfn),
                Some(cd) => conv_in.incr_mapi_cutoff(userfn, to_cutoff(cd)),
            }
        };
        out.map(|m| Val::Map(m.iter().map(|(k, v)| (*k, v.as_int())).collect()))
    }
}

fn cut0(a: &Val, b: &Val) -> bool {
    cut_logged(0, a, b)
}
fn cut1(a: &Val, b: &Val) -> bool {
    cut_logged(1, a, b)
}
fn cut2(a: &Val, b: &Val) -> bool {
    cut_logged(2, a, b)
}
fn cut_logged(cid: i64, a: &Val, b: &Val) -> bool {
    user_call();
    let r = cut_sem(cid, a, b);
    ev(format!("cut {a:?} {b:?} -> {}", r as u8));
    r
}
fn apply_cutoff(n: &I, c: &CutoffD) {
    match c {
        CutoffD::Eq => n.set_cutoff(Cutoff::PartialEq),
        CutoffD::Never => n.set_cutoff(Cutoff::Never),
        CutoffD::Always => n.set_cutoff(Cutoff::Always),
        CutoffD::Fn(cid) => n.set_cutoff_fn(match cid {
            0 => cut0,
            1 => cut1,
            _ => cut2,
        }),
        CutoffD::Boxed(cid) => {
            let cid = *cid;
            let g = Guard::new();
            n.set_cutoff_fn_boxed(move |a: &Val, b: &Val| {
                let _g = &g;
                cut_logged(cid, a, b)
            })
        }
    }
}

// ---------------------------------------------------------------- node construction
fn mk_map(state: &WeakState, fid: i64, cap: i64, effs: Vec<Effect>, args: &[I]) -> I {
    let _ = state;
    let rank = Rc::new(Cell::new(usize::MAX));
    let r2 = rank.clone();
    let g = Guard::new();
    let call = move |vals: &[&Val]| -> Val {
        let _g = &g;
        let owned: Vec<Val> = vals.iter().map(|v| (*v).clone()).collect();
        user_call();
        run_effects(owned.first().unwrap_or(&Val::Unit), &effs);
        let r = fn_sem(fid, cap, &owned);
        ev(format!("inv {} cap={} {} -> {:?}", r2.get(), cap, show_vals(&owned), r));
        r
    };
    let node = match args.len() {
        1 => args[0].map(move |a| call(&[a])),
        2 => args[0].map2(&args[1], move |a, b| call(&[a, b])),
        3 => args[0].map3(&args[1], &args[2], move |a, b, c| call(&[a, b, c])),
        4 => args[0].map4(&args[1], &args[2], &args[3], move |a, b, c, d| call(&[a, b, c, d])),
        5 => args[0].map5(&args[1], &args[2], &args[3], &args[4], move |a, b, c, d, e| {
            call(&[a, b, c, d, e])
        }),
        6 => args[0].map6(&args[1], &args[2], &args[3], &args[4], &args[5], move |a, b, c, d, e, f| {
            call(&[a, b, c, d, e, f])
        }),
        n => panic!("harness: map arity {n}"),
    };
    rank.set(node.verif_rank());
    node
}
fn mk_mapref(p: i64, arg: &I) -> I {
    arg.map_ref(move |v| proj_sem(p, v))
}
fn mk_mapold(fid: i64, cap: i64, arg: &I) -> I {
    let rank = Rc::new(Cell::new(usize::MAX));
    let r2 = rank.clone();
    let g = Guard::new();
    let node = arg.map_with_old(move |old: Option<Val>, x: &Val| {
        let _g = &g;
        user_call();
        let (new, ch) = wo_sem(fid, cap, &old, x);
        let args: Vec<Val> = match &old {
            Some(o) => vec![o.clone(), x.clone()],
            None => vec![x.clone()],
        };
        ev(format!("inv {} cap={} {} -> {:?}", r2.get(), cap, show_vals(&args), new));
        (new, ch)
    });
    rank.set(node.verif_rank());
    node
}
fn mk_fold(state: &WeakState, fid: i64, cap: i64, init: i64, args: Vec<I>) -> I {
    let rank = Rc::new(Cell::new(usize::MAX));
    let r2 = rank.clone();
    let g = Guard::new();
    let node = state.fold(args, Val::Int(init), move |acc: Val, x: &Val| {
        let _g = &g;
        user_call();
        let r = fold_sem(fid, cap, &acc, x);
        ev(format!("foldcall {} {:?} {:?} -> {:?}", r2.get(), acc, x, r));
        r
    });
    rank.set(node.verif_rank());
    node
}

fn subst_operand(lv: usize, locals: &[I], o: &Operand) -> Operand {
    match o {
        Operand::Local(d, i) => {
            if *d == lv + 1 {
                match locals.get(*i) {
                    Some(n) => Operand::Outer(n.clone()),
                    None => o.clone(),
                }
            } else if *d > lv + 1 {
                Operand::Local(d - 1, *i)
            } else {
                o.clone()
            }
        }
        _ => o.clone(),
    }
}
fn subst_tinstr(lv: usize, locals: &[I], t: &TInstr) -> TInstr {
    let so = |o: &Operand| subst_operand(lv, locals, o);
    match t {
        TInstr::Const(v) => TInstr::Const(*v),
        TInstr::ConstLhs => TInstr::ConstLhs,
        TInstr::Map(f, e, args) => TInstr::Map(*f, e.clone(), args.iter().map(so).collect()),
        TInstr::MapRef(p, a) => TInstr::MapRef(*p, so(a)),
        TInstr::MapOld(f, a) => TInstr::MapOld(*f, so(a)),
        TInstr::Fold(f, i, args) => TInstr::Fold(*f, *i, args.iter().map(so).collect()),
        TInstr::Cutoff(tg, c) => TInstr::Cutoff(so(tg), c.clone()),
        TInstr::Export(o) => TInstr::Export(so(o)),
        TInstr::MemoCall(m, k) => TInstr::MemoCall(*m, *k),
        TInstr::MemoNew(f) => TInstr::MemoNew(subst_bindfn(lv + 1, locals, f)),
        TInstr::Bind(lhs, f) => TInstr::Bind(so(lhs), subst_bindfn(lv + 1, locals, f)),
    }
}
fn subst_bindfn(lv: usize, locals: &[I], f: &BindFn) -> BindFn {
    BindFn {
        effs: f.effs.clone(),
        templates: f
            .templates
            .iter()
            .map(|(body, r)| {
                (
                    body.iter().map(|t| subst_tinstr(lv, locals, t)).collect(),
                    subst_operand(lv, locals, r),
                )
            })
            .collect(),
    }
}
/// replace top-level handles by the nodes they denote
fn handles_operand(tbl: &[Option<I>], o: &Operand) -> Operand {
    match o {
        Operand::Handle(h) => Operand::Outer(tbl[*h].clone().expect("harness: node handle dropped")),
        _ => o.clone(),
    }
}
fn handles_bindfn(tbl: &[Option<I>], f: &BindFn) -> BindFn {
    BindFn {
        effs: f.effs.clone(),
        templates: f
            .templates
            .iter()
            .map(|(body, r)| {
                (
                    body.iter()
                        .map(|t| {
                            let so = |o: &Operand| handles_operand(tbl, o);
                            match t {
                                TInstr::Const(v) => TInstr::Const(*v),
                                TInstr::ConstLhs => TInstr::ConstLhs,
                                TInstr::Map(f, e, args) => TInstr::Map(*f, e.clone(), args.iter().map(so).collect()),
                                TInstr::MapRef(p, a) => TInstr::MapRef(*p, so(a)),
                                TInstr::MapOld(f, a) => TInstr::MapOld(*f, so(a)),
                                TInstr::Fold(f, i, args) => TInstr::Fold(*f, *i, args.iter().map(so).collect()),
                                TInstr::Cutoff(tg, c) => TInstr::Cutoff(so(tg), c.clone()),
                                TInstr::Export(o) => TInstr::Export(so(o)),
                                TInstr::MemoCall(m, k) => TInstr::MemoCall(*m, *k),
                                TInstr::MemoNew(f) => TInstr::MemoNew(handles_bindfn(tbl, f)),
                                TInstr::Bind(lhs, f) => TInstr::Bind(so(lhs), handles_bindfn(tbl, f)),
                            }
                        })
                        .collect(),
                    handles_operand(tbl, r),
                )
            })
            .collect(),
    }
}
fn resolve(locals: &[I], o: &Operand) -> I {
    match o {
        Operand::Outer(n) => n.clone(),
        Operand::Local(0, i) => locals[*i].clone(),
        Operand::Late(h) => ctx().hnodes.borrow()[*h].clone().expect("harness: node handle dropped"),
        Operand::Foreign => ctx().foreign_node.clone(),
        _ => panic!("harness: unresolved operand"),
    }
}
fn instantiate(state: &WeakState, lhsv: &Val, body: &[TInstr], r: &Operand) -> I {
    let cap = lhsv.as_int();
    let mut locals: Vec<I> = vec![];
    for t in body {
        let n = match t {
            TInstr::Const(v) => state.constant(Val::Int(*v)),
            TInstr::ConstLhs => state.constant(lhsv.clone()),
            TInstr::Map(fid, effs, args) => {
                let cs: Vec<I> = args.iter().map(|a| resolve(&locals, a)).collect();
                mk_map(state, *fid, cap, effs.clone(), &cs)
            }
            TInstr::MapRef(p, a) => mk_mapref(*p, &resolve(&locals, a)),
            TInstr::MapOld(f, a) => mk_mapold(*f, cap, &resolve(&locals, a)),
            TInstr::Fold(f, init, args) => {
                let cs: Vec<I> = args.iter().map(|a| resolve(&locals, a)).collect();
                mk_fold(state, *f, cap, *init, cs)
            }
            TInstr::Cutoff(tg, c) => {
                let n = resolve(&locals, tg);
                apply_cutoff(&n, c);
                continue;
            }
            TInstr::Export(o) => {
                let n = resolve(&locals, o);
                ctx().exports.borrow_mut().push(n);
                continue;
            }
            TInstr::MemoCall(m, k) => memo_call(*m, k.unwrap_or(cap)),
            TInstr::MemoNew(f) => {
                memo_new(state, subst_bindfn(0, &locals, f));
                continue;
            }
            TInstr::Bind(lhs, f) => {
                let l = resolve(&locals, lhs);
                mk_bind(state, &l, subst_bindfn(0, &locals, f))
            }
        };
        locals.push(n);
    }
    resolve(&locals, r)
}
/// state.weak_memoize_fn(f): the underlying function builds one template with the key as captured value
fn memo_new(state: &WeakState, f: BindFn) {
    let m = ctx().memos.borrow().len();
    let st = state.clone();
    let (body, r) = f.templates[0].clone();
    let inner = state.upgrade().expect("harness: state gone").weak_memoize_fn(move |key: i64| {
        user_call();
        ev(format!("memofn {m} {key}"));
        instantiate(&st, &Val::Int(key), &body, &r)
    });
    let f: MemoFn = Rc::new(move |k| {
        let mut g = inner.clone();
        g(k)
    });
    ctx().memos.borrow_mut().push(f);
}
fn memo_call(m: usize, key: i64) -> I {
    let f = ctx().memos.borrow().get(m).cloned().expect("harness: no such memoised function");
    f(key)
}
fn mk_bind(state: &WeakState, lhs: &I, f: BindFn) -> I {
    let rank = Rc::new(Cell::new(usize::MAX));
    let r2 = rank.clone();
    let gen = Cell::new(0i64);
    let st = state.clone();
    let g = Guard::new();
    let main = lhs.bind(move |lhsv: &Val| {
        let _g = &g;
        user_call();
        ev(format!("bindrun {} gen={} lhs={:?}", r2.get(), gen.get(), lhsv));
        gen.set(gen.get() + 1);
        run_effects(lhsv, &f.effs);
        let n = f.templates.len() as i64;
        let (body, r) = &f.templates[lhsv.as_int().rem_euclid(n) as usize];
        instantiate(&st, lhsv, body, r)
    });
    // lhs_change is created immediately before main
    rank.set(main.verif_rank() - 1);
    main
}

// ---------------------------------------------------------------- interpreter
struct Interp {
    state: IncrState,
    ctx: Rc<Ctx>,
    hsubs: Vec<Option<SubscriptionToken>>,
    dump: bool,
}

fn token_number(t: &SubscriptionToken) -> i64 {
    // Debug: SubscriptionToken(ObserverId(3), 1)
    let s = format!("{t:?}");
    let tail = s.rsplit(',').next().unwrap_or("");
    tail.trim().trim_end_matches(')').parse().unwrap_or(-1)
}

impl Interp {
    fn new(max_height: usize, dump: bool) -> Self {
        let state = IncrState::new_with_height(max_height);
        let foreign = IncrState::new();
        let foreign_node = foreign.constant(Val::Int(0));
        let ctx = Rc::new(Ctx {
            state: state.weak(),
            vars: RefCell::new(vec![]),
            obs: RefCell::new(vec![]),
            exports: RefCell::new(vec![]),
            hnodes: RefCell::new(vec![]),
            memos: RefCell::new(vec![]),
            experts: RefCell::new(Default::default()),
            dep_slots: RefCell::new(vec![]),
            next_edge: Cell::new(0),
            next_perkey: Cell::new(0),
            tokens: RefCell::new(Default::default()),
            node_handlers: RefCell::new(Default::default()),
            foreign_node,
            _foreign_state: foreign,
            inv_count: Cell::new(0),
            crash_at: Cell::new(None),
        });
        CTX.with(|c| *c.borrow_mut() = Some(ctx.clone()));
        Interp { state, ctx, hsubs: vec![], dump }
    }
    fn push(&mut self, n: I) -> String {
        let r = n.verif_rank();
        self.ctx.hnodes.borrow_mut().push(Some(n));
        format!("node {r}")
    }
    fn h(&self, i: usize) -> I {
        self.ctx.hnodes.borrow()[i].clone().expect("harness: node handle dropped")
    }
    fn obs0(&self, o: usize) -> Option<Observer<Val>> {
        self.ctx.obs.borrow()[o].first().cloned()
    }
    fn step(&mut self, line: &str) -> String {
        let mut p = P { toks: tokenize(line), pos: 0 };
        let w = self.state.weak();
        let cmd = p.next();
        match cmd.as_str() {
            "var" => {
                let v = self.state.var(Val::Int(p.int()));
                let n = v.watch();
                self.ctx.vars.borrow_mut().push(Some(v));
                self.push(n)
            }
            "varmap" => {
                let m = p.zmap();
                let v = self.state.var(Val::Map(m));
                let n = v.watch();
                self.ctx.vars.borrow_mut().push(Some(v));
                self.push(n)
            }
            "setmap" => {
                let x = p.nat();
                let m = p.zmap();
                let var = self.ctx.vars.borrow()[x].clone().expect("harness: var handle dropped");
                var.set(Val::Map(m));
                "ok".into()
            }
            "permapi" | "permapiom" | "perfilter" | "perfilterom" => {
                let inp = self.h(p.nat());
                let ct = p.next();
                let cutoff = if ct == "-" { None } else { Some(P::cutoff(&ct)) };
                let f = p.bindfn();
                let f = handles_bindfn(&self.ctx.hnodes.borrow(), &f);
                let n = perkey_new(
                    &self.ctx.state,
                    &inp,
                    cutoff,
                    f,
                    line.starts_with("permapiom") || line.starts_with("perfilterom"),
                    line.starts_with("perfilter"),
                );
                self.push(n)
            }
            "pair" => {
                let (a, b) = (p.int(), p.int());
                let v = self.state.var(Val::Pair(Box::new(Val::Int(a)), Box::new(Val::Int(b))));
                let n = v.watch();
                self.ctx.vars.borrow_mut().push(Some(v));
                self.push(n)
            }
            "const" => {
                let n = self.state.constant(Val::Int(p.int()));
                self.push(n)
            }
            "map" => {
                let fid = p.int();
                let effs = p.effs();
                let mut args = vec![];
                while p.peek().is_some() {
                    args.push(self.h(p.nat()));
                }
                let n = mk_map(&w, fid, 0, effs, &args);
                self.push(n)
            }
            "mapref" => {
                let pr = p.int();
                let n = mk_mapref(pr, &self.h(p.nat()));
                self.push(n)
            }
            "mapold" => {
                let f = p.int();
                let n = mk_mapold(f, 0, &self.h(p.nat()));
                self.push(n)
            }
            "fold" => {
                let f = p.int();
                let init = p.int();
                let mut args = vec![];
                while p.peek().is_some() {
                    args.push(self.h(p.nat()));
                }
                let n = mk_fold(&w, f, 0, init, args);
                self.push(n)
            }
            "zip" => {
                let a = self.h(p.nat());
                let b = self.h(p.nat());
                // zip produces Incr<(Val, Val)>; bring it back to Incr<Val> would add a node, so the
                // harness uses the same construction zip uses (incr.rs:135) at type Val
                let n = zip_val(&w, &a, &b);
                self.push(n)
            }
            "dependon" => {
                let a = self.h(p.nat());
                let b = self.h(p.nat());
                let n = a.depend_on(&b);
                self.push(n)
            }
            "bind" => {
                let lhs = self.h(p.nat());
                let f = p.bindfn();
                let f = handles_bindfn(&self.ctx.hnodes.borrow(), &f);
                let n = mk_bind(&w, &lhs, f);
                self.push(n)
            }
            "cutoff" => {
                let n = self.h(p.nat());
                let c = P::cutoff(&p.next());
                apply_cutoff(&n, &c);
                "ok".into()
            }
            "observe" => {
                let o = self.h(p.nat()).observe();
                let mut obs = self.ctx.obs.borrow_mut();
                obs.push(vec![o]);
                format!("obs {}", obs.len() - 1)
            }
            "observeexport" => {
                let k = p.nat();
                let n = {
                    let ex = self.ctx.exports.borrow();
                    if ex.is_empty() { None } else { Some(ex[k % ex.len()].clone()) }
                };
                let n = n.unwrap_or_else(|| self.state.constant(Val::Int(0)));
                let o = n.observe();
                let mut obs = self.ctx.obs.borrow_mut();
                obs.push(vec![o]);
                format!("obs {}", obs.len() - 1)
            }
            "mapexport" => {
                let fid = p.int();
                let k = p.nat();
                let n = {
                    let ex = self.ctx.exports.borrow();
                    if ex.is_empty() { None } else { Some(ex[k % ex.len()].clone()) }
                };
                let n = match n {
                    Some(n) => mk_map(&w, fid, 0, vec![], &[n]),
                    None => self.state.constant(Val::Int(0)),
                };
                self.push(n)
            }
            "exporthandle" => {
                // a program handle on the exported node itself (a bind closure can then return it: `ret t<h>`)
                let k = p.nat();
                let n = {
                    let ex = self.ctx.exports.borrow();
                    if ex.is_empty() { None } else { Some(ex[k % ex.len()].clone()) }
                };
                let n = n.unwrap_or_else(|| self.state.constant(Val::Int(0)));
                self.push(n)
            }
            "cloneobs" => {
                let o = p.nat();
                let c = self.obs0(o).expect("clone of dropped observer");
                self.ctx.obs.borrow_mut()[o].push(c);
                "ok".into()
            }
            "dropobs" => {
                let o = p.nat();
                let dropped = self.ctx.obs.borrow_mut()[o].pop();
                drop(dropped);
                "ok".into()
            }
            "disallow" => {
                let o = p.nat();
                if let Some(ob) = self.obs0(o) {
                    ob.disallow_future_use();
                }
                "ok".into()
            }
            "read" => {
                let o = p.nat();
                match self.obs0(o) {
                    Some(ob) => format!("read {}", show_read(&ob.try_get_value())),
                    None => "read nohandle".into(),
                }
            }
            "onupdate" => {
                // Incr::on_update: a handler on the node itself; it also hears Unnecessary
                let h = p.nat();
                let hid = p.int();
                let effs = p.effs();
                let node = self.h(h);
                let rank = node.verif_rank();
                let ix = {
                    let c = ctx();
                    let mut m = c.node_handlers.borrow_mut();
                    let e = m.entry(rank).or_insert(0usize);
                    *e += 1;
                    *e - 1
                };
                let g = Guard::new();
                node.on_update(move |u: incremental::NodeUpdate<&Val>| {
                    let _g = &g;
                    user_call();
                    let (kind, v) = match u {
                        incremental::NodeUpdate::Necessary(v) => ("Initialised", Some(v.clone())),
                        incremental::NodeUpdate::Changed(v) => ("Changed", Some(v.clone())),
                        incremental::NodeUpdate::Invalidated => ("Invalidated", None),
                        incremental::NodeUpdate::Unnecessary => ("Unnecessary", None),
                    };
                    ev(format!(
                        "nodeupd n={} ix={} hid={} {} {}",
                        rank,
                        ix,
                        hid,
                        kind,
                        v.as_ref().map_or("-".to_string(), |v| format!("{v:?}"))
                    ));
                    run_effects(v.as_ref().unwrap_or(&Val::Unit), &effs);
                });
                "ok".into()
            }
            "subscribe" => {
                let o = p.nat();
                let hid = p.int();
                let effs = p.effs();
                let ob = self.obs0(o).expect("subscribe on dropped observer");
                match do_subscribe(&ob, o, hid, effs) {
                    Ok(t) => {
                        self.hsubs.push(Some(t));
                        format!("tok {}", token_number(&t))
                    }
                    Err(e) => {
                        self.hsubs.push(None);
                        format!("tokerr {}", err_code(&e))
                    }
                }
            }
            "unsubscribe" => {
                let o = p.nat();
                let s = p.nat();
                match (self.obs0(o), self.hsubs[s]) {
                    (Some(ob), Some(t)) => match ob.unsubscribe(t) {
                        Ok(()) => "code 0".into(),
                        Err(e) => format!("code {}", err_code(&e)),
                    },
                    _ => "code nohandle".into(),
                }
            }
            "stateunsub" => {
                let s = p.nat();
                if let Some(t) = self.hsubs[s] {
                    self.state.unsubscribe(t);
                }
                "ok".into()
            }
            "set" => {
                let x = p.nat();
                let v = p.int();
                let var = self.ctx.vars.borrow()[x].clone().expect("harness: var handle dropped");
                var.set(Val::Int(v));
                "ok".into()
            }
            "setpair" => {
                let x = p.nat();
                let (a, b) = (p.int(), p.int());
                let var = self.ctx.vars.borrow()[x].clone().expect("harness: var handle dropped");
                var.set(Val::Pair(Box::new(Val::Int(a)), Box::new(Val::Int(b))));
                "ok".into()
            }
            "update" => {
                let x = p.nat();
                let d = p.int();
                let var = self.ctx.vars.borrow()[x].clone().expect("harness: var handle dropped");
                var.update(|v| Val::Int(v.as_int() + d));
                "ok".into()
            }
            "modify" => {
                let x = p.nat();
                let d = p.int();
                let var = self.ctx.vars.borrow()[x].clone().expect("harness: var handle dropped");
                var.modify(|v| *v = Val::Int(v.as_int() + d));
                "ok".into()
            }
            "replace" => {
                let x = p.nat();
                let v = p.int();
                let var = self.ctx.vars.borrow()[x].clone().expect("harness: var handle dropped");
                format!("val {:?}", var.replace(Val::Int(v)))
            }
            "replacewith" => {
                let x = p.nat();
                let d = p.int();
                let var = self.ctx.vars.borrow()[x].clone().expect("harness: var handle dropped");
                format!("val {:?}", var.replace_with(|v| Val::Int(v.as_int() + d)))
            }
            "get" => {
                let x = p.nat();
                let var = self.ctx.vars.borrow()[x].clone().expect("harness: var handle dropped");
                format!("val {:?}", var.get())
            }
            "stabilise" => {
                self.state.stabilise();
                "ok".into()
            }
            "isstable" => format!("bool {}", self.state.is_stable() as u8),
            "stats" => {
                let t = &self.state;
                // stats().necessary subtracts two usizes; read the parts through the dump-independent API
                let s = stats_parts(t);
                format!(
                    "stats created={} changed={} recomputed={} invalidated={} nec={} unnec={}",
                    s.0, s.1, s.2, s.3, s.4, s.5
                )
            }
            "setmaxheight" => {
                let n = p.int();
                self.state.set_max_height_allowed(n as usize);
                "ok".into()
            }
            "dropnode" => {
                let h = p.nat();
                let n = self.ctx.hnodes.borrow_mut()[h].take();
                drop(n);
                "ok".into()
            }
            "memonew" => {
                let f = p.bindfn();
                let f = handles_bindfn(&self.ctx.hnodes.borrow(), &f);
                memo_new(&self.ctx.state, f);
                "ok".into()
            }
            "memocall" => {
                let m = p.nat();
                let k = p.int();
                let n = memo_call(m, k);
                self.push(n)
            }
            "expert" => {
                let mode = p.int();
                let n = expert_new(&self.ctx.state, mode);
                self.push(n)
            }
            "adddep" => {
                let (e, h, sl) = (p.nat(), p.nat(), p.nat());
                let cb = p.next() == "1";
                if let Some(d) = expert_add_dep(e, h, cb) {
                    slot_set(sl, Some(d));
                }
                "ok".into()
            }
            "rmdep" => {
                let (e, sl) = (p.nat(), p.nat());
                expert_remove_slot(e, sl);
                "ok".into()
            }
            "makestale" => {
                if let Some(rec) = expert_rec(p.nat()) {
                    rec.weak.make_stale()
                }
                "ok".into()
            }
            "invalidateexpert" => {
                if let Some(rec) = expert_rec(p.nat()) {
                    rec.weak.invalidate()
                }
                "ok".into()
            }
            "dropexports" => {
                let ex = std::mem::take(&mut *self.ctx.exports.borrow_mut());
                drop(ex);
                "ok".into()
            }
            "dropvar" => {
                let x = p.nat();
                let v = self.ctx.vars.borrow_mut()[x].take();
                drop(v);
                "ok".into()
            }
            "crashat" => {
                let k = p.nat();
                self.ctx.crash_at.set(Some(self.ctx.inv_count.get() + k));
                "ok".into()
            }
            c => panic!("harness: unknown op {c}"),
        }
    }
}

fn stats_parts(t: &IncrState) -> (usize, usize, usize, usize, usize, usize) {
    let s = t.stats();
    (s.created, s.changed, s.recomputed, s.invalidated, s.became_necessary, s.became_unnecessary)
}

/// Incr::zip (incr.rs:135) produces a tuple; an identity map (logged like function 0) brings it
/// back to the harness' single value type.  The model's OpZip creates the same two nodes.
fn zip_val(_w: &WeakState, a: &I, b: &I) -> I {
    let z = a.zip(b);
    let rank = Rc::new(Cell::new(usize::MAX));
    let r2 = rank.clone();
    let n = z.map(move |(x, y): &(Val, Val)| {
        let v = Val::Pair(Box::new(x.clone()), Box::new(y.clone()));
        user_call();
        ev(format!("inv {} cap=0 {} -> {:?}", r2.get(), show_vals(&[v.clone()]), v));
        v
    });
    rank.set(n.verif_rank());
    n
}

fn panic_tag(msg: &str, loc: &str) -> String {
    let m = msg;
    let tag = if m.contains("injected") {
        "Injected"
    } else if m.contains("node with too large height") {
        "HeightLimit"
    } else if m.contains("adding edge made graph cyclic") {
        "Cycle"
    } else if m.contains("tried to set_max_height_allowed during stabilisation") {
        "SetMaxDuringStabilise"
    } else if m.contains("cannot set max_height_allowed less than max height already seen") {
        "SetMaxBelowSeen"
    } else if m.contains("whose defining bind is not necessary") {
        "ScopeNotNecessary"
    } else if m.contains("can only call") && m.contains("during stabilisation") {
        "OnlyDuringStabilise"
    } else if m.contains("currently running node was not a child") {
        "NotAChild"
    } else if m.contains("within an invalid scope") {
        "InvalidScope"
    } else if m.contains("recomputing invalid node") {
        "RecomputeInvalid"
    } else if m.contains("node was not in recompute heap") {
        "NotInRch"
    } else if m.contains("uninitialised var or abandoned watch node") {
        "AbandonedWatch"
    } else if m.contains("weak_thin_ptr_eq(rhs.weak_state()") {
        "CrossState"
    } else if m.contains("left == right") && m.contains("NotStabilising") && loc.contains("state.rs") {
        "NestedStabilise"
    } else if m.contains("Option::unwrap()") || m.contains("Result::unwrap()") || m.contains("expect") {
        "UnwrapNone"
    } else if m.contains("index out of bounds") || m.contains("swap_remove index") || m.contains("out of range") {
        "Index"
    } else if m.contains("already borrowed") || m.contains("already mutably borrowed") {
        "Borrow"
    } else if m.contains("overflow") {
        "Overflow"
    } else if m.contains("assertion") || m.contains("incorrect attempt") || m.contains("explicit panic")
        || m.contains("needs_to_be_computed") || m.contains("Incremental bug") || m.contains("unexpectedly reached")
        || m.contains("nodes with no children")
    {
        "Assert"
    } else if m.starts_with("harness:") || m.starts_with("parse:") {
        "HarnessError"
    } else {
        "Other"
    };
    tag.to_string()
}

fn run_history(id: &str, max_height: usize, dump: bool, lines: &[String], out: &mut impl Write) {
    writeln!(out, "history {id}").unwrap();
    let _ = incremental::verif::take_events();
    let mut it = Interp::new(max_height, dump);
    for (i, line) in lines.iter().enumerate() {
        LAST_PANIC.with(|p| *p.borrow_mut() = None);
        let r = catch_unwind(AssertUnwindSafe(|| it.step(line)));
        match r {
            Ok(s) => writeln!(out, "op {i} {s}").unwrap(),
            Err(_) => {
                let (msg, loc) = LAST_PANIC.with(|p| p.borrow().clone()).unwrap_or_default();
                writeln!(out, "op {i} panic {}", panic_tag(&msg, &loc)).unwrap();
                writeln!(out, "# {} @ {}", msg.replace('\n', " "), loc).unwrap();
            }
        }
        for e in incremental::verif::take_events() {
            writeln!(out, "e {e}").unwrap();
        }
        if it.dump {
            let d = catch_unwind(AssertUnwindSafe(|| it.state.verif_dump()));
            match d {
                Ok(d) => {
                    for l in d {
                        writeln!(out, "d {l}").unwrap();
                    }
                    let obs = it.ctx.obs.borrow();
                    for (i, clones) in obs.iter().enumerate() {
                        if let Some(o) = clones.first() {
                            writeln!(out, "d o {} {}", i, o.verif_state()).unwrap();
                        }
                    }
                }
                Err(_) => writeln!(out, "d DUMP-PANICKED").unwrap(),
            }
        }
    }
    let closures_before = LIVE_CLOSURES.with(|c| c.get());
    // drop everything: observers first is the friendliest order; drop panics are reported
    let r = catch_unwind(AssertUnwindSafe(move || {
        CTX.with(|c| *c.borrow_mut() = None);
        drop(it);
    }));
    match r {
        Ok(()) => writeln!(
            out,
            "end ok closures_before_drop={} closures_after_drop={}",
            closures_before,
            LIVE_CLOSURES.with(|c| c.get())
        )
        .unwrap(),
        Err(_) => {
            let (msg, loc) = LAST_PANIC.with(|p| p.borrow().clone()).unwrap_or_default();
            writeln!(out, "end panic {}", panic_tag(&msg, &loc)).unwrap();
            writeln!(out, "# {} @ {}", msg.replace('\n', " "), loc).unwrap();
        }
    }
    out.flush().unwrap();
}

fn main() {
    std::panic::set_hook(Box::new(|info| {
        let msg = info
            .payload()
            .downcast_ref::<String>()
            .cloned()
            .or_else(|| info.payload().downcast_ref::<&str>().map(|s| s.to_string()))
            .unwrap_or_default();
        let loc = info.location().map(|l| format!("{}:{}", l.file(), l.line())).unwrap_or_default();
        LAST_PANIC.with(|p| {
            let mut p = p.borrow_mut();
            if p.is_none() {
                *p = Some((msg, loc));
            }
        });
    }));
    let stdin = std::io::stdin();
    let stdout = std::io::stdout();
    let mut out = std::io::BufWriter::new(stdout.lock());
    let mut cur: Option<(String, usize, bool)> = None;
    let mut acc: Vec<String> = vec![];
    let flush = |cur: &Option<(String, usize, bool)>, acc: &mut Vec<String>, out: &mut std::io::BufWriter<std::io::StdoutLock>| {
        if let Some((id, mh, dump)) = cur {
            run_history(id, *mh, *dump, acc, out);
        }
        acc.clear();
    };
    for line in stdin.lock().lines() {
        let line = line.unwrap();
        let line = line.trim();
        if line.is_empty() || line.starts_with('#') {
            continue;
        }
        if let Some(rest) = line.strip_prefix("history ") {
            flush(&cur, &mut acc, &mut out);
            let toks: Vec<&str> = rest.split_whitespace().collect();
            let get = |k: &str, d: usize| {
                toks.iter()
                    .filter_map(|t| t.split_once('='))
                    .find(|(kk, _)| *kk == k)
                    .map_or(d, |(_, v)| v.parse().unwrap())
            };
            cur = Some((toks[0].to_string(), get("max_height", 128), get("dump", 0) == 1));
        } else {
            acc.push(line.to_string());
        }
    }
    flush(&cur, &mut acc, &mut out);
}
