pub mod fns;
pub mod mapfmt;
