//! Mirror of coq/theories/Model/Fns.v — the concrete user-function families.
use incremental_map::prelude::{Either, MergeElement};

pub fn fm_fn(id: i64, k: i64, v: i64) -> Option<i64> {
    match id {
        0 => Some(v + 1),
        1 => {
            if v.rem_euclid(2) == 0 {
                Some(v * 10)
            } else {
                None
            }
        }
        2 => Some(k * 100 + v),
        _ => {
            if (k + v).rem_euclid(3) == 0 {
                None
            } else {
                Some(k + v)
            }
        }
    }
}

pub fn uf_add(id: i64, acc: i64, k: i64, v: i64) -> i64 {
    match id {
        0 => acc + v,
        1 => acc + k * v,
        _ => acc + (k * 7 + v * v),
    }
}
pub fn uf_remove(id: i64, acc: i64, k: i64, v: i64) -> i64 {
    match id {
        0 => acc - v,
        1 => acc - k * v,
        _ => acc - (k * 7 + v * v),
    }
}
pub fn uf_update(id: i64, acc: i64, k: i64, old: i64, new: i64) -> i64 {
    match id {
        0 => acc - old + new,
        1 => acc + k * (new - old),
        _ => acc + (new * new - old * old),
    }
}

pub fn mg_fn(id: i64, k: i64, m: MergeElement<&i64, &i64>) -> Option<i64> {
    use MergeElement::*;
    match id {
        0 => Some(match m {
            Left(x) => *x,
            Right(y) => 1000 + *y,
            Both(x, y) => *x * *y + 5,
        }),
        1 => match m {
            Both(x, y) => Some(*x + *y),
            _ => None,
        },
        _ => match m {
            Left(x) => {
                if k.rem_euclid(2) == 0 {
                    Some(*x)
                } else {
                    None
                }
            }
            Right(y) => Some(k + *y),
            Both(x, y) => {
                if x == y {
                    None
                } else {
                    Some(*x - *y)
                }
            }
        },
    }
}

pub fn pt_fn(id: i64, k: i64, v: i64) -> Either<i64, i64> {
    match id {
        0 => {
            if v.rem_euclid(2) == 0 {
                Either::Left(v)
            } else {
                Either::Right(v + 1)
            }
        }
        _ => {
            if k.rem_euclid(2) == 0 {
                Either::Left(k + v)
            } else {
                Either::Right(k - v)
            }
        }
    }
}
