(* Extraction of the pure models to OCaml. ExtrOcamlBasic only: bool, option, unit, list,
   prod, sumbool, sumor are mapped to the OCaml types; Z, positive, nat stay inductive. *)
From Coq Require Import ExtrOcamlBasic.
From Incr.Model Require Import SymDiff MapOps Fns.
Extraction Language OCaml.
Extraction "mapmodel.ml" z_symmetric_diff z_symmetric_diff_owned z_fm_run z_uf_run z_mg_run z_pt_run.
