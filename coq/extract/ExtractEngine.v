From Coq Require Import ExtrOcamlBasic.
From Incr.Model Require Import Base Engine Api.
Extraction Language OCaml.
Extraction "enginemodel.ml" run_history node_value.
