(* C19 — misuse and limits panic with a diagnostic; the height limit is exact.  Statements about E. *)
From stdpp Require Import base list option numbers.
From RecordUpdate Require Import RecordUpdate.
From Incr.Model Require Import Base Live Engine Api.
From Incr.Proofs Require Import Pres FrameStatus Heights OkPres HeightLimit FrameHeightLimit Histories.
Local Open Scope Z_scope.

(* every height the engine ever assigns goes through set_height.  While the greatest height seen is
   within the limit, set_height n h panics — with HeightLimit and nothing else — exactly when h
   exceeds the limit; an accepted height keeps "seen within the limit" and does not move the limit. *)
Theorem C19_height_limit_is_exact :
  forall n h s, ahh_max_seen s <= ahh_max_allowed s ->
    ((set_height n h s).1 = Panic PHeightLimit <-> ahh_max_allowed s < h)
    /\ (ahh_max_allowed s < h \/ (set_height n h s).1 = Ok tt).
Proof. exact height_limit_exact. Qed.

Theorem C19_accepted_height_keeps_the_limit :
  forall n h s, ahh_max_seen s <= ahh_max_allowed s -> (set_height n h s).1 = Ok tt ->
    ahh_max_seen (set_height n h s).2 <= ahh_max_allowed (set_height n h s).2
    /\ ahh_max_allowed (set_height n h s).2 = ahh_max_allowed s.
Proof. exact set_height_keeps_seen_within_limit. Qed.

(* new_with_height(N): both heaps admit exactly heights 0..N *)
Theorem C19_new_with_height :
  forall N dbg, 0 <= N ->
    ahh_max_allowed (init_state N dbg) = N /\ rch_max_allowed (init_state N dbg) = N
    /\ ahh_max_seen (init_state N dbg) = 0.
Proof. exact init_state_limit. Qed.

(* set_max_height_allowed(N): when it returns, both heaps admit exactly 0..N, and N was at least the
   greatest height seen; below the greatest height seen it panics and changes nothing *)
Theorem C19_set_max_height_allowed_is_exact :
  forall N s s', 0 <= N -> set_max_height_allowed N s = (Ok tt, s') ->
    ahh_max_allowed s' = N /\ rch_max_allowed s' = N /\ ahh_max_seen s <= N.
Proof. exact set_max_height_exact. Qed.

Theorem C19_set_max_height_below_seen_is_refused :
  forall N s, st_status s <> Stabilising -> N < ahh_max_seen s ->
    set_max_height_allowed N s = (Panic PSetMaxBelowSeen, s).
Proof. exact set_max_height_below_seen. Qed.

(* from inside a node, fold, bind or cutoff function (status Stabilising) the call is refused with its own diagnostic
   and changes nothing; from an update handler (status RunningOnUpdateHandlers) it is served like a call from top
   level, i.e. the two theorems above apply; a closure's or handler's call is that very function *)
Theorem C19_set_max_height_during_propagation_is_refused :
  forall N s, st_status s = Stabilising -> set_max_height_allowed N s = (Panic PSetMaxDuringStabilise, s).
Proof. exact set_max_height_during_propagation. Qed.

Theorem C19_set_max_height_from_a_closure_is_the_same_call :
  forall fuel arg N, run_effect fuel arg (ESetMaxHeight N) = set_max_height_allowed N.
Proof. exact effect_set_max_height. Qed.

(* stabilise from inside a node function or a handler panics at once and touches nothing; so does a
   further stabilise call on that state *)
Theorem C19_nested_stabilise_panics :
  forall fuel arg s, st_status s <> NotStabilising -> run_effect fuel arg EStabilise s = (Panic PNestedStabilise, s).
Proof. exact nested_stabilise_effect. Qed.

Theorem C19_stabilise_while_stabilising_panics :
  forall fuel s, st_status s <> NotStabilising -> stabilise fuel s = (Panic PNestedStabilise, s).
Proof. exact stabilise_refuses. Qed.

(* when the height-adjusting walk started by a new edge (child -> parent) reaches the child again as a
   parent, it panics naming the cycle *)
Theorem C19_cycle_is_reported :
  forall oc op child s, debug s = false -> (ensure_height_requirement oc op child oc s).1 = Panic PCycle.
Proof. exact ensure_height_requirement_cycle. Qed.

(* ---- globally: the hypothesis of the theorems above holds in every reachable state.
   [HL s]: the greatest height seen is not negative and within the greatest height allowed, and no node is
   higher than the greatest height seen.  For State::new_with_height(N), N >= 0, it holds after every
   operation of every history (debug or release) up to the first one that does not return normally — and the
   operation that would take a node above the limit is exactly one that does not (C19_height_limit_is_exact). *)
Theorem C19_heights_within_the_limit_in_every_history :
  forall fuel N dbg ops, 0 <= N -> while_ok (run_history fuel N dbg ops) HL.
Proof. exact history_height_limit. Qed.

Theorem C19_every_operation_keeps_heights_within_the_limit :
  forall fuel st o, okp HL (step fuel st o).
Proof. exact hl_step. Qed.

(* non-vacuity: limit 3 admits a chain of height 3 and rejects height 4 at the stabilise that needs it;
   a bind returning a node above itself is reported as a cycle *)
Example C19_nonvacuous_limit :
  let h := [OpVar 1; OpMap 2 [] [0%nat]; OpMap 2 [] [1%nat]; OpObserve 2; OpStabilise; OpRead 0;
            OpMap 2 [] [2%nat]; OpObserve 3; OpStabilise] in
  (fun e => e.1.1) <$> run_history 100 3 true h
  = [Ok (OutNode 0); Ok (OutNode 1); Ok (OutNode 2); Ok (OutObs 0); Ok OutUnit; Ok (OutRead (inl (VInt 4)));
     Ok (OutNode 3); Ok (OutObs 1); Panic PHeightLimit].
Proof. vm_compute. reflexivity. Qed.

Example C19_nonvacuous_cycle :
  let h := [OpVar 1; OpBind 0 (BindFn [] [([], OLate 2)]); OpMap 2 [] [1%nat]; OpObserve 2; OpStabilise] in
  (fun e => e.1.1) <$> run_history 100 128 false h
  = [Ok (OutNode 0); Ok (OutNode 2); Ok (OutNode 3); Ok (OutObs 0); Panic PCycle].
Proof. vm_compute. reflexivity. Qed.

Print Assumptions C19_height_limit_is_exact.
Print Assumptions C19_accepted_height_keeps_the_limit.
Print Assumptions C19_new_with_height.
Print Assumptions C19_set_max_height_allowed_is_exact.
Print Assumptions C19_set_max_height_below_seen_is_refused.
Print Assumptions C19_nested_stabilise_panics.
Print Assumptions C19_stabilise_while_stabilising_panics.
Print Assumptions C19_cycle_is_reported.
Print Assumptions C19_heights_within_the_limit_in_every_history.
Print Assumptions C19_every_operation_keeps_heights_within_the_limit.
Print Assumptions C19_set_max_height_during_propagation_is_refused.
Print Assumptions C19_set_max_height_from_a_closure_is_the_same_call.
