(* C13 — a panic escaping stabilise poisons the state.  Statements about the engine model E
   (Model/{Base,Engine,Api}.v); each closed by [exact]. *)
From stdpp Require Import base list option numbers.
From Incr.Model Require Import Base Live Engine Api.
From Incr.Proofs Require Import Pres FrameStatus FrameRead Reads Poisoned.

(* whatever makes stabilise not return normally (a user function panicking at any invocation, an
   internal panic, even running out of fuel), the state it leaves behind is not NotStabilising *)
Theorem C13_failed_stabilise_poisons :
  forall fuel s, is_ok (stabilise fuel s).1 = false -> st_status (stabilise fuel s).2 <> NotStabilising.
Proof. exact stabilise_fail_poisons. Qed.

(* a further stabilise refuses to run and touches nothing *)
Theorem C13_poisoned_state_refuses_stabilise :
  forall fuel s, st_status s <> NotStabilising -> stabilise fuel s = (Panic PNestedStabilise, s).
Proof. exact stabilise_refuses. Qed.

(* no operation of the API ever resets the status: every state of the rest of the history is poisoned *)
Theorem C13_poison_is_permanent :
  forall fuel ops st s, st_status s <> NotStabilising ->
    Forall (fun e => st_status e.2 = st_status s) (run fuel ops st s).
Proof. exact run_keeps_poison. Qed.

(* if the panic happened during propagation (status Stabilising), every later read is refused with
   CurrentlyStabilising: no observer exposes a partially updated value.  (A read of an observer that
   does not exist is outside the DSL: PModelGap.) *)
Theorem C13_no_read_of_partial_state :
  forall fuel ops st s, st_status s = Stabilising ->
    Forall2 (fun o e => match o with
                        | OpRead _ => e.1.1 = Ok (OutRead (inr ERR_CURRENTLY_STABILISING))
                                      \/ e.1.1 = Panic (PModelGap 4)
                        | _ => True
                        end) ops (run fuel ops st s).
Proof. exact run_reads_refused. Qed.

(* non-vacuity: a history whose node function panics is poisoned, and the later read is refused *)
Example C13_nonvacuous :
  let h := [OpVar 1; OpMap 2 [EPanic] [0%nat]; OpObserve 1; OpStabilise; OpRead 0; OpStabilise] in
  (fun e => (e.1.1, st_status e.2)) <$> run_history 100 128 true h
  = [(Ok (OutNode 0), NotStabilising); (Ok (OutNode 1), NotStabilising); (Ok (OutObs 0), NotStabilising);
     (Panic PInjected, Stabilising);
     (Ok (OutRead (inr ERR_CURRENTLY_STABILISING)), Stabilising);
     (Panic PNestedStabilise, Stabilising)].
Proof. vm_compute. reflexivity. Qed.

(* once a stabilisation has failed no read moves any more: whatever the program does next — a further
   stabilise included — every observer that the program does not itself disallow or drop keeps returning
   exactly what it returned right after the failure.  When the panic came from an update handler the
   status is RunningOnUpdateHandlers, the propagation phase had finished, and what is returned are the
   fully propagated values (the example below); when it came from a node function the previous theorem
   says every read is refused.  Either way no later read can expose a mixture.  (The expert API's
   dependency surgery is left out, as in C07.) *)
Theorem C13_reads_frozen_after_failure :
  forall fuel ops st s o ob,
    st_status s <> NotStabilising ->
    Forall (fun op => expert_op op = false /\ op_target op <> Some o) ops ->
    obss s !! o = Some ob -> is_Some (nodes s !! o_observing ob) ->
    Forall (fun e => read_result e.2 o = read_result s o) (run fuel ops st s).
Proof. exact run_poisoned_reads_frozen. Qed.

(* giving up handles — observers (last clone or not), variables, node handles, the handles bind closures
   handed out — never panics, whatever state the library is in; the only failure is a history naming a
   handle that was never created, which the DSL reports as a model gap *)
Theorem C13_dropping_handles_never_panics :
  forall fuel st o s, is_drop_op o = true -> no_real_panic (step fuel st o s).1.
Proof. exact drops_never_panic. Qed.

(* non-vacuity: a handler that panics leaves the fully propagated value readable, for good *)
Example C13_nonvacuous_handler :
  let h := [OpVar 1; OpMap 2 [] [0%nat]; OpObserve 1; OpSubscribe 0 (HFn 0 [EPanic]); OpSet 0 4; OpStabilise;
            OpRead 0; OpSet 0 9; OpStabilise; OpRead 0; OpDropObs 0; OpDropVar 0; OpDropNode 1] in
  (fun e => (e.1.1, st_status e.2)) <$> drop 5 (run_history 100 128 true h)
  = [(Panic PInjected, RunningOnUpdateHandlers);
     (Ok (OutRead (inl (VInt 8))), RunningOnUpdateHandlers);
     (Ok OutUnit, RunningOnUpdateHandlers);
     (Panic PNestedStabilise, RunningOnUpdateHandlers);
     (Ok (OutRead (inl (VInt 8))), RunningOnUpdateHandlers);
     (Ok OutUnit, RunningOnUpdateHandlers); (Ok OutUnit, RunningOnUpdateHandlers);
     (Ok OutUnit, RunningOnUpdateHandlers)].
Proof. vm_compute. reflexivity. Qed.

Print Assumptions C13_failed_stabilise_poisons.
Print Assumptions C13_poisoned_state_refuses_stabilise.
Print Assumptions C13_poison_is_permanent.
Print Assumptions C13_no_read_of_partial_state.
Print Assumptions C13_reads_frozen_after_failure.
Print Assumptions C13_dropping_handles_never_panics.
