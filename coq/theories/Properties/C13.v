(* C13 — a panic escaping stabilise poisons the state.  Statements about the engine model E
   (Model/{Base,Engine,Api}.v); each closed by [exact]. *)
From stdpp Require Import base list option numbers.
From Incr.Model Require Import Base Live Engine Api.
From Incr.Proofs Require Import Pres FrameStatus.

(* whatever makes stabilise not return normally (a user function panicking at any invocation, an
   internal panic, even running out of fuel), the state it leaves behind is not NotStabilising *)
Theorem C13_failed_stabilise_poisons :
  forall fuel s, is_ok (stabilise fuel s).1 = false -> st_status (stabilise fuel s).2 <> NotStabilising.
Proof. exact stabilise_fail_poisons. Qed.

(* a further stabilise refuses to run and touches nothing *)
Theorem C13_poisoned_state_refuses_stabilise :
  forall fuel s, st_status s <> NotStabilising -> stabilise fuel s = (Panic PNestedStabilise, s).
Proof. exact stabilise_refuses. Qed.

(* no operation of the API ever resets the status: every state of the rest of the history is poisoned *)
Theorem C13_poison_is_permanent :
  forall fuel ops st s, st_status s <> NotStabilising ->
    Forall (fun e => st_status e.2 = st_status s) (run fuel ops st s).
Proof. exact run_keeps_poison. Qed.

(* if the panic happened during propagation (status Stabilising), every later read is refused with
   CurrentlyStabilising: no observer exposes a partially updated value.  (A read of an observer that
   does not exist is outside the DSL: PModelGap.) *)
Theorem C13_no_read_of_partial_state :
  forall fuel ops st s, st_status s = Stabilising ->
    Forall2 (fun o e => match o with
                        | OpRead _ => e.1.1 = Ok (OutRead (inr ERR_CURRENTLY_STABILISING))
                                      \/ e.1.1 = Panic (PModelGap 4)
                        | _ => True
                        end) ops (run fuel ops st s).
Proof. exact run_reads_refused. Qed.

(* non-vacuity: a history whose node function panics is poisoned, and the later read is refused *)
Example C13_nonvacuous :
  let h := [OpVar 1; OpMap 2 [EPanic] [0%nat]; OpObserve 1; OpStabilise; OpRead 0; OpStabilise] in
  (fun e => (e.1.1, st_status e.2)) <$> run_history 100 128 true h
  = [(Ok (OutNode 0), NotStabilising); (Ok (OutNode 1), NotStabilising); (Ok (OutObs 0), NotStabilising);
     (Panic PInjected, Stabilising);
     (Ok (OutRead (inr ERR_CURRENTLY_STABILISING)), Stabilising);
     (Panic PNestedStabilise, Stabilising)].
Proof. vm_compute. reflexivity. Qed.

Print Assumptions C13_failed_stabilise_poisons.
Print Assumptions C13_poisoned_state_refuses_stabilise.
Print Assumptions C13_poison_is_permanent.
Print Assumptions C13_no_read_of_partial_state.
