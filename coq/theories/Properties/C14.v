(* C14 — expert nodes with dynamic dependencies.  Statements about the engine model E
   (Model/Engine.v: expert_add_dependency, expert_remove_dependency, ex_swap_children,
   ex_pop_child_edge, run_edge_callback, edge_on_change, expert_make_stale); each closed by [exact].

   These theorems cover the bookkeeping clauses of the property: the children vector and the index
   cells stay in step through every addition and removal (duplicates on one child included), nothing
   else in the engine writes them, change callbacks are delivered on linking exactly when the node has
   already run and the child has a value, a child without a value never panics a callback.  The
   value clause (the node equals its reference combinator after every stabilise) is decided by the
   correspondence run and its oracle, not by a theorem: see DESIGN.md. *)
From stdpp Require Import base list option numbers.
From RecordUpdate Require Import RecordUpdate.
From Incr.Model Require Import Base Live Engine Api.
From Incr.Proofs Require Import Pres FrameDeps Expert Edges.

(* adding a dependency appends one fresh edge on the requested child and keeps "the i-th edge's
   index cell says i, no edge twice" — whether or not the node is necessary, whatever linking the
   child triggers (heights, invalidity propagation, callbacks) *)
Theorem C14_add_dependency_keeps_children_consistent :
  forall fuel n child cb s eid s' x nd,
    nodes s !! n = Some nd -> node_kind nd = Some (KExpert x) -> children_ok s x ->
    expert_add_dependency fuel n child cb s = (Ok eid, s') ->
    eid = length (edges s)
    /\ (exists ex ex', experts s !! x = Some ex /\ experts s' !! x = Some ex' /\ ex_children ex' = ex_children ex ++ [eid])
    /\ (exists ed, edges s' !! eid = Some ed /\ ed_child ed = child)
    /\ children_ok s' x.
Proof. exact add_dependency_children. Qed.

(* removing a dependency — any one of them, also one of two on the same child, also one whose child is
   invalid — takes exactly that edge out (swap with the last, pop), clears its cell, and keeps the
   vector consistent *)
Theorem C14_remove_dependency_keeps_children_consistent :
  forall fuel n eid s s' x nd ex,
    nodes s !! n = Some nd -> node_kind nd = Some (KExpert x) -> children_ok s x ->
    experts s !! x = Some ex -> eid ∈ ex_children ex ->
    expert_remove_dependency fuel n eid s = (Ok tt, s') ->
    children_ok s' x
    /\ (exists ex', experts s' !! x = Some ex' /\ forall e, e ∈ ex_children ex' <-> e ∈ ex_children ex /\ e <> eid)
    /\ (exists ed, edges s' !! eid = Some ed /\ ed_index ed = None).
Proof. exact remove_dependency_children. Qed.

(* nothing else rewires an expert node: linking and unlinking parents, (un)necessity cascades,
   invalidation and its propagation, height adjustment, make_stale leave every children vector and
   every edge's child / callback flag / index cell as they were, whatever their outcome *)
Theorem C14_only_add_and_remove_rewire :
  forall fuel,
    (forall a b c, pres Rdep (state_add_parent fuel a b c))
    /\ (forall n, pres Rdep (became_necessary fuel n))
    /\ (forall n, pres Rdep (became_unnecessary fuel n))
    /\ (forall n, pres Rdep (invalidate_node fuel n))
    /\ pres Rdep (propagate_invalidity fuel)
    /\ (forall n, pres Rdep (expert_make_stale n))
    /\ (forall x a b, pres Rdep (var_write x a) /\ pres Rdep (observer_read b)).
Proof. exact only_add_remove_rewire. Qed.

(* a node that has already run hears at once about the edge at a child index, with the child's
   current value (this is what linking a new dependency on an already computed child does); until
   its first run, and after being unobserved, it waits for the next recompute, which fires all *)
Theorem C14_callback_on_link_delivers_current_value :
  forall p x ci s ex e ed v,
    experts s !! x = Some ex -> ex_fire_all ex = false -> zget (ex_children ex) ci = Some e ->
    edges s !! e = Some ed -> ed_cb ed = CbLog -> node_value (S (ed_child ed)) s (ed_child ed) = Some v ->
    crash_at s <> Some (S (inv_count s)) ->
    run_edge_callback p x ci s =
      (Ok tt, s <| inv_count := S (inv_count s) |> <| events := EvEdgeCb p e v :: events s |>
                <| edges := alter (fun d => d <| ed_seen := Some v |>) e (edges s) |>).
Proof. exact run_edge_callback_delivers. Qed.

Theorem C14_callbacks_wait_for_the_first_recompute :
  forall p x ci s ex, experts s !! x = Some ex -> ex_fire_all ex = true -> run_edge_callback p x ci s = (Ok tt, s).
Proof. exact run_edge_callback_waits. Qed.

(* a dependency whose child has no value yet, or is invalid, does not panic its callback *)
Theorem C14_callback_skips_child_without_value :
  forall p e s ed, edges s !! e = Some ed -> node_value (S (ed_child ed)) s (ed_child ed) = None ->
    edge_on_change p e s = (Ok tt, s).
Proof. exact edge_on_change_no_value. Qed.

(* non-vacuity: the join idiom re-selecting the child it already has (two dependencies on one child,
   one removed), a dependency added from top level after the node ran, and unobserve / re-observe *)
Definition is_expert_ev (e : event) : bool :=
  match e with EvEdgeCb _ _ _ | EvExpertRun _ _ => true | _ => false end.
Example C14_nonvacuous :
  let h := [OpVar 3; OpVar 10; OpVar 20; OpExpert 0;
            OpMap 0 [ESwapDep 3 0 [1; 2]%nat true] [0%nat]; OpAddDep 3 4 1 true; OpObserve 3; OpStabilise; OpRead 0;
            OpSet 0 5; OpStabilise; OpRead 0;           (* 5 mod 2 = 1: the same child again *)
            OpAddDep 3 1 2 true; OpStabilise; OpRead 0;  (* added after the node ran, on a computed child *)
            OpDropObs 0; OpStabilise; OpSet 2 7; OpSet 0 4; OpObserve 3; OpStabilise; OpRead 1] in
  (fun e => (e.1.1, rev (filter (fun e => is_expert_ev e = true) (events e.2)))) <$> run_history 300 128 true h
  = [(Ok (OutNode 0), []); (Ok (OutNode 1), []); (Ok (OutNode 2), []); (Ok (OutNode 3), []);
     (Ok (OutNode 4), []); (Ok OutUnit, []); (Ok (OutObs 0), []);
     (Ok OutUnit, [EvEdgeCb 3 0 (VInt 3); EvEdgeCb 3 1 (VInt 20); EvExpertRun 3 (VInt 23)]);
     (Ok (OutRead (inl (VInt 23))), []);
     (Ok OutUnit, []);
     (Ok OutUnit, [EvEdgeCb 3 2 (VInt 20); EvEdgeCb 3 0 (VInt 5); EvExpertRun 3 (VInt 25)]);
     (Ok (OutRead (inl (VInt 25))), []);
     (Ok OutUnit, []);
     (Ok OutUnit, [EvEdgeCb 3 3 (VInt 10); EvExpertRun 3 (VInt 35)]);
     (Ok (OutRead (inl (VInt 35))), []);
     (Ok OutUnit, []); (Ok OutUnit, []); (Ok OutUnit, []); (Ok OutUnit, []); (Ok (OutObs 1), []);
     (* re-observed: every callback fires (in vector order after the swap-remove), then the node runs *)
     (Ok OutUnit, [EvEdgeCb 3 0 (VInt 4); EvEdgeCb 3 4 (VInt 10); EvEdgeCb 3 3 (VInt 10); EvExpertRun 3 (VInt 24)]);
     (Ok (OutRead (inl (VInt 24))), [])].
Proof. vm_compute. reflexivity. Qed.

(* swapping two children of an expert node (what remove_dependency does before popping the last one) exchanges
   the child indices of the two links on both ends — also when both edges lead to the same child *)
Theorem C14_swap_children_exchanges_the_links :
  forall n c1 c2 ci1 ci2 i1 i2 s s',
    link s c1 i1 n ci1 -> link s c2 i2 n ci2 -> ci1 <> ci2 ->
    expert_swap_children_except_in_kind n c1 ci1 c2 ci2 s = (Ok tt, s') ->
    link s' c1 i1 n ci2 /\ link s' c2 i2 n ci1.
Proof. exact swap_children_links. Qed.

Print Assumptions C14_add_dependency_keeps_children_consistent.
Print Assumptions C14_remove_dependency_keeps_children_consistent.
Print Assumptions C14_only_add_and_remove_rewire.
Print Assumptions C14_callback_on_link_delivers_current_value.
Print Assumptions C14_callbacks_wait_for_the_first_recompute.
Print Assumptions C14_callback_skips_child_without_value.
Print Assumptions C14_swap_children_exchanges_the_links.
