(* C16 — incremental-map per-key graph operators.  Statements about the engine model E
   (Model/Engine.v: zm_diff, perkey_visit, perkey_step — the transcription of the map_cyclic closure
   of incr_filter_mapi_generic in btree_map.rs / im_rc.rs); each closed by [exact].

   The theorems cover the operator's own bookkeeping: which keys one pass visits, and what it
   remembers afterwards.  That the accumulated output equals the per-entry computation after every
   stabilise depends on the whole propagation machinery and is decided by the correspondence run and
   its oracle, not by a theorem: see DESIGN.md. *)
From stdpp Require Import base list option numbers sorting.
From RecordUpdate Require Import RecordUpdate.
From Incr.Model Require Import Base Live Engine Api.
From Incr.Proofs Require Import Pres FramePkPrev PerKey.

(* one pass over the difference between the previous and the new input visits exactly the keys whose
   entry differs — removed (DLeft), added (DRight), changed (DUnequal) — each once, in ascending key
   order, for key-sorted maps of any size.  (C18 proves the same of the real symmetric_fold.) *)
Theorem C16_pass_visits_exactly_the_changed_keys :
  forall a b, zsorted a -> zsorted b ->
    (forall k d, (k, d) ∈ zm_diff a b -> diff_ok a b k d)
    /\ (forall k, zm_get k a <> zm_get k b -> exists d, (k, d) ∈ zm_diff a b)
    /\ StronglySorted (fun x y => (x.1 < y.1)%Z) (zm_diff a b).
Proof. exact zm_diff_spec. Qed.

(* after a successful pass the remembered input is the new input: the next pass diffs against what
   the per-key nodes were last built from *)
Theorem C16_remembered_input_is_the_new_input :
  forall fuel pk new s s',
    perkey_step fuel pk new s = (Ok tt, s') -> exists r, perkeys s' !! pk = Some r /\ pk_prev r = new.
Proof. exact perkey_step_sync. Qed.

(* handling one key (creating its node and calling the user's function, re-wiring, invalidating,
   making stale — with everything that cascades from there) never touches any operator's remembered
   input, whatever its outcome *)
Theorem C16_visiting_a_key_keeps_remembered_inputs :
  forall fuel pk kd, pres Rpk (perkey_visit fuel pk kd).
Proof. exact perkey_visit_keeps_prev. Qed.

(* non-vacuity: keys added, changed and removed, and a change of the outer variable every per-key
   computation depends on *)
Example C16_nonvacuous :
  let h := [OpVarMap [(1, 5); (2, 7)]%Z; OpVar 100;
            OpPerMapi 0 None (BindFn [] [([TMap 1 [] [OLocal 1 0; OOuter 1]], OLocal 0 0)]) false;
            OpObserve 2; OpStabilise; OpRead 0;
            OpSetMap 0 [(1, 5); (2, 8); (3, 1)]%Z; OpStabilise; OpRead 0;
            OpSet 1 200; OpStabilise; OpRead 0;
            OpSetMap 0 [(3, 1)]%Z; OpStabilise; OpRead 0] in
  (fun e => e.1.1) <$> run_history 400 128 true h
  = [Ok (OutNode 0); Ok (OutNode 1); Ok (OutNode 5); Ok (OutObs 0); Ok OutUnit;
     Ok (OutRead (inl (VMap [(1, 106); (2, 109)]%Z)));
     Ok OutUnit; Ok OutUnit;
     Ok (OutRead (inl (VMap [(1, 106); (2, 110); (3, 104)]%Z)));
     Ok OutUnit; Ok OutUnit;
     Ok (OutRead (inl (VMap [(1, 206); (2, 210); (3, 204)]%Z)));
     Ok OutUnit; Ok OutUnit; Ok (OutRead (inl (VMap [(3, 204)]%Z)))].
Proof. vm_compute. reflexivity. Qed.

Print Assumptions C16_pass_visits_exactly_the_changed_keys.
Print Assumptions C16_remembered_input_is_the_new_input.
Print Assumptions C16_visiting_a_key_keeps_remembered_inputs.
