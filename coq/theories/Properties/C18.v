(* C18 — symmetric diff and ordered merge visit exactly the differing keys once, in order.
   This file contains nothing but the pinned statements, each closed by [exact]. *)
From stdpp Require Import base list option numbers sorting.
From Incr.Model Require Import SymDiff.
From Incr.Proofs Require Import SymDiffProofs.

(* [diff_at a b k] (SymDiffProofs.v) is what the property prescribes for key k:
   Left v if only in a, Right v if only in b, Unequal v w if in both with v <> w, nothing otherwise. *)

(* the borrowed iterator (BTreeMap, Rc<BTreeMap>): never runs out of fuel, visits keys in
   strictly ascending order (hence each at most once), and visits exactly what diff_at says *)
Theorem C18_symmetric_diff_exact :
  forall (V : Type) (EqV : EqDecision V) (a b : list (Z * V)),
    sorted_map a -> sorted_map b ->
    exists out, symmetric_diff a b = Some out
      /\ StronglySorted Z.lt (fst <$> out)
      /\ (forall k e, (k, e) ∈ out <-> diff_at a b k = Some (k, e)).
Proof.
  intros V EqV a b Ha Hb. exists (diff_spec a b). split_and!.
  - exact (symmetric_diff_correct a b Ha Hb).
  - exact (diff_spec_sorted a b Ha Hb).
  - intros k e. exact (diff_spec_elem a b k e Ha Hb).
Qed.

Theorem C18_nothing_when_equal :
  forall (V : Type) (EqV : EqDecision V) (a : list (Z * V)),
    sorted_map a -> symmetric_diff a a = Some [].
Proof.
  intros V EqV a Ha. rewrite (symmetric_diff_correct a a Ha Ha). f_equal.
  exact (diff_spec_refl a Ha).
Qed.

(* the owned iterator yields the same sequence (with keys attached) *)
Theorem C18_symmetric_diff_owned_same :
  forall (V : Type) (EqV : EqDecision V) (a b : list (Z * V)),
    symmetric_diff_owned a b = Some (own <$> diff_spec a b).
Proof. intros V EqV a b. exact (symmetric_diff_owned_correct a b). Qed.

(* the ordered merge of two keyed streams: pairs equal keys, otherwise global key order,
   no key skipped or visited twice *)
Theorem C18_merge_once_with_exact :
  forall (L R : Type) (a : list (Z * L)) (b : list (Z * R)),
    StronglySorted Z.lt (keys a) -> StronglySorted Z.lt (keys b) ->
    exists out, merge_once_with a b = Some out
      /\ StronglySorted Z.lt (merge_elem_key <$> out)
      /\ (forall x, x ∈ out <-> merge_at a b (merge_elem_key x) = Some x).
Proof.
  intros L R a b Ha Hb. exists (merge_spec a b). split_and!.
  - exact (merge_once_with_correct a b).
  - exact (merge_spec_sorted a b Ha Hb).
  - intros x. exact (merge_spec_elem a b x Ha Hb).
Qed.

(* MergeOnce over plain key streams: sorted union, ties once *)
Theorem C18_merge_once_exact :
  forall a b : list Z, StronglySorted Z.lt a -> StronglySorted Z.lt b ->
    exists out, mo_collect (S (length a + length b)) (MO a b None) = Some out
      /\ StronglySorted Z.lt out /\ (forall k, k ∈ out <-> k ∈ a \/ k ∈ b).
Proof. exact merge_once_correct. Qed.

(* non-vacuity: a concrete pair meets the premises and has a non-trivial diff *)
Example C18_nonvacuous :
  sorted_map [(1, 10); (2, 20); (3, 30)]%Z /\ sorted_map [(1, 10); (3, 31); (4, 40)]%Z
  /\ symmetric_diff [(1, 10); (2, 20); (3, 30)]%Z [(1, 10); (3, 31); (4, 40)]%Z
     = Some [(2, DLeft 20); (3, DUnequal 30 31); (4, DRight 40)]%Z.
Proof.
  split_and!; [repeat constructor; lia..|vm_compute; reflexivity].
Qed.

Print Assumptions C18_symmetric_diff_exact.
Print Assumptions C18_nothing_when_equal.
Print Assumptions C18_symmetric_diff_owned_same.
Print Assumptions C18_merge_once_with_exact.
Print Assumptions C18_merge_once_exact.
