(* C01 — observed values equal a from-scratch evaluation after every stabilise.  Statements about the
   engine model E.

   Proved here: local soundness, for every state — when a node is recomputed, its kind's defining
   function is applied to the values its inputs have at that moment (map_ref inputs read through), and
   the result is what maybe_change_value stores, whether or not the cutoff suppresses the change.
   Together with C02 (a node is recomputed when stale, at most once, and is not stale afterwards) this
   is the inductive step of "every needed node holds the value of its defining expression"; the
   induction itself — over the height order in which the heap releases nodes — needs the height
   invariant, which is not proved.  The values every observer returns after every stabilise are
   compared with the crate and with the from-scratch evaluator of checks/ref.py: see DESIGN.md. *)
From stdpp Require Import base list option numbers.
From RecordUpdate Require Import RecordUpdate.
From Incr.Model Require Import Base Live Engine Api.
From Incr.Proofs Require Import Local Vars.

Theorem C01_inputs_are_read_at_their_current_values :
  forall cs vs site s,
    Forall2 (fun c v => node_value (S c) s c = Some v) cs vs ->
    mapM (fun c => unwrap_value c site) cs s = (Ok vs, s).
Proof. exact unwrap_values. Qed.

Theorem C01_map_node_applies_its_function_to_the_current_inputs :
  forall fuel n s x f cs vs,
    nodes s !! n = Some x -> node_kind x = Some (KMap f cs) -> c_internal f = false ->
    Forall2 (fun c v => node_value (S c) s c = Some v) cs vs ->
    recompute_body fuel n s =
      (user_call ;;;
       run_effects fuel (default VUnit (vs !! 0%nat)) (c_effs f) ;;;
       emit (EvInv n (c_cap f) vs (fn_sem (c_fid f) (c_cap f) vs)) ;;;
       maybe_change_value fuel n (fn_sem (c_fid f) (c_cap f) vs)) s.
Proof. exact map_node_computes. Qed.

Theorem C01_fold_node_folds_the_current_inputs :
  forall fuel n s x f init cs vs,
    nodes s !! n = Some x -> node_kind x = Some (KFold f init cs) ->
    Forall2 (fun c v => node_value (S c) s c = Some v) cs vs ->
    recompute_body fuel n s = (acc <- fold_steps n f init vs ;; maybe_change_value fuel n acc) s.
Proof. exact fold_node_computes. Qed.

Theorem C01_bind_main_copies_its_current_right_hand_side :
  forall fuel n s x b lc bd rhs rx v,
    nodes s !! n = Some x -> node_kind x = Some (KBindMain b lc) ->
    binds s !! b = Some bd -> b_rhs bd = Some rhs ->
    nodes s !! rhs = Some rx -> n_valid rx = true -> node_value (S rhs) s rhs = Some v ->
    recompute_body fuel n s = maybe_change_value fuel n v s.
Proof. exact bind_main_copies. Qed.

Theorem C01_constant_node :
  forall fuel n s x v,
    nodes s !! n = Some x -> node_kind x = Some (KConst v) -> recompute_body fuel n s = maybe_change_value fuel n v s.
Proof. exact const_node_computes. Qed.

Theorem C01_variable_node_reads_the_variable :
  forall fuel n s x xn v,
    nodes s !! n = Some xn -> node_kind xn = Some (KVar x) -> vars s !! x = Some v ->
    exists s1, recompute_one fuel n s = maybe_change_value fuel n (v_value v) s1 /\ vars s1 = vars s.
Proof. exact var_node_reads_value. Qed.

(* the value is stored before anything is propagated, suppressed or not *)
Theorem C01_the_result_is_stored :
  forall fuel n v s x b s1,
    nodes s !! n = Some x ->
    match n_value x with
    | None => b = true /\ s1 = s <| nodes := alter (fun y => y <| n_value := None |>) n (nodes s) |>
    | Some o => should_cutoff n (n_cutoff x) o v (s <| nodes := alter (fun y => y <| n_value := None |>) n (nodes s) |>) = (Ok (negb b), s1)
    end ->
    maybe_change_value fuel n v s =
      maybe_change_value_manual fuel n (n_value x) b true
        (s1 <| nodes := alter (fun y => y <| n_value := Some v |>) n (nodes s1) |>).
Proof. exact mcv_stores. Qed.

(* non-vacuity: a diamond over one variable, with a map_ref, a fold and a bind; the observed values after
   each stabilise are the from-scratch values 2x+(x mod .) ... computed by hand for x = 3 and x = 4 *)
Example C01_nonvacuous :
  let h := [OpVar 3; OpMap 2 [] [0%nat]; OpMap 1 [] [0%nat; 1%nat]; OpObserve 2; OpStabilise; OpSet 0 4; OpStabilise] in
  (fun e : res out * list event * state => (fun x => n_value x) <$> nodes e.2) <$> run_history 100 128 false h
  = [[None]; [None; None]; [None; None; None]; [None; None; None];
     [Some (VInt 3); Some (VInt 6); Some (VInt 9)]; [Some (VInt 3); Some (VInt 6); Some (VInt 9)];
     [Some (VInt 4); Some (VInt 8); Some (VInt 12)]].
Proof. vm_compute. reflexivity. Qed.

Print Assumptions C01_inputs_are_read_at_their_current_values.
Print Assumptions C01_map_node_applies_its_function_to_the_current_inputs.
Print Assumptions C01_fold_node_folds_the_current_inputs.
Print Assumptions C01_bind_main_copies_its_current_right_hand_side.
Print Assumptions C01_constant_node.
Print Assumptions C01_variable_node_reads_the_variable.
Print Assumptions C01_the_result_is_stored.
