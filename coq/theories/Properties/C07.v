(* C07 — observer values move only at stabilise boundaries.  Statements about the engine model E. *)
From stdpp Require Import base list option numbers.
From Incr.Model Require Import Base Live Engine Api.
From Incr.Proofs Require Import Pres FrameStatus FrameRead Reads Poisoned.

(* [read_result s o] is what try_get_value returns for observer o in state s.
   Any operation of the API other than stabilise — variable writes of all five kinds, node and bind
   construction, new observers, subscriptions, cutoff changes, handle drops, height reconfiguration —
   leaves the read of every observer exactly as it was, except for the one observer the operation
   itself disallows or drops.  (The observer must exist and observe an existing node.)  The
   dependency surgery of the expert API is left out: it belongs inside a stabilisation (debug builds
   refuse it elsewhere), and a release build that invalidates an expert node from top level does
   change reads on the spot. *)
Theorem C07_reads_move_only_at_stabilise :
  forall fuel st op s o ob,
    op <> OpStabilise -> expert_op op = false -> op_target op <> Some o ->
    obss s !! o = Some ob -> is_Some (nodes s !! o_observing ob) ->
    Forall (fun e => read_result e.2 o = read_result s o) (run fuel [op] st s).
Proof. exact run_one_read_frame. Qed.

(* the same over any sequence of operations between two stabilisations: however many writes, new nodes,
   new observers, subscriptions and drops the program performs, in whatever order, the read of an observer
   it does not itself disallow or drop is the one the last stabilise left *)
Theorem C07_reads_constant_between_stabilises :
  forall fuel ops st s o ob,
    Forall (fun op => op <> OpStabilise) ops ->
    Forall (fun op => expert_op op = false /\ op_target op <> Some o) ops ->
    obss s !! o = Some ob -> is_Some (nodes s !! o_observing ob) ->
    Forall (fun e => read_result e.2 o = read_result s o) (run fuel ops st s).
Proof. exact run_nonstab_reads_frozen. Qed.

(* a new observer returns NeverStabilised *)
Theorem C07_new_observer_never_stabilised :
  forall fuel st h s st' o s',
    step fuel st (OpObserve h) s = (Ok (st', OutObs o), s') -> st_status s <> Stabilising ->
    read_result s' o = Ok (inr ERR_NEVER_STABILISED).
Proof. exact observe_read. Qed.

(* from inside a node function (status Stabilising) every read is refused rather than answered
   with a half-updated value; and nothing below stabilise changes the status *)
Theorem C07_read_during_stabilise_is_refused :
  forall o s ob, obss s !! o = Some ob -> st_status s = Stabilising ->
    observer_read o s = (Ok (inr ERR_CURRENTLY_STABILISING), s).
Proof. exact read_refused. Qed.

Theorem C07_status_constant_during_propagation :
  forall fuel s, st_status (stabilise_loop fuel s).2 = st_status s.
Proof. intros fuel s. exact (pres_status _ s (st_stabilise_loop fuel)). Qed.

(* non-vacuity: writes and new nodes between two stabilises do not move the read *)
Example C07_nonvacuous :
  let h := [OpVar 1; OpMap 2 [] [0%nat]; OpObserve 1; OpStabilise; OpRead 0; OpSet 0 5; OpMap 1 [] [0%nat; 1%nat];
            OpObserve 2; OpRead 0; OpRead 1; OpStabilise; OpRead 0; OpRead 1] in
  (fun e => e.1.1) <$> run_history 100 128 true h
  = [Ok (OutNode 0); Ok (OutNode 1); Ok (OutObs 0); Ok OutUnit; Ok (OutRead (inl (VInt 2))); Ok OutUnit;
     Ok (OutNode 2); Ok (OutObs 1); Ok (OutRead (inl (VInt 2))); Ok (OutRead (inr ERR_NEVER_STABILISED));
     Ok OutUnit; Ok (OutRead (inl (VInt 10))); Ok (OutRead (inl (VInt 15)))].
Proof. vm_compute. reflexivity. Qed.

Print Assumptions C07_reads_move_only_at_stabilise.
Print Assumptions C07_new_observer_never_stabilised.
Print Assumptions C07_read_during_stabilise_is_refused.
Print Assumptions C07_status_constant_during_propagation.
Print Assumptions C07_reads_constant_between_stabilises.
