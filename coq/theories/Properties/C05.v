(* C05 — only nodes needed by a live observer are ever computed.  Statements about the engine model E.

   Proved here: the mechanisms by which unneeded nodes stay out of the recompute heap, each for every
   state.  A node is "necessary" (is_necessary, Engine.v) when it has a dependant recorded in its parents
   array, an observer, or the force_necessary pin.
     - with nothing queued the propagation phase does nothing: no recompute, no node function;
     - writing a variable whose watch node is not necessary queues nothing;
     - check_if_unnecessary — run after every removal of a parent edge and of an observer — starts the
       became_unnecessary cascade exactly for a node that is no longer necessary, and when that returns
       the node is out of the heap;
     - the stabilise loop only ever recomputes what remove_min hands it (or a dependant reached by the
       direct-recompute shortcut), and remove_min hands out queued nodes only (C11, C02).
   And globally, for debug builds (where the heap's preconditions are asserted): in every history, up to
   the first operation that fails, every node in the recompute heap is necessary; so every node the
   stabilise loop takes out of the heap is necessary at that moment.
   Not proved: that "necessary" coincides with "in the dependency cone of a live observer" (this needs
   the edge invariant: every recorded parent is itself necessary and every necessary parent is
   recorded), and release builds.  The invocation log of every
   stabilisation is compared with the crate and with the cone computed by the oracle: see DESIGN.md. *)
From stdpp Require Import base list option numbers.
From RecordUpdate Require Import RecordUpdate.
From Incr.Model Require Import Base Live Engine Api.
From Incr.Proofs Require Import Pres RchInv RchMin Needed OkPres HeapNeeded FrameHeapNec ForcePin FrameForcePin Histories.
Local Open Scope Z_scope.

Theorem C05_nothing_queued_nothing_runs :
  forall fuel s, rch_len s = 0 -> stabilise_loop (S fuel) s = (Ok tt, s).
Proof. exact nothing_queued_nothing_runs. Qed.

(* ... where, in a debug build, the counter is exact in every reachable state (C11): it is 0 exactly
   when no queue holds a node *)
Theorem C05_counter_zero_means_every_queue_is_empty :
  forall s h q, rch_extra s -> rch_len s = 0 -> rch_queues s !! h = Some q -> q = [].
Proof. intros s h q [A _] H0 Hq. eapply qtotal_zero_all_nil; [|exact Hq]. congruence. Qed.

Theorem C05_unneeded_variable_write_queues_nothing :
  forall x s v w wn,
    vars s !! x = Some v -> v_node v = Some w -> nodes s !! w = Some wn -> is_necessary wn = false ->
    rch_queues (did_set_var_while_not_stabilising x s).2 = rch_queues s
    /\ rch_len (did_set_var_while_not_stabilising x s).2 = rch_len s.
Proof. exact unneeded_var_write_queues_nothing. Qed.

Theorem C05_check_if_unnecessary_starts_the_cascade :
  forall f n s x, nodes s !! n = Some x ->
    check_if_unnecessary (S f) n s = if is_necessary x then (Ok tt, s) else became_unnecessary f n s.
Proof. exact check_if_unnecessary_eq. Qed.

Theorem C05_a_node_that_stops_being_needed_leaves_the_heap :
  forall f n s s', became_unnecessary (S f) n s = (Ok tt, s') ->
    exists x, nodes s' !! n = Some x /\ n_height_in_rch x < 0.
Proof. exact became_unnecessary_leaves_heap. Qed.

(* ---- globally.  [HNx [] s]: s is a debug-build state in which every node whose cell says it is in the
   recompute heap is necessary.  [while_ok l P]: P holds after every operation of the history l up to the
   first one that does not return normally (after a panic the library has abandoned an update half-way). *)
Theorem C05_queued_nodes_are_necessary_in_every_history :
  forall fuel max_height ops, while_ok (run_history fuel max_height true ops) (HNx []).
Proof. exact history_heap_needed. Qed.

(* every engine operation keeps it, from any state, for any set X of nodes that are currently exempt
   because their last dependant or observer has just been removed and their check is still to come *)
Theorem C05_every_operation_keeps_queued_nodes_necessary :
  forall fuel st o X, okp (HNx X) (step fuel st o).
Proof. exact hn_step. Qed.

(* the cascade: removing a parent edge opens an exemption for the child, check_if_unnecessary closes it *)
Theorem C05_exemptions_are_opened_and_closed :
  (forall a b c X, okp2 (HNx X) (HNx (a :: X)) (remove_parent a b c))
  /\ (forall fuel n X, okp2 (HNx (n :: X)) (HNx X) (check_if_unnecessary fuel n)).
Proof. split; [exact hn_remove_parent_opens|exact hn_check_closes]. Qed.

(* so what the stabilise loop takes out of the heap is a necessary node *)
Theorem C05_popped_node_is_necessary :
  forall s n s', HNx [] s -> rch_inv s -> rch_extra s ->
    rch_remove_min s = (Ok (Some n), s') ->
    exists x, nodes s !! n = Some x /\ is_necessary x = true.
Proof. exact popped_node_is_necessary. Qed.

(* "necessary" at a quiescent point means: has a recorded dependant or an observer.  The third disjunct of
   is_necessary, the force_necessary pin, is only set while change_child_bind_rhs rewires a bind's
   right-hand side: after every operation of every history (both builds, up to the first failing one) no node
   carries it *)
Theorem C05_no_node_is_pinned_between_operations :
  forall fuel max_height dbg ops, while_ok (run_history fuel max_height dbg ops) (FNx []).
Proof. exact history_no_pin. Qed.

Theorem C05_necessary_means_has_a_dependant_or_an_observer :
  forall s n x, FNx [] s -> nodes s !! n = Some x ->
    is_necessary x = negb (bool_decide (n_parents x = [])) || negb (bool_decide (n_observers x = [])).
Proof. exact no_pin_necessary. Qed.

(* non-vacuity: the only observer of a chain is dropped; the next stabilise unlinks it, the cascade empties
   the heap, and the variable write after that queues nothing: two stabilisations without a single
   recompute event *)
Example C05_nonvacuous :
  let h := [OpVar 1; OpMap 2 [] [0%nat]; OpMap 2 [] [1%nat]; OpObserve 2; OpStabilise; OpSet 0 5; OpDropObs 0;
            OpStabilise; OpSet 0 6; OpStabilise] in
  (fun e : res out * list event * state =>
     (length (List.filter (fun ev => match ev with EvRecompute _ => true | _ => false end) e.1.2), rch_len e.2))
    <$> run_history 100 128 true h
  = [(0%nat, 0); (0%nat, 0); (0%nat, 0); (0%nat, 0); (3%nat, 0); (0%nat, 1); (0%nat, 1); (0%nat, 0); (0%nat, 0); (0%nat, 0)].
Proof. vm_compute. reflexivity. Qed.

Print Assumptions C05_nothing_queued_nothing_runs.
Print Assumptions C05_counter_zero_means_every_queue_is_empty.
Print Assumptions C05_unneeded_variable_write_queues_nothing.
Print Assumptions C05_check_if_unnecessary_starts_the_cascade.
Print Assumptions C05_a_node_that_stops_being_needed_leaves_the_heap.
Print Assumptions C05_queued_nodes_are_necessary_in_every_history.
Print Assumptions C05_every_operation_keeps_queued_nodes_necessary.
Print Assumptions C05_exemptions_are_opened_and_closed.
Print Assumptions C05_popped_node_is_necessary.
Print Assumptions C05_no_node_is_pinned_between_operations.
Print Assumptions C05_necessary_means_has_a_dependant_or_an_observer.
