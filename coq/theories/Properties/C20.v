(* C20 — weak_memoize_fn returns one shared node per live key, whatever the calling scope.
   Statements about the engine model E (Model/{Base,Engine,Api}.v: memo_call, within_scope,
   instantiate); each closed by [exact]. *)
From stdpp Require Import base list option numbers.
From RecordUpdate Require Import RecordUpdate.
From Incr.Model Require Import Base Live Engine Api.
From Incr.Proofs Require Import Pres FrameScope Memo.

(* while the node returned earlier for a key is still allocated, a call with that key returns that
   same node and does nothing else: the state (event log, invocation counter, graph) is unchanged, so
   the underlying function is not invoked — from whatever scope the call is made *)
Theorem C20_live_key_returns_same_node :
  forall f p m k s mm n x,
    memos s !! m = Some mm -> assoc_find k (m_table mm) = Some n -> nodes s !! n = Some x -> n_live x = true ->
    memo_call (S f) p m k s = (Ok n, s).
Proof. exact memo_call_hit. Qed.

(* two calls in a row, the first of any kind: the second returns the first's node, untouched state *)
Theorem C20_second_call_shares_the_node :
  forall f f' p p' m k s n s' x,
    memo_call (S f) p m k s = (Ok n, s') -> nodes s' !! n = Some x -> n_live x = true ->
    memo_call (S f') p' m k s' = (Ok n, s').
Proof. exact memo_call_twice. Qed.

(* a new key, or a key whose node has been freed: the underlying function runs again (its event is
   logged, its template is instantiated with the key), in the scope weak_memoize_fn was called in;
   afterwards the caller's scope is restored, the key is bound to the new result and the function's own
   temporaries are released ([p]: what the enclosing frames still hold) *)
Theorem C20_dead_or_new_key_invokes_function :
  forall f p m k s mm n s',
    memos s !! m = Some mm -> memo_miss s mm k -> memo_call (S f) p m k s = (Ok n, s') ->
    exists s1 s2, cur_scope s1 = m_scope mm /\ events s1 = EvMemoFn m k :: events s /\ nodes s1 = nodes s /\ memos s1 = memos s
      /\ instantiate f p (VInt k) (m_body mm) (m_ret mm) s1 = (Ok (Some n), s2)
      /\ s' = (collect (ONode n :: (ONode <$> p))
                 (s2 <| cur_scope := cur_scope s |>
                     <| memos := alter (fun mm => mm <| m_table := assoc_set k n (m_table mm) |>) m (memos s2) |>)).2.
Proof. exact memo_call_miss. Qed.

Theorem C20_call_restores_callers_scope :
  forall f p m k s n s', memo_call (S f) p m k s = (Ok n, s') -> cur_scope s' = cur_scope s.
Proof. exact memo_call_restores_scope. Qed.

(* every node created by a memoised call — directly, or by memoised functions it calls, whatever the
   outcome of the call and whatever scope it is made from — belongs to a scope in which some
   weak_memoize_fn was called, never to the caller's scope as such *)
Theorem C20_created_nodes_belong_to_creation_scopes :
  forall fuel p m k s i x,
    length (nodes s) <= i -> nodes (memo_call fuel p m k s).2 !! i = Some x -> n_created_in x ∈ memo_scopes s.
Proof. exact memo_call_new_nodes_scope. Qed.

(* in particular, when the functions were memoised at top level, a node obtained inside a bind
   closure is a top-level node: the bind's re-run or disposal (which invalidates exactly the nodes
   created in its scope, C03) does not touch it *)
Theorem C20_top_level_functions_create_top_level_nodes :
  forall fuel p m k s, Forall (fun mm => m_scope mm = STop) (memos s) ->
    forall i x, length (nodes s) <= i -> nodes (memo_call fuel p m k s).2 !! i = Some x -> n_created_in x = STop.
Proof. exact memo_call_top_scope. Qed.

(* the scope discipline for templates in general (bind closures included): scopes of memoised
   functions never change, and every new node or memoised function belongs to a scope in play *)
Theorem C20_scope_frame :
  forall fuel, (forall p v b r, pres Qsc (instantiate fuel p v b r)) /\ (forall p m k, pres Qsc (memo_call fuel p m k)).
Proof. exact sc_instantiate_memo. Qed.

(* non-vacuity: a history with calls from top level and from a bind closure.  The function runs for
   the first call, not for the second; after the handles are dropped it runs again; the bind closure
   (lhs 1) runs it for key 1 and the top-level call for key 1 gets that node; the bind re-runs with
   lhs 2; the node obtained for key 1 is still valid and reads the right value afterwards. *)
Definition is_memo_ev (e : event) : bool := match e with EvMemoFn _ _ => true | _ => false end.
Example C20_nonvacuous :
  let h := [OpVar 1; OpMemoNew (BindFn [] [([TConstLhs; TMap 1 [] [OLocal 0 0; OOuter 0]], OLocal 0 1)]);
            OpMemoCall 0 5; OpMemoCall 0 5; OpDropNode 1; OpDropNode 2; OpMemoCall 0 5; OpDropNode 3; OpMemoCall 0 5;
            OpBind 0 (BindFn [] [([TMemoCall 0 None], OLocal 0 0)]); OpObserve 5; OpStabilise; OpMemoCall 0 1;
            OpSet 0 2; OpStabilise; OpRead 0; OpObserve 6; OpStabilise; OpRead 1] in
  (fun e => (e.1.1, filter (fun e => is_memo_ev e = true) (events e.2))) <$> run_history 200 128 true h
  = [(Ok (OutNode 0), []); (Ok OutUnit, []);
     (Ok (OutNode 2), [EvMemoFn 0 5]); (Ok (OutNode 2), []);
     (Ok OutUnit, []); (Ok OutUnit, []); (Ok (OutNode 4), [EvMemoFn 0 5]);
     (Ok OutUnit, []); (Ok (OutNode 6), [EvMemoFn 0 5]);
     (Ok (OutNode 8), []); (Ok (OutObs 0), []);
     (Ok OutUnit, [EvMemoFn 0 1]); (Ok (OutNode 10), []);
     (Ok OutUnit, []); (Ok OutUnit, [EvMemoFn 0 2]);
     (Ok (OutRead (inl (VInt 6))), []); (Ok (OutObs 1), []);
     (Ok OutUnit, []); (Ok (OutRead (inl (VInt 4))), [])].
Proof. vm_compute. reflexivity. Qed.

Print Assumptions C20_live_key_returns_same_node.
Print Assumptions C20_second_call_shares_the_node.
Print Assumptions C20_dead_or_new_key_invokes_function.
Print Assumptions C20_call_restores_callers_scope.
Print Assumptions C20_created_nodes_belong_to_creation_scopes.
Print Assumptions C20_top_level_functions_create_top_level_nodes.
Print Assumptions C20_scope_frame.
