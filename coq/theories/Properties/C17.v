(* C17 — incremental-map does work proportional to the change, not to the map.
   Statements about the step functions of Model/MapOps.v: their third component is the list of
   user-function invocations the step makes. *)
From stdpp Require Import base list option numbers sorting.
From Incr.Model Require Import SymDiff MapOps.
From Incr.Proofs Require Import SymDiffProofs SortedMaps MapOpsProofs.

(* incr_(filter_)map(i): on a non-empty new input the user function is invoked exactly on the keys that
   were added or whose value changed, each once, in key order — never for an unchanged key *)
Theorem C17_filter_mapi_calls_only_changed_keys :
  forall (V V2 : Type) (EqV : EqDecision V) (f : Z -> V -> option V2) old_in input n,
    sorted_map old_in -> sorted_map input -> length input = S n ->
    exists out ch,
      fm_step f (Some (old_in, filter_map_collect f old_in)) input = Some (out, ch, fm_called (diff_spec old_in input))
      /\ StronglySorted Z.lt (fm_called (diff_spec old_in input))
      /\ forall k, k ∈ fm_called (diff_spec old_in input) ->
           assoc_get old_in k <> assoc_get input k /\ is_Some (assoc_get input k).
Proof. intros V V2 EqV f. exact (fm_step_calls f). Qed.

(* (re)initialising processes every key once *)
Theorem C17_filter_mapi_initial_calls :
  forall (V V2 : Type) (EqV : EqDecision V) (f : Z -> V -> option V2) input,
    fm_step f None input = Some (filter_map_collect f input, true, keys input).
Proof. intros V V2 EqV f. exact (fm_step_initial f). Qed.

(* incr_unordered_fold: add / remove / update are invoked only for keys whose presence or value differs *)
Theorem C17_unordered_fold_calls_only_changed_keys :
  forall (V R : Type) (EqV : EqDecision V) (add remove : R -> Z -> V -> R)
         (update : option (R -> Z -> V -> V -> R)),
    (forall acc k v, remove (add acc k v) k v = acc) ->
    (forall acc k v k' v', k <> k' -> add (add acc k v) k' v' = add (add acc k' v') k v) ->
    (forall u, update = Some u -> forall acc k v v', u acc k v v' = add (remove acc k v) k v') ->
    forall a b, sorted_map a -> sorted_map b ->
    forall r k, (r, k) ∈ uf_called update (diff_spec a b) -> assoc_get a k <> assoc_get b k.
Proof. intros V R EqV add remove update H1 H2 H3. exact (uf_calls_on_changed_keys add remove update H1 H2 H3). Qed.

Theorem C17_unordered_fold_step_calls :
  forall (V R : Type) (EqV : EqDecision V) (add remove : R -> Z -> V -> R)
         (update : option (R -> Z -> V -> V -> R)) (init : R) a b c0,
    (forall acc k v, remove (add acc k v) k v = acc) ->
    (forall acc k v k' v', k <> k' -> add (add acc k v) k' v' = add (add acc k' v') k v) ->
    (forall u, update = Some u -> forall acc k v v', u acc k v v' = add (remove acc k v) k v') ->
    sorted_map a -> sorted_map b ->
    foldl (uf_apply add remove update) (FOLD add init a, c0) (diff_spec a b)
    = (FOLD add init b, c0 ++ uf_called update (diff_spec a b)).
Proof. intros V R EqV add remove update init a b c0 H1 H2 H3. exact (uf_fold_correct add remove update init H1 H2 H3 a b c0). Qed.

Example C17_nonvacuous :
  fm_called (diff_spec [(1, 5); (2, 0); (4, 7)]%Z [(1, 5); (2, 3); (3, 9)]%Z) = [2; 3]%Z.
Proof. vm_compute. reflexivity. Qed.

Print Assumptions C17_filter_mapi_calls_only_changed_keys.
Print Assumptions C17_filter_mapi_initial_calls.
Print Assumptions C17_unordered_fold_calls_only_changed_keys.
Print Assumptions C17_unordered_fold_step_calls.
