(* C06 — cutoffs gate propagation exactly.  Statements about E.  A dependant is (re)run only when it
   is stale, i.e. never ran or an input's [changed_at] is later than its [recomputed_at]
   ([is_stale], Engine.v); these theorems say when [changed_at] moves. *)
From stdpp Require Import base list option numbers.
From RecordUpdate Require Import RecordUpdate.
From Incr.Model Require Import Base Live Engine Api.
From Incr.Proofs Require Import Pres FrameChg Cutoffs.
Local Open Scope Z_scope.

(* Cutoff::Never always propagates, Cutoff::Always never does once there is an old value, the default
   compares with PartialEq *)
Theorem C06_never_always_default :
  forall n o v s,
    should_cutoff n CNever o v s = (Ok false, s)
    /\ should_cutoff n CAlways o v s = (Ok true, s)
    /\ should_cutoff n CPartialEq o v s = (Ok (val_eqb o v), s).
Proof. intros. split_and!; done. Qed.

(* function cutoffs (fn and boxed closure) are consulted exactly once with (old, new) in that order and
   their answer decides *)
Theorem C06_fn_cutoff_consulted_with_old_then_new :
  forall n cid o v s r s',
    (should_cutoff n (CFn cid) o v s = (Ok r, s') \/ should_cutoff n (CBoxed cid) o v s = (Ok r, s')) ->
    r = cut_sem cid o v /\ events s' = EvCut n o v r :: events s /\ inv_count s' = S (inv_count s).
Proof.
  intros n cid o v s r s' [H|H]; [apply should_cutoff_fn in H|apply should_cutoff_boxed in H]; tauto.
Qed.

(* a suppressed result stops here: the node's value is replaced, nothing else happens — no timestamp
   moves, no dependant is queued or run *)
Theorem C06_suppressed_result_stops_propagation :
  forall fuel n v s x o s1,
    nodes s !! n = Some x -> n_value x = Some o ->
    should_cutoff n (n_cutoff x) o v (s <| nodes := alter (fun y => y <| n_value := None |>) n (nodes s) |>) = (Ok true, s1) ->
    maybe_change_value fuel n v s = (Ok None, s1 <| nodes := alter (fun y => y <| n_value := Some v |>) n (nodes s1) |>).
Proof. exact mcv_suppressed. Qed.

(* an unsuppressed result (no old value, or the cutoff said no) stamps the node with the current
   stabilisation number — which makes every dependant stale (next theorem) — whatever else happens *)
Theorem C06_unsuppressed_result_is_stamped :
  forall fuel n old run_cc s r s' x,
    nodes s !! n = Some x ->
    maybe_change_value_manual fuel n old true run_cc s = (Ok r, s') ->
    exists x', nodes s' !! n = Some x' /\ n_changed_at x' = stab_num s.
Proof. exact mcv_manual_changed. Qed.

Theorem C06_stale_iff_input_stamped_since_last_run :
  forall s x, n_valid x = true ->
    match n_kind x with KVar _ | KConst _ | KExpert _ => False | _ => True end ->
    is_stale s x = bool_decide (n_recomputed_at x = -1)
                   || existsb (fun c => match nodes s !! c with
                                        | Some cx => bool_decide (n_recomputed_at x < n_changed_at cx)
                                        | None => false end) (children_of s x).
Proof. exact is_stale_spec. Qed.

(* non-vacuity: a default cutoff stops an equal result (the dependant is not re-invoked), Never lets it through *)
Example C06_nonvacuous :
  let h c := [OpVar 2; OpMap 5 [] [0%nat]; OpMap 2 [] [1%nat]; OpSetCutoff 1 c; OpObserve 2; OpStabilise;
              OpSet 0 5; OpStabilise] in
  let invs c := (fun e : res out * list event * state =>
                   omap (M := list) (fun ev => match ev with EvInv n _ _ _ => Some n | _ => None end) e.1.2)
                <$> run_history 100 128 true (h c) in
  stdpp.list.last (invs CPartialEq) = Some [1%nat] /\ stdpp.list.last (invs CNever) = Some [1%nat; 2%nat].
Proof. vm_compute. done. Qed.

Print Assumptions C06_never_always_default.
Print Assumptions C06_fn_cutoff_consulted_with_old_then_new.
Print Assumptions C06_suppressed_result_stops_propagation.
Print Assumptions C06_unsuppressed_result_is_stamped.
Print Assumptions C06_stale_iff_input_stamped_since_last_run.
