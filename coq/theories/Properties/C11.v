(* C11 — bookkeeping self-consistent at every quiescent point.  Statements about the engine model E.

   Proved here: the clause about the recompute heap, for debug builds, as a true invariant of every
   reachable state — after any sequence of operations whatsoever, including those that panic half-way.
   The other clauses of the audit (edges recorded symmetrically with matching indices, heights above
   the children's, the heap holding exactly the necessary stale nodes, counters) are decided by the
   comparison of the full state with the crate after every operation plus the audit oracle: see
   DESIGN.md. *)
From stdpp Require Import base list option numbers.
From Incr.Model Require Import Base Live Engine Api.
From Incr.Proofs Require Import Pres Safe RchInv FrameRchInv FrameNoHeapPanic RchMin FrameRchMin Histories.

(* [rch_inv s]: a node occurs in queue h of the recompute heap exactly when its
   height_in_recompute_heap cell says h (so a cell of -1 means "in no queue"), and no queue lists a
   node twice. *)

(* the heap's own operations keep it, whatever their outcome (a refused precondition leaves the heap
   untouched) ... *)
Theorem C11_heap_operations_keep_the_heap_consistent :
  (forall n, pres Rri (rch_insert n)) /\ (forall n, pres Rri (rch_remove n)) /\ pres Rri rch_remove_min
  /\ (forall n, pres Rri (rch_increase_height n)) /\ (forall m, pres Rri (rch_set_max_height_allowed m)).
Proof. exact (conj ri_rch_insert (conj ri_rch_remove (conj ri_rch_remove_min (conj ri_rch_increase_height ri_rch_set_max)))). Qed.

(* ... and so does every operation of the API: in a debug build, from any state satisfying it, every
   state of the rest of the history satisfies it *)
Theorem C11_recompute_heap_consistent_along_every_history :
  forall fuel ops st s, debug s = true -> rch_inv s ->
    Forall (fun e => rch_inv e.2 /\ debug e.2 = true) (run fuel ops st s).
Proof. exact run_rch_inv. Qed.

(* a fresh state satisfies it: the invariant holds in every state a debug-build program can reach *)
Theorem C11_fresh_state_is_consistent :
  forall max_height dbg, rch_inv (init_state max_height dbg).
Proof. exact rch_inv_init. Qed.

(* so: every state of every history of a debug build *)
Theorem C11_recompute_heap_consistent_in_every_history :
  forall fuel max_height ops, Forall (fun e => rch_inv e.2) (run_history fuel max_height true ops).
Proof. exact history_rch_inv. Qed.

(* [rch_extra s]: the heap's length counter equals the number of queued nodes, and every queue below its
   lower bound (`height_lower_bound`) is empty.  Together with rch_inv it holds in every state of every
   history of a debug build, from any state that satisfies both *)
Theorem C11_heap_counter_and_lower_bound_along_every_history :
  forall fuel ops st s, debug s = true -> rch_inv s -> rch_extra s ->
    Forall (fun e => rch_inv e.2 /\ rch_extra e.2 /\ debug e.2 = true) (run fuel ops st s).
Proof. exact run_rch_extra. Qed.

Theorem C11_heap_counter_and_lower_bound_in_every_history :
  forall fuel max_height ops,
    Forall (fun e => rch_inv e.2 /\ rch_extra e.2) (run_history fuel max_height true ops).
Proof. exact history_rch_extra. Qed.

(* non-vacuity: a history that inserts, removes, pops and re-heights heap entries, one op panicking *)
Example C11_nonvacuous :
  let h := [OpVar 1; OpMap 2 [] [0%nat]; OpMap 2 [EPanic] [1%nat]; OpObserve 1; OpStabilise; OpSet 0 3; OpObserve 2;
            OpStabilise; OpSet 0 4; OpDropObs 0] in
  (fun e => (e.1.1, concat (rch_queues e.2))) <$> run_history 100 128 true h
  = [(Ok (OutNode 0), []); (Ok (OutNode 1), []); (Ok (OutNode 2), []); (Ok (OutObs 0), []); (Ok OutUnit, []);
     (Ok OutUnit, [0%nat]); (Ok (OutObs 1), [0%nat]); (Panic PInjected, []); (Ok OutUnit, []); (Ok OutUnit, [])].
Proof. vm_compute. reflexivity. Qed.

Print Assumptions C11_heap_operations_keep_the_heap_consistent.
Print Assumptions C11_recompute_heap_consistent_along_every_history.
Print Assumptions C11_fresh_state_is_consistent.
Print Assumptions C11_recompute_heap_consistent_in_every_history.
Print Assumptions C11_heap_counter_and_lower_bound_along_every_history.
Print Assumptions C11_heap_counter_and_lower_bound_in_every_history.
