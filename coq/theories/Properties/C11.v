(* C11 — bookkeeping self-consistent at every quiescent point.  Statements about the engine model E.

   Proved here: the clause about the recompute heap, for debug builds, as a true invariant of every
   reachable state — after any sequence of operations whatsoever, including those that panic half-way.
   The other clauses of the audit (edges recorded symmetrically with matching indices, heights above
   the children's, the heap holding exactly the necessary stale nodes, counters) are decided by the
   comparison of the full state with the crate after every operation plus the audit oracle: see
   DESIGN.md. *)
From stdpp Require Import base list option numbers.
From Incr.Model Require Import Base Live Engine Api.
From Incr.Proofs Require Import Pres OkPres Safe RchInv FrameRchInv FrameNoHeapPanic RchMin FrameRchMin Histories Edges HandlerCount.

(* [rch_inv s]: a node occurs in queue h of the recompute heap exactly when its
   height_in_recompute_heap cell says h (so a cell of -1 means "in no queue"), and no queue lists a
   node twice. *)

(* the heap's own operations keep it, whatever their outcome (a refused precondition leaves the heap
   untouched) ... *)
Theorem C11_heap_operations_keep_the_heap_consistent :
  (forall n, pres Rri (rch_insert n)) /\ (forall n, pres Rri (rch_remove n)) /\ pres Rri rch_remove_min
  /\ (forall n, pres Rri (rch_increase_height n)) /\ (forall m, pres Rri (rch_set_max_height_allowed m)).
Proof. exact (conj ri_rch_insert (conj ri_rch_remove (conj ri_rch_remove_min (conj ri_rch_increase_height ri_rch_set_max)))). Qed.

(* ... and so does every operation of the API: in a debug build, from any state satisfying it, every
   state of the rest of the history satisfies it *)
Theorem C11_recompute_heap_consistent_along_every_history :
  forall fuel ops st s, debug s = true -> rch_inv s ->
    Forall (fun e => rch_inv e.2 /\ debug e.2 = true) (run fuel ops st s).
Proof. exact run_rch_inv. Qed.

(* a fresh state satisfies it: the invariant holds in every state a debug-build program can reach *)
Theorem C11_fresh_state_is_consistent :
  forall max_height dbg, rch_inv (init_state max_height dbg).
Proof. exact rch_inv_init. Qed.

(* so: every state of every history of a debug build *)
Theorem C11_recompute_heap_consistent_in_every_history :
  forall fuel max_height ops, Forall (fun e => rch_inv e.2) (run_history fuel max_height true ops).
Proof. exact history_rch_inv. Qed.

(* [rch_extra s]: the heap's length counter equals the number of queued nodes, and every queue below its
   lower bound (`height_lower_bound`) is empty.  Together with rch_inv it holds in every state of every
   history of a debug build, from any state that satisfies both *)
Theorem C11_heap_counter_and_lower_bound_along_every_history :
  forall fuel ops st s, debug s = true -> rch_inv s -> rch_extra s ->
    Forall (fun e => rch_inv e.2 /\ rch_extra e.2 /\ debug e.2 = true) (run fuel ops st s).
Proof. exact run_rch_extra. Qed.

Theorem C11_heap_counter_and_lower_bound_in_every_history :
  forall fuel max_height ops,
    Forall (fun e => rch_inv e.2 /\ rch_extra e.2) (run_history fuel max_height true ops).
Proof. exact history_rch_extra. Qed.

(* ---- the edge arrays, operation by operation.
   [link s c i p ci]: in s, entry i of c's parents vector is p, c's my_child_index_in_parent_at_index[i] is ci
   (not negative), and p's my_parent_index_in_child_at_index[ci] is i — the edge c -> p (p's ci-th child) is
   recorded on both ends with matching indices. *)

(* add_parent records the edge on both ends and disturbs no other link (the slot (p, ci) is the one it takes) *)
Theorem C11_add_parent_links_both_ends :
  forall s c ci p cn pn,
    c <> p -> nodes s !! c = Some cn -> nodes s !! p = Some pn -> (0 <= ci)%Z ->
    exists s', add_parent c ci p s = (Ok tt, s')
      /\ link s' c (length (n_parents cn)) p ci
      /\ forall c' i' p' ci', link s c' i' p' ci' -> (p', ci') <> (p, ci) -> link s' c' i' p' ci'.
Proof. exact add_parent_spec. Qed.

(* remove_parent on the last entry of the child's parents vector: the link is gone, every other link stays *)
Theorem C11_remove_parent_last_entry :
  forall s c i p ci cn,
    nodes s !! c = Some cn -> link s c i p ci -> c <> p -> i = (length (n_parents cn) - 1)%nat ->
    exists s', remove_parent c ci p s = (Ok tt, s')
      /\ (forall i', ~ link s' c i' p ci)
      /\ forall c' i' p' ci', link s c' i' p' ci' -> (c', i') <> (c, i) -> (p', ci') <> (p, ci) -> link s' c' i' p' ci'.
Proof. exact remove_parent_last_spec. Qed.

(* remove_parent on an inner entry (swap_remove): the link is gone, the last entry moves into the hole and its
   parent's index is fixed up, every other link stays where it was *)
Theorem C11_remove_parent_inner_entry :
  forall s c i p ci cn end_p eci en,
    nodes s !! c = Some cn -> link s c i p ci -> c <> p ->
    (i < length (n_parents cn) - 1)%nat ->
    link s c (length (n_parents cn) - 1) end_p eci -> nodes s !! end_p = Some en -> n_live en = true -> end_p <> c ->
    exists s', remove_parent c ci p s = (Ok tt, s')
      /\ (forall i', ~ link s' c i' p ci)
      /\ link s' c i end_p eci
      /\ forall c' i' p' ci', link s c' i' p' ci' -> (c', i') <> (c, i) -> (c', i') <> (c, (length (n_parents cn) - 1)%nat) ->
           (p', ci') <> (p, ci) -> (p', ci') <> (end_p, eci) -> link s' c' i' p' ci'.
Proof. exact remove_parent_moved_spec. Qed.

(* non-vacuity of the premises: after observing a map over two variables and stabilising, both edges are links *)
Example C11_links_exist :
  let h := [OpVar 1; OpVar 2; OpMap 1 [] [0%nat; 1%nat]; OpObserve 2; OpStabilise] in
  match stdpp.list.last (run_history 100 128 true h) with
  | Some (_, _, s) => link s 0 0 2 0 /\ link s 1 0 2 1
  | None => False
  end.
Proof.
  vm_compute. split; (eexists _, _; split_and!; [reflexivity|reflexivity|reflexivity|reflexivity|done|reflexivity]).
Qed.

(* non-vacuity: a history that inserts, removes, pops and re-heights heap entries, one op panicking *)
Example C11_nonvacuous :
  let h := [OpVar 1; OpMap 2 [] [0%nat]; OpMap 2 [EPanic] [1%nat]; OpObserve 1; OpStabilise; OpSet 0 3; OpObserve 2;
            OpStabilise; OpSet 0 4; OpDropObs 0] in
  (fun e => (e.1.1, concat (rch_queues e.2))) <$> run_history 100 128 true h
  = [(Ok (OutNode 0), []); (Ok (OutNode 1), []); (Ok (OutNode 2), []); (Ok (OutObs 0), []); (Ok OutUnit, []);
     (Ok OutUnit, [0%nat]); (Ok (OutObs 1), [0%nat]); (Panic PInjected, []); (Ok OutUnit, []); (Ok OutUnit, [])].
Proof. vm_compute. reflexivity. Qed.

(* the audit's handler-count clause, as an invariant of whole histories (debug builds, up to the first failing
   operation): every node's num_on_update_handlers equals its own handlers plus those of its linked observers, the
   lists of linked observers are duplicate-free and agree with the observers' states *)
Theorem C11_handler_counts_in_every_history :
  forall fuel max_height ops, while_ok (run_history fuel max_height true ops) HCd.
Proof. exact history_handler_count. Qed.

Print Assumptions C11_heap_operations_keep_the_heap_consistent.
Print Assumptions C11_recompute_heap_consistent_along_every_history.
Print Assumptions C11_fresh_state_is_consistent.
Print Assumptions C11_recompute_heap_consistent_in_every_history.
Print Assumptions C11_heap_counter_and_lower_bound_along_every_history.
Print Assumptions C11_heap_counter_and_lower_bound_in_every_history.
Print Assumptions C11_add_parent_links_both_ends.
Print Assumptions C11_remove_parent_last_entry.
Print Assumptions C11_remove_parent_inner_entry.
Print Assumptions C11_handler_counts_in_every_history.
