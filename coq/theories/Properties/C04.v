(* C04 — well-formed programs never panic.  Statements about the engine model E.

   The property as a whole (no panic of any kind on well-formed histories, both build profiles) is
   decided by the correspondence run and its oracle.  What is proved here is one family of panics,
   for debug builds, as a property of every history: the recompute heap never fails internally.
   See DESIGN.md for what is missing. *)
From stdpp Require Import base list option numbers.
From Incr.Model Require Import Base Live Engine Api.
From Incr.Proofs Require Import Pres Safe RchInv FrameRchInv FrameNoHeapPanic Histories.

(* [Qri t]: t is none of "node was not in recompute heap" (PNotInRch) and the two out-of-bounds
   reads of a queue (PIndex 103, PIndex 104).
   [Iri s]: debug build and the heap describes the same set as the nodes' cells (C11). *)

(* each operation of the heap, from a consistent state, stays consistent and fails — if it fails —
   only on its own assertions *)
Theorem C04_heap_operations_fail_only_on_their_assertions :
  (forall n, safe Iri Qri (rch_insert n)) /\ (forall n, safe Iri Qri (rch_remove n)) /\ safe Iri Qri rch_remove_min
  /\ (forall n, safe Iri Qri (rch_increase_height n)) /\ (forall m, safe Iri Qri (rch_set_max_height_allowed m)).
Proof. exact (conj sf_rch_insert (conj sf_rch_remove (conj sf_rch_remove_min (conj sf_rch_increase_height sf_rch_set_max)))). Qed.

(* whatever a program does — any operations in any order, closures with any effects, injected
   panics, misuse — no operation of a debug build ever panics inside the recompute heap *)
Theorem C04_no_history_fails_inside_the_recompute_heap :
  forall fuel max_height ops,
    Forall (fun e => forall t, e.1.1 = Panic t -> Qri t) (run_history fuel max_height true ops).
Proof. exact history_no_heap_panic. Qed.

(* the same from any consistent state, not only a fresh one *)
Theorem C04_no_heap_failure_from_any_consistent_state :
  forall fuel ops st s, Iri s -> Forall (fun e => forall t, e.1.1 = Panic t -> Qri t) (run fuel ops st s).
Proof. exact run_no_heap_panic. Qed.

(* non-vacuity: a history in which an operation does panic (a user function), so the statement is not
   about panic-free runs only *)
Example C04_nonvacuous :
  let h := [OpVar 1; OpMap 2 [EPanic] [0%nat]; OpObserve 1; OpStabilise; OpStabilise] in
  (fun e => e.1.1) <$> run_history 100 128 true h
  = [Ok (OutNode 0); Ok (OutNode 1); Ok (OutObs 0); Panic PInjected; Panic PNestedStabilise].
Proof. vm_compute. reflexivity. Qed.

Print Assumptions C04_heap_operations_fail_only_on_their_assertions.
Print Assumptions C04_no_history_fails_inside_the_recompute_heap.
Print Assumptions C04_no_heap_failure_from_any_consistent_state.
