(* C08 — var writes apply in program order; writes during stabilise defer to the next.
   Statements about E.  All five write operations (set, update, modify, replace, replace_with) are
   [var_write x f] for the function f they apply; [replace]/[replace_with] return its result. *)
From stdpp Require Import base list option numbers.
From RecordUpdate Require Import RecordUpdate.
From Incr.Model Require Import Base Live Engine Api.
From Incr.Proofs Require Import Pres FrameVar FrameVarVal Vars.

(* outside stabilise (status NotStabilising, or RunningOnUpdateHandlers inside a handler) a write
   takes effect immediately on the logical value, and hands back the value before it *)
Theorem C08_write_outside_stabilise_is_immediate :
  forall x f s v r s', st_status s <> Stabilising -> vars s !! x = Some v ->
    var_write x f s = (Ok r, s') ->
    r = v_value v
    /\ exists v', vars s' !! x = Some v' /\ v_value v' = f (v_value v) /\ v_pending v' = v_pending v.
Proof. exact var_write_immediate. Qed.

(* inside a node function the write goes to the pending slot only; no node, no other variable and not
   this variable's value change; the caller gets the pending value back *)
Theorem C08_write_during_stabilise_is_deferred :
  forall x f s v, st_status s = Stabilising -> vars s !! x = Some v ->
    exists s', var_write x f s = (Ok (pending_or_value v), s')
      /\ vars s' !! x = Some (v <| v_pending := Some (f (pending_or_value v)) |>)
      /\ (forall y, y <> x -> vars s' !! y = vars s !! y)
      /\ st_status s' = Stabilising /\ nodes s' = nodes s
      /\ set_during s' = (if v_pending v then set_during s else set_during s ++ [x]).
Proof. exact var_write_deferred. Qed.

Theorem C08_deferred_writes_compose_in_program_order :
  forall x f g s v s1 s2 r1 r2, st_status s = Stabilising -> vars s !! x = Some v ->
    var_write x f s = (Ok r1, s1) -> var_write x g s1 = (Ok r2, s2) ->
    r2 = f (pending_or_value v)
    /\ exists v2, vars s2 !! x = Some v2 /\ v_value v2 = v_value v
                  /\ v_pending v2 = Some (g (f (pending_or_value v))).
Proof. exact var_write_deferred_compose. Qed.

(* through the whole propagation phase no variable's value changes, so every reader of this
   stabilise sees the pre-stabilise value, and a var node's recompute reads exactly that value *)
Theorem C08_readers_see_the_pre_stabilise_value :
  forall fuel s x v, st_status s = Stabilising -> vars s !! x = Some v ->
    exists v', vars (stabilise_loop fuel s).2 !! x = Some v' /\ v_value v' = v_value v.
Proof. exact propagation_keeps_var_values. Qed.

Theorem C08_var_node_reads_the_value :
  forall fuel n s x xn v, nodes s !! n = Some xn -> node_kind xn = Some (KVar x) -> vars s !! x = Some v ->
    exists s1, recompute_one fuel n s = maybe_change_value fuel n (v_value v) s1 /\ vars s1 = vars s.
Proof. exact var_node_reads_value. Qed.

(* at the end of stabilise the pending value becomes the value *)
Theorem C08_pending_write_is_applied_at_the_end :
  forall x s v p s', vars s !! x = Some v -> v_live v = true -> v_pending v = Some p ->
    apply_pending x s = (Ok tt, s') ->
    exists v', vars s' !! x = Some v' /\ v_value v' = p /\ v_pending v' = None.
Proof. exact apply_pending_spec. Qed.

(* non-vacuity: a node function writes the variable it reads; the reader sees the old value in that
   stabilise, is_stable is false afterwards, and the next stabilise propagates the written value *)
Example C08_nonvacuous :
  let h := [OpVar 1; OpMap 2 [EUpdate 0 10; EUpdate 0 5; EGet 0] [0%nat]; OpObserve 1; OpStabilise; OpRead 0;
            OpGet 0; OpIsStable; OpStabilise; OpRead 0] in
  (fun e => e.1.1) <$> run_history 100 128 true h
  = [Ok (OutNode 0); Ok (OutNode 1); Ok (OutObs 0); Ok OutUnit; Ok (OutRead (inl (VInt 2)));
     Ok (OutVal (VInt 16)); Ok (OutBool false); Ok OutUnit; Ok (OutRead (inl (VInt 32)))].
Proof. vm_compute. reflexivity. Qed.

Print Assumptions C08_write_outside_stabilise_is_immediate.
Print Assumptions C08_write_during_stabilise_is_deferred.
Print Assumptions C08_deferred_writes_compose_in_program_order.
Print Assumptions C08_readers_see_the_pre_stabilise_value.
Print Assumptions C08_var_node_reads_the_value.
Print Assumptions C08_pending_write_is_applied_at_the_end.
