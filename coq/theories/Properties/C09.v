(* C09 — subscribers: Initialised once, Changed only on real change, then one Invalidated.
   Statements about E.  A subscription's callback receives Initialised(v) for NUNecessary, Changed(v)
   for NUChanged and Invalidated for NUInvalidated (really_run, Api.v). *)
From stdpp Require Import base list option numbers.
From Incr.Model Require Import Base Live Engine Api.
From Incr.Proofs Require Import Handlers.

(* OnUpdateHandler::run is exactly the decision table [deliver] (Handlers.v), guarded by "created in
   an earlier stabilisation" *)
Theorem C09_handler_table :
  forall o ix h n nu now,
    handler_run o ix h n nu now =
      if bool_decide (hd_created_at h < now)%Z then
        match deliver (hd_prev h) nu with
        | Some k => really_run o ix h n k
        | None => ret tt
        end
      else ret tt.
Proof. exact handler_run_eq. Qed.

(* what the node reports at the end of a stabilise: Changed exactly when it is valid, necessary, has a
   value and that value changed in the stabilise that just ended *)
Theorem C09_node_report :
  forall n s x, nodes s !! n = Some x ->
    node_update_of n s =
      (Ok (if negb (n_valid x) then NUInvalidated
           else if negb (is_necessary x) then NUUnnecessary
           else match node_value (S n) s n with
                | Some _ => if bool_decide (n_changed_at x + 1 = stab_num s)%Z then NUChanged else NUNecessary
                | None => NUNecessary
                end), s).
Proof. exact node_update_of_eq. Qed.

Theorem C09_observed_node_never_reports_unnecessary :
  forall n s x r s', nodes s !! n = Some x -> n_observers x <> [] ->
    node_update_of n s = (Ok r, s') -> r <> NUUnnecessary.
Proof. exact observed_not_unnecessary. Qed.

(* over any sequence of reports of an observed node, a subscription hears Initialised at most once
   and only as the first thing; the first thing is never Changed; after Invalidated it hears nothing;
   it hears Changed only when the node reported Changed; and a reported change is never dropped *)
Theorem C09_initialised_at_most_once_and_first :
  forall nus, no_unnecessary nus ->
    match deliveries PNever nus with
    | [] => True
    | d :: ds => NUNecessary ∉ ds
    end.
Proof. exact initialised_once. Qed.

Theorem C09_first_delivery_is_not_changed :
  forall nus d ds, deliveries PNever nus = d :: ds -> d = NUNecessary \/ d = NUInvalidated \/ d = NUUnnecessary.
Proof. exact first_is_initialised. Qed.

Theorem C09_nothing_after_invalidated :
  forall nus, deliveries PInvalidated nus = [].
Proof. exact nothing_after_invalidated. Qed.

Theorem C09_changed_only_when_node_changed :
  forall prev nus, NUChanged ∈ deliveries prev nus -> NUChanged ∈ nus.
Proof. exact changed_only_when_reported. Qed.

Theorem C09_change_is_never_lost :
  forall prev, prev <> PInvalidated -> is_Some (deliver prev NUChanged).
Proof. exact changed_is_never_lost. Qed.

(* non-vacuity: the callbacks of a concrete history *)
Example C09_nonvacuous :
  let h := [OpVar 1; OpObserve 0; OpSubscribe 0 (HFn 7 []); OpStabilise; OpStabilise; OpObserve 0; OpStabilise;
            OpSet 0 2; OpStabilise] in
  (fun e : res out * list event * state =>
     omap (M := list) (fun ev => match ev with EvUpd _ _ _ _ _ => Some ev | _ => None end) e.1.2)
    <$> run_history 100 128 true h
  = [[]; []; []; [EvUpd 0 1 7 NUNecessary (Some (VInt 1))]; []; []; []; [];
     [EvUpd 0 1 7 NUChanged (Some (VInt 2))]].
Proof. vm_compute. reflexivity. Qed.

Print Assumptions C09_handler_table.
Print Assumptions C09_node_report.
Print Assumptions C09_observed_node_never_reports_unnecessary.
Print Assumptions C09_initialised_at_most_once_and_first.
Print Assumptions C09_first_delivery_is_not_changed.
Print Assumptions C09_nothing_after_invalidated.
Print Assumptions C09_changed_only_when_node_changed.
Print Assumptions C09_change_is_never_lost.
