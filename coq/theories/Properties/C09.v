(* C09 — subscribers: Initialised once, Changed only on real change, then one Invalidated.
   Statements about E.  A subscription's callback receives Initialised(v) for NUNecessary, Changed(v)
   for NUChanged and Invalidated for NUInvalidated (really_run, Api.v). *)
From stdpp Require Import base list option numbers.
From Incr.Model Require Import Base Live Engine Api.
From RecordUpdate Require Import RecordUpdate.
From Incr.Proofs Require Import Pres OkPres Handlers HandlerQueue FrameHasGrow HandlerQueueEnd FrameHasInv HandlerChain HandlerCount Histories.

(* OnUpdateHandler::run is exactly the decision table [deliver] (Handlers.v), guarded by "created in
   an earlier stabilisation" *)
Theorem C09_handler_table :
  forall o ix h n nu now,
    handler_run o ix h n nu now =
      if bool_decide (hd_created_at h < now)%Z then
        match deliver (hd_prev h) nu with
        | Some k => really_run o ix h n k
        | None => ret tt
        end
      else ret tt.
Proof. exact handler_run_eq. Qed.

(* handlers attached to the node itself (Incr::on_update) go through the same table; they are the ones
   that can hear Unnecessary *)
Theorem C09_node_handler_table :
  forall n ix h nu now,
    node_handler_run n ix h nu now =
      if bool_decide (hd_created_at h < now)%Z then
        match deliver (hd_prev h) nu with
        | Some k => node_really_run n ix h k
        | None => ret tt
        end
      else ret tt.
Proof. exact node_handler_run_eq. Qed.

(* what the node reports at the end of a stabilise: Changed exactly when it is valid, necessary, has a
   value and that value changed in the stabilise that just ended *)
Theorem C09_node_report :
  forall n s x, nodes s !! n = Some x ->
    node_update_of n s =
      (Ok (if negb (n_valid x) then NUInvalidated
           else if negb (is_necessary x) then NUUnnecessary
           else match node_value (S n) s n with
                | Some _ => if bool_decide (n_changed_at x + 1 = stab_num s)%Z then NUChanged else NUNecessary
                | None => NUNecessary
                end), s).
Proof. exact node_update_of_eq. Qed.

Theorem C09_observed_node_never_reports_unnecessary :
  forall n s x r s', nodes s !! n = Some x -> n_observers x <> [] ->
    node_update_of n s = (Ok r, s') -> r <> NUUnnecessary.
Proof. exact observed_not_unnecessary. Qed.

(* over any sequence of reports of an observed node, a subscription hears Initialised at most once
   and only as the first thing; the first thing is never Changed; after Invalidated it hears nothing;
   it hears Changed only when the node reported Changed; and a reported change is never dropped *)
Theorem C09_initialised_at_most_once_and_first :
  forall nus, no_unnecessary nus ->
    match deliveries PNever nus with
    | [] => True
    | d :: ds => NUNecessary ∉ ds
    end.
Proof. exact initialised_once. Qed.

Theorem C09_first_delivery_is_not_changed :
  forall nus d ds, deliveries PNever nus = d :: ds -> d = NUNecessary \/ d = NUInvalidated \/ d = NUUnnecessary.
Proof. exact first_is_initialised. Qed.

Theorem C09_nothing_after_invalidated :
  forall nus, deliveries PInvalidated nus = [].
Proof. exact nothing_after_invalidated. Qed.

Theorem C09_changed_only_when_node_changed :
  forall prev nus, NUChanged ∈ deliveries prev nus -> NUChanged ∈ nus.
Proof. exact changed_only_when_reported. Qed.

Theorem C09_change_is_never_lost :
  forall prev, prev <> PInvalidated -> is_Some (deliver prev NUChanged).
Proof. exact changed_is_never_lost. Qed.

(* ---- no callback after disallow_future_use / the last handle is dropped / unsubscribe *)
(* the handlers of a disallowed observer are not run: run_all touches nothing *)
Theorem C09_disallowed_observer_hears_nothing :
  forall o n nu now s ob,
    obss s !! o = Some ob -> o_state ob = ODisallowed -> run_all o n nu now s = (Ok tt, s).
Proof. exact run_all_disallowed. Qed.

(* after unsubscribe returns, the observer's table holds no handler with that token: run_all, which only walks
   the table, cannot call it again *)
Theorem C09_unsubscribed_handler_is_gone :
  forall o tok s c s',
    unsubscribe o o tok s = (Ok c, s') ->
    forall ob', obss s' !! o = Some ob' -> (o_state ob' = OInUse \/ o_state ob' = OCreated) ->
      Forall (fun h => hd_token h <> tok) (o_handlers ob').
Proof. exact unsubscribe_removes. Qed.

(* ---- from "the node changed" to "its handlers are told": the queue.
   [has_inv s]: every live node whose is_in_handle_after_stabilisation flag is set is on the state's
   handle_after_stabilisation stack, and the stack names existing nodes only.  It holds in every state
   of every history (both build profiles, whether or not operations panic). *)
Theorem C09_flagged_nodes_are_on_the_stack_in_every_history :
  forall fuel max_height dbg ops, Forall (fun e => has_inv e.2) (run_history fuel max_height dbg ops).
Proof. exact history_has_inv. Qed.

(* an unsuppressed result of a live node with at least one handler puts the node on the stack, whatever
   happens afterwards (dependants recomputed directly, panics) *)
Theorem C09_changed_node_with_handlers_is_queued :
  forall fuel n old rc s x,
    has_inv s -> nodes s !! n = Some x -> n_live x = true -> (0 < n_num_handlers x)%Z ->
    n ∈ has_stack (maybe_change_value_manual fuel n old true rc s).2.
Proof. exact mcv_manual_queues. Qed.

(* nothing takes it off the stack before the propagation phase is over *)
Theorem C09_queued_until_the_end_of_propagation :
  forall fuel s n, n ∈ has_stack s -> n ∈ has_stack (stabilise_loop fuel s).2.
Proof. exact queued_until_end_of_propagation. Qed.

(* the first phase of stabilise_end is: bump the stabilisation number and apply the deferred writes
   (which keep the stack), then empty the stack into the run queue ... *)
Theorem C09_end_of_stabilise_in_two_steps :
  forall s, stabilise_end_prepare s = (end_prepare_prefix ;;; end_prepare_queue) s.
Proof. exact stabilise_end_prepare_split. Qed.

Theorem C09_deferred_writes_keep_the_stack : pres Rhas end_prepare_prefix.
Proof. exact has_end_prepare_prefix. Qed.

(* ... where every node of the stack that is still alive gets an entry (node, report) — the report is
   node_update_of (C09_node_report) — and the invariant is re-established with an empty stack *)
Theorem C09_every_live_queued_node_is_reported :
  forall s, has_inv s ->
    exists s', end_prepare_queue s = (Ok tt, s') /\ has_inv s'
      /\ (forall n x, n ∈ has_stack s -> nodes s !! n = Some x -> n_live x = true -> exists nu, (n, nu) ∈ run_ouh s').
Proof. exact end_prepare_queue_spec. Qed.

(* ---- the counter that decides whether a changed node is queued at all.
   HCd (Proofs/HandlerCount.v): in every node, num_on_update_handlers = the handlers attached to the node itself
   + the handlers of every observer linked to it (InUse or Disallowed-not-yet-unlinked), the observer lists have
   no duplicates and agree with the observers' own states, and the subscription tokens of one observer are
   distinct.  It holds after every operation of every history of a debug build, up to the first operation that
   fails: observe, add_new_observers, unlink_disallowed_observers, disallow_future_use, subscribe, unsubscribe and
   add_on_update_handler keep the books; every other engine function leaves them alone (generated frame). *)
Theorem C09_handler_count_is_exact_in_every_history :
  forall fuel max_height ops, while_ok (run_history fuel max_height true ops) HCd.
Proof. exact history_handler_count. Qed.

(* hence a node with a subscribed linked observer, or with a handler of its own, has a positive counter — the
   hypothesis of C09_changed_node_with_handlers_is_queued — so its change is queued and never lost *)
Theorem C09_subscribed_observer_keeps_the_counter_positive :
  forall s o ob x,
    HC s -> obss s !! o = Some ob -> linked ob -> o_handlers ob <> [] -> nodes s !! o_observing ob = Some x ->
    (0 < n_num_handlers x)%Z.
Proof. exact linked_subscription_counts. Qed.

Theorem C09_own_handler_keeps_the_counter_positive :
  forall s n x, HC s -> nodes s !! n = Some x -> n_handlers x <> [] -> (0 < n_num_handlers x)%Z.
Proof. exact own_handler_counts. Qed.

(* non-vacuity: after a subscription and two stabilisations the observed node's counter is 1, and two after a second
   subscription; unsubscribing takes it back *)
Example C09_counter_nonvacuous :
  let h := [OpVar 1; OpObserve 0; OpSubscribe 0 (HFn 7 []); OpStabilise; OpSubscribe 0 (HFn 8 []); OpSet 0 2; OpStabilise;
            OpUnsubscribe 0 0; OpStabilise] in
  (fun e : res out * list event * state =>
     (match e.1.1 with Ok _ => true | _ => false end, (fun x => n_num_handlers x) <$> nodes e.2)) <$> run_history 100 128 true h
  = [(true, [0%Z]); (true, [0%Z]); (true, [0%Z]); (true, [1%Z]); (true, [2%Z]); (true, [2%Z]); (true, [2%Z]);
     (true, [1%Z]); (true, [1%Z])].
Proof. vm_compute. reflexivity. Qed.

(* non-vacuity: the callbacks of a concrete history *)
Example C09_nonvacuous :
  let h := [OpVar 1; OpObserve 0; OpSubscribe 0 (HFn 7 []); OpStabilise; OpStabilise; OpObserve 0; OpStabilise;
            OpSet 0 2; OpStabilise] in
  (fun e : res out * list event * state =>
     omap (M := list) (fun ev => match ev with EvUpd _ _ _ _ _ => Some ev | _ => None end) e.1.2)
    <$> run_history 100 128 true h
  = [[]; []; []; [EvUpd 0 1 7 NUNecessary (Some (VInt 1))]; []; []; []; [];
     [EvUpd 0 1 7 NUChanged (Some (VInt 2))]].
Proof. vm_compute. reflexivity. Qed.

Print Assumptions C09_handler_table.
Print Assumptions C09_node_report.
Print Assumptions C09_observed_node_never_reports_unnecessary.
Print Assumptions C09_initialised_at_most_once_and_first.
Print Assumptions C09_first_delivery_is_not_changed.
Print Assumptions C09_nothing_after_invalidated.
Print Assumptions C09_changed_only_when_node_changed.
Print Assumptions C09_change_is_never_lost.
Print Assumptions C09_flagged_nodes_are_on_the_stack_in_every_history.
Print Assumptions C09_changed_node_with_handlers_is_queued.
Print Assumptions C09_queued_until_the_end_of_propagation.
Print Assumptions C09_end_of_stabilise_in_two_steps.
Print Assumptions C09_deferred_writes_keep_the_stack.
Print Assumptions C09_every_live_queued_node_is_reported.
Print Assumptions C09_node_handler_table.
Print Assumptions C09_disallowed_observer_hears_nothing.
Print Assumptions C09_unsubscribed_handler_is_gone.
Print Assumptions C09_handler_count_is_exact_in_every_history.
Print Assumptions C09_subscribed_observer_keeps_the_counter_positive.
Print Assumptions C09_own_handler_keeps_the_counter_positive.
