(* C10 — observer handles follow a strict lifecycle with precise errors.  Statements about E. *)
From stdpp Require Import base list option numbers.
From RecordUpdate Require Import RecordUpdate.
From Incr.Model Require Import Base Live Engine Api.
From Incr.Proofs Require Import Pres FrameStatus FrameGone Reads Lifecycle.

(* what a read returns is a function of the stabilisation status, the observer's lifecycle state and
   the value its node shows: NeverStabilised while Created, the value (or ObservingInvalid) while in
   use, Disallowed afterwards *)
Theorem C10_read_follows_lifecycle :
  forall o s ob, obss s !! o = Some ob ->
    observer_read o s =
      (Ok (match st_status s with
           | Stabilising => inr ERR_CURRENTLY_STABILISING
           | _ => match o_state ob with
                  | OCreated => inr ERR_NEVER_STABILISED
                  | OInUse => match node_value (S (o_observing ob)) s (o_observing ob) with
                              | Some v => inl v | None => inr ERR_OBSERVING_INVALID end
                  | ODisallowed | OUnlinked => inr ERR_DISALLOWED
                  end
           end), s).
Proof. exact observer_read_eq. Qed.

(* once disallowed (or its last clone dropped) an observer never comes back, through any history:
   every later read of any of its clones answers Disallowed (CurrentlyStabilising in a poisoned state) *)
Theorem C10_disallowed_is_forever :
  forall fuel ops st s o ob, obss s !! o = Some ob -> gone (o_state ob) ->
    Forall (fun e => read_result e.2 o = Ok (inr ERR_DISALLOWED)
                     \/ read_result e.2 o = Ok (inr ERR_CURRENTLY_STABILISING)) (run fuel ops st s).
Proof. exact disallowed_forever. Qed.

Theorem C10_subscribe_after_disallow_fails :
  forall o h s ob, obss s !! o = Some ob -> gone (o_state ob) ->
    subscribe o h s = (Ok (inr ERR_DISALLOWED), s).
Proof. exact subscribe_gone. Qed.

(* a token of another observer is rejected with Mismatch and nothing changes *)
Theorem C10_unsubscribe_foreign_token_is_mismatch :
  forall o to tok s, to <> o -> unsubscribe o to tok s = (Ok ERR_MISMATCH, s).
Proof. exact unsubscribe_mismatch. Qed.

(* unsubscribing through the state once the observer has left all_observers is a silent no-op *)
Theorem C10_state_unsubscribe_after_gone_is_noop :
  forall to tok s, to ∉ all_obs s -> state_unsubscribe to tok s = (Ok tt, s).
Proof. exact state_unsubscribe_gone. Qed.

(* clones share one lifecycle: dropping a clone that is not the last changes only the handle count *)
Theorem C10_dropping_a_clone_changes_nothing_else :
  forall fuel st o s ob, obss s !! o = Some ob -> (1 < o_handles ob)%nat ->
    step fuel st (OpDropObs o) s
    = (Ok (st, OutUnit), s <| obss := alter (fun ob => ob <| o_handles := pred (o_handles ob) |>) o (obss s) |>).
Proof. exact drop_clone_keeps_state. Qed.

(* disallowing an observer touches no other observer's record, no node, and not the status *)
Theorem C10_disallow_affects_no_other_observer :
  forall o s,
    st_status (disallow_future_use o s).2 = st_status s
    /\ nodes (disallow_future_use o s).2 = nodes s
    /\ forall o', o' <> o -> obss (disallow_future_use o s).2 !! o' = obss s !! o'.
Proof. exact disallow_frame_others. Qed.

Example C10_nonvacuous :
  let h := [OpVar 1; OpObserve 0; OpRead 0; OpCloneObs 0; OpStabilise; OpRead 0; OpDropObs 0; OpRead 0;
            OpDropObs 0; OpRead 0; OpSubscribe 0 (HFn 0 []); OpStabilise; OpRead 0] in
  (fun e => e.1.1) <$> run_history 100 128 true h
  = [Ok (OutNode 0); Ok (OutObs 0); Ok (OutRead (inr ERR_NEVER_STABILISED)); Ok OutUnit; Ok OutUnit;
     Ok (OutRead (inl (VInt 1))); Ok OutUnit; Ok (OutRead (inl (VInt 1))); Ok OutUnit;
     Ok (OutRead (inr ERR_DISALLOWED)); Ok (OutTok (inr ERR_DISALLOWED)); Ok OutUnit;
     Ok (OutRead (inr ERR_DISALLOWED))].
Proof. vm_compute. reflexivity. Qed.

Print Assumptions C10_read_follows_lifecycle.
Print Assumptions C10_disallowed_is_forever.
Print Assumptions C10_subscribe_after_disallow_fails.
Print Assumptions C10_unsubscribe_foreign_token_is_mismatch.
Print Assumptions C10_state_unsubscribe_after_gone_is_noop.
Print Assumptions C10_dropping_a_clone_changes_nothing_else.
Print Assumptions C10_disallow_affects_no_other_observer.
