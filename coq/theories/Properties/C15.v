(* C15 — incremental-map diff-based operators equal their non-incremental definitions.
   Statements about the step functions of Model/MapOps.v (the closures the crate passes to
   map_with_old), for every user function, all key-sorted maps of any size. *)
From stdpp Require Import base list option numbers sorting.
From Incr.Model Require Import SymDiff MapOps.
From Incr.Proofs Require Import SymDiffProofs SortedMaps MapOpsProofs.

(* incr_filter_mapi (and incr_map / incr_mapi / incr_filter_map, its instances): from an old
   (input, output) pair that is in sync, one recompute yields the plain filter-map of the new input;
   a result flagged "unchanged" really is unchanged *)
Theorem C15_filter_mapi_step :
  forall (V V2 : Type) (EqV : EqDecision V) (f : Z -> V -> option V2) old_in old_out input,
    sorted_map old_in -> sorted_map input -> old_out = filter_map_collect f old_in ->
    exists ch calls, fm_step f (Some (old_in, old_out)) input = Some (filter_map_collect f input, ch, calls)
      /\ (ch = false -> filter_map_collect f input = old_out).
Proof. intros V V2 EqV f. exact (fm_step_correct f). Qed.

(* ... hence over ANY sequence of inputs — insertions, deletions, value changes, emptying, refilling —
   every output is the plain function of that input.  A node that was unobserved for a while simply
   sees a subsequence of the inputs, and every subsequence is a sequence. *)
Theorem C15_filter_mapi_any_sequence :
  forall (V V2 : Type) (EqV : EqDecision V) (f : Z -> V -> option V2) ins,
    Forall sorted_map ins ->
    exists outs, wo_run (fm_step f) (WO None None) ins = Some outs
      /\ Forall2 (fun i o => o.1.1 = filter_map_collect f i) ins outs.
Proof. intros V V2 EqV f ins Hs. apply (fm_seq_correct f); done. Qed.

(* incr_unordered_fold, for an invertible add/remove (remove undoes add; adds of different keys
   commute), with or without an update function that agrees with remove-then-add, with or without
   revert-to-init-when-empty: every output is the fold of the current input *)
Theorem C15_unordered_fold_any_sequence :
  forall (V R : Type) (EqV : EqDecision V) (add remove : R -> Z -> V -> R)
         (update : option (R -> Z -> V -> V -> R)) (revert : bool) (init : R),
    (forall acc k v, remove (add acc k v) k v = acc) ->
    (forall acc k v k' v', k <> k' -> add (add acc k v) k' v' = add (add acc k' v') k v) ->
    (forall u, update = Some u -> forall acc k v v', u acc k v v' = add (remove acc k v) k v') ->
    forall ins, Forall sorted_map ins ->
    exists outs, wo_run (uf_step add remove update revert init) (WO None None) ins = Some outs
      /\ Forall2 (fun i o => o.1.1 = FOLD add init i) ins outs.
Proof.
  intros V R EqV add remove update revert init H1 H2 H3 ins Hs.
  apply (uf_seq_correct add remove update revert init H1 H2 H3); done.
Qed.

(* incr_partition_mapi *)
Theorem C15_partition_step :
  forall (V A B : Type) (EqV : EqDecision V) (f : Z -> V -> either A B) old_in new_in,
    sorted_map old_in -> sorted_map new_in ->
    exists ch calls, pt_step f (Some (old_in, PART f old_in)) new_in = Some (PART f new_in, ch, calls).
Proof. intros V A B EqV f. exact (pt_step_correct f). Qed.

Theorem C15_partition_initial :
  forall (V A B : Type) (EqV : EqDecision V) (f : Z -> V -> either A B) new_in, smap new_in ->
    exists calls, pt_step f None new_in = Some (PART f new_in, true, calls).
Proof. intros V A B EqV f. exact (pt_step_initial f). Qed.

(* incr_merge: the key-wise merge of the two current maps *)
Theorem C15_merge_step :
  forall (V1 V2 R : Type) (Eq1 : EqDecision V1) (Eq2 : EqDecision V2) (f : Z -> merge_elem V1 V2 -> option R)
         ol or nl nr, smap ol -> smap or -> smap nl -> smap nr ->
    exists ch calls, mg_step f (Some ((ol, or), MERGE f ol or)) (nl, nr) = Some (MERGE f nl nr, ch, calls).
Proof. intros V1 V2 R Eq1 Eq2 f. exact (mg_step_correct f). Qed.

Theorem C15_merge_initial :
  forall (V1 V2 R : Type) (Eq1 : EqDecision V1) (Eq2 : EqDecision V2) (f : Z -> merge_elem V1 V2 -> option R)
         nl nr, smap nl -> smap nr ->
    exists ch calls, mg_step f None (nl, nr) = Some (MERGE f nl nr, ch, calls).
Proof. intros V1 V2 R Eq1 Eq2 f. exact (mg_step_initial f). Qed.

Example C15_nonvacuous :
  fm_step (fun k v => if bool_decide (v = 0)%Z then None else Some (k + v)%Z)
          (Some ([(1, 5); (2, 0); (4, 7)]%Z, [(1, 6); (4, 11)]%Z)) [(1, 5); (2, 3); (3, 9)]%Z
  = Some ([(1, 6); (2, 5); (3, 12)]%Z, true, [2; 3]%Z).
Proof. vm_compute. reflexivity. Qed.

Print Assumptions C15_filter_mapi_step.
Print Assumptions C15_filter_mapi_any_sequence.
Print Assumptions C15_unordered_fold_any_sequence.
Print Assumptions C15_partition_step.
Print Assumptions C15_partition_initial.
Print Assumptions C15_merge_step.
Print Assumptions C15_merge_initial.
