(* C03 — nodes built inside a bind become invalid when its input changes, and invalidity is final.
   Statements about the engine model E. *)
From stdpp Require Import base list option numbers.
From Incr.Model Require Import Base Live Engine Api.
From Incr.Proofs Require Import Pres FrameMono Invalidate OkPres RchInv RchMin HeapValid FrameHeapValid Histories.

(* When the lhs-change node of a bind is recomputed and the bind already had a right-hand side (so
   its left-hand side changed), then once that recomputation returns, every node the previous run of
   the closure created and that is still allocated is invalid.  Holds for every closure, every graph,
   every state s — including the states no well-formed history reaches. *)
Theorem C03_superseded_run_is_invalidated :
  forall fuel n s r s' x b bd old,
    nodes s !! n = Some x -> node_kind x = Some (KBindLhs b) ->
    binds s !! b = Some bd -> b_rhs bd = Some old ->
    recompute_one fuel n s = (Ok r, s') ->
    forall c, c ∈ b_created bd -> is_Some (nodes s !! c) ->
      forall y, nodes s' !! c = Some y -> n_live y = true -> n_valid y = false.
Proof. exact superseded_run_invalidated. Qed.

(* invalidity is final: through any further history (every op of the API, including stabilise,
   panicking or not) an invalid node stays invalid, keeps its kind and its defining scope, and a node
   is never removed from the store *)
Theorem C03_invalid_is_forever :
  forall fuel ops st s,
    Forall (fun e => forall n x, nodes s !! n = Some x ->
                       exists x', nodes e.2 !! n = Some x'
                                  /\ n_kind x' = n_kind x /\ n_created_in x' = n_created_in x
                                  /\ (n_valid x = false -> n_valid x' = false)
                                  /\ (n_live x = false -> n_live x' = false))
           (run fuel ops st s).
Proof.
  intros fuel ops st s. eapply Forall_impl; [|exact (run_mono fuel ops st s)].
  intros e [_ H] n x Hx. exact (H n x Hx).
Qed.

(* an invalid node is never given to a node function: recomputing it panics instead *)
Theorem C03_invalid_node_is_never_run :
  forall fuel n s x, nodes s !! n = Some x -> n_valid x = false ->
    (recompute_one fuel n s).1 = Panic PRecomputeInvalid.
Proof. exact recompute_one_invalid. Qed.

(* ---- the scheduling half, for debug builds: the recompute heap never holds an invalid node.
   [VNx [] s]: s is a debug-build state in which every node whose cell says it is in the heap is valid.
   It holds after every operation of every history up to the first one that does not return normally:
   invalidate_node is the only function that marks a node invalid, and before it returns it takes the
   node out of the heap (the exception it opens in between is the X of VNx X). *)
Theorem C03_heap_holds_valid_nodes_in_every_history :
  forall fuel max_height ops, while_ok (run_history fuel max_height true ops) (VNx []).
Proof. exact history_heap_valid. Qed.

Theorem C03_every_operation_keeps_queued_nodes_valid :
  forall fuel st o X, okp (VNx X) (step fuel st o).
Proof. exact vn_step. Qed.

Theorem C03_invalidate_node_takes_its_node_out_of_the_heap :
  forall fuel n X, okp (VNx X) (invalidate_node fuel n).
Proof. exact vn_invalidate_node. Qed.

(* so the node the stabilise loop takes out of the heap is valid: the loop never asks an invalidated
   node — a node created by a superseded run of a bind closure, say — to recompute *)
Theorem C03_popped_node_is_valid :
  forall s n s', VNx [] s -> rch_inv s -> rch_extra s ->
    rch_remove_min s = (Ok (Some n), s') ->
    exists x, nodes s !! n = Some x /\ n_valid x = true.
Proof. exact popped_node_is_valid. Qed.

(* non-vacuity: a bind whose left-hand side changes; the node created by the first run (rank 3)
   is invalid after the second stabilise while it is still referenced by an exported handle *)
Example C03_nonvacuous :
  let h := [OpVar 0; OpBind 0 (BindFn [] [([TMap 2 [] [OOuter 0]; TExport (OLocal 0 0)], OLocal 0 0)]);
            OpObserve 1; OpStabilise; OpSet 0 1; OpStabilise] in
  match stdpp.list.last (run_history 100 128 true h) with
  | Some (_, _, s) => (fun x => (n_valid x, n_live x)) <$> nodes s !! 3%nat
  | None => None
  end = Some (false, true).
Proof. vm_compute. reflexivity. Qed.

Print Assumptions C03_superseded_run_is_invalidated.
Print Assumptions C03_invalid_is_forever.
Print Assumptions C03_invalid_node_is_never_run.
Print Assumptions C03_heap_holds_valid_nodes_in_every_history.
Print Assumptions C03_every_operation_keeps_queued_nodes_valid.
Print Assumptions C03_invalidate_node_takes_its_node_out_of_the_heap.
Print Assumptions C03_popped_node_is_valid.
