(* C03 — nodes built inside a bind become invalid when its input changes, and invalidity is final.
   Statements about the engine model E. *)
From stdpp Require Import base list option numbers.
From Incr.Model Require Import Base Live Engine Api.
From Incr.Proofs Require Import Pres FrameMono Invalidate.

(* When the lhs-change node of a bind is recomputed and the bind already had a right-hand side (so
   its left-hand side changed), then once that recomputation returns, every node the previous run of
   the closure created and that is still allocated is invalid.  Holds for every closure, every graph,
   every state s — including the states no well-formed history reaches. *)
Theorem C03_superseded_run_is_invalidated :
  forall fuel n s r s' x b bd old,
    nodes s !! n = Some x -> node_kind x = Some (KBindLhs b) ->
    binds s !! b = Some bd -> b_rhs bd = Some old ->
    recompute_one fuel n s = (Ok r, s') ->
    forall c, c ∈ b_created bd -> is_Some (nodes s !! c) ->
      forall y, nodes s' !! c = Some y -> n_live y = true -> n_valid y = false.
Proof. exact superseded_run_invalidated. Qed.

(* invalidity is final: through any further history (every op of the API, including stabilise,
   panicking or not) an invalid node stays invalid, keeps its kind and its defining scope, and a node
   is never removed from the store *)
Theorem C03_invalid_is_forever :
  forall fuel ops st s,
    Forall (fun e => forall n x, nodes s !! n = Some x ->
                       exists x', nodes e.2 !! n = Some x'
                                  /\ n_kind x' = n_kind x /\ n_created_in x' = n_created_in x
                                  /\ (n_valid x = false -> n_valid x' = false)
                                  /\ (n_live x = false -> n_live x' = false))
           (run fuel ops st s).
Proof.
  intros fuel ops st s. eapply Forall_impl; [|exact (run_mono fuel ops st s)].
  intros e [_ H] n x Hx. exact (H n x Hx).
Qed.

(* an invalid node is never given to a node function: recomputing it panics instead *)
Theorem C03_invalid_node_is_never_run :
  forall fuel n s x, nodes s !! n = Some x -> n_valid x = false ->
    (recompute_one fuel n s).1 = Panic PRecomputeInvalid.
Proof. exact recompute_one_invalid. Qed.

(* non-vacuity: a bind whose left-hand side changes; the node created by the first run (rank 3)
   is invalid after the second stabilise while it is still referenced by an exported handle *)
Example C03_nonvacuous :
  let h := [OpVar 0; OpBind 0 (BindFn [] [([TMap 2 [] [OOuter 0]; TExport (OLocal 0 0)], OLocal 0 0)]);
            OpObserve 1; OpStabilise; OpSet 0 1; OpStabilise] in
  match stdpp.list.last (run_history 100 128 true h) with
  | Some (_, _, s) => (fun x => (n_valid x, n_live x)) <$> nodes s !! 3%nat
  | None => None
  end = Some (false, true).
Proof. vm_compute. reflexivity. Qed.

Print Assumptions C03_superseded_run_is_invalidated.
Print Assumptions C03_invalid_is_forever.
Print Assumptions C03_invalid_node_is_never_run.
