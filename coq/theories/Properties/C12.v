(* C12 — nothing leaks and no drop order is unsafe.  Statements about the ownership abstraction of E
   (Model/Live.v): [out_edges] lists the strong (Rc) references each struct holds, [roots] what the
   program and the state's own containers hold, [collect] frees what a reference-counting heap frees. *)
From stdpp Require Import base list option numbers.
From Incr.Model Require Import Base Live Engine Api.
From Incr.Proofs Require Import Pres LiveProofs FrameRead Reads Poisoned.

(* after any collection, every object still allocated is held by the program (a node/var/observer
   handle, an exported node), by the state's containers (in-use observers, heap queues), by a pinned
   local — or by another allocated object.  Nothing else survives: a subgraph whose handles were all
   dropped and that no observer reaches is released, closures included (their captures are edges). *)
Theorem C12_nothing_unreferenced_survives :
  forall s pins x, obj_live (collect pins s).2 x = true ->
    x ∈ roots s pins \/ exists y, obj_live (collect pins s).2 y = true /\ x ∈ out_edges (collect pins s).2 y.
Proof. exact collect_no_leak. Qed.

(* no drop order is unsafe: whatever is released, no allocated object keeps a strong reference to it *)
Theorem C12_no_dangling_reference :
  forall s pins x y, obj_live (collect pins s).2 y = true -> x ∈ out_edges (collect pins s).2 y ->
    obj_live s x = true -> obj_live (collect pins s).2 x = true.
Proof. exact collect_no_dangling. Qed.

(* what the program still holds is never released *)
Theorem C12_held_objects_survive :
  forall s pins x, x ∈ roots s pins -> obj_live s x = true -> obj_live (collect pins s).2 x = true.
Proof. exact collect_keeps_roots. Qed.

(* releasing objects never changes what any remaining observer reads *)
Theorem C12_release_does_not_affect_reads :
  forall pins s o ob, obss s !! o = Some ob -> is_Some (nodes s !! o_observing ob) ->
    read_result (collect pins s).2 o = read_result s o.
Proof. exact collect_read_frame. Qed.

(* handles may be given up in any order: a sequence of drops — observers (last clone or not), variables,
   node handles, the handles bind closures exported — never panics, whatever the state (before or after a
   stabilise, or in the middle of a failed one) ... *)
Theorem C12_dropping_handles_never_panics :
  forall fuel st o s, is_drop_op o = true -> no_real_panic (step fuel st o s).1.
Proof. exact drops_never_panic. Qed.

(* ... and, in whatever order, leaves the read of every observer that is not itself being dropped as it was *)
Theorem C12_dropping_handles_does_not_affect_reads :
  forall fuel ops st s o ob,
    Forall (fun op => is_drop_op op = true /\ op_target op <> Some o) ops ->
    obss s !! o = Some ob -> is_Some (nodes s !! o_observing ob) ->
    Forall (fun e => read_result e.2 o = read_result s o) (run fuel ops st s).
Proof. exact run_drops_reads_frozen. Qed.

(* non-vacuity: after the handle of a chain is dropped and its observer is gone, one stabilise later
   the whole chain is released, while the still-observed part stays *)
Example C12_nonvacuous :
  let h := [OpVar 1; OpMap 2 [] [0%nat]; OpMap 2 [] [1%nat]; OpObserve 2; OpObserve 0; OpStabilise;
            OpDropNode 1; OpDropNode 2; OpDropObs 0; OpStabilise] in
  match stdpp.list.last (run_history 100 128 true h) with
  | Some (_, _, s) => n_live <$> nodes s
  | None => []
  end = [true; false; false].
Proof. vm_compute. reflexivity. Qed.

Print Assumptions C12_nothing_unreferenced_survives.
Print Assumptions C12_no_dangling_reference.
Print Assumptions C12_held_objects_survive.
Print Assumptions C12_release_does_not_affect_reads.
Print Assumptions C12_dropping_handles_never_panics.
Print Assumptions C12_dropping_handles_does_not_affect_reads.
