(* C02 — glitch-free propagation: a node function is invoked at most once per stabilisation, with its
   inputs' final values.  Statements about the engine model E.

   Proved here: the timestamp half of the argument, for every history and both build profiles.
   Every timestamp is written with the stabilisation number current at the moment of the write, and
   that number only grows; so no `changed_at`/`set_at` is ever later than the clock.  recompute_one
   stamps its node with the clock before anything else, and nothing moves that stamp during the same
   stabilisation.  Hence a node that has been recomputed in a stabilisation is not stale — no input has
   a later stamp — from that moment until the propagation phase ends: the staleness rule never asks for
   a second invocation.  (The exception is an expert node told to run again by make_stale or by an
   edge being added or removed, which is the documented way to ask for exactly that.)

   Also proved: the heap releases a queued node of minimal height (last theorem).
   Not proved here: that every input of a node is strictly lower than it whenever both are queued (the
   height invariant and its maintenance under dynamic rewiring), which is what turns "minimal height
   first" into "every input has already reached its final value".
   That half, and the invocation counts themselves, are decided by the comparison of the model with
   the crate on generated histories plus the from-scratch oracle: see DESIGN.md. *)
From stdpp Require Import base list option numbers.
From RecordUpdate Require Import RecordUpdate.
From Incr.Model Require Import Base Live Engine Api.
From Incr.Proofs Require Import Pres Stamps FrameStampsOk FrameStamped RchInv RchMin Histories.
Local Open Scope Z_scope.

(* [stamps_ok s]: the stabilisation number is not negative; no node's recomputed_at or changed_at and
   no variable's set_at is later than it. *)

(* it holds in every state of every history, debug or release, whether or not operations panic *)
Theorem C02_no_timestamp_ahead_of_the_clock :
  forall fuel max_height dbg ops,
    Forall (fun e => stamps_ok e.2) (run_history fuel max_height dbg ops).
Proof. exact history_stamps_ok. Qed.

(* every engine step keeps it and never turns the clock back *)
Theorem C02_every_operation_keeps_the_timestamps_behind_the_clock :
  forall fuel st o, pres Rok (step fuel st o).
Proof. exact ok_step. Qed.

(* a node stamped as recomputed in the current stabilisation is not stale *)
Theorem C02_recomputed_in_this_stabilisation_is_not_stale :
  forall s n x,
    stamps_ok s -> nodes s !! n = Some x -> n_recomputed_at x = stab_num s ->
    match node_kind x with Some (KExpert _) => False | _ => True end ->
    is_stale s x = false.
Proof. exact stamped_now_not_stale. Qed.

(* ... an expert node only if it was explicitly asked to run again *)
Theorem C02_expert_recomputed_in_this_stabilisation_is_stale_only_on_request :
  forall s n x e ex,
    stamps_ok s -> nodes s !! n = Some x -> n_recomputed_at x = stab_num s ->
    node_kind x = Some (KExpert e) -> experts s !! e = Some ex ->
    is_stale s x = ex_force_stale ex.
Proof. exact stamped_now_expert_stale. Qed.

(* recompute_one stamps its node: when it is over — however it ends — the node carries the current
   stabilisation number and is not stale *)
Theorem C02_recompute_stamps_the_node :
  forall fuel n s x,
    nodes s !! n = Some x ->
    let s' := (recompute_one fuel n s).2 in
    stab_num s' = stab_num s /\ exists x', nodes s' !! n = Some x' /\ n_recomputed_at x' = stab_num s'.
Proof. exact recompute_one_stamps. Qed.

Theorem C02_after_its_recompute_a_node_is_not_stale :
  forall fuel n s x,
    stamps_ok s -> nodes s !! n = Some x ->
    let s' := (recompute_one fuel n s).2 in
    exists x', nodes s' !! n = Some x' /\
      (match node_kind x' with Some (KExpert _) => True | _ => is_stale s' x' = false end).
Proof. exact recompute_one_not_stale. Qed.

(* and it stays that way for the rest of the propagation phase, whatever else is recomputed, rewired,
   invalidated, created or dropped meanwhile *)
Theorem C02_once_recomputed_never_stale_again_in_the_same_stabilisation :
  forall fuel s n x,
    stamps_ok s -> nodes s !! n = Some x -> n_recomputed_at x = stab_num s ->
    let s' := (stabilise_loop fuel s).2 in
    stamps_ok s' /\ stab_num s' = stab_num s /\
    exists x', nodes s' !! n = Some x' /\ n_recomputed_at x' = stab_num s' /\
      (match node_kind x' with Some (KExpert _) => True | _ => is_stale s' x' = false end).
Proof. exact stamped_rest_of_propagation. Qed.

(* nodes are released in height order: from a state in which the heap is consistent (every state of a
   debug-build history is: C11), remove_min returns a queued node whose height in the heap is minimal
   among all queued nodes *)
Theorem C02_heap_releases_a_node_of_minimal_height :
  forall s r s',
    debug s = true -> rch_inv s -> rch_extra s ->
    rch_remove_min s = (Ok r, s') ->
    match r with
    | Some n => exists x, nodes s !! n = Some x /\ 0 <= n_height_in_rch x
                  /\ forall m y, nodes s !! m = Some y -> 0 <= n_height_in_rch y ->
                       n_height_in_rch x <= n_height_in_rch y
    | None => True
    end.
Proof. exact rch_remove_min_is_min. Qed.

(* non-vacuity: a diamond — the join is invoked once per stabilisation (events are logged newest
   first), and every node recomputed in the last stabilisation carries that stabilisation's number *)
Example C02_nonvacuous :
  let h := [OpVar 1; OpMap 2 [] [0%nat]; OpMap 5 [] [0%nat]; OpMap 3 [] [1%nat; 2%nat]; OpObserve 3; OpStabilise;
            OpSet 0 7; OpStabilise] in
  let last := List.last (run_history 100 128 false h) (Ok OutUnit, [], init_state 128 false) in
  (length (List.filter (fun e => match e with EvInv 3%nat _ _ _ => true | _ => false end) last.1.2),
   stab_num last.2, (fun x => n_recomputed_at x) <$> nodes last.2)
  = (1%nat, 2, [1; 1; 1; 1]).
Proof. vm_compute. reflexivity. Qed.

Print Assumptions C02_no_timestamp_ahead_of_the_clock.
Print Assumptions C02_every_operation_keeps_the_timestamps_behind_the_clock.
Print Assumptions C02_recomputed_in_this_stabilisation_is_not_stale.
Print Assumptions C02_expert_recomputed_in_this_stabilisation_is_stale_only_on_request.
Print Assumptions C02_recompute_stamps_the_node.
Print Assumptions C02_after_its_recompute_a_node_is_not_stale.
Print Assumptions C02_once_recomputed_never_stale_again_in_the_same_stabilisation.
Print Assumptions C02_heap_releases_a_node_of_minimal_height.
