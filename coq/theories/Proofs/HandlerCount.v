(* C09 / C11: the handler count of a node.

   `num_on_update_handlers` (node.rs) decides whether a node that changed is queued for its update handlers
   (maybe_change_value: `if num_on_update_handlers > 0 { handle_after_stabilisation }`).  It is kept by hand in
   five places: add_to_observed_node / remove_from_observed_node (an observer is linked to / unlinked from the
   node, with whatever handlers it carries), InternalObserver::subscribe / unsubscribe (only when the observer is
   linked) and Node::add_on_update_handler.

   HC: in every node the counter equals the number of handlers attached to the node itself plus the handlers of
   every observer linked to it; the list of linked observers has no duplicates and agrees with the observers'
   own state (InUse or Disallowed = linked); subscription tokens of one observer are distinct (so removing a
   token removes one handler). *)
From stdpp Require Import base list option numbers.
From RecordUpdate Require Import RecordUpdate.
From Incr.Model Require Import Base Live Engine Api.
From Incr.Proofs Require Import Pres OkPres.
Local Open Scope Z_scope.

Definition hlen (s : state) (o : oid) : Z :=
  match obss s !! o with Some ob => zlen (o_handlers ob) | None => 0 end.
Definition hsum (s : state) (l : list oid) : Z := foldr (fun o a => hlen s o + a) 0 l.
Definition linked (ob : obs) : Prop := o_state ob = OInUse \/ o_state ob = ODisallowed.
Definition tokens_ok (ob : obs) : Prop :=
  NoDup (hd_token <$> o_handlers ob) /\ Forall (fun h => hd_token h < o_next_token ob) (o_handlers ob).

Definition HC (s : state) : Prop :=
  (forall n x, nodes s !! n = Some x -> n_num_handlers x = zlen (n_handlers x) + hsum s (n_observers x))
  /\ (forall n x o, nodes s !! n = Some x -> o ∈ n_observers x ->
        exists ob, obss s !! o = Some ob /\ o_observing ob = n /\ linked ob)
  /\ (forall n x, nodes s !! n = Some x -> NoDup (n_observers x))
  /\ (forall o ob, obss s !! o = Some ob -> linked ob ->
        exists x, nodes s !! o_observing ob = Some x /\ o ∈ n_observers x)
  /\ (forall o ob, obss s !! o = Some ob -> tokens_ok ob).

(* ---- sums *)
Lemma hsum_ext s s' l : (forall o, o ∈ l -> hlen s' o = hlen s o) -> hsum s' l = hsum s l.
Proof.
  induction l as [|a l IH]; intros H; simpl; [done|].
  rewrite H by (by left). rewrite IH; [done|]. intros o Ho. apply H. by right.
Qed.
Lemma hsum_app s l o : hsum s (l ++ [o]) = hsum s l + hlen s o.
Proof. induction l as [|a l IH]; simpl; [lia|]. rewrite IH. lia. Qed.
Lemma hsum_remove s l o : NoDup l -> o ∈ l -> hsum s (remove_from_list o l) = hsum s l - hlen s o.
Proof.
  unfold remove_from_list. induction l as [|a l IH]; intros Hnd Ho; [by apply elem_of_nil in Ho|].
  apply list.NoDup_cons in Hnd as [Ha Hnd]. destruct (decide (a = o)) as [->|Hne].
  - rewrite filter_cons_False by (intros H; by apply H). simpl.
    assert (filter (fun y => y <> o) l = l) as ->; [|lia].
    clear IH Ho Hnd. induction l as [|b l IH]; [done|].
    rewrite filter_cons_True by (intros ->; apply Ha; by left). f_equal. apply IH. intros H. apply Ha. by right.
  - rewrite filter_cons_True by done. simpl. rewrite IH; [lia|done|].
    apply elem_of_cons in Ho as [->|Ho]; done.
Qed.
Lemma hsum_change s s' l o : NoDup l -> o ∈ l -> (forall o', o' <> o -> hlen s' o' = hlen s o') ->
  hsum s' l = hsum s l + (hlen s' o - hlen s o).
Proof.
  induction l as [|a l IH]; intros Hnd Ho Hoth; [by apply elem_of_nil in Ho|].
  apply list.NoDup_cons in Hnd as [Ha Hnd]. simpl. destruct (decide (a = o)) as [->|Hne].
  - rewrite (hsum_ext s s' l); [lia|]. intros o' Ho'. apply Hoth. intros ->. done.
  - rewrite Hoth by done. rewrite IH; [lia|done| |done]. apply elem_of_cons in Ho as [->|Ho]; done.
Qed.

Lemma hlen_alter_ne s s' f o o' : obss s' = alter f o (obss s) -> o' <> o -> hlen s' o' = hlen s o'.
Proof. intros H Hne. unfold hlen. rewrite H, list_lookup_alter_ne by done. done. Qed.
Lemma hlen_alter_eq s s' f o ob : obss s' = alter f o (obss s) -> obss s !! o = Some ob ->
  hlen s' o = zlen (o_handlers (f ob)).
Proof. intros H Ho. unfold hlen. rewrite H, list_lookup_alter, Ho. done. Qed.
Lemma hlen_Some s o ob : obss s !! o = Some ob -> hlen s o = zlen (o_handlers ob).
Proof. intros Ho. unfold hlen. by rewrite Ho. Qed.

(* ---- the frame: writes that do not concern the bookkeeping *)
Lemma HC_same s s' : nodes s' = nodes s -> obss s' = obss s -> HC s -> HC s'.
Proof.
  intros H1 H2 (A & B & C & D & E). unfold HC.
  assert (forall l, hsum s' l = hsum s l) as Hs by (intros l; apply hsum_ext; intros o _; unfold hlen; by rewrite H2).
  rewrite H1, H2. split_and!; try done. intros n x Hx. rewrite Hs. by eapply A.
Qed.

(* a node changes, but not its counter minus its own handlers, nor its observers *)
Lemma HC_alter s s' m f : nodes s' = alter f m (nodes s) -> obss s' = obss s ->
  (forall x, n_observers (f x) = n_observers x /\
             n_num_handlers (f x) - zlen (n_handlers (f x)) = n_num_handlers x - zlen (n_handlers x)) ->
  HC s -> HC s'.
Proof.
  intros H1 H2 Hf (A & B & C & D & E). unfold HC.
  assert (forall l, hsum s' l = hsum s l) as Hs by (intros l; apply hsum_ext; intros o _; unfold hlen; by rewrite H2).
  assert (forall n x', nodes s' !! n = Some x' -> exists x, nodes s !! n = Some x /\ n_observers x' = n_observers x
            /\ n_num_handlers x' - zlen (n_handlers x') = n_num_handlers x - zlen (n_handlers x)) as Hback.
  { intros n x' Hx'. rewrite H1 in Hx'. destruct (decide (m = n)) as [->|Hne].
    - rewrite list_lookup_alter in Hx'. destruct (nodes s !! n) as [y|] eqn:Hy; [|done]. simpl in Hx'. injection Hx' as <-.
      exists y. destruct (Hf y). done.
    - rewrite list_lookup_alter_ne in Hx' by done. exists x'. done. }
  rewrite H2. split_and!.
  - intros n x' Hx'. destruct (Hback n x' Hx') as (x & Hx & Ho & Hc). rewrite Ho, Hs. specialize (A n x Hx). lia.
  - intros n x' o Hx' Hin. destruct (Hback n x' Hx') as (x & Hx & Ho & _). rewrite Ho in Hin. by eapply B.
  - intros n x' Hx'. destruct (Hback n x' Hx') as (x & Hx & Ho & _). rewrite Ho. by eapply C.
  - intros o ob Ho Hl. destruct (D o ob Ho Hl) as (x & Hx & Hin). rewrite H1.
    destruct (decide (m = o_observing ob)) as [->|Hne].
    + exists (f x). rewrite list_lookup_alter, Hx. split; [done|]. destruct (Hf x) as [-> _]. done.
    + exists x. rewrite list_lookup_alter_ne by done. done.
  - done.
Qed.

Lemma HC_app s s' k sc : nodes s' = nodes s ++ [new_node k sc] -> obss s' = obss s -> HC s -> HC s'.
Proof.
  intros H1 H2 (A & B & C & D & E). unfold HC.
  assert (forall l, hsum s' l = hsum s l) as Hs by (intros l; apply hsum_ext; intros o _; unfold hlen; by rewrite H2).
  rewrite H1, H2. split_and!.
  - intros n x Hx. apply lookup_app_Some in Hx as [Hx|[_ Hx]]; [rewrite Hs; by eapply A|].
    apply list_lookup_singleton_Some in Hx as [_ <-]. done.
  - intros n x o Hx Hin. apply lookup_app_Some in Hx as [Hx|[_ Hx]]; [by eapply B|].
    apply list_lookup_singleton_Some in Hx as [_ <-]. simpl in Hin. by apply elem_of_nil in Hin.
  - intros n x Hx. apply lookup_app_Some in Hx as [Hx|[_ Hx]]; [by eapply C|].
    apply list_lookup_singleton_Some in Hx as [_ <-]. simpl. constructor.
  - intros o ob Ho Hl. destruct (D o ob Ho Hl) as (x & Hx & Hin). exists x. split; [|done]. by apply lookup_app_l_Some.
  - done.
Qed.

(* an observer changes; if it is linked, not its state, its node or the number of its handlers *)
Lemma HC_alter_obs s s' o f : obss s' = alter f o (obss s) -> nodes s' = nodes s ->
  (forall ob, obss s !! o = Some ob -> tokens_ok ob ->
     o_observing (f ob) = o_observing ob /\ (linked (f ob) <-> linked ob) /\ tokens_ok (f ob)
     /\ (linked ob -> length (o_handlers (f ob)) = length (o_handlers ob))) ->
  HC s -> HC s'.
Proof.
  intros H2 H1 Hf (A & B & C & D & E). unfold HC.
  assert (forall o', hlen s' o' = hlen s o' \/ (o' = o /\ exists ob, obss s !! o = Some ob /\ ~ linked ob)) as Hl.
  { intros o'. destruct (decide (o' = o)) as [->|Hne]; [|left; by eapply hlen_alter_ne].
    destruct (obss s !! o) as [ob|] eqn:Ho.
    - destruct (Hf ob eq_refl (E o ob Ho)) as (_ & _ & _ & Hlen).
      assert (linked ob \/ ~ linked ob) as [Hlk|Hnl].
      { unfold linked. destruct (o_state ob); first [left; by left | left; by right | right; intros [?|?]; done]. }
      { left. rewrite (hlen_alter_eq s s' f o ob H2 Ho), (hlen_Some s o ob Ho). unfold zlen. by rewrite Hlen. }
      right. split; [done|]. exists ob. done.
    - left. unfold hlen. rewrite H2, list_lookup_alter, Ho. done. }
  assert (forall n x, nodes s !! n = Some x -> hsum s' (n_observers x) = hsum s (n_observers x)) as Hs.
  { intros n x Hx. apply hsum_ext. intros o' Hin. destruct (Hl o') as [?|(-> & ob & Ho & Hnl)]; [done|].
    destruct (B n x o Hx Hin) as (ob' & Ho' & _ & Hlk). congruence. }
  rewrite H1. split_and!.
  - intros n x Hx. rewrite (Hs n x Hx). by eapply A.
  - intros n x o' Hx Hin. destruct (B n x o' Hx Hin) as (ob & Ho & Hobs & Hlk). rewrite H2.
    destruct (decide (o' = o)) as [->|Hne].
    + exists (f ob). rewrite list_lookup_alter, Ho. destruct (Hf ob Ho (E o ob Ho)) as (-> & Hlk' & _). split_and!; [done|done|by apply Hlk'].
    + exists ob. rewrite list_lookup_alter_ne by done. done.
  - done.
  - intros o' ob' Ho' Hlk. rewrite H2 in Ho'. destruct (decide (o' = o)) as [->|Hne].
    + rewrite list_lookup_alter in Ho'. destruct (obss s !! o) as [ob|] eqn:Ho; [|done]. simpl in Ho'. injection Ho' as <-.
      destruct (Hf ob eq_refl (E o ob Ho)) as (-> & Hlk' & _). apply D; [done|by apply Hlk'].
    + rewrite list_lookup_alter_ne in Ho' by done. by apply D.
  - intros o' ob' Ho'. rewrite H2 in Ho'. destruct (decide (o' = o)) as [->|Hne].
    + rewrite list_lookup_alter in Ho'. destruct (obss s !! o) as [ob|] eqn:Ho; [|done]. simpl in Ho'. injection Ho' as <-.
      by destruct (Hf ob eq_refl (E o ob Ho)) as (_ & _ & ? & _).
    + rewrite list_lookup_alter_ne in Ho' by done. by eapply E.
Qed.

(* a new observer: not linked, no handlers *)
Lemma HC_app_obs s s' n : obss s' = obss s ++ [Obs OCreated n [] 1 1 true] -> nodes s' = nodes s -> HC s -> HC s'.
Proof.
  intros H2 H1 (A & B & C & D & E). unfold HC.
  assert (forall m x, nodes s !! m = Some x -> hsum s' (n_observers x) = hsum s (n_observers x)) as Hs.
  { intros m x Hx. apply hsum_ext. intros o Hin. destruct (B m x o Hx Hin) as (ob & Ho & _).
    unfold hlen. rewrite H2, (lookup_app_l_Some _ _ _ _ Ho), Ho. done. }
  rewrite H1. split_and!.
  - intros m x Hx. rewrite (Hs m x Hx). by eapply A.
  - intros m x o Hx Hin. destruct (B m x o Hx Hin) as (ob & Ho & ?). exists ob. rewrite H2. split; [|done]. by apply lookup_app_l_Some.
  - done.
  - intros o ob Ho Hlk. rewrite H2 in Ho. apply lookup_app_Some in Ho as [Ho|[_ Ho]]; [by apply D|].
    apply list_lookup_singleton_Some in Ho as [_ <-]. destruct Hlk; done.
  - intros o ob Ho. rewrite H2 in Ho. apply lookup_app_Some in Ho as [Ho|[_ Ho]]; [by eapply E|].
    apply list_lookup_singleton_Some in Ho as [_ <-]. split; simpl; constructor.
Qed.

Lemma HC_collect pins s : HC s -> HC (collect pins s).2.
Proof.
  intros (A & B & C & D & E). unfold HC.
  assert (forall o, hlen (collect pins s).2 o = hlen s o) as Hl.
  { intros o. unfold hlen. simpl. rewrite list_lookup_imap. destruct (obss s !! o) as [ob|]; [|done]. simpl. by case_bool_decide. }
  assert (forall l, hsum (collect pins s).2 l = hsum s l) as Hs by (intros l; apply hsum_ext; intros; apply Hl).
  assert (forall n x', nodes (collect pins s).2 !! n = Some x' ->
            exists x, nodes s !! n = Some x /\ n_observers x' = n_observers x /\ n_handlers x' = n_handlers x /\ n_num_handlers x' = n_num_handlers x) as Hn.
  { intros n x' Hx'. simpl in Hx'. rewrite list_lookup_imap in Hx'. destruct (nodes s !! n) as [y|] eqn:Hy; [|done]. simpl in Hx'. injection Hx' as <-.
    exists y. by case_bool_decide. }
  assert (forall o ob', obss (collect pins s).2 !! o = Some ob' ->
            exists ob, obss s !! o = Some ob /\ o_state ob' = o_state ob /\ o_observing ob' = o_observing ob /\ o_handlers ob' = o_handlers ob /\ o_next_token ob' = o_next_token ob) as Ho.
  { intros o ob' Hob'. simpl in Hob'. rewrite list_lookup_imap in Hob'. destruct (obss s !! o) as [y|] eqn:Hy; [|done]. simpl in Hob'. injection Hob' as <-.
    exists y. by case_bool_decide. }
  assert (forall n x, nodes s !! n = Some x -> exists x', nodes (collect pins s).2 !! n = Some x' /\ n_observers x' = n_observers x) as Hn'.
  { intros n x Hx. simpl. rewrite list_lookup_imap, Hx. simpl. eexists. split; [done|]. by case_bool_decide. }
  assert (forall o ob, obss s !! o = Some ob -> exists ob', obss (collect pins s).2 !! o = Some ob' /\ o_state ob' = o_state ob /\ o_observing ob' = o_observing ob) as Ho'.
  { intros o ob Hob. simpl. rewrite list_lookup_imap, Hob. simpl. eexists. split; [done|]. by case_bool_decide. }
  split_and!.
  - intros n x' Hx'. destruct (Hn n x' Hx') as (x & Hx & -> & -> & ->). rewrite Hs. by eapply A.
  - intros n x' o Hx' Hin. destruct (Hn n x' Hx') as (x & Hx & Hob & _). rewrite Hob in Hin.
    destruct (B n x o Hx Hin) as (ob & Hob' & Hobs & Hlk). destruct (Ho' o ob Hob') as (ob' & ? & Hst & Hov).
    exists ob'. split_and!; [done|congruence|]. unfold linked in *. rewrite Hst. done.
  - intros n x' Hx'. destruct (Hn n x' Hx') as (x & Hx & -> & _). by eapply C.
  - intros o ob' Hob' Hlk. destruct (Ho o ob' Hob') as (ob & Hob & Hst & Hov & _).
    assert (linked ob) as Hlk' by (unfold linked in *; by rewrite <- Hst).
    destruct (D o ob Hob Hlk') as (x & Hx & Hin). destruct (Hn' _ x Hx) as (x' & Hx' & Hobs).
    exists x'. rewrite Hov. split; [done|]. by rewrite Hobs.
  - intros o ob' Hob'. destruct (Ho o ob' Hob') as (ob & Hob & _ & _ & Hh & Ht). unfold tokens_ok. rewrite Hh, Ht. by eapply E.
Qed.

Lemma HC_init N dbg : HC (init_state N dbg).
Proof. unfold HC, init_state. simpl. split_and!; intros; done. Qed.

(* ---- the writers *)
(* an observer is linked to its node, with whatever handlers it carries (add_to_observed_node) *)
Lemma HC_link s s' o ob n :
  obss s !! o = Some ob -> o_state ob = OCreated -> o_observing ob = n -> is_Some (nodes s !! n) ->
  obss s' = alter (fun ob => ob <| o_state := OInUse |>) o (obss s) ->
  nodes s' = alter (fun x => x <| n_observers := n_observers x ++ [o] |>
                               <| n_num_handlers := n_num_handlers x + zlen (o_handlers ob) |>) n (nodes s) ->
  HC s -> HC s'.
Proof.
  intros Ho Hst Hobs [xn Hxn] H2 H1 (A & B & C & D & E). unfold HC.
  assert (forall o', hlen s' o' = hlen s o') as Hl.
  { intros o'. destruct (decide (o' = o)) as [->|Hne]; [|by eapply hlen_alter_ne].
    rewrite (hlen_alter_eq s s' _ o ob H2 Ho), (hlen_Some s o ob Ho). done. }
  assert (forall l, hsum s' l = hsum s l) as Hs by (intros l; apply hsum_ext; intros; apply Hl).
  assert (forall m x, nodes s !! m = Some x -> o ∉ n_observers x) as Hnot.
  { intros m x Hx Hin. destruct (B m x o Hx Hin) as (ob' & Ho' & _ & [?|?]); congruence. }
  split_and!.
  - intros m x' Hx'. rewrite H1 in Hx'. destruct (decide (n = m)) as [->|Hne].
    + rewrite list_lookup_alter, Hxn in Hx'. simpl in Hx'. injection Hx' as <-. simpl.
      rewrite Hs, hsum_app, (hlen_Some s o ob Ho). specialize (A m xn Hxn). lia.
    + rewrite list_lookup_alter_ne in Hx' by done. rewrite Hs. by eapply A.
  - intros m x' o' Hx' Hin. rewrite H1 in Hx'. rewrite H2. destruct (decide (n = m)) as [->|Hne].
    + rewrite list_lookup_alter, Hxn in Hx'. simpl in Hx'. injection Hx' as <-. simpl in Hin.
      apply elem_of_app in Hin as [Hin|Hin%elem_of_list_singleton].
      * destruct (B m xn o' Hxn Hin) as (ob' & Ho' & ? & ?). assert (o' <> o) by (intros ->; by eapply Hnot).
        exists ob'. rewrite list_lookup_alter_ne by done. done.
      * subst o'. eexists. rewrite list_lookup_alter, Ho. simpl. split_and!; [done|done|by left].
    + rewrite list_lookup_alter_ne in Hx' by done. destruct (B m x' o' Hx' Hin) as (ob' & Ho' & ? & ?).
      assert (o' <> o) by (intros ->; by eapply Hnot). exists ob'. rewrite list_lookup_alter_ne by done. done.
  - intros m x' Hx'. rewrite H1 in Hx'. destruct (decide (n = m)) as [->|Hne].
    + rewrite list_lookup_alter, Hxn in Hx'. simpl in Hx'. injection Hx' as <-. simpl.
      apply list.NoDup_app. split_and!; [by eapply C| |apply list.NoDup_singleton].
      intros y Hy Hy'%elem_of_list_singleton. subst y. by eapply Hnot.
    + rewrite list_lookup_alter_ne in Hx' by done. by eapply C.
  - intros o' ob' Ho' Hlk. rewrite H2 in Ho'. rewrite H1. destruct (decide (o' = o)) as [->|Hne].
    + rewrite list_lookup_alter, Ho in Ho'. simpl in Ho'. injection Ho' as <-. simpl. rewrite Hobs.
      eexists. rewrite list_lookup_alter, Hxn. simpl. split; [done|]. simpl. apply elem_of_app. right. by apply elem_of_list_singleton.
    + rewrite list_lookup_alter_ne in Ho' by done. destruct (D o' ob' Ho' Hlk) as (x & Hx & Hin).
      destruct (decide (n = o_observing ob')) as [Heq|Hne'].
      * rewrite <- Heq in *. rewrite Hxn in Hx. injection Hx as <-. eexists. rewrite list_lookup_alter, Hxn. simpl.
        split; [done|]. simpl. apply elem_of_app. by left.
      * exists x. rewrite list_lookup_alter_ne by done. done.
  - intros o' ob' Ho'. rewrite H2 in Ho'. destruct (decide (o' = o)) as [->|Hne].
    + rewrite list_lookup_alter, Ho in Ho'. simpl in Ho'. injection Ho' as <-. exact (E o ob Ho).
    + rewrite list_lookup_alter_ne in Ho' by done. by eapply E.
Qed.

(* a linked observer is unlinked (remove_from_observed_node) *)
Lemma HC_unlink s s' o ob n :
  obss s !! o = Some ob -> linked ob -> o_observing ob = n ->
  obss s' = alter (fun ob => ob <| o_state := OUnlinked |>) o (obss s) ->
  nodes s' = alter (fun x => x <| n_observers := remove_from_list o (n_observers x) |>
                               <| n_num_handlers := n_num_handlers x - zlen (o_handlers ob) |>) n (nodes s) ->
  HC s -> HC s'.
Proof.
  intros Ho Hlk Hobs H2 H1 (A & B & C & D & E). unfold HC.
  destruct (D o ob Ho Hlk) as (xn & Hxn & Hon). rewrite Hobs in Hxn.
  assert (forall o', hlen s' o' = hlen s o') as Hl.
  { intros o'. destruct (decide (o' = o)) as [->|Hne]; [|by eapply hlen_alter_ne].
    rewrite (hlen_alter_eq s s' _ o ob H2 Ho), (hlen_Some s o ob Ho). done. }
  assert (forall l, hsum s' l = hsum s l) as Hs by (intros l; apply hsum_ext; intros; apply Hl).
  assert (forall m x, nodes s !! m = Some x -> o ∈ n_observers x -> m = n) as Honly.
  { intros m x Hx Hin. destruct (B m x o Hx Hin) as (ob' & Ho' & ? & _). congruence. }
  split_and!.
  - intros m x' Hx'. rewrite H1 in Hx'. destruct (decide (n = m)) as [->|Hne].
    + rewrite list_lookup_alter, Hxn in Hx'. simpl in Hx'. injection Hx' as <-. simpl.
      rewrite Hs, hsum_remove by (done || by eapply C). rewrite (hlen_Some s o ob Ho). specialize (A m xn Hxn). lia.
    + rewrite list_lookup_alter_ne in Hx' by done. rewrite Hs. by eapply A.
  - intros m x' o' Hx' Hin. rewrite H1 in Hx'. rewrite H2. destruct (decide (n = m)) as [->|Hne].
    + rewrite list_lookup_alter, Hxn in Hx'. simpl in Hx'. injection Hx' as <-. simpl in Hin.
      unfold remove_from_list in Hin. apply elem_of_list_filter in Hin as [Hne Hin].
      destruct (B m xn o' Hxn Hin) as (ob' & Ho' & ? & ?). exists ob'. rewrite list_lookup_alter_ne by done. done.
    + rewrite list_lookup_alter_ne in Hx' by done. destruct (B m x' o' Hx' Hin) as (ob' & Ho' & ? & ?).
      assert (o' <> o) by (intros ->; apply Hne; symmetry; by eapply Honly). exists ob'. rewrite list_lookup_alter_ne by done. done.
  - intros m x' Hx'. rewrite H1 in Hx'. destruct (decide (n = m)) as [->|Hne].
    + rewrite list_lookup_alter, Hxn in Hx'. simpl in Hx'. injection Hx' as <-. simpl. apply list.NoDup_filter. by eapply C.
    + rewrite list_lookup_alter_ne in Hx' by done. by eapply C.
  - intros o' ob' Ho' Hlk'. rewrite H2 in Ho'. rewrite H1. destruct (decide (o' = o)) as [->|Hne].
    + rewrite list_lookup_alter, Ho in Ho'. simpl in Ho'. injection Ho' as <-. destruct Hlk'; done.
    + rewrite list_lookup_alter_ne in Ho' by done. destruct (D o' ob' Ho' Hlk') as (x & Hx & Hin).
      destruct (decide (n = o_observing ob')) as [Heq|Hne'].
      * rewrite <- Heq in *. rewrite Hxn in Hx. injection Hx as <-. eexists. rewrite list_lookup_alter, Hxn. simpl.
        split; [done|]. simpl. unfold remove_from_list. apply elem_of_list_filter. done.
      * exists x. rewrite list_lookup_alter_ne by done. done.
  - intros o' ob' Ho'. rewrite H2 in Ho'. destruct (decide (o' = o)) as [->|Hne].
    + rewrite list_lookup_alter, Ho in Ho'. simpl in Ho'. injection Ho' as <-. exact (E o ob Ho).
    + rewrite list_lookup_alter_ne in Ho' by done. by eapply E.
Qed.

(* a linked observer gains or loses handlers, and the node's counter moves by as much (subscribe / unsubscribe) *)
Lemma HC_count s s' o ob f d :
  obss s !! o = Some ob -> linked ob ->
  obss s' = alter f o (obss s) ->
  nodes s' = alter (fun x => x <| n_num_handlers := n_num_handlers x + d |>) (o_observing ob) (nodes s) ->
  o_state (f ob) = o_state ob -> o_observing (f ob) = o_observing ob ->
  zlen (o_handlers (f ob)) = zlen (o_handlers ob) + d -> tokens_ok (f ob) ->
  HC s -> HC s'.
Proof.
  intros Ho Hlk H2 H1 Hst Hov Hlen Htok (A & B & C & D & E). unfold HC.
  set (n := o_observing ob) in *.
  destruct (D o ob Ho Hlk) as (xn & Hxn & Hon). fold n in Hxn.
  assert (forall o', o' <> o -> hlen s' o' = hlen s o') as Hl by (intros o' Hne; by eapply hlen_alter_ne).
  assert (hlen s' o - hlen s o = d) as Hd.
  { rewrite (hlen_alter_eq s s' f o ob H2 Ho), (hlen_Some s o ob Ho). lia. }
  assert (forall m x, nodes s !! m = Some x -> o ∈ n_observers x -> m = n) as Honly.
  { intros m x Hx Hin. destruct (B m x o Hx Hin) as (ob' & Ho' & ? & _). subst n. congruence. }
  split_and!.
  - intros m x' Hx'. rewrite H1 in Hx'. destruct (decide (n = m)) as [<-|Hne].
    + rewrite list_lookup_alter, Hxn in Hx'. simpl in Hx'. injection Hx' as <-. simpl.
      rewrite (hsum_change s s' (n_observers xn) o) by (done || by eapply C). specialize (A n xn Hxn). lia.
    + rewrite list_lookup_alter_ne in Hx' by done.
      rewrite (hsum_ext s s'); [by eapply A|]. intros o' Hin. apply Hl. intros ->. apply Hne. symmetry. by eapply Honly.
  - intros m x' o' Hx' Hin.
    assert (exists x, nodes s !! m = Some x /\ n_observers x' = n_observers x) as (x & Hx & Heq).
    { rewrite H1 in Hx'. destruct (decide (n = m)) as [<-|Hne].
      - rewrite list_lookup_alter, Hxn in Hx'. simpl in Hx'. injection Hx' as <-. by exists xn.
      - rewrite list_lookup_alter_ne in Hx' by done. by exists x'. }
    rewrite Heq in Hin. destruct (B m x o' Hx Hin) as (ob' & Ho' & Hob' & Hlk'). rewrite H2.
    destruct (decide (o' = o)) as [->|Hne].
    + assert (ob' = ob) as -> by congruence. exists (f ob). rewrite list_lookup_alter, Ho. simpl.
      split_and!; [done|rewrite Hov; exact Hob'|]. unfold linked in *. by rewrite Hst.
    + exists ob'. rewrite list_lookup_alter_ne by done. done.
  - intros m x' Hx'. rewrite H1 in Hx'. destruct (decide (n = m)) as [<-|Hne].
    + rewrite list_lookup_alter, Hxn in Hx'. simpl in Hx'. injection Hx' as <-. simpl. by eapply C.
    + rewrite list_lookup_alter_ne in Hx' by done. by eapply C.
  - intros o' ob' Ho' Hlk'. rewrite H2 in Ho'.
    assert (exists ob0, obss s !! o' = Some ob0 /\ o_observing ob' = o_observing ob0 /\ linked ob0) as (ob0 & Ho0 & Hov0 & Hlk0).
    { destruct (decide (o' = o)) as [->|Hne].
      - rewrite list_lookup_alter, Ho in Ho'. simpl in Ho'. injection Ho' as <-. exists ob. done.
      - rewrite list_lookup_alter_ne in Ho' by done. exists ob'. done. }
    destruct (D o' ob0 Ho0 Hlk0) as (x & Hx & Hin). rewrite Hov0, H1.
    destruct (decide (n = o_observing ob0)) as [Heq|Hne].
    + rewrite <- Heq in *. rewrite Hxn in Hx. injection Hx as <-. eexists. rewrite list_lookup_alter, Hxn. simpl. done.
    + exists x. rewrite list_lookup_alter_ne by done. done.
  - intros o' ob' Ho'. rewrite H2 in Ho'. destruct (decide (o' = o)) as [->|Hne].
    + rewrite list_lookup_alter, Ho in Ho'. simpl in Ho'. by injection Ho' as <-.
    + rewrite list_lookup_alter_ne in Ho' by done. by eapply E.
Qed.

(* ---- tokens *)
Lemma filter_token_id (l : list handler) tok :
  tok ∉ (hd_token <$> l) -> filter (fun h => hd_token h <> tok) l = l.
Proof.
  induction l as [|b l IH]; intros Hnot; [done|]. rewrite fmap_cons in Hnot.
  rewrite filter_cons_True.
  - f_equal. apply IH. intros H. apply Hnot. by right.
  - intros Hb. apply Hnot. rewrite Hb. by left.
Qed.

Lemma filter_token_length (l : list handler) tok :
  NoDup (hd_token <$> l) -> existsb (fun h => bool_decide (hd_token h = tok)) l = true ->
  zlen (filter (fun h => hd_token h <> tok) l) = zlen l - 1.
Proof.
  unfold zlen. induction l as [|h l IH]; intros Hnd Hex; [done|].
  rewrite fmap_cons in Hnd. apply list.NoDup_cons in Hnd as [Hh Hnd]. simpl in Hex.
  destruct (decide (hd_token h = tok)) as [Heq|Hne].
  - rewrite filter_cons_False by (intros H; by apply H).
    rewrite filter_token_id by (by rewrite <- Heq). simpl length. lia.
  - rewrite filter_cons_True by done. rewrite bool_decide_eq_false_2 in Hex by done. simpl in Hex.
    specialize (IH Hnd Hex). simpl length. lia.
Qed.

Lemma tokens_ok_filter ob (P : handler -> Prop) `{!forall h, Decision (P h)} :
  tokens_ok ob -> tokens_ok (ob <| o_handlers := filter P (o_handlers ob) |>).
Proof.
  intros [Hnd Hlt]. split; simpl.
  - clear Hlt. induction (o_handlers ob) as [|h l IH]; [constructor|].
    rewrite fmap_cons in Hnd. apply list.NoDup_cons in Hnd as [Hh Hnd].
    destruct (decide (P h)).
    + rewrite filter_cons_True by done. rewrite fmap_cons. apply list.NoDup_cons. split; [|by apply IH].
      intros Hin. apply Hh. apply elem_of_list_fmap in Hin as (h' & -> & Hin). apply elem_of_list_fmap.
      exists h'. split; [done|]. by apply elem_of_list_filter in Hin as [_ ?].
    + rewrite filter_cons_False by done. by apply IH.
  - apply list.Forall_forall. intros h Hin. apply elem_of_list_filter in Hin as [_ Hin].
    rewrite list.Forall_forall in Hlt. by apply Hlt.
Qed.

Lemma tokens_ok_push ob h now :
  tokens_ok ob ->
  tokens_ok (ob <| o_next_token := o_next_token ob + 1 |>
                <| o_handlers := o_handlers ob ++ [Handler (o_next_token ob) h PNever now] |>).
Proof.
  intros [Hnd Hlt]. split; simpl.
  - rewrite fmap_app. apply list.NoDup_app. split_and!; [done| |simpl; apply list.NoDup_singleton].
    intros t Ht Ht'%elem_of_list_singleton. simpl in Ht'. subst t. apply elem_of_list_fmap in Ht as (h' & Heq & Hin).
    rewrite list.Forall_forall in Hlt. specialize (Hlt h' Hin). simpl in Hlt. lia.
  - apply Forall_app. split; [|constructor; [simpl; lia|constructor]].
    eapply List.Forall_impl; [|exact Hlt]. simpl. intros h' Hh'. lia.
Qed.

(* ---- stepping through straight-line code *)
Lemma bind_get {B} (k : state -> M B) s : bindM get k s = k s s.
Proof. done. Qed.
Lemma bind_gets {A B} (f : state -> A) (k : A -> M B) s : bindM (gets f) k s = k (f s) s.
Proof. done. Qed.
Lemma bind_ret {A B} (a : A) (k : A -> M B) s : bindM (ret a) k s = k a s.
Proof. done. Qed.
Lemma bind_modify {B} f (k : unit -> M B) s : bindM (modify f) k s = k tt (f s).
Proof. done. Qed.
Lemma bind_upd_obs {B} o f (k : unit -> M B) s : bindM (upd_obs o f) k s = k tt (s <| obss := alter f o (obss s) |>).
Proof. done. Qed.
Lemma bind_upd_node {B} n f (k : unit -> M B) s : bindM (upd_node n f) k s = k tt (s <| nodes := alter f n (nodes s) |>).
Proof. done. Qed.
Lemma bind_get_obs {B} o (k : obs -> M B) s :
  bindM (get_obs o) k s = match obss s !! o with Some ob => k ob s | None => (Panic (PModelGap 4), s) end.
Proof. unfold get_obs, bindM, get, ret, panic. destruct (obss s !! o); done. Qed.
Lemma bind_get_node_ok {B} n (k : node -> M B) s b s' :
  bindM (get_node n) k s = (Ok b, s') -> exists x, nodes s !! n = Some x /\ k x s = (Ok b, s').
Proof.
  unfold get_node, bindM, get, ret, panic. cbv beta iota. destruct (nodes s !! n) as [x|]; [|done]. intros H. by exists x.
Qed.
Lemma bind_ok {A B} (m : M A) (k : A -> M B) s b s' :
  bindM m k s = (Ok b, s') -> exists a s1, m s = (Ok a, s1) /\ k a s1 = (Ok b, s').
Proof. unfold bindM. destruct (m s) as [[a| |] s1] eqn:E; intros H; [|done|done]. by exists a, s1. Qed.

(* ---- debug builds: unlink_disallowed_observers relies on a debug assertion for the state of the observers it is
   handed, so the invariant is stated for debug builds *)
Definition HCd (s : state) : Prop := debug s = true /\ HC s.
Lemma HCd_same s s' : debug s' = debug s -> nodes s' = nodes s -> obss s' = obss s -> HCd s -> HCd s'.
Proof. intros H0 H1 H2 [Hd Hs]. split; [congruence|by eapply HC_same]. Qed.
Lemma HCd_alter s s' m f : debug s' = debug s -> nodes s' = alter f m (nodes s) -> obss s' = obss s ->
  (forall x, n_observers (f x) = n_observers x /\
             n_num_handlers (f x) - zlen (n_handlers (f x)) = n_num_handlers x - zlen (n_handlers x)) ->
  HCd s -> HCd s'.
Proof. intros H0 H1 H2 Hf [Hd Hs]. split; [congruence|by eapply HC_alter]. Qed.
Lemma HCd_app s s' k sc : debug s' = debug s -> nodes s' = nodes s ++ [new_node k sc] -> obss s' = obss s -> HCd s -> HCd s'.
Proof. intros H0 H1 H2 [Hd Hs]. split; [congruence|by eapply HC_app]. Qed.
Lemma HCd_alter_obs_handles s s' o f : debug s' = debug s -> obss s' = alter f o (obss s) -> nodes s' = nodes s ->
  (forall ob, o_state (f ob) = o_state ob /\ o_observing (f ob) = o_observing ob /\ o_handlers (f ob) = o_handlers ob
              /\ o_next_token (f ob) = o_next_token ob) ->
  HCd s -> HCd s'.
Proof.
  intros H0 H2 H1 Hf [Hd Hs]. split; [congruence|]. eapply HC_alter_obs; [exact H2|exact H1| |exact Hs].
  intros ob _ Htok. destruct (Hf ob) as (Hst & Hov & Hh & Hnt). split_and!; [done| | |].
  - unfold linked. by rewrite Hst.
  - unfold tokens_ok. by rewrite Hh, Hnt.
  - intros _. by rewrite Hh.
Qed.
Lemma HCd_collect pins s : HCd s -> HCd (collect pins s).2.
Proof. intros [Hd Hs]. split; [done|by apply HC_collect]. Qed.
Lemma HCd_init N : HCd (init_state N true).
Proof. split; [done|apply HC_init]. Qed.

(* ---- the functions that keep the books, each relative to the functions it calls *)
Section writers.
Context (Hhas : forall n, okp HCd (handle_after_stabilisation n)).

Lemma hc_observe n : okp HCd (observe n).
Proof.
  intros s a s' [Hd Hs] E. unfold observe in E. rewrite bind_get, bind_modify in E. injection E as _ <-. split; [exact Hd|].
  eapply (HC_app_obs s); [reflexivity|reflexivity|exact Hs].
Qed.

Lemma hc_disallow o : okp HCd (disallow_future_use o).
Proof.
  intros s a s' [Hd Hs] E. unfold disallow_future_use in E. rewrite bind_get_obs in E.
  destruct (obss s !! o) as [ob|] eqn:Ho; [|done].
  destruct (o_state ob) eqn:Hst.
  - (* Created: its handlers are dropped; it is not linked *)
    rewrite bind_modify in E. unfold upd_obs, modify in E. injection E as _ <-. split; [exact Hd|].
    eapply (HC_alter_obs _ _ o); [reflexivity|reflexivity| |].
    + intros ob' Ho' Htok. simpl in Ho'. assert (ob' = ob) as -> by congruence. simpl. split_and!; [done| | |].
      * unfold linked. simpl. rewrite Hst. split; intros [?|?]; done.
      * split; simpl; constructor.
      * intros [?|?]; congruence.
    + eapply (HC_same s); [reflexivity|reflexivity|exact Hs].
  - (* InUse -> Disallowed: still linked *)
    rewrite bind_modify in E. unfold upd_obs, modify in E. injection E as _ <-. split; [exact Hd|].
    eapply (HC_alter_obs _ _ o); [reflexivity|reflexivity| |].
    + intros ob' Ho' Htok. simpl in Ho'. assert (ob' = ob) as -> by congruence. simpl. split_and!; [done| |done|done].
      unfold linked. simpl. rewrite Hst. split; intros _; [by left|by right].
    + eapply (HC_same s); [reflexivity|reflexivity|exact Hs].
  - unfold ret in E. by injection E as _ <-.
  - unfold ret in E. by injection E as _ <-.
Qed.

Lemma hc_add_on_update_handler n h : okp HCd (add_on_update_handler n h).
Proof.
  intros s a s' [Hd Hs] E. unfold add_on_update_handler in E.
  repeat first [rewrite bind_gets in E | rewrite bind_get in E].
  unfold upd_node, modify in E. injection E as _ <-. split; [exact Hd|].
  eapply (HC_alter s); [reflexivity|reflexivity| |exact Hs].
  intros x. simpl. split; [done|]. unfold zlen. rewrite app_length. simpl. lia.
Qed.

Lemma hc_subscribe o h : okp HCd (subscribe o h).
Proof.
  intros s a s' [Hd Hs] E. unfold subscribe in E. rewrite bind_get_obs in E.
  destruct (obss s !! o) as [ob|] eqn:Ho; [|done]. rewrite bind_gets in E.
  pose proof Hs as (A & B & C & D & Etok).
  assert (okp HCd (handle_after_stabilisation (o_observing ob) ;;; ret (inl (o_next_token ob) : Z + Z))) as Hk.
  { apply (okp_bind HCd); [apply Hhas|]. intros ?. apply (okp_ret HCd). }
  destruct (o_state ob) eqn:Hst.
  3,4: unfold ret in E; by injection E as _ <-.
  - (* Created: not linked, the node's counter is not touched *)
    rewrite bind_upd_obs, bind_get in E. cbn [running_obs set] in E.
    match type of E with context [bool_decide ?P] => destruct (bool_decide P) end; [done|].
    rewrite bind_ret, bind_upd_obs, bind_ret in E.
    eapply Hk; [|exact E]. split; [exact Hd|].
    eapply (HC_alter_obs s _ o (fun ob0 => ob0 <| o_next_token := o_next_token ob + 1 |>
                                           <| o_handlers := o_handlers ob0 ++ [Handler (o_next_token ob) h PNever (stab_num s)] |>)).
    + simpl. etrans; [symmetry; apply list_alter_compose|]. reflexivity.
    + reflexivity.
    + intros ob' Ho' Htok. assert (ob' = ob) as -> by congruence. split_and!; [done| | |].
      * unfold linked. simpl. done.
      * by apply tokens_ok_push.
      * intros [?|?]; congruence.
    + exact Hs.
  - (* InUse *)
    rewrite bind_upd_obs, bind_get in E. cbn [running_obs set] in E.
    match type of E with context [bool_decide ?P] => destruct (bool_decide P) end; [done|].
    rewrite bind_ret, bind_upd_obs, bind_upd_node in E.
    eapply Hk; [|exact E]. split; [exact Hd|].
    eapply (HC_count s _ o ob (fun ob0 => ob0 <| o_next_token := o_next_token ob + 1 |>
                                            <| o_handlers := o_handlers ob0 ++ [Handler (o_next_token ob) h PNever (stab_num s)] |>) 1).
    + exact Ho.
    + by left.
    + simpl. etrans; [symmetry; apply list_alter_compose|]. reflexivity.
    + reflexivity.
    + done.
    + done.
    + simpl. unfold zlen. rewrite app_length. simpl. lia.
    + apply tokens_ok_push. by eapply Etok.
    + exact Hs.
Qed.

Lemma hc_unsubscribe o to tok : okp HCd (unsubscribe o to tok).
Proof.
  intros s a s' [Hd Hs] E. unfold unsubscribe in E.
  destruct (negb (bool_decide (to = o))); [unfold ret in E; by injection E as _ <-|].
  rewrite bind_get_obs in E. destruct (obss s !! o) as [ob|] eqn:Ho; [|done].
  pose proof Hs as (A & B & C & D & Etok).
  destruct (o_state ob) eqn:Hst.
  3,4: unfold ret in E; by injection E as _ <-.
  - rewrite bind_get in E.
    match type of E with context [bool_decide ?P] => destruct (bool_decide P) end; [done|]. rewrite bind_ret in E.
    destruct (existsb _ (o_handlers ob)) eqn:Hex; cbn [negb] in E; [|unfold ret in E; by injection E as _ <-].
    rewrite bind_upd_obs, bind_ret in E. unfold ret in E. injection E as _ <-. split; [exact Hd|].
    eapply (HC_alter_obs s _ o); [reflexivity|reflexivity| |exact Hs].
    intros ob' Ho' Htok. assert (ob' = ob) as -> by congruence. split_and!; [done|done| |].
    + by apply tokens_ok_filter.
    + intros [?|?]; congruence.
  - rewrite bind_get in E.
    match type of E with context [bool_decide ?P] => destruct (bool_decide P) end; [done|]. rewrite bind_ret in E.
    destruct (existsb _ (o_handlers ob)) eqn:Hex; cbn [negb] in E; [|unfold ret in E; by injection E as _ <-].
    rewrite bind_upd_obs, bind_upd_node in E. unfold ret in E. injection E as _ <-. split; [exact Hd|].
    eapply (HC_count s _ o ob (fun ob => ob <| o_handlers := filter (fun h => hd_token h <> tok) (o_handlers ob) |>) (-1)).
    + exact Ho.
    + by left.
    + reflexivity.
    + reflexivity.
    + done.
    + done.
    + simpl. rewrite filter_token_length; [lia| |exact Hex]. by destruct (Etok o ob Ho).
    + apply tokens_ok_filter. by eapply Etok.
    + exact Hs.
Qed.

(* an update handler only records what it has told its closure: the table keeps its tokens and its length *)
Lemma tokens_alter_prev (l : list handler) i p :
  hd_token <$> alter (fun h => h <| hd_prev := p |>) i l = hd_token <$> l.
Proof.
  revert i. induction l as [|h l IH]; intros i; [done|]. destruct i as [|i]; simpl; [done|]. f_equal. apply IH.
Qed.

Lemma HC_obs_prev s s' o i p :
  obss s' = alter (fun ob => ob <| o_handlers := alter (fun h => h <| hd_prev := p |>) i (o_handlers ob) |>) o (obss s) ->
  nodes s' = nodes s -> HC s -> HC s'.
Proof.
  intros H2 H1. eapply HC_alter_obs; [exact H2|exact H1|].
  intros ob Ho [Hnd Hlt]. simpl. split_and!; [done|done| |].
  - split; simpl.
    + by rewrite tokens_alter_prev.
    + apply list.Forall_forall. intros h Hin. apply elem_of_list_lookup in Hin as [j Hj].
      rewrite list.Forall_forall in Hlt. destruct (decide (i = j)) as [->|Hne].
      * rewrite list_lookup_alter in Hj. destruct (o_handlers ob !! j) as [h0|] eqn:Hh0; [|done]. simpl in Hj. injection Hj as <-.
        simpl. apply Hlt. by eapply elem_of_list_lookup_2.
      * rewrite list_lookup_alter_ne in Hj by done. apply Hlt. by eapply elem_of_list_lookup_2.
  - intros _. by rewrite alter_length.
Qed.
End writers.

Lemma HCd_obs_prev s s' o i p : debug s' = debug s ->
  obss s' = alter (fun ob => ob <| o_handlers := alter (fun h => h <| hd_prev := p |>) i (o_handlers ob) |>) o (obss s) ->
  nodes s' = nodes s -> HCd s -> HCd s'.
Proof. intros H0 H2 H1 [Hd Hs]. split; [congruence|by eapply HC_obs_prev]. Qed.

Lemma HCd_app_obs s s' n : debug s' = debug s -> obss s' = obss s ++ [Obs OCreated n [] 1 1 true] -> nodes s' = nodes s ->
  HCd s -> HCd s'.
Proof. intros H0 H2 H1 [Hd Hs]. split; [congruence|by eapply HC_app_obs]. Qed.

Lemma dassert_ret_debug b site s u s1 : debug s = true -> dassert (ret b) site s = (Ok u, s1) -> b = true /\ s1 = s.
Proof.
  intros Hd. unfold dassert. rewrite bind_gets, Hd. rewrite bind_ret. destruct b; unfold ret, panic; [|done].
  intros [= _ <-]. done.
Qed.

Section writers2.
Context (Hhas : forall n, okp HCd (handle_after_stabilisation n))
        (Hbn : forall fuel n, okp HCd (became_necessary fuel n))
        (Hpi : forall fuel, okp HCd (propagate_invalidity fuel))
        (Hciu : forall fuel n, okp HCd (check_if_unnecessary fuel n)).

Ltac cont := repeat first [ apply Hhas | apply Hbn | apply Hpi | apply Hciu | okp_step HCd | unfold get_node ].

Lemma hc_add_new_observers fuel : okp HCd (add_new_observers fuel).
Proof.
  unfold add_new_observers. apply (okp_bind HCd); [apply okp_get|]. intros s0.
  apply (okp_bind HCd).
  { apply okp_modify. intros s Hs. eapply (HCd_same s); [reflexivity|reflexivity|reflexivity|exact Hs]. }
  intros _. apply (okp_forM_ HCd). intros o.
  intros s a s' [Hd Hs] E. rewrite bind_get_obs in E. destruct (obss s !! o) as [ob|] eqn:Ho; [|done].
  destruct (o_live ob); cbn [negb] in E; [|unfold ret in E; by injection E as _ <-].
  destruct (o_state ob) eqn:Hst.
  2,3: done.
  2: unfold ret in E; by injection E as _ <-.
  rewrite bind_upd_obs in E. apply bind_get_node_ok in E as (x & Hx & E).
  rewrite bind_modify, bind_upd_node in E.
  match type of E with ?R ?s3 = _ => assert (okp HCd R) as Hk by cont end.
  eapply Hk; [|exact E]. split; [exact Hd|].
  eapply (HC_link s _ o ob (o_observing ob)); [exact Ho|exact Hst|reflexivity|by eexists|reflexivity|reflexivity|exact Hs].
Qed.

(* debug builds check that the observer handed to unlink is a disallowed one *)
Lemma hc_unlink_disallowed fuel : okp HCd (unlink_disallowed_observers fuel).
Proof.
  unfold unlink_disallowed_observers. apply (okp_bind HCd); [apply okp_get|]. intros s0.
  apply (okp_bind HCd).
  { apply okp_modify. intros s Hs. eapply (HCd_same s); [reflexivity|reflexivity|reflexivity|exact Hs]. }
  intros _. apply (okp_forM_ HCd). intros o.
  intros s a s' [Hd Hs] E. rewrite bind_get_obs in E. destruct (obss s !! o) as [ob|] eqn:Ho; [|done].
  destruct (o_live ob); cbn [negb] in E; [|unfold ret in E; by injection E as _ <-].
  apply bind_ok in E as (u & s1 & E1 & E).
  apply (dassert_ret_debug _ _ _ _ _ Hd) in E1 as [Hb ->].
  assert (o_state ob = ODisallowed) as Hst by (destruct (o_state ob); done).
  rewrite bind_upd_obs in E.
  unfold unlink_observer in E. rewrite bind_upd_node, bind_modify in E.
  eapply Hciu; [|exact E]. split; [exact Hd|].
  eapply (HC_unlink s _ o ob (o_observing ob)); [exact Ho|by right|reflexivity|reflexivity|reflexivity|exact Hs].
Qed.
End writers2.

(* ---- what the counter is for: a subscribed, linked observer keeps it positive *)
Lemma hlen_nonneg s o : 0 <= hlen s o.
Proof. unfold hlen, zlen. destruct (obss s !! o); lia. Qed.
Lemma hsum_ge s l o : o ∈ l -> hlen s o <= hsum s l.
Proof.
  assert (forall l, 0 <= hsum s l) as Hnn.
  { intros l'. induction l' as [|a l' IH]; simpl; [lia|]. pose proof (hlen_nonneg s a). lia. }
  induction l as [|a l IH]; intros Hin; [by apply elem_of_nil in Hin|]. simpl.
  apply elem_of_cons in Hin as [->|Hin].
  - specialize (Hnn l). lia.
  - specialize (IH Hin). pose proof (hlen_nonneg s a). lia.
Qed.

Lemma linked_subscription_counts s o ob x :
  HC s -> obss s !! o = Some ob -> linked ob -> o_handlers ob <> [] -> nodes s !! o_observing ob = Some x ->
  0 < n_num_handlers x.
Proof.
  intros (A & B & C & D & E) Ho Hlk Hne Hx. destruct (D o ob Ho Hlk) as (x' & Hx' & Hin).
  assert (x' = x) as -> by congruence. rewrite (A _ x Hx).
  pose proof (hsum_ge s (n_observers x) o Hin) as Hge. rewrite (hlen_Some s o ob Ho) in Hge.
  assert (0 < zlen (o_handlers ob)) by (unfold zlen; destruct (o_handlers ob); [done|simpl; lia]).
  assert (0 <= zlen (n_handlers x)) by (unfold zlen; lia). lia.
Qed.

Lemma own_handler_counts s n x : HC s -> nodes s !! n = Some x -> n_handlers x <> [] -> 0 < n_num_handlers x.
Proof.
  intros (A & _) Hx Hne. rewrite (A _ x Hx).
  assert (0 < zlen (n_handlers x)) by (unfold zlen; destruct (n_handlers x); [done|simpl; lia]).
  assert (0 <= hsum s (n_observers x)); [|lia].
  induction (n_observers x) as [|a l IH]; simpl; [lia|]. pose proof (hlen_nonneg s a). lia.
Qed.
