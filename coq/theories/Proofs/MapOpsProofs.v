(* C15 / C17: the diff-based operators of incremental-map equal their plain definitions, and call the
   user function only on changed keys. *)
From stdpp Require Import base list option numbers sorting sets.
From Incr.Model Require Import SymDiff MapOps.
From Incr.Proofs Require Import SymDiffProofs SortedMaps.

Section patch.
Context {V : Type} `{EqDecision V}.
Implicit Types a b cur : list (Z * V).

(* applying one diff element to a map *)
Definition patch cur (x : Z * diff_elem V) : list (Z * V) :=
  match x.2 with
  | DLeft _ => m_remove x.1 cur
  | DRight v | DUnequal _ v => m_insert x.1 v cur
  end.

(* what the element says the old map had at its key *)
Definition old_side (e : diff_elem V) : option V :=
  match e with DLeft v => Some v | DRight _ => None | DUnequal v _ => Some v end.
Definition new_side (e : diff_elem V) : option V :=
  match e with DLeft _ => None | DRight v => Some v | DUnequal _ v => Some v end.

Lemma patch_sorted cur x : smap cur -> smap (patch cur x).
Proof. intros H. unfold patch. destruct x.2; [by apply smap_remove|by apply smap_insert..]. Qed.

Lemma get_patch cur x k : smap cur ->
  assoc_get (patch cur x) k = if bool_decide (k = x.1) then new_side x.2 else assoc_get cur k.
Proof.
  intros H. unfold patch. destruct x as [kx [v|v|v w]]; simpl.
  - by rewrite get_remove.
  - by rewrite get_insert.
  - by rewrite get_insert.
Qed.

(* the diff elements, keyed *)
Lemma diff_elem_sides a b k e : sorted_map a -> sorted_map b ->
  (k, e) ∈ diff_spec a b -> assoc_get a k = old_side e /\ assoc_get b k = new_side e.
Proof.
  intros Ha Hb Hin. apply diff_spec_elem in Hin; [|done|done]. unfold diff_at in Hin.
  destruct (assoc_get a k) as [x|], (assoc_get b k) as [y|]; try done.
  - case_bool_decide; [done|]. by simplify_eq.
  - by simplify_eq.
  - by simplify_eq.
Qed.

Lemma diff_keys_nodup a b : sorted_map a -> sorted_map b -> NoDup (fst <$> diff_spec a b).
Proof.
  intros Ha Hb. pose proof (diff_spec_sorted a b Ha Hb) as Hs.
  induction Hs as [|x l Hs IH Hx]; [constructor|]. constructor; [|done].
  intros Hin. eapply Forall_forall in Hx; [|exact Hin]. lia.
Qed.

Lemma not_in_diff_same a b k : sorted_map a -> sorted_map b ->
  k ∉ (fst <$> diff_spec a b) -> assoc_get a k = assoc_get b k.
Proof.
  intros Ha Hb Hn. destruct (diff_at a b k) as [[k' e]|] eqn:E.
  - exfalso. apply Hn. pose proof (diff_at_key _ _ _ _ E) as Hk. simpl in Hk. subst k'.
    apply elem_of_list_fmap. exists (k, e). split; [done|]. by apply diff_spec_elem.
  - unfold diff_at in E. destruct (assoc_get a k), (assoc_get b k); try done.
    case_bool_decide; [by subst|done].
Qed.

(* The induction principle for folds over a symmetric diff: an invariant relating "the map patched so
   far" to the accumulator is carried from the old map to the new one, each element being applied
   at a moment when the patched map still holds the old side of that key. *)
Lemma diff_fold_ind {Acc} (P : list (Z * V) -> Acc -> Prop) (step : Acc -> Z * diff_elem V -> Acc) a b acc0 :
  sorted_map a -> sorted_map b ->
  (forall cur acc x, smap cur -> P cur acc -> x ∈ diff_spec a b -> assoc_get cur x.1 = old_side x.2 ->
     P (patch cur x) (step acc x)) ->
  P a acc0 -> P b (foldl step acc0 (diff_spec a b)).
Proof.
  intros Ha Hb Hstep H0.
  pose proof (diff_keys_nodup a b Ha Hb) as Hnd.
  assert (forall x, x ∈ diff_spec a b -> assoc_get a x.1 = old_side x.2 /\ assoc_get b x.1 = new_side x.2) as Hsides.
  { intros [k e] Hin. by apply diff_elem_sides. }
  assert (forall k, k ∉ (fst <$> diff_spec a b) -> assoc_get a k = assoc_get b k) as Hsame
    by (intros; by apply not_in_diff_same).
  (* generalise over the part of the diff still to be applied *)
  assert (forall d cur acc,
    smap cur -> P cur acc -> NoDup (fst <$> d) -> (forall x, x ∈ d -> x ∈ diff_spec a b) ->
    (forall x, x ∈ d -> assoc_get cur x.1 = old_side x.2) ->
    exists cur', smap cur' /\ P cur' (foldl step acc d)
      /\ forall k, assoc_get cur' k = match assoc_get d k with Some e => new_side e | None => assoc_get cur k end) as Hgen.
  { induction d as [|x d IH]; intros cur acc Hs HP Hn Hsub Hold; simpl.
    - exists cur. done.
    - apply NoDup_cons in Hn as [Hx Hn].
      assert (smap (patch cur x)) as Hs' by (by apply patch_sorted).
      destruct (IH (patch cur x) (step acc x) Hs') as (cur' & Hs'' & HP' & Hget).
      + apply Hstep; [done|done|apply Hsub; by left|apply Hold; by left].
      + done.
      + intros y Hy. apply Hsub. by right.
      + intros y Hy. rewrite get_patch by done. rewrite bool_decide_eq_false_2.
        * apply Hold. by right.
        * intros Heq. apply Hx. apply elem_of_list_fmap. by exists y.
      + exists cur'. split_and!; [done|done|]. intros k. rewrite Hget. destruct x as [kx ex]. simpl.
        rewrite get_patch by done. simpl.
        case_bool_decide as Hk.
        * subst k. rewrite bool_decide_eq_true_2 by done.
          assert (assoc_get d kx = None) as ->; [|done].
          destruct (assoc_get d kx) eqn:E; [|done]. exfalso. apply Hx. by apply get_Some_in in E.
        * rewrite bool_decide_eq_false_2 by (intros ->; done). done. }
  destruct (Hgen (diff_spec a b) a acc0 Ha H0 Hnd ltac:(done) ltac:(intros x Hx; apply Hsides, Hx))
    as (cur' & Hs' & HP' & Hget).
  assert (cur' = b) as ->; [|done].
  apply smap_ext; [done|done|]. intros k. rewrite Hget.
  destruct (assoc_get (diff_spec a b) k) as [e|] eqn:E.
  - assert ((k, e) ∈ diff_spec a b) as Hin.
    { clear -E. induction (diff_spec a b) as [|[k' e'] l IH]; [done|]. simpl in E. case_bool_decide; simplify_eq.
      - by left.
      - right. by apply IH. }
    symmetry. by apply (Hsides (k, e)).
  - apply Hsame. intros Hin. apply elem_of_list_fmap in Hin as ([k' e'] & -> & Hin).
    simpl in E. assert (is_Some (assoc_get (diff_spec a b) k')) as [? ?]; [|congruence].
    apply assoc_get_is_Some'. apply elem_of_list_fmap. by exists (k', e').
Qed.
End patch.

(* ------------------------------------------------------------------ filter_mapi *)
Section filter_mapi.
Context {V V2 : Type} `{EqDecision V}.
Variable f : Z -> V -> option V2.

Lemma fmc_cons k v (m : list (Z * V)) :
  filter_map_collect f ((k, v) :: m) =
    match f k v with Some v2 => (k, v2) :: filter_map_collect f m | None => filter_map_collect f m end.
Proof. unfold filter_map_collect. simpl. by destruct (f k v). Qed.

Lemma fmc_keys_sub (m : list (Z * V)) k : k ∈ keys (filter_map_collect f m) -> k ∈ keys m.
Proof.
  induction m as [|[k' v] m IH]; [done|]. rewrite fmc_cons. unfold keys in *.
  destruct (f k' v); simpl; rewrite ?elem_of_cons; [intros [->|Hk]; [by left|right; by apply IH]|intros Hk; right; by apply IH].
Qed.

Lemma fmc_sorted (m : list (Z * V)) : smap m -> smap (filter_map_collect f m).
Proof.
  induction m as [|[k v] m IH]; intros Hs; [constructor|].
  apply smap_cons_inv in Hs as [Hs Hl]. rewrite fmc_cons.
  destruct (f k v); [|by apply IH].
  apply smap_cons; [by apply IH|]. apply Forall_forall. intros j Hj%fmc_keys_sub.
  eapply Forall_forall in Hl; [|exact Hj]. done.
Qed.

Lemma get_fmc (m : list (Z * V)) k : smap m ->
  assoc_get (filter_map_collect f m) k = assoc_get m k ≫= f k.
Proof.
  induction m as [|[k' v] m IH]; intros Hs; [done|].
  apply smap_cons_inv in Hs as [Hs Hl]. rewrite fmc_cons. simpl.
  case_bool_decide as Hk.
  - subst k'. destruct (f k v) eqn:E; simpl.
    + rewrite bool_decide_eq_true_2 by done. done.
    + rewrite IH by done. rewrite get_lt_None by done. done.
  - destruct (f k' v); simpl; [rewrite bool_decide_eq_false_2 by done|]; by apply IH.
Qed.

(* keys on which the user function is called for a diff: the added and the changed ones *)
Definition fm_called (d : list (Z * diff_elem V)) : list Z :=
  omap (fun x => match x.2 with DLeft _ => None | _ => Some x.1 end) d.

Lemma fm_fold_correct a b calls0 : sorted_map a -> sorted_map b ->
  foldl (fm_apply f) (filter_map_collect f a, calls0) (diff_spec a b)
  = (filter_map_collect f b, calls0 ++ fm_called (diff_spec a b)).
Proof.
  intros Ha Hb.
  assert ((foldl (fm_apply f) (filter_map_collect f a, calls0) (diff_spec a b)).1 = filter_map_collect f b) as H1.
  { apply (diff_fold_ind (fun cur acc => acc.1 = filter_map_collect f cur) (fm_apply f) a b); [done|done| |done].
    intros cur [out calls] [k e] Hs Hout _ Hold. simpl in *. subst out.
    assert (smap (filter_map_collect f cur)) as Hso by (by apply fmc_sorted).
    unfold patch. destruct e as [v|v|v w]; simpl.
    - (* removed key *)
      apply smap_ext; [by apply smap_remove|apply fmc_sorted; by apply smap_remove|].
      intros j. rewrite get_remove, !get_fmc, get_remove by (done || by apply smap_remove). by case_bool_decide.
    - destruct (f k v) eqn:Ef; simpl.
      + apply smap_ext; [by apply smap_insert|apply fmc_sorted; by apply smap_insert|].
        intros j. rewrite get_insert, !get_fmc, get_insert by (done || by apply smap_insert).
        case_bool_decide; [by subst|done].
      + apply smap_ext; [by apply smap_remove|apply fmc_sorted; by apply smap_insert|].
        intros j. rewrite get_remove, !get_fmc, get_insert by (done || by apply smap_insert).
        case_bool_decide; [by subst|done].
    - destruct (f k w) eqn:Ef; simpl.
      + apply smap_ext; [by apply smap_insert|apply fmc_sorted; by apply smap_insert|].
        intros j. rewrite get_insert, !get_fmc, get_insert by (done || by apply smap_insert).
        case_bool_decide; [by subst|done].
      + apply smap_ext; [by apply smap_remove|apply fmc_sorted; by apply smap_insert|].
        intros j. rewrite get_remove, !get_fmc, get_insert by (done || by apply smap_insert).
        case_bool_decide; [by subst|done]. }
  assert (forall d out c, (foldl (fm_apply f) (out, c) d).2 = c ++ fm_called d) as H2.
  { clear. induction d as [|[k e] d IH]; intros out c; simpl; [by rewrite app_nil_r|].
    destruct e as [v|v|v w]; simpl.
    - apply IH.
    - destruct (f k v); rewrite IH; unfold fm_called; simpl; by rewrite <-app_assoc.
    - destruct (f k w); rewrite IH; unfold fm_called; simpl; by rewrite <-app_assoc. }
  destruct (foldl (fm_apply f) (filter_map_collect f a, calls0) (diff_spec a b)) as [o c] eqn:E.
  simpl in H1. specialize (H2 (diff_spec a b) (filter_map_collect f a) calls0). rewrite E in H2. simpl in H2.
  by subst.
Qed.

(* C15: one recompute of incr_filter_mapi, from an old pair that is in sync, yields the plain
   filter-map of the new input *)
Theorem fm_step_correct old_in old_out input :
  sorted_map old_in -> sorted_map input -> old_out = filter_map_collect f old_in ->
  exists ch calls, fm_step f (Some (old_in, old_out)) input = Some (filter_map_collect f input, ch, calls)
    /\ (ch = false -> filter_map_collect f input = old_out).
Proof.
  intros Ha Hb ->. unfold fm_step. destruct (length input) eqn:El.
  - do 2 eexists. split; [done|done].
  - rewrite (symmetric_diff_correct old_in input Ha Hb). simpl.
    rewrite fm_fold_correct by done. do 2 eexists. split; [done|].
    intros Hch. apply bool_decide_eq_false in Hch. apply dec_stable in Hch.
    f_equal. apply smap_ext; [done|done|]. symmetry. by apply diff_spec_nil_inv.
Qed.

Theorem fm_step_initial input :
  fm_step f None input = Some (filter_map_collect f input, true, keys input).
Proof. unfold fm_step. by destruct (length input). Qed.

(* C17: apart from the initial / emptying step, the user function is called exactly on the keys that
   were added or whose value changed — each once, in key order *)
Theorem fm_step_calls old_in input n :
  sorted_map old_in -> sorted_map input -> length input = S n ->
  exists out ch, fm_step f (Some (old_in, filter_map_collect f old_in)) input = Some (out, ch, fm_called (diff_spec old_in input))
    /\ StronglySorted Z.lt (fm_called (diff_spec old_in input))
    /\ forall k, k ∈ fm_called (diff_spec old_in input) ->
         assoc_get old_in k <> assoc_get input k /\ is_Some (assoc_get input k).
Proof.
  intros Ha Hb El. unfold fm_step. rewrite El. rewrite (symmetric_diff_correct old_in input Ha Hb). simpl.
  rewrite fm_fold_correct by done. simpl. do 2 eexists. split; [done|]. split.
  - eapply (sublist_StronglySorted Z.lt _ (fst <$> diff_spec old_in input)); [by apply diff_spec_sorted|].
    generalize (diff_spec old_in input). intros d. unfold fm_called. induction d as [|[k e] d IH]; [done|]. simpl.
    destruct e; simpl; [by apply sublist_cons|by apply sublist_skip..].
  - intros k Hk. unfold fm_called in Hk. apply elem_of_list_omap in Hk as ([k' e] & Hin & Hsome).
    destruct (diff_elem_sides old_in input k' e Ha Hb Hin) as [Ho Hn].
    destruct e as [v|v|v w]; simpl in *; simplify_eq.
    + rewrite Ho, Hn. split; [done|by eexists].
    + rewrite Ho, Hn. split; [|by eexists].
      apply diff_spec_elem in Hin; [|done|done]. unfold diff_at in Hin. rewrite Ho, Hn in Hin.
      case_bool_decide; [done|]. congruence.
Qed.

Definition fm_in_sync (st : wo_state (list (Z * V)) (list (Z * V2))) : Prop :=
  match wo_old_input st, wo_value st with
  | Some i, Some o => sorted_map i /\ o = filter_map_collect f i
  | _, _ => True
  end.

Lemma wo_call_fm st i : fm_in_sync st -> sorted_map i ->
  exists ch calls, wo_call (fm_step f) st i = Some (WO (Some i) (Some (filter_map_collect f i)), ch, calls).
Proof.
  intros Hst Hi. unfold wo_call, fm_in_sync in *. destruct st as [oi ov]. cbn -[fm_step] in *.
  destruct ov as [o|], oi as [i0|]; cbn -[fm_step].
  - destruct Hst as [Hi0 ->]. destruct (fm_step_correct i0 _ i Hi0 Hi eq_refl) as (ch & calls & E & _).
    rewrite E. cbn. by do 2 eexists.
  - rewrite fm_step_initial. cbn. by do 2 eexists.
  - rewrite fm_step_initial. cbn. by do 2 eexists.
  - rewrite fm_step_initial. cbn. by do 2 eexists.
Qed.

(* over any sequence of inputs (hence across unobserved periods: the node then simply sees a
   subsequence) every output is the plain filter-map of that input *)
Theorem fm_seq_correct ins st :
  Forall sorted_map ins -> fm_in_sync st ->
  exists outs, wo_run (fm_step f) st ins = Some outs
    /\ Forall2 (fun i o => o.1.1 = filter_map_collect f i) ins outs.
Proof.
  intros Hs. revert st. induction Hs as [|i ins Hi Hs IH]; intros st Hst.
  - exists []. split; [done|constructor].
  - cbn [wo_run]. destruct (wo_call_fm st i Hst Hi) as (ch & calls & ->). cbn.
    destruct (IH (WO (Some i) (Some (filter_map_collect f i)))) as (outs & -> & HF).
    { unfold fm_in_sync. simpl. done. }
    cbn. eexists. split; [done|]. constructor; [done|done].
Qed.
End filter_mapi.

(* ------------------------------------------------------------------ unordered_fold *)
Section unordered_fold.
Context {V R : Type} `{EqDecision V}.
Variable add : R -> Z -> V -> R.
Variable remove : R -> Z -> V -> R.
Variable update : option (R -> Z -> V -> V -> R).
Variable revert : bool.
Variable init : R.

(* "an invertible add/remove": remove undoes add, and adds of different keys commute *)
Hypothesis remove_add : forall acc k v, remove (add acc k v) k v = acc.
Hypothesis add_comm : forall acc k v k' v', k <> k' -> add (add acc k v) k' v' = add (add acc k' v') k v.
(* an explicit update function must agree with remove-then-add *)
Hypothesis update_spec : forall u, update = Some u -> forall acc k v v', u acc k v v' = add (remove acc k v) k v'.

Definition addf (acc : R) (kv : Z * V) : R := add acc kv.1 kv.2.
Definition FOLD (m : list (Z * V)) : R := foldl addf init m.

Lemma fold_add_comm acc k v (m : list (Z * V)) : k ∉ keys m ->
  foldl addf (add acc k v) m = add (foldl addf acc m) k v.
Proof.
  revert acc. induction m as [|[k' v'] m IH]; intros acc Hk; [done|]. simpl.
  unfold keys in Hk. simpl in Hk. apply not_elem_of_cons in Hk as [Hne Hk].
  unfold addf at 2. simpl. rewrite add_comm by done. rewrite IH by done. done.
Qed.

Lemma fold_insert acc k v (m : list (Z * V)) : k ∉ keys m ->
  foldl addf acc (m_insert k v m) = add (foldl addf acc m) k v.
Proof.
  revert acc. induction m as [|[k' v'] m IH]; intros acc Hk; [done|]. simpl.
  unfold keys in Hk. simpl in Hk. apply not_elem_of_cons in Hk as [Hne Hk].
  case_bool_decide.
  - change (foldl addf (add acc k v) ((k', v') :: m) = add (foldl addf acc ((k', v') :: m)) k v).
    apply fold_add_comm. unfold keys. simpl. apply not_elem_of_cons. done.
  - rewrite bool_decide_eq_false_2 by done. simpl. by rewrite IH.
Qed.

Lemma insert_remove_same (m : list (Z * V)) k v : smap m -> assoc_get m k = Some v ->
  m_insert k v (m_remove k m) = m.
Proof.
  intros Hs Hg. apply smap_ext; [by apply smap_insert, smap_remove|done|].
  intros j. rewrite get_insert, get_remove by done. case_bool_decide; by subst.
Qed.

Lemma not_in_keys_remove (m : list (Z * V)) k : smap m -> k ∉ keys (m_remove k m).
Proof.
  intros Hs Hin. apply assoc_get_is_Some' in Hin as [v Hv]. rewrite get_remove in Hv by done.
  by rewrite bool_decide_eq_true_2 in Hv.
Qed.

Lemma fold_remove (m : list (Z * V)) k v : smap m -> assoc_get m k = Some v ->
  FOLD (m_remove k m) = remove (FOLD m) k v.
Proof.
  intros Hs Hg. unfold FOLD. rewrite <-(insert_remove_same m k v Hs Hg) at 2.
  rewrite fold_insert by (by apply not_in_keys_remove). by rewrite remove_add.
Qed.

Lemma insert_replace (m : list (Z * V)) k w : smap m -> m_insert k w m = m_insert k w (m_remove k m).
Proof.
  intros Hs. apply smap_ext; [by apply smap_insert|by apply smap_insert, smap_remove|].
  intros j. rewrite !get_insert, get_remove by done. by case_bool_decide.
Qed.

Definition uf_called (d : list (Z * diff_elem V)) : list (uf_role * Z) :=
  d ≫= (fun x => match x.2 with
                 | DLeft _ => [(RRemove, x.1)]
                 | DRight _ => [(RAdd, x.1)]
                 | DUnequal _ _ => match update with Some _ => [(RUpdate, x.1)] | None => [(RRemove, x.1); (RAdd, x.1)] end
                 end).

Lemma uf_called_cons x d :
  uf_called (x :: d) =
    (match x.2 with
     | DLeft _ => [(RRemove, x.1)]
     | DRight _ => [(RAdd, x.1)]
     | DUnequal _ _ => match update with Some _ => [(RUpdate, x.1)] | None => [(RRemove, x.1); (RAdd, x.1)] end
     end) ++ uf_called d.
Proof. done. Qed.

Lemma uf_fold_correct a b c0 : sorted_map a -> sorted_map b ->
  foldl (uf_apply add remove update) (FOLD a, c0) (diff_spec a b) = (FOLD b, c0 ++ uf_called (diff_spec a b)).
Proof.
  intros Ha Hb.
  assert ((foldl (uf_apply add remove update) (FOLD a, c0) (diff_spec a b)).1 = FOLD b) as H1.
  { apply (diff_fold_ind (fun cur acc => acc.1 = FOLD cur) (uf_apply add remove update) a b); [done|done| |done].
    intros cur [r calls] [k e] Hs Hr _ Hold. simpl in *. subst r. unfold patch.
    destruct e as [v|v|v w]; simpl in *.
    - symmetry. by apply fold_remove.
    - unfold FOLD. rewrite fold_insert; [done|]. intros Hin. apply assoc_get_is_Some' in Hin as [? ?]. congruence.
    - assert (FOLD (m_insert k w cur) = add (remove (FOLD cur) k v) k w) as Hgoal.
      { rewrite insert_replace by done. unfold FOLD. rewrite fold_insert by (by apply not_in_keys_remove).
        fold (FOLD (m_remove k cur)). by rewrite (fold_remove cur k v). }
      destruct update as [u|] eqn:Eu; simpl; [rewrite (update_spec u eq_refl)|]; by rewrite Hgoal. }
  assert (forall d r c, (foldl (uf_apply add remove update) (r, c) d).2 = c ++ uf_called d) as H2.
  { clear. induction d as [|[k e] d IH]; intros r c; [by rewrite app_nil_r|]. cbn [foldl].
    rewrite uf_called_cons. destruct e as [v|v|v w]; simpl.
    - rewrite IH. by rewrite <-app_assoc.
    - rewrite IH. by rewrite <-app_assoc.
    - destruct update; simpl; rewrite IH; by rewrite <-app_assoc. }
  destruct (foldl (uf_apply add remove update) (FOLD a, c0) (diff_spec a b)) as [o c] eqn:E.
  simpl in H1. specialize (H2 (diff_spec a b) (FOLD a) c0). rewrite E in H2. simpl in H2. by subst.
Qed.

(* C15: one recompute of incr_unordered_fold from an old pair in sync yields the fold of the new map *)
Theorem uf_step_correct old_in new_in :
  sorted_map old_in -> sorted_map new_in ->
  exists ch calls, uf_step add remove update revert init (Some (old_in, FOLD old_in)) new_in = Some (FOLD new_in, ch, calls)
    /\ (ch = false -> FOLD new_in = FOLD old_in).
Proof.
  intros Ha Hb. unfold uf_step. destruct (revert && bool_decide (length new_in = 0%nat)) eqn:Er.
  - apply andb_true_iff in Er as [_ Hl%bool_decide_eq_true]. destruct new_in; [|done].
    do 2 eexists. split; [done|]. intros Hch. apply negb_false_iff, bool_decide_eq_true in Hch.
    destruct old_in; done.
  - rewrite (symmetric_diff_correct old_in new_in Ha Hb). simpl. rewrite uf_fold_correct by done.
    do 2 eexists. split; [done|]. intros Hch. apply bool_decide_eq_false in Hch. apply dec_stable in Hch.
    f_equal. apply smap_ext; [done|done|]. symmetry. by apply diff_spec_nil_inv.
Qed.

Theorem uf_step_initial new_in :
  uf_step add remove update revert init None new_in = Some (FOLD new_in, true, (fun k => (RAdd, k)) <$> keys new_in).
Proof. done. Qed.

(* C17: the add/remove/update functions are called only for keys whose presence or value differs,
   at most once per key and role *)
Theorem uf_calls_on_changed_keys a b : sorted_map a -> sorted_map b ->
  forall r k, (r, k) ∈ uf_called (diff_spec a b) -> assoc_get a k <> assoc_get b k.
Proof.
  intros Ha Hb r k Hin. unfold uf_called in Hin. apply elem_of_list_bind in Hin as ([k' e] & Hin & Hd).
  assert (k = k') as ->.
  { destruct e; simpl in Hin; try destruct update; set_solver. }
  apply diff_spec_elem in Hd; [|done|done]. unfold diff_at in Hd.
  destruct (assoc_get a k'), (assoc_get b k'); try done. case_bool_decide; [done|]. congruence.
Qed.

Definition uf_in_sync (st : wo_state (list (Z * V)) R) : Prop :=
  match wo_old_input st, wo_value st with
  | Some i, Some o => sorted_map i /\ o = FOLD i
  | _, _ => True
  end.

Theorem uf_seq_correct ins st :
  Forall sorted_map ins -> uf_in_sync st ->
  exists outs, wo_run (uf_step add remove update revert init) st ins = Some outs
    /\ Forall2 (fun i o => o.1.1 = FOLD i) ins outs.
Proof.
  intros Hs. revert st. induction Hs as [|i ins Hi Hs IH]; intros st Hst.
  - exists []. split; [done|constructor].
  - cbn [wo_run].
    assert (exists ch calls, wo_call (uf_step add remove update revert init) st i = Some (WO (Some i) (Some (FOLD i)), ch, calls))
      as (ch & calls & ->).
    { unfold wo_call, uf_in_sync in *. destruct st as [oi ov]. cbn -[uf_step] in *.
      destruct ov as [o|], oi as [i0|]; cbn -[uf_step].
      - destruct Hst as [Hi0 ->]. destruct (uf_step_correct i0 i Hi0 Hi) as (ch & calls & E & _).
        rewrite E. cbn. by do 2 eexists.
      - rewrite uf_step_initial. cbn. by do 2 eexists.
      - rewrite uf_step_initial. cbn. by do 2 eexists.
      - rewrite uf_step_initial. cbn. by do 2 eexists. }
    cbn. destruct (IH (WO (Some i) (Some (FOLD i)))) as (outs & -> & HF).
    { unfold uf_in_sync. simpl. done. }
    cbn. eexists. split; [done|]. constructor; [done|done].
Qed.
End unordered_fold.

(* ------------------------------------------------------------------ partition *)
Section partition.
Context {V A B : Type} `{EqDecision V}.
Variable f : Z -> V -> either A B.

Definition fl (k : Z) (v : V) : option A := match f k v with ELeft a => Some a | ERight _ => None end.
Definition fr (k : Z) (v : V) : option B := match f k v with ELeft _ => None | ERight b => Some b end.
Definition PART (m : list (Z * V)) : list (Z * A) * list (Z * B) :=
  (filter_map_collect fl m, filter_map_collect fr m).

Definition ins_entry (c : list (Z * V)) (kv : Z * V) : list (Z * V) := m_insert kv.1 kv.2 c.
Definition padd (acc : list (Z * A) * list (Z * B)) (kv : Z * V) := pt_add f acc kv.1 kv.2.

(* building a sorted map by inserting its entries gives the map back *)
Lemma insert_all (m : list (Z * V)) : smap m -> foldl ins_entry [] m = m.
Proof.
  intros Hs.
  assert (forall post cur, smap cur ->
            smap (foldl ins_entry cur post)
            /\ forall k, assoc_get (foldl ins_entry cur post) k
                         = match assoc_get (reverse post) k with Some v => Some v | None => assoc_get cur k end) as H.
  { induction post as [|[k v] post IH]; intros cur Hc; simpl; [done|].
    destruct (IH (m_insert k v cur) (smap_insert _ _ _ Hc)) as [S1 G1]. split; [done|].
    intros j. unfold ins_entry at 2. simpl. rewrite G1, reverse_cons. rewrite get_insert.
    clear. induction (reverse post) as [|[k' v'] l IHl]; simpl.
    - repeat case_bool_decide; subst; done.
    - destruct (decide (k' = j)) as [->|Hne].
      + rewrite !(bool_decide_eq_true_2 (j = j)) by done. done.
      + rewrite !(bool_decide_eq_false_2 (k' = j)) by done. apply IHl. }
  destruct (H m [] smap_nil) as [S G]. apply smap_ext; [done|done|]. intros k. rewrite G. simpl.
  (* for a map without duplicate keys, looking up in the reversed list is the same *)
  clear -Hs. induction m as [|[k' v] m IH]; [done|]. apply smap_cons_inv in Hs as [Hs Hl].
  rewrite reverse_cons. simpl.
  assert (forall (l : list (Z * V)) x, assoc_get (l ++ [x]) k = match assoc_get l k with Some v => Some v | None => assoc_get [x] k end) as Happ.
  { clear. induction l as [|[a b] l IHl]; intros x; simpl; [done|]. case_bool_decide; [done|]. apply IHl. }
  rewrite Happ. simpl. specialize (IH Hs). case_bool_decide as Hk.
  - subst k'. rewrite (get_lt_None m k) in IH by done. destruct (assoc_get (reverse m) k); done.
  - destruct (assoc_get (reverse m) k), (assoc_get m k); simpl in *; congruence.
Qed.

Lemma pt_add_spec cur k (v : V) l r : smap cur -> assoc_get cur k = None -> (l, r) = PART cur ->
  pt_add f (l, r) k v = PART (m_insert k v cur).
Proof.
  intros Hs Hg Hlr. injection Hlr as -> ->. unfold pt_add, PART. simpl.
  assert (smap (m_insert k v cur)) as Hs' by (by apply smap_insert).
  destruct (f k v) eqn:Ef; simpl; f_equal.
  - apply smap_ext; [by apply smap_insert, fmc_sorted|by apply fmc_sorted|].
    intros j. rewrite get_insert, !get_fmc, get_insert by done. case_bool_decide; [subst; simpl; unfold fl; by rewrite Ef|done].
  - apply smap_ext; [by apply fmc_sorted|by apply fmc_sorted|].
    intros j. rewrite !get_fmc, get_insert by done. case_bool_decide; [subst; rewrite Hg; simpl; unfold fr; by rewrite Ef|done].
  - apply smap_ext; [by apply fmc_sorted|by apply fmc_sorted|].
    intros j. rewrite !get_fmc, get_insert by done. case_bool_decide; [subst; rewrite Hg; simpl; unfold fl; by rewrite Ef|done].
  - apply smap_ext; [by apply smap_insert, fmc_sorted|by apply fmc_sorted|].
    intros j. rewrite get_insert, !get_fmc, get_insert by done. case_bool_decide; [subst; simpl; unfold fr; by rewrite Ef|done].
Qed.

Lemma pt_remove_spec cur k (v : V) l r : smap cur -> (l, r) = PART cur ->
  pt_remove (l, r) k v = PART (m_remove k cur).
Proof.
  intros Hs Hlr. injection Hlr as -> ->. unfold pt_remove, PART. simpl.
  assert (smap (m_remove k cur)) as Hs' by (by apply smap_remove).
  f_equal; (apply smap_ext; [by apply smap_remove, fmc_sorted|by apply fmc_sorted|]).
  all: intros j; rewrite get_remove, !get_fmc, get_remove by (done || by apply fmc_sorted); by case_bool_decide.
Qed.

Lemma pt_update_spec cur k (v w : V) l r : smap cur -> (l, r) = PART cur ->
  pt_update f (l, r) k v w = PART (m_insert k w cur).
Proof.
  intros Hs Hlr. injection Hlr as -> ->. unfold pt_update, PART. simpl.
  assert (smap (m_insert k w cur)) as Hs' by (by apply smap_insert).
  destruct (f k w) eqn:Ef; simpl; f_equal.
  - apply smap_ext; [by apply smap_insert, fmc_sorted|by apply fmc_sorted|].
    intros j. rewrite get_insert, !get_fmc, get_insert by done. case_bool_decide; [subst; simpl; unfold fl; by rewrite Ef|done].
  - apply smap_ext; [by apply smap_remove, fmc_sorted|by apply fmc_sorted|].
    intros j. rewrite get_remove, !get_fmc, get_insert by (done || by apply fmc_sorted).
    case_bool_decide; [subst; simpl; unfold fr; by rewrite Ef|done].
  - apply smap_ext; [by apply smap_remove, fmc_sorted|by apply fmc_sorted|].
    intros j. rewrite get_remove, !get_fmc, get_insert by (done || by apply fmc_sorted).
    case_bool_decide; [subst; simpl; unfold fl; by rewrite Ef|done].
  - apply smap_ext; [by apply smap_insert, fmc_sorted|by apply fmc_sorted|].
    intros j. rewrite get_insert, !get_fmc, get_insert by done. case_bool_decide; [subst; simpl; unfold fr; by rewrite Ef|done].
Qed.

Lemma pt_initial (m : list (Z * V)) : smap m ->
  foldl padd ([], []) m = PART m.
Proof.
  intros Hs.
  assert (forall post cur acc, smap cur -> acc = PART cur ->
            NoDup (keys post) -> (forall k, k ∈ keys post -> assoc_get cur k = None) ->
            foldl padd acc post
            = PART (foldl ins_entry cur post)) as H.
  { induction post as [|[k v] post IH]; intros cur acc Hc Hacc Hnd Hfresh; simpl; [done|].
    unfold keys in Hnd. simpl in Hnd. apply NoDup_cons in Hnd as [Hk Hnd].
    destruct acc as [l r]. unfold padd at 2, ins_entry at 2. simpl. apply IH.
    - by apply smap_insert.
    - apply pt_add_spec; [done| |done]. apply Hfresh. unfold keys. simpl. by left.
    - done.
    - intros j Hj. rewrite get_insert. rewrite bool_decide_eq_false_2 by (intros ->; done).
      apply Hfresh. unfold keys. simpl. by right. }
  rewrite (H m [] ([], []) smap_nil eq_refl).
  - by rewrite insert_all.
  - clear -Hs. unfold smap in Hs. induction Hs as [|x l Hs IH Hx]; [constructor|]. constructor; [|done].
    intros Hin. eapply Forall_forall in Hx; [|exact Hin]. lia.
  - done.
Qed.

(* C15: incr_partition_mapi, from an old pair in sync *)
Theorem pt_step_correct old_in new_in :
  sorted_map old_in -> sorted_map new_in ->
  exists ch calls, pt_step f (Some (old_in, PART old_in)) new_in = Some (PART new_in, ch, calls).
Proof.
  intros Ha Hb. unfold pt_step, uf_step. cbn [andb].
  case_bool_decide as Hl.
  - destruct new_in; [|done]. by do 2 eexists.
  - rewrite (symmetric_diff_correct old_in new_in Ha Hb). simpl.
    assert ((foldl (uf_apply (pt_add f) pt_remove (Some (pt_update f))) (PART old_in, []) (diff_spec old_in new_in)).1 = PART new_in) as H1.
    { apply (diff_fold_ind (fun cur acc => acc.1 = PART cur) _ old_in new_in); [done|done| |done].
      intros cur [[l r] calls] [k e] Hs Hacc _ Hold. simpl in *. unfold patch.
      destruct e as [v|v|v w]; simpl in *.
      - by apply pt_remove_spec.
      - by apply pt_add_spec.
      - by apply pt_update_spec. }
    destruct (foldl _ _ _) as [o c]. simpl in H1. subst. by do 2 eexists.
Qed.

Theorem pt_step_initial new_in : smap new_in ->
  exists calls, pt_step f None new_in = Some (PART new_in, true, calls).
Proof.
  intros Hs. unfold pt_step, uf_step.
  change (foldl (fun acc kv => pt_add f acc kv.1 kv.2) ([], []) new_in) with (foldl padd ([], []) new_in).
  rewrite pt_initial by done. by eexists.
Qed.
End partition.

(* ------------------------------------------------------------------ merge *)
Section merge.
Context {V1 V2 R : Type} `{EqDecision V1} `{EqDecision V2}.
Variable f : Z -> merge_elem V1 V2 -> option R.

Definition merge_elem_of (x : option V1) (y : option V2) : option (merge_elem V1 V2) :=
  match x, y with
  | Some a, Some b => Some (MBoth a b)
  | Some a, None => Some (MLeft a)
  | None, Some b => Some (MRight b)
  | None, None => None
  end.

(* the plain definition: key-wise merge of two maps *)
Definition merged_at (l : list (Z * V1)) (r : list (Z * V2)) (k : Z) : option R :=
  merge_elem_of (assoc_get l k) (assoc_get r k) ≫= f k.
Definition MERGE (l : list (Z * V1)) (r : list (Z * V2)) : list (Z * R) :=
  omap (fun k => (fun v => (k, v)) <$> merged_at l r k) (merge_keys (keys l) (keys r)).

Lemma omap_keyed_sorted (g : Z -> option R) ks : StronglySorted Z.lt ks ->
  smap (omap (fun k => (fun v => (k, v)) <$> g k) ks)
  /\ forall j, assoc_get (omap (fun k => (fun v => (k, v)) <$> g k) ks) j = if bool_decide (j ∈ ks) then g j else None.
Proof.
  induction 1 as [|k ks Hs IH Hk]; [split; [constructor|done]|]. destruct IH as [IS IG].
  rewrite omap_cons. destruct (g k) as [v|] eqn:Eg; simpl.
  - split.
    + apply smap_cons; [done|]. apply Forall_forall. intros j Hj.
      apply assoc_get_is_Some' in Hj as [w Hw]. rewrite IG in Hw. case_bool_decide; [|done].
      eapply Forall_forall in Hk; [|done]. done.
    + intros j. case_bool_decide as Hj.
      * subst. rewrite bool_decide_eq_true_2 by (by left). done.
      * rewrite IG. repeat case_bool_decide; try done; set_solver.
  - split; [done|]. intros j. rewrite IG. destruct (decide (j = k)) as [->|Hne].
    + rewrite (bool_decide_eq_true_2 (k ∈ k :: ks)) by (by left). case_bool_decide; [|done].
      eapply Forall_forall in Hk; [|done]. lia.
    + repeat case_bool_decide; try done; set_solver.
Qed.

Lemma MERGE_sorted l r : smap l -> smap r -> smap (MERGE l r).
Proof. intros Hl Hr. apply omap_keyed_sorted. by apply merge_keys_sorted. Qed.

Lemma get_MERGE l r k : smap l -> smap r -> assoc_get (MERGE l r) k = merged_at l r k.
Proof.
  intros Hl Hr. unfold MERGE. destruct (omap_keyed_sorted (merged_at l r) _ (merge_keys_sorted _ _ Hl Hr)) as [_ G].
  rewrite G. case_bool_decide as Hin; [done|].
  rewrite merge_keys_elem in Hin. unfold merged_at.
  destruct (assoc_get l k) eqn:E1; [exfalso; apply Hin; left; by apply assoc_get_is_Some'|].
  destruct (assoc_get r k) eqn:E2; [exfalso; apply Hin; right; by apply assoc_get_is_Some'|]. done.
Qed.

(* what one application of the merge closure does to the output, as a function of its key *)
Definition mg_set (nl : list (Z * V1)) (nr : list (Z * V2)) (out : list (Z * R)) (k : Z) : list (Z * R) :=
  match merged_at nl nr k with Some r => m_insert k r out | None => m_remove k out end.

Lemma mg_apply_set nl nr out calls x :
  (match x with
   | MBoth (k1, ld) (k2, rd) => k1 = k2 /\ new_data ld = assoc_get nl k1 /\ new_data rd = assoc_get nr k1
   | MLeft (k, ld) => new_data ld = assoc_get nl k
   | MRight (k, rd) => new_data rd = assoc_get nr k
   end) ->
  (mg_apply f nl nr (out, calls) x).1 = mg_set nl nr out (merge_elem_key x).
Proof.
  intros Hx. unfold mg_apply, mg_set, merged_at. destruct x as [[k ld]|[k rd]|[k1 ld] [k2 rd]]; simpl in *.
  - rewrite Hx. destruct (assoc_get nl k), (assoc_get nr k); simpl; try destruct (f k _); done.
  - rewrite Hx. destruct (assoc_get nl k), (assoc_get nr k); simpl; try destruct (f k _); done.
  - destruct Hx as (-> & -> & ->). destruct (assoc_get nl k2), (assoc_get nr k2); simpl; try destruct (f k2 _); done.
Qed.

Lemma get_mg_set nl nr out k j : smap out ->
  assoc_get (mg_set nl nr out k) j = if bool_decide (j = k) then merged_at nl nr k else assoc_get out j.
Proof.
  intros Hs. unfold mg_set. destruct (merged_at nl nr k).
  - by rewrite get_insert.
  - by rewrite get_remove.
Qed.
Lemma mg_set_sorted nl nr out k : smap out -> smap (mg_set nl nr out k).
Proof. intros Hs. unfold mg_set. destruct (merged_at nl nr k); [by apply smap_insert|by apply smap_remove]. Qed.

Lemma fold_mg_set nl nr ks : forall out, smap out ->
  smap (foldl (mg_set nl nr) out ks)
  /\ forall j, assoc_get (foldl (mg_set nl nr) out ks) j = if bool_decide (j ∈ ks) then merged_at nl nr j else assoc_get out j.
Proof.
  induction ks as [|k ks IH]; intros out Hs; simpl.
  { split; done. }
  destruct (IH (mg_set nl nr out k) (mg_set_sorted _ _ _ _ Hs)) as [S G]. split; [done|].
  intros j. rewrite G, get_mg_set by done.
  destruct (decide (j = k)) as [->|Hne].
  - rewrite (bool_decide_eq_true_2 (k ∈ k :: ks)) by (by left). by repeat case_bool_decide.
  - rewrite (bool_decide_eq_false_2 (j = k)) by done. repeat case_bool_decide; try done; set_solver.
Qed.

(* C15: one recompute of incr_merge from an old triple in sync yields the key-wise merge of the new maps *)
Theorem mg_step_correct ol or nl nr :
  smap ol -> smap or -> smap nl -> smap nr ->
  exists ch calls, mg_step f (Some ((ol, or), MERGE ol or)) (nl, nr) = Some (MERGE nl nr, ch, calls).
Proof.
  intros Hol Hor Hnl Hnr. unfold mg_step.
  rewrite (symmetric_diff_correct ol nl Hol Hnl), (symmetric_diff_correct or nr Hor Hnr). simpl.
  rewrite merge_once_with_correct. simpl.
  set (ld := diff_spec ol nl). set (rd := diff_spec or nr).
  assert (StronglySorted Z.lt (keys ld)) as Sld by (by apply diff_spec_sorted).
  assert (StronglySorted Z.lt (keys rd)) as Srd by (by apply diff_spec_sorted).
  set (m := merge_spec ld rd).
  (* each element satisfies the premise of mg_apply_set *)
  assert (forall x, x ∈ m ->
            match x with
            | MBoth (k1, e1) (k2, e2) => k1 = k2 /\ new_data e1 = assoc_get nl k1 /\ new_data e2 = assoc_get nr k1
            | MLeft (k, e) => new_data e = assoc_get nl k
            | MRight (k, e) => new_data e = assoc_get nr k
            end) as Hel.
  { intros x Hx. apply merge_spec_elem in Hx; [|done|done]. unfold merge_at in Hx.
    destruct x as [[k e]|[k e]|[k1 e1] [k2 e2]]; simpl in *.
    - destruct (assoc_get ld k) eqn:E1, (assoc_get rd k) eqn:E2; simplify_eq.
      assert ((k, e) ∈ ld) as Hin by (clear -E1; induction ld as [|[a b] l IH]; [done|]; simpl in E1; case_bool_decide; simplify_eq; [by left|right; auto]).
      destruct (diff_elem_sides ol nl k e Hol Hnl Hin) as [_ Hn]. rewrite Hn. by destruct e.
    - destruct (assoc_get ld k) eqn:E1, (assoc_get rd k) eqn:E2; simplify_eq.
      assert ((k, e) ∈ rd) as Hin by (clear -E2; induction rd as [|[a b] l IH]; [done|]; simpl in E2; case_bool_decide; simplify_eq; [by left|right; auto]).
      destruct (diff_elem_sides or nr k e Hor Hnr Hin) as [_ Hn]. rewrite Hn. by destruct e.
    - destruct (assoc_get ld k1) eqn:E1, (assoc_get rd k1) eqn:E2; simplify_eq.
      assert ((k2, e1) ∈ ld) as Hin1 by (clear -E1; induction ld as [|[a b] l IH]; [done|]; simpl in E1; case_bool_decide; simplify_eq; [by left|right; auto]).
      assert ((k2, e2) ∈ rd) as Hin2 by (clear -E2; induction rd as [|[a b] l IH]; [done|]; simpl in E2; case_bool_decide; simplify_eq; [by left|right; auto]).
      destruct (diff_elem_sides ol nl k2 e1 Hol Hnl Hin1) as [_ Hn1].
      destruct (diff_elem_sides or nr k2 e2 Hor Hnr Hin2) as [_ Hn2].
      split; [done|]. rewrite Hn1, Hn2. by destruct e1, e2. }
  (* the fold is a fold of mg_set over the keys *)
  assert (forall l out calls, (forall x, x ∈ l -> x ∈ m) ->
            (foldl (mg_apply f nl nr) (out, calls) l).1 = foldl (mg_set nl nr) out (merge_elem_key <$> l)) as Hfold.
  { induction l as [|x l IH]; intros out calls Hsub; [done|]. rewrite fmap_cons. cbn [foldl].
    destruct (mg_apply f nl nr (out, calls) x) as [o' c'] eqn:E.
    assert (o' = mg_set nl nr out (merge_elem_key x)) as ->.
    { pose proof (mg_apply_set nl nr out calls x (Hel x (Hsub x ltac:(by left)))) as P. by rewrite E in P. }
    apply IH. intros y Hy. apply Hsub. by right. }
  destruct (foldl (mg_apply f nl nr) (MERGE ol or, []) m) as [o c] eqn:E.
  assert (o = MERGE nl nr) as ->; [|by do 2 eexists].
  pose proof (Hfold m (MERGE ol or) [] ltac:(done)) as Ho. rewrite E in Ho. simpl in Ho. subst o.
  destruct (fold_mg_set nl nr (merge_elem_key <$> m) (MERGE ol or) (MERGE_sorted _ _ Hol Hor)) as [S G].
  apply smap_ext; [done|by apply MERGE_sorted|]. intros j. rewrite G, !get_MERGE by done.
  case_bool_decide as Hj; [done|].
  (* a key in neither diff has the same entries in the old and new maps *)
  assert (j ∉ keys ld /\ j ∉ keys rd) as [H1 H2].
  { split; intros Hin; apply Hj.
    - apply assoc_get_is_Some' in Hin as [e He].
      destruct (assoc_get rd j) as [e2|] eqn:E2.
      + apply elem_of_list_fmap. exists (MBoth (j, e) (j, e2)). split; [done|]. apply merge_spec_elem; [done|done|].
        unfold merge_at. simpl. by rewrite He, E2.
      + apply elem_of_list_fmap. exists (MLeft (j, e)). split; [done|]. apply merge_spec_elem; [done|done|].
        unfold merge_at. simpl. by rewrite He, E2.
    - apply assoc_get_is_Some' in Hin as [e He].
      destruct (assoc_get ld j) as [e1|] eqn:E1.
      + apply elem_of_list_fmap. exists (MBoth (j, e1) (j, e)). split; [done|]. apply merge_spec_elem; [done|done|].
        unfold merge_at. simpl. by rewrite He, E1.
      + apply elem_of_list_fmap. exists (MRight (j, e)). split; [done|]. apply merge_spec_elem; [done|done|].
        unfold merge_at. simpl. by rewrite He, E1. }
  unfold merged_at. rewrite (not_in_diff_same ol nl j Hol Hnl H1), (not_in_diff_same or nr j Hor Hnr H2). done.
Qed.

Theorem mg_step_initial nl nr : smap nl -> smap nr ->
  exists ch calls, mg_step f None (nl, nr) = Some (MERGE nl nr, ch, calls).
Proof.
  intros Hnl Hnr. destruct (mg_step_correct [] [] nl nr smap_nil smap_nil Hnl Hnr) as (ch & calls & H).
  exists ch, calls. exact H.
Qed.
End merge.
