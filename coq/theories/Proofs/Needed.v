(* C05: the mechanisms that keep unneeded nodes out of the recompute heap. *)
From stdpp Require Import base list option numbers.
From RecordUpdate Require Import RecordUpdate.
From Incr.Model Require Import Base Live Engine Api.
From Incr.Proofs Require Import Pres RchInv RchMin.

Lemma bindM_ok2 {A B} (m : M A) (k : A -> M B) s b s' :
  bindM m k s = (Ok b, s') -> exists a s1, m s = (Ok a, s1) /\ k a s1 = (Ok b, s').
Proof. unfold bindM. destruct (m s) as [[a| |] s1] eqn:E; intros H; [|done|done]. by exists a, s1. Qed.

Lemma get_node_ok2 n s a s' : get_node n s = (Ok a, s') -> s' = s /\ nodes s !! n = Some a.
Proof. unfold get_node, bindM, get, ret, panic. destruct (nodes s !! n); intros H; by simplify_eq. Qed.

(* 1. nothing queued: the propagation phase does nothing at all — no node is recomputed, no node
      function runs (debug builds, where the counter is known to be exact: C11) *)
Lemma nothing_queued_nothing_runs fuel s :
  rch_len s = 0%Z -> stabilise_loop (S fuel) s = (Ok tt, s).
Proof.
  intros H. cbn [stabilise_loop]. unfold bindM at 1. unfold rch_remove_min. unfold bindM at 1, get at 1. cbv beta iota.
  rewrite bool_decide_eq_true_2 by done. reflexivity.
Qed.

(* 2. writing a variable whose watch node is not needed queues nothing *)
Lemma unneeded_var_write_queues_nothing x s v w wn :
  vars s !! x = Some v -> v_node v = Some w -> nodes s !! w = Some wn -> is_necessary wn = false ->
  rch_queues (did_set_var_while_not_stabilising x s).2 = rch_queues s
  /\ rch_len (did_set_var_while_not_stabilising x s).2 = rch_len s.
Proof.
  intros Hv Hw Hn Hnec. destruct (did_set_var_while_not_stabilising x s) as [r s'] eqn:E. simpl.
  unfold did_set_var_while_not_stabilising, get_var in E. unfold bindM at 1 in E. unfold bindM at 1, get at 1 in E.
  cbv beta iota in E. rewrite Hv in E. unfold ret at 1 in E. cbv beta iota in E. rewrite Hw in E.
  unfold bindM at 1, modify at 1 in E. cbv beta iota in E. unfold bindM at 1, gets at 1 in E. cbv beta iota in E.
  case_bool_decide; [|unfold ret in E; by simplify_eq].
  unfold bindM at 1, stamp_var at 1, modify at 1 in E. cbv beta iota in E.
  unfold bindM at 1 in E.
  match type of E with context [dassert ?b ?k ?st] => destruct (dassert b k st) as [r1 s2] eqn:Ed end.
  assert (rch_queues s2 = rch_queues s /\ rch_len s2 = rch_len s /\ nodes s2 = nodes s) as (Q1 & Q2 & Q3).
  { unfold dassert, bindM, gets, get_node, get, ret, panic in Ed. cbv beta iota in Ed. simpl in Ed.
    destruct (debug s); simpl in Ed; [|by simplify_eq]. unfold bindM in Ed. simpl in Ed. rewrite Hn in Ed. simpl in Ed.
    destruct (is_stale _ wn); simpl in Ed; by simplify_eq. }
  destruct r1 as [[]| |]; [|by simplify_eq..].
  unfold bindM at 1, get_node at 1 in E. unfold bindM at 1, get at 1 in E. cbv beta iota in E. rewrite Q3, Hn in E.
  unfold ret at 1 in E. cbv beta iota in E. rewrite Hnec in E. cbn [andb] in E. unfold ret in E. by simplify_eq.
Qed.

(* 3. a node that stops being needed leaves the heap: when became_unnecessary returns, the node's cell
      says "not in the heap" *)
Lemma became_unnecessary_leaves_heap f n s s' :
  became_unnecessary (S f) n s = (Ok tt, s') ->
  exists x, nodes s' !! n = Some x /\ (n_height_in_rch x < 0)%Z.
Proof.
  intros H. cbn [became_unnecessary] in H.
  do 9 (apply bindM_ok2 in H as (? & ? & _ & H)).
  apply bindM_ok2 in H as (xn & s9 & E & H). apply get_node_ok2 in E as [-> Hx].
  unfold in_rch in H. case_bool_decide as Hin.
  - (* rch_remove: the last write sets the cell to -1 *)
    unfold rch_remove in H.
    apply bindM_ok2 in H as (? & s10 & _ & H).
    apply bindM_ok2 in H as (? & s11 & Eu & H).
    apply bindM_ok2 in H as (? & s12 & Ew & H). unfold modify in H. unfold upd_node, modify in Ew. simplify_eq. simpl.
    assert (is_Some (nodes s11 !! n)) as [y Hy].
    { destruct (rch_unlink_cases n s10) as [[t El]|(x' & q & i & Hx' & _ & _ & _ & El)]; rewrite El in Eu; [done|].
      simplify_eq. simpl. rewrite Hx'. by eexists. }
    eexists. rewrite list_lookup_alter, Hy. simpl. split; [reflexivity|]. simpl. lia.
  - unfold ret in H. injection H as <-. exists xn. split; [done|lia].
Qed.

(* 4. and check_if_unnecessary starts that cascade exactly for a node with no dependant, no observer and
      no pin *)
Lemma check_if_unnecessary_eq f n s x :
  nodes s !! n = Some x ->
  check_if_unnecessary (S f) n s =
    if is_necessary x then (Ok tt, s) else became_unnecessary f n s.
Proof.
  intros Hx. cbn [check_if_unnecessary]. unfold bindM at 1, get_node at 1. unfold bindM at 1, get at 1. cbv beta iota.
  rewrite Hx. unfold ret at 1. cbv beta iota. by destruct (is_necessary x).
Qed.
