(* C08: the variable write machine. *)
From stdpp Require Import base list option numbers.
From RecordUpdate Require Import RecordUpdate.
From Incr.Model Require Import Base Live Engine Api.
From Incr.Proofs Require Import Pres FrameMono Invalidate FrameVar FrameVarVal.

Definition pending_or_value (v : var) : val := default (v_value v) (v_pending v).

(* Outside Stabilising (that is: between stabilises, and inside update handlers) a write takes
   effect at once on the variable's value; what it returns — what replace / replace_with hand back —
   is the value before the write. *)
Lemma var_write_immediate x f s v r s' :
  st_status s <> Stabilising -> vars s !! x = Some v ->
  var_write x f s = (Ok r, s') ->
  r = v_value v
  /\ exists v', vars s' !! x = Some v' /\ v_value v' = f (v_value v) /\ v_pending v' = v_pending v.
Proof.
  intros Hst Hv. unfold var_write. unfold bindM at 1. unfold get_var, bindM at 1, get, ret. cbv beta iota.
  rewrite Hv. cbv beta iota. unfold bindM at 1, gets. cbv beta iota.
  assert (forall (k1 k2 : M val), match st_status s with
          | NotStabilising | RunningOnUpdateHandlers => k1 | Stabilising => k2 end = k1) as Hm
    by (intros; destruct (st_status s); done).
  rewrite Hm. clear Hm.
  unfold bindM at 1, upd_var at 1, modify at 1. cbv beta iota.
  set (s1 := s <| vars := alter (fun v0 => v0 <| v_value := f (v_value v) |>) x (vars s) |>).
  pose proof (var_did_set_var x s1) as [_ P].
  unfold bindM. destruct (did_set_var_while_not_stabilising x s1) as [[[]| |] s2] eqn:E; simpl in P; intros H; simplify_eq.
  split; [done|].
  destruct (P x (v <| v_value := f (v_value v) |>)) as (v' & Hv' & A1 & A2).
  { subst s1. simpl. rewrite list_lookup_alter, Hv. done. }
  exists v'. split; [done|]. simpl in *. split; congruence.
Qed.

(* Inside a node function (status Stabilising) a write only goes to the pending slot: the value every
   reader sees is untouched, the function gets back the pending value if there is one (so successive
   deferred writes compose in program order), and the variable is queued for the end of stabilise. *)
Lemma var_write_deferred x f s v :
  st_status s = Stabilising -> vars s !! x = Some v ->
  exists s', var_write x f s = (Ok (pending_or_value v), s')
    /\ vars s' !! x = Some (v <| v_pending := Some (f (pending_or_value v)) |>)
    /\ (forall y, y <> x -> vars s' !! y = vars s !! y)
    /\ st_status s' = Stabilising /\ nodes s' = nodes s
    /\ set_during s' = (if v_pending v then set_during s else set_during s ++ [x]).
Proof.
  intros Hst Hv. unfold var_write, get_var, bindM, get, gets, ret, upd_var, modify. cbv beta iota.
  rewrite Hv. cbv beta iota. rewrite Hst. cbv beta iota. unfold pending_or_value.
  destruct (v_pending v) eqn:Ep; cbv beta iota; simpl; eexists; (split; [reflexivity|]); simpl.
  all: split_and!; try done; [by rewrite list_lookup_alter, Hv|by intros y Hy; rewrite list_lookup_alter_ne].
Qed.

(* two deferred writes compose in program order *)
Lemma var_write_deferred_compose x f g s v s1 s2 r1 r2 :
  st_status s = Stabilising -> vars s !! x = Some v ->
  var_write x f s = (Ok r1, s1) -> var_write x g s1 = (Ok r2, s2) ->
  r2 = f (pending_or_value v)
  /\ exists v2, vars s2 !! x = Some v2 /\ v_value v2 = v_value v
                /\ v_pending v2 = Some (g (f (pending_or_value v))).
Proof.
  intros Hst Hv H1 H2.
  destruct (var_write_deferred x f s v Hst Hv) as (s1' & E1 & Hv1 & _ & Hst1 & _). rewrite E1 in H1. injection H1 as <- <-.
  destruct (var_write_deferred x g s1' _ Hst1 Hv1) as (s2' & E2 & Hv2 & _). rewrite E2 in H2. injection H2 as <- <-.
  split; [done|]. eexists. split; [exact Hv2|]. done.
Qed.

(* applying a deferred write at the end of stabilise: the per-variable body of stabilise_end *)
Definition apply_pending (x : vid) : M unit :=
  v <- get_var x ;;
  if negb (v_live v) then ret tt else
  match v_pending v with
  | None => ret tt
  | Some value => upd_var x (fun v => v <| v_pending := None |>) ;;; set_var_while_not_stabilising x value
  end.

Lemma get_var_eq x s v : vars s !! x = Some v -> get_var x s = (Ok v, s).
Proof. intros E. unfold get_var, bindM, get, ret. by rewrite E. Qed.

Lemma apply_pending_spec x s v p s' :
  vars s !! x = Some v -> v_live v = true -> v_pending v = Some p ->
  apply_pending x s = (Ok tt, s') ->
  exists v', vars s' !! x = Some v' /\ v_value v' = p /\ v_pending v' = None.
Proof.
  intros Hv Hl Hp H. unfold apply_pending in H.
  rewrite (bindM_eq _ _ _ _ _ (get_var_eq x s v Hv)) in H. rewrite Hl, Hp in H. cbn [negb] in H.
  apply bindM_ok in H as ([] & s1 & E1 & H). unfold upd_var, modify in E1. injection E1 as <-.
  unfold set_var_while_not_stabilising in H.
  apply bindM_ok in H as ([] & s2 & E2 & H). unfold upd_var, modify in E2. injection E2 as <-.
  match type of H with did_set_var_while_not_stabilising x ?s2 = _ => pose proof (var_did_set_var x s2) as [_ P] end.
  rewrite H in P. simpl in P.
  destruct (P x (v <| v_pending := None |> <| v_value := p |>)) as (v' & Hv' & A1 & A2).
  { simpl. rewrite !list_lookup_alter, Hv. done. }
  exists v'. split; [done|]. simpl in *. split; congruence.
Qed.

(* throughout the propagation phase of a stabilise no variable's value changes: every node function
   that reads a variable in this stabilise sees its pre-stabilise value, whatever is written meanwhile *)
Lemma propagation_keeps_var_values fuel s x v :
  st_status s = Stabilising -> vars s !! x = Some v ->
  exists v', vars (stabilise_loop fuel s).2 !! x = Some v' /\ v_value v' = v_value v.
Proof. intros Hst Hv. destruct (vv_stabilise_loop fuel s Hst) as [_ H]. exact (H x v Hv). Qed.

(* ... and a var node's recompute reads exactly that value *)
Lemma var_node_reads_value fuel n s x xn v :
  nodes s !! n = Some xn -> node_kind xn = Some (KVar x) -> vars s !! x = Some v ->
  exists s1, recompute_one fuel n s = maybe_change_value fuel n (v_value v) s1
             /\ vars s1 = vars s.
Proof.
  intros Hn Hk Hv. unfold recompute_one.
  erewrite bindM_eq by reflexivity. erewrite bindM_eq by reflexivity.
  erewrite bindM_eq by reflexivity. unfold recompute_body.
  erewrite bindM_eq.
  2:{ apply get_node_eq. simpl. rewrite list_lookup_alter, Hn. reflexivity. }
  assert (node_kind (xn <| n_recomputed_at := stab_num s |>) = Some (KVar x)) as Hk' by exact Hk.
  simpl. rewrite Hk'.
  erewrite bindM_eq.
  2:{ apply get_var_eq. simpl. exact Hv. }
  eexists. split; [reflexivity|done].
Qed.
