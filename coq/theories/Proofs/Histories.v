(* consequences for whole histories started from a fresh state (debug builds) *)
From stdpp Require Import base list option numbers.
From Incr.Model Require Import Base Live Engine Api.
From Incr.Proofs Require Import Pres Safe RchInv FrameRchInv FrameNoHeapPanic.

Lemma history_rch_inv fuel max_height ops :
  Forall (fun e => rch_inv e.2) (run_history fuel max_height true ops).
Proof.
  unfold run_history.
  pose proof (run_rch_inv fuel ops (IState []) (init_state max_height true) eq_refl (rch_inv_init _ _)) as H.
  eapply Forall_impl; [|exact H]. intros e [He _]. exact He.
Qed.

Lemma history_no_heap_panic fuel max_height ops :
  Forall (fun e => forall t, e.1.1 = Panic t -> Qri t) (run_history fuel max_height true ops).
Proof. unfold run_history. apply run_no_heap_panic. split; [done|apply rch_inv_init]. Qed.

(* ---- timestamps (all builds) *)
From RecordUpdate Require Import RecordUpdate.
From Incr.Proofs Require Import Stamps FrameStampsOk FrameStamped.

Lemma history_stamps_ok fuel max_height dbg ops :
  Forall (fun e => stamps_ok e.2) (run_history fuel max_height dbg ops).
Proof. unfold run_history. apply run_stamps_ok. apply stamps_ok_init. Qed.

Lemma bindM_eq' {A B} (m : M A) (k : A -> M B) s a s1 : m s = (Ok a, s1) -> bindM m k s = k a s1.
Proof. intros E. unfold bindM. by rewrite E. Qed.

(* recompute_one stamps its node first; whatever happens next (including a panic), the node is still
   stamped with the current stabilisation number when it is over *)
Lemma recompute_one_stamps fuel n s x :
  nodes s !! n = Some x ->
  let s' := (recompute_one fuel n s).2 in
  stab_num s' = stab_num s /\ exists x', nodes s' !! n = Some x' /\ n_recomputed_at x' = stab_num s'.
Proof.
  intros Hn. unfold recompute_one.
  erewrite bindM_eq' by reflexivity. erewrite bindM_eq' by reflexivity. erewrite bindM_eq' by reflexivity.
  match goal with |- context [recompute_body fuel n ?s0] => set (s3 := s0) end.
  destruct (now_recompute_body fuel n s3) as [T H].
  cbv zeta. split; [rewrite T; done|].
  destruct (H n (x <| n_recomputed_at := stab_num s |>)) as (x' & Hx' & Hr).
  - subst s3. simpl. rewrite list_lookup_alter, Hn. done.
  - done.
  - exists x'. split; [done|]. rewrite Hr, T. done.
Qed.

(* ... and is therefore not stale: nothing that has been stamped so far is later than it *)
Lemma recompute_one_not_stale fuel n s x :
  stamps_ok s -> nodes s !! n = Some x ->
  let s' := (recompute_one fuel n s).2 in
  exists x', nodes s' !! n = Some x' /\
    (match node_kind x' with Some (KExpert _) => True | _ => is_stale s' x' = false end).
Proof.
  intros Hok Hn. destruct (recompute_one_stamps fuel n s x Hn) as (T & x' & Hx' & Hr).
  cbv zeta in *. exists x'. split; [done|].
  assert (stamps_ok (recompute_one fuel n s).2) as Hok' by (by apply (ok_recompute_one fuel n s)).
  pose proof (stamped_now_not_stale _ n x' Hok' Hx' Hr) as P.
  destruct (node_kind x') as [[]|]; try done; by apply P.
Qed.

(* once stamped in the current stabilisation, a node stays stamped — and not stale — through the rest of
   the propagation phase *)
Lemma stamped_rest_of_propagation fuel s n x :
  stamps_ok s -> nodes s !! n = Some x -> n_recomputed_at x = stab_num s ->
  let s' := (stabilise_loop fuel s).2 in
  stamps_ok s' /\ stab_num s' = stab_num s /\
  exists x', nodes s' !! n = Some x' /\ n_recomputed_at x' = stab_num s' /\
    (match node_kind x' with Some (KExpert _) => True | _ => is_stale s' x' = false end).
Proof.
  intros Hok Hn Hr. cbv zeta.
  assert (stamps_ok (stabilise_loop fuel s).2) as Hok' by (by apply (ok_stabilise_loop fuel s)).
  destruct (now_stabilise_loop fuel s) as [T H]. destruct (H n x Hn Hr) as (x' & Hx' & Hr').
  split; [done|]. split; [done|]. exists x'. rewrite <- T in Hr'. split_and!; [done|done|].
  pose proof (stamped_now_not_stale _ n x' Hok' Hx' Hr') as P.
  destruct (node_kind x') as [[]|]; try done; by apply P.
Qed.

(* ---- the heap's counter and lower bound (debug builds) *)
From Incr.Proofs Require Import RchMin FrameRchMin.

Lemma history_rch_extra fuel max_height ops :
  Forall (fun e => rch_inv e.2 /\ rch_extra e.2) (run_history fuel max_height true ops).
Proof.
  unfold run_history.
  pose proof (run_rch_extra fuel ops (IState []) (init_state max_height true) eq_refl (rch_inv_init _ _) (rch_extra_init _ _)) as H.
  eapply Forall_impl; [|exact H]. intros e (H1 & H2 & _). done.
Qed.

(* ---- the heap holds necessary nodes only (debug builds, up to the first failing operation) *)
From Incr.Proofs Require Import OkPres HeapNeeded FrameHeapNec.

Lemma HNx_init max_height : HNx [] (init_state max_height true).
Proof. split; [done|]. intros n x Hx. done. Qed.

Lemma history_heap_needed fuel max_height ops :
  while_ok (run_history fuel max_height true ops) (HNx []).
Proof. unfold run_history. apply run_heap_needed. apply HNx_init. Qed.

(* what the stabilise loop takes out of the heap is a necessary node *)
Lemma popped_node_is_necessary s n s' :
  HNx [] s -> rch_inv s -> rch_extra s ->
  rch_remove_min s = (Ok (Some n), s') ->
  exists x, nodes s !! n = Some x /\ is_necessary x = true.
Proof.
  intros [Hd A] Hi Hx E. destruct (rch_remove_min_is_min s (Some n) s' Hd Hi Hx E) as (x & Hn & Hpos & _).
  exists x. split; [done|]. destruct (A n x Hn Hpos) as [|Hin]; [done|]. by apply elem_of_nil in Hin.
Qed.

(* ---- the heap holds valid nodes only (debug builds, up to the first failing operation) *)
From Incr.Proofs Require Import HeapValid FrameHeapValid.

Lemma VNx_init max_height : VNx [] (init_state max_height true).
Proof. split; [done|]. intros n x Hx. done. Qed.

Lemma history_heap_valid fuel max_height ops :
  while_ok (run_history fuel max_height true ops) (VNx []).
Proof. unfold run_history. apply run_heap_valid. apply VNx_init. Qed.

(* what the stabilise loop takes out of the heap is a valid node: it never recomputes an invalid one *)
Lemma popped_node_is_valid s n s' :
  VNx [] s -> rch_inv s -> rch_extra s ->
  rch_remove_min s = (Ok (Some n), s') ->
  exists x, nodes s !! n = Some x /\ n_valid x = true.
Proof.
  intros [Hd A] Hi Hx E. destruct (rch_remove_min_is_min s (Some n) s' Hd Hi Hx E) as (x & Hn & Hpos & _).
  exists x. split; [done|]. destruct (A n x Hn Hpos) as [|Hin]; [done|]. by apply elem_of_nil in Hin.
Qed.

(* ---- heights stay within the limit (all builds, up to the first failing operation) *)
From Incr.Proofs Require Import HeightLimit FrameHeightLimit.

Lemma history_height_limit fuel N dbg ops : (0 <= N)%Z ->
  while_ok (run_history fuel N dbg ops) HL.
Proof. intros HN. unfold run_history. apply run_height_limit. by apply HL_init. Qed.

(* ---- the force_necessary pin (all builds, up to the first failing operation) *)
From Incr.Proofs Require Import ForcePin FrameForcePin.

Lemma history_no_pin fuel max_height dbg ops :
  while_ok (run_history fuel max_height dbg ops) (FNx []).
Proof. unfold run_history. apply run_no_pin. apply FNx_init. Qed.

Lemma no_pin_necessary s n x : FNx [] s -> nodes s !! n = Some x ->
  is_necessary x = negb (bool_decide (n_parents x = [])) || negb (bool_decide (n_observers x = [])).
Proof.
  intros A Hx. unfold is_necessary. destruct (n_force_necessary x) eqn:Hf; [|by rewrite orb_false_r].
  specialize (A n x Hx Hf). by apply elem_of_nil in A.
Qed.

(* ---- the handler counter (debug builds, up to the first failing operation) *)
From Incr.Proofs Require Import HandlerCount FrameHandlerCount.

Lemma history_handler_count fuel max_height ops :
  while_ok (run_history fuel max_height true ops) HCd.
Proof. unfold run_history. apply run_handler_count. apply HCd_init. Qed.
