(* consequences for whole histories started from a fresh state (debug builds) *)
From stdpp Require Import base list option numbers.
From Incr.Model Require Import Base Live Engine Api.
From Incr.Proofs Require Import Pres Safe RchInv FrameRchInv FrameNoHeapPanic.

Lemma history_rch_inv fuel max_height ops :
  Forall (fun e => rch_inv e.2) (run_history fuel max_height true ops).
Proof.
  unfold run_history.
  pose proof (run_rch_inv fuel ops (IState []) (init_state max_height true) eq_refl (rch_inv_init _ _)) as H.
  eapply Forall_impl; [|exact H]. intros e [He _]. exact He.
Qed.

Lemma history_no_heap_panic fuel max_height ops :
  Forall (fun e => forall t, e.1.1 = Panic t -> Qri t) (run_history fuel max_height true ops).
Proof. unfold run_history. apply run_no_heap_panic. split; [done|apply rch_inv_init]. Qed.
