(* C01: what each kind of node computes when it is recomputed — its defining function, applied to the
   values its inputs have at that moment. *)
From stdpp Require Import base list option numbers.
From RecordUpdate Require Import RecordUpdate.
From Incr.Model Require Import Base Live Engine Api.

Lemma bindM_step {A B} (m : M A) (k : A -> M B) s a s1 : m s = (Ok a, s1) -> bindM m k s = k a s1.
Proof. intros E. unfold bindM. by rewrite E. Qed.

Lemma get_node_step n s x : nodes s !! n = Some x -> get_node n s = (Ok x, s).
Proof. intros E. unfold get_node, bindM, get, ret. by rewrite E. Qed.

(* reading the inputs: the values the children have now (map_ref children are read through) *)
Lemma unwrap_values cs vs site s :
  Forall2 (fun c v => node_value (S c) s c = Some v) cs vs ->
  mapM (fun c => unwrap_value c site) cs s = (Ok vs, s).
Proof.
  induction 1 as [|c v cs vs Hc _ IH]; [done|].
  cbn [mapM]. unfold bindM at 1. unfold unwrap_value at 1, value_of, bindM, get, ret. cbv beta iota. rewrite Hc. cbv beta iota.
  unfold bindM in IH |- *. rewrite IH. done.
Qed.

(* a map node (map, map2, ...): the user's function is applied to the inputs' current values, and what
   it returns is what maybe_change_value is given *)
Lemma map_node_computes fuel n s x f cs vs :
  nodes s !! n = Some x -> node_kind x = Some (KMap f cs) -> c_internal f = false ->
  Forall2 (fun c v => node_value (S c) s c = Some v) cs vs ->
  recompute_body fuel n s =
    (user_call ;;;
     run_effects fuel (default VUnit (vs !! 0%nat)) (c_effs f) ;;;
     emit (EvInv n (c_cap f) vs (fn_sem (c_fid f) (c_cap f) vs)) ;;;
     maybe_change_value fuel n (fn_sem (c_fid f) (c_cap f) vs)) s.
Proof.
  intros Hx Hk Hint Hvs. unfold recompute_body. rewrite (bindM_step _ _ _ _ _ (get_node_step n s x Hx)). rewrite Hk.
  rewrite (bindM_step _ _ _ _ _ (unwrap_values cs vs 340 s Hvs)). rewrite Hint. reflexivity.
Qed.

(* a fold node: the fold function is threaded through the inputs' current values, left to right *)
Fixpoint fold_steps (n : nid) (f : closure) (acc : val) (vs : list val) : M val :=
  match vs with
  | [] => ret acc
  | v :: vs' =>
      user_call ;;;
      let r := fold_sem (c_fid f) (c_cap f) acc v in
      emit (EvFoldCall n acc v r) ;;; fold_steps n f r vs'
  end.

Lemma node_value_ext fuel s s' n : nodes s' = nodes s -> node_value fuel s' n = node_value fuel s n.
Proof.
  intros H. revert n. induction fuel as [|f IH]; intros n; [done|]. cbn [node_value]. rewrite H.
  destruct (nodes s !! n) as [x|]; [|done]. destruct (node_kind x) as [[]|]; try done.
  case_bool_decide; [|done]. by rewrite IH.
Qed.

Lemma user_call_nodes s : nodes (user_call s).2 = nodes s.
Proof.
  unfold user_call, bindM, modify, get. cbv beta iota. case_bool_decide; done.
Qed.

Lemma fold_reads n (f : closure) cs vs s :
  Forall2 (fun c v => node_value (S c) s c = Some v) cs vs ->
  forall acc s', nodes s' = nodes s ->
  foldM (fun acc c => v <- unwrap_value c 342 ;; user_call ;;; let r := fold_sem (c_fid f) (c_cap f) acc v in
                      emit (EvFoldCall n acc v r) ;;; ret r) cs acc s'
  = fold_steps n f acc vs s'.
Proof.
  induction 1 as [|c v cs vs Hc Hrest IH]; intros acc s' Hs; [done|].
  cbn [foldM fold_steps].
  assert (unwrap_value c 342 s' = (Ok v, s')) as Eu.
  { unfold unwrap_value, value_of, bindM, get, ret. cbv beta iota. by rewrite (node_value_ext _ s s' c Hs), Hc. }
  pose proof (user_call_nodes s') as Hn.
  unfold bindM. rewrite Eu. destruct (user_call s') as [[[]| |] s1]; [|done..]. simpl in Hn.
  unfold emit, modify, ret. cbv beta iota.
  specialize (IH (fold_sem (c_fid f) (c_cap f) acc v)
                 (s1 <| events := EvFoldCall n acc v (fold_sem (c_fid f) (c_cap f) acc v) :: events s1 |>)).
  unfold bindM, emit, modify, ret in IH. apply IH. simpl. congruence.
Qed.

Lemma fold_node_computes fuel n s x f init cs vs :
  nodes s !! n = Some x -> node_kind x = Some (KFold f init cs) ->
  Forall2 (fun c v => node_value (S c) s c = Some v) cs vs ->
  recompute_body fuel n s = (acc <- fold_steps n f init vs ;; maybe_change_value fuel n acc) s.
Proof.
  intros Hx Hk Hvs. unfold recompute_body. rewrite (bindM_step _ _ _ _ _ (get_node_step n s x Hx)). rewrite Hk.
  unfold bindM.
  match goal with |- context [foldM ?F cs init s] =>
    replace (foldM F cs init s) with (fold_steps n f init vs s) by (symmetry; apply (fold_reads n f cs vs s Hvs init s eq_refl)) end.
  reflexivity.
Qed.

(* a bind's main node copies the value its current right-hand side has now *)
Lemma bind_main_copies fuel n s x b lc bd rhs rx v :
  nodes s !! n = Some x -> node_kind x = Some (KBindMain b lc) ->
  binds s !! b = Some bd -> b_rhs bd = Some rhs ->
  nodes s !! rhs = Some rx -> n_valid rx = true -> node_value (S rhs) s rhs = Some v ->
  recompute_body fuel n s = maybe_change_value fuel n v s.
Proof.
  intros Hx Hk Hb Hr Hrx Hv Hval. unfold recompute_body. rewrite (bindM_step _ _ _ _ _ (get_node_step n s x Hx)). rewrite Hk.
  unfold bindM at 1, get_bind at 1. unfold bindM at 1, get at 1. cbv beta iota. rewrite Hb. unfold ret at 1. cbv beta iota.
  rewrite Hr. unfold copy_child_bindrhs. rewrite (bindM_step _ _ _ _ _ (get_node_step rhs s rx Hrx)). rewrite Hv.
  unfold bindM at 1, value_of at 1. unfold bindM at 1, get at 1, ret at 1. cbv beta iota. rewrite Hval. reflexivity.
Qed.

(* a constant *)
Lemma const_node_computes fuel n s x v :
  nodes s !! n = Some x -> node_kind x = Some (KConst v) -> recompute_body fuel n s = maybe_change_value fuel n v s.
Proof.
  intros Hx Hk. unfold recompute_body. rewrite (bindM_step _ _ _ _ _ (get_node_step n s x Hx)). by rewrite Hk.
Qed.

(* maybe_change_value stores the value it is given — whether or not the cutoff suppresses the change —
   before anything is propagated *)
Lemma mcv_stores fuel n v s x b s1 :
  nodes s !! n = Some x ->
  match n_value x with
  | None => b = true /\ s1 = s <| nodes := alter (fun y => y <| n_value := None |>) n (nodes s) |>
  | Some o => should_cutoff n (n_cutoff x) o v (s <| nodes := alter (fun y => y <| n_value := None |>) n (nodes s) |>) = (Ok (negb b), s1)
  end ->
  maybe_change_value fuel n v s =
    maybe_change_value_manual fuel n (n_value x) b true
      (s1 <| nodes := alter (fun y => y <| n_value := Some v |>) n (nodes s1) |>).
Proof.
  intros Hx Hc. unfold maybe_change_value. rewrite (bindM_step _ _ _ _ _ (get_node_step n s x Hx)).
  unfold bindM at 1, upd_node at 1, modify at 1. cbv beta iota.
  destruct (n_value x) as [o|] eqn:Ho.
  - unfold bindM at 1. unfold bindM at 1. rewrite Hc. unfold ret at 1. cbv beta iota. rewrite negb_involutive.
    unfold bindM at 1, upd_node at 1, modify at 1. cbv beta iota. reflexivity.
  - destruct Hc as [-> ->]. unfold bindM at 1, ret at 1. cbv beta iota.
    unfold bindM at 1, upd_node at 1, modify at 1. cbv beta iota. reflexivity.
Qed.
