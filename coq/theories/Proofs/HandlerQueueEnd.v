(* C09: the end of a stabilisation empties the handler stack into the run queue. *)
From stdpp Require Import base list option numbers.
From RecordUpdate Require Import RecordUpdate.
From Incr.Model Require Import Base Live Engine Api.
From Incr.Proofs Require Import Pres HandlerQueue FrameHasGrow Handlers.

(* the loop body of stabilise_end_prepare over the stack *)
Definition queue_report (n : nid) : M unit :=
  x <- get_node n ;;
  if negb (n_live x) then ret tt else
  upd_node n (fun x => x <| n_in_has := false |>) ;;;
  nu <- node_update_of n ;;
  modify (fun s => s <| run_ouh := run_ouh s ++ [(n, nu)] |>).

Lemma queue_report_run n st x : nodes st !! n = Some x ->
  exists st', queue_report n st = (Ok tt, st')
    /\ has_stack st' = has_stack st
    /\ (forall e, e ∈ run_ouh st -> e ∈ run_ouh st')
    /\ (n_live x = true -> (exists nu, (n, nu) ∈ run_ouh st')
          /\ nodes st' = alter (fun x => x <| n_in_has := false |>) n (nodes st))
    /\ (n_live x = false -> nodes st' = nodes st).
Proof.
  intros Hx. unfold queue_report. unfold bindM at 1, get_node at 1. unfold bindM at 1, get at 1. cbv beta iota. rewrite Hx.
  unfold ret at 1. cbv beta iota. destruct (n_live x) eqn:Hl; cbn [negb].
  2:{ eexists. split; [reflexivity|]. split_and!; try done. }
  unfold bindM at 1, upd_node at 1, modify at 1. cbv beta iota.
  set (st1 := st <| nodes := alter (fun x0 => x0 <| n_in_has := false |>) n (nodes st) |>).
  assert (nodes st1 !! n = Some (x <| n_in_has := false |>)) as Hx1 by (subst st1; simpl; by rewrite list_lookup_alter, Hx).
  unfold bindM at 1. rewrite (node_update_of_eq n st1 _ Hx1). cbv beta iota.
  unfold modify. eexists. split; [reflexivity|]. simpl. split_and!; try done.
  - intros e He. apply elem_of_app. by left.
  - intros _. split; [|done]. eexists. apply elem_of_app. right. apply elem_of_list_singleton. reflexivity.
Qed.

Lemma queue_loop_spec l : forall st,
  (forall n, n ∈ l -> is_Some (nodes st !! n)) ->
  has_stack st = [] ->
  (forall n x, nodes st !! n = Some x -> n_live x = true -> n_in_has x = true -> n ∈ l) ->
  exists st', forM_ l queue_report st = (Ok tt, st')
    /\ has_inv st'
    /\ (forall e, e ∈ run_ouh st -> e ∈ run_ouh st')
    /\ (forall n x, n ∈ l -> nodes st !! n = Some x -> n_live x = true -> exists nu, (n, nu) ∈ run_ouh st').
Proof.
  induction l as [|n l IH]; intros st Hval Hst Hfl.
  - exists st. split; [done|]. split_and!.
    + split; [|rewrite Hst; intros n Hn; by apply elem_of_nil in Hn].
      intros n x Hx Hl Hh. exfalso. by eapply elem_of_nil, Hfl.
    + done.
    + intros n x Hn. by apply elem_of_nil in Hn.
  - destruct (Hval n ltac:(left)) as [x Hx].
    destruct (queue_report_run n st x Hx) as (st1 & E1 & Hs1 & Hq1 & Hlive & Hdead).
    cbn [forM_]. unfold bindM. rewrite E1.
    assert (forall m y, nodes st1 !! m = Some y -> exists y0, nodes st !! m = Some y0 /\ n_live y0 = n_live y
                /\ (n_in_has y = true -> n_in_has y0 = true /\ (m = n -> n_live y0 = false))) as Hback.
    { intros m y Hy. destruct (n_live x) eqn:Hl.
      - destruct (Hlive eq_refl) as [_ Hn1]. rewrite Hn1 in Hy. destruct (decide (n = m)) as [->|Hne].
        + rewrite list_lookup_alter, Hx in Hy. simpl in Hy. injection Hy as <-. exists x. simpl. split_and!; try done.
        + rewrite list_lookup_alter_ne in Hy by done. exists y. split_and!; try done; try (intros Hh; split; [done|]; intros ->; done).
      - rewrite (Hdead eq_refl) in Hy. exists y. split_and!; try done; try (intros Hh; split; [done|]; intros ->; simplify_eq; done). }
    destruct (IH st1) as (st' & E' & Hinv' & Hq' & Hrun').
    + intros m Hm. destruct (Hval m ltac:(by right)) as [y Hy]. destruct (n_live x) eqn:Hl.
      * destruct (Hlive eq_refl) as [_ ->]. destruct (decide (n = m)) as [->|Hne];
          [rewrite list_lookup_alter, Hy; by eexists|rewrite list_lookup_alter_ne by done; by eexists].
      * rewrite (Hdead eq_refl). by eexists.
    + congruence.
    + intros m y Hy Hl Hh. destruct (Hback m y Hy) as (y0 & Hy0 & Hl0 & Hh0). destruct (Hh0 Hh) as [Hh1 Hn].
      assert (m ∈ n :: l) as Hin by (eapply Hfl; [exact Hy0|congruence|done]).
      apply elem_of_cons in Hin as [->|Hin]; [|done]. specialize (Hn eq_refl). congruence.
    + exists st'. split; [done|]. split_and!; [done|auto|].
      intros m y Hm Hy Hl. apply elem_of_cons in Hm as [->|Hm].
      * simplify_eq. destruct (Hlive Hl) as [[nu Hnu] _]. exists nu. auto.
      * assert (exists y1, nodes st1 !! m = Some y1 /\ n_live y1 = true) as (y1 & Hy1 & Hl1).
        { destruct (n_live x) eqn:Hlx.
          - destruct (Hlive eq_refl) as [_ ->]. destruct (decide (n = m)) as [->|Hne].
            + rewrite list_lookup_alter, Hy. simpl. eexists. split; [done|]. simpl. done.
            + rewrite list_lookup_alter_ne by done. by exists y.
          - rewrite (Hdead eq_refl). by exists y. }
        by eapply Hrun'.
Qed.

Lemma stabilise_end_prepare_unfold :
  stabilise_end_prepare =
  (modify (fun s => s <| stab_num := (stab_num s + 1)%Z |>) ;;;
   modify (fun s => s <| cur_running := None |>) ;;;
   s <- get ;;
   modify (fun s => s <| set_during := [] |>) ;;;
   forM_ (rev (set_during s)) (fun x =>
     v <- get_var x ;;
     if negb (v_live v) then ret tt else
     match v_pending v with
     | None => ret tt
     | Some value => upd_var x (fun v => v <| v_pending := None |>) ;;; set_var_while_not_stabilising x value
     end) ;;;
   s <- get ;;
   modify (fun s => s <| dead_vars := [] |>) ;;;
   forM_ (dead_vars s) (fun x => upd_var x (fun v => v <| v_node := None |>)) ;;;
   s <- get ;;
   modify (fun s => s <| has_stack := [] |>) ;;;
   forM_ (has_stack s) queue_report).
Proof. reflexivity. Qed.

(* the part before the stack is emptied keeps the invariant and the stack *)
Definition end_prepare_prefix : M unit :=
  modify (fun s => s <| stab_num := (stab_num s + 1)%Z |>) ;;;
  modify (fun s => s <| cur_running := None |>) ;;;
  s <- get ;;
  modify (fun s => s <| set_during := [] |>) ;;;
  forM_ (rev (set_during s)) (fun x =>
    v <- get_var x ;;
    if negb (v_live v) then ret tt else
    match v_pending v with
    | None => ret tt
    | Some value => upd_var x (fun v => v <| v_pending := None |>) ;;; set_var_while_not_stabilising x value
    end) ;;;
  s <- get ;;
  modify (fun s => s <| dead_vars := [] |>) ;;;
  forM_ (dead_vars s) (fun x => upd_var x (fun v => v <| v_node := None |>)).

Definition end_prepare_queue : M unit :=
  s <- get ;;
  modify (fun s => s <| has_stack := [] |>) ;;;
  forM_ (has_stack s) queue_report.

Lemma has_end_prepare_prefix : pres Rhas end_prepare_prefix.
Proof. unfold end_prepare_prefix. go_has. Qed.

Lemma end_prepare_queue_spec s : has_inv s ->
  exists s', end_prepare_queue s = (Ok tt, s') /\ has_inv s'
    /\ (forall n x, n ∈ has_stack s -> nodes s !! n = Some x -> n_live x = true -> exists nu, (n, nu) ∈ run_ouh s').
Proof.
  intros [A B]. unfold end_prepare_queue. unfold bindM at 1, get at 1. cbv beta iota.
  unfold bindM at 1, modify at 1. cbv beta iota.
  destruct (queue_loop_spec (has_stack s) (s <| has_stack := [] |>)) as (s' & E & Hinv & _ & Hrun); [exact B|done|exact A|].
  exists s'. split_and!; [done|done|]. intros n x Hn Hx Hl. by eapply Hrun.
Qed.

Lemma hi_end_prepare_queue : pres Rhi end_prepare_queue.
Proof. intros s Hi. destruct (end_prepare_queue_spec s Hi) as (s' & E & Hi' & _). rewrite E. done. Qed.

Ltac weak_has := (apply (pres_weaken Rhas Rhi); [exact Rhi_of_Rhas|go_has]).

Lemma end_prepare_has_inv : pres Rhi stabilise_end_prepare.
Proof.
  rewrite stabilise_end_prepare_unfold.
  apply (pres_bind Rhi); [weak_has|intros _].
  apply (pres_bind Rhi); [weak_has|intros _].
  apply (pres_bind Rhi); [apply (pres_get Rhi)|intros s0].
  apply (pres_bind Rhi); [weak_has|intros _].
  apply (pres_bind Rhi); [weak_has|intros _].
  apply (pres_bind Rhi); [apply (pres_get Rhi)|intros s1].
  apply (pres_bind Rhi); [weak_has|intros _].
  apply (pres_bind Rhi); [weak_has|intros _].
  apply hi_end_prepare_queue.
Qed.
