(* C03: invalidation is effective and permanent. *)
From stdpp Require Import base list option numbers.
From RecordUpdate Require Import RecordUpdate.
From Incr.Model Require Import Base Live Engine Api.
From Incr.Proofs Require Import Pres FrameMono.

Lemma bindM_ok {A B} (m : M A) (k : A -> M B) s b s' :
  bindM m k s = (Ok b, s') -> exists a s1, m s = (Ok a, s1) /\ k a s1 = (Ok b, s').
Proof.
  unfold bindM. destruct (m s) as [[a| |] s1] eqn:E; intros H; [|done|done]. by exists a, s1.
Qed.

Definition invalid_in (s : state) (n : nid) : Prop :=
  exists x, nodes s !! n = Some x /\ n_valid x = false.

Lemma invalid_mono s s' n : Rmono s s' -> invalid_in s n -> invalid_in s' n.
Proof.
  intros [_ H] (x & Hx & Hv). destruct (H n x Hx) as (x' & Hx' & _ & _ & Hv' & _).
  exists x'. auto.
Qed.

Lemma exists_mono s s' n : Rmono s s' -> is_Some (nodes s !! n) -> is_Some (nodes s' !! n).
Proof. intros [_ H] [x Hx]. destruct (H n x Hx) as (x' & Hx' & _). by eexists. Qed.

Ltac step_ok H a s1 H1 := apply bindM_ok in H as (a & s1 & H1 & H).

(* peel one bind off a successful run, recording that the prefix only grew the state *)
Ltac mstep H ACC :=
  let a := fresh "a" in let s1 := fresh "s" in let H1 := fresh "E" in
  apply bindM_ok in H as (a & s1 & H1 & H);
  match type of H1 with
  | ?m ?s0 = _ =>
      let P := fresh "P" in
      assert (pres Rmono m) as P by go_mono;
      specialize (P s0); rewrite H1 in P; simpl in P;
      let ACC' := fresh "ACC" in
      pose proof (transitivity ACC P) as ACC'; clear ACC P; rename ACC' into ACC
  end.

Lemma get_node_ok n s a s' : get_node n s = (Ok a, s') -> s' = s /\ nodes s !! n = Some a.
Proof.
  unfold get_node, bindM, get, ret, panic. destruct (nodes s !! n); intros H; by simplify_eq.
Qed.

(* if [invalidate_node] returns, the node is invalid *)
Lemma invalidate_node_post fuel : forall n s s',
  invalidate_node fuel n s = (Ok tt, s') -> invalid_in s' n.
Proof.
  induction fuel as [|f IH]; intros n s s' H; [done|]. cbn [invalidate_node] in H.
  assert (Rmono s s) as ACC by reflexivity.
  mstep H ACC.
  destruct (get_node_ok _ _ _ _ E) as [-> Hn].
  destruct (n_valid a) eqn:Hv; cbn [negb] in H.
  2:{ unfold ret in H. simplify_eq. eapply invalid_mono; [exact ACC|]. exists a. done. }
  do 5 mstep H ACC.
  (* the BindMain case: the nodes created on the right-hand side *)
  apply bindM_ok in H as (a6 & s6 & H6 & H).
  assert (Rmono s s6) as ACC6.
  { etrans; [exact ACC|].
    match type of H6 with ?m ?s0 = _ =>
      assert (pres Rmono m) as P by (destruct (node_kind a) as [[]|]; go_mono);
      specialize (P s0); rewrite H6 in P; exact P
    end. }
  (* here the flag is written *)
  apply bindM_ok in H as (a7 & s7 & H7 & H).
  assert (invalid_in s7 n) as Hinv.
  { unfold upd_node, modify in H7. injection H7 as _ <-.
    destruct (exists_mono _ _ n ACC6 ltac:(by eexists)) as [y Hy].
    exists (y <| n_valid := false |>). simpl. rewrite list_lookup_alter, Hy. done. }
  (* the rest only grows *)
  eapply invalid_mono; [|exact Hinv].
  match type of H with ?m s7 = _ => assert (pres Rmono m) as P by go_mono end.
  specialize (P s7). rewrite H in P. exact P.
Qed.

Definition live_invalid_or_dead (s : state) (r : nid) : Prop :=
  forall x, nodes s !! r = Some x -> n_live x = true -> n_valid x = false.

Lemma lid_mono s s' r : Rmono s s' -> is_Some (nodes s !! r) -> live_invalid_or_dead s r -> live_invalid_or_dead s' r.
Proof.
  intros [_ H] [x Hx] Hl x' Hx' Hlive. destruct (H r x Hx) as (x'' & Hx'' & _ & _ & Hv & Hlv).
  simplify_eq. destruct (n_live x) eqn:E.
  - apply Hv. by apply Hl.
  - rewrite Hlv in Hlive; done.
Qed.

Lemma mono_run {A} (m : M A) s r s' : pres Rmono m -> m s = (r, s') -> Rmono s s'.
Proof. intros P E. specialize (P s). rewrite E in P. exact P. Qed.

(* every node of the list that is still allocated afterwards is invalid *)
Lemma invalidate_created_post fuel all : forall s s',
  invalidate_nodes_created_on_rhs fuel all s = (Ok tt, s') ->
  forall r, r ∈ all -> is_Some (nodes s !! r) -> live_invalid_or_dead s' r.
Proof.
  unfold invalidate_nodes_created_on_rhs.
  induction all as [|r0 all IH]; intros s s' H r Hr Hex; [by apply elem_of_nil in Hr|].
  cbn [forM_] in H. apply bindM_ok in H as ([] & s1 & H1 & H).
  assert (Rmono s s1) as M1.
  { eapply mono_run; [|exact H1]. go_mono. }
  assert (Rmono s1 s') as M2.
  { eapply mono_run; [|exact H]. go_mono. }
  apply elem_of_cons in Hr as [->|Hr].
  - (* this one *)
    apply bindM_ok in H1 as (rx & s0 & E0 & H1). destruct (get_node_ok _ _ _ _ E0) as [-> Hrx].
    eapply lid_mono; [exact M2|by eapply exists_mono|].
    destruct (n_live rx) eqn:Hl.
    + apply invalidate_node_post in H1 as (y & Hy & Hv). intros y' Hy' _. by simplify_eq.
    + unfold ret in H1. simplify_eq. intros y Hy Hly. simplify_eq. congruence.
  - eapply IH; [exact H|done|by eapply exists_mono].
Qed.

Lemma get_bind_ok b s a s' : get_bind b s = (Ok a, s') -> s' = s /\ binds s !! b = Some a.
Proof.
  unfold get_bind, bindM, get, ret, panic. destruct (binds s !! b); intros H; by simplify_eq.
Qed.

(* When the left-hand side of a bind changed and its closure runs again, every node created by the
   previous run that is still allocated is invalid once the lhs-change node has been recomputed. *)
Lemma superseded_run_invalidated fuel n s r s' x b bd old :
  nodes s !! n = Some x -> node_kind x = Some (KBindLhs b) ->
  binds s !! b = Some bd -> b_rhs bd = Some old ->
  recompute_one fuel n s = (Ok r, s') ->
  forall c, c ∈ b_created bd -> is_Some (nodes s !! c) -> live_invalid_or_dead s' c.
Proof.
  intros Hn Hk Hb Hold H c Hc Hex. unfold recompute_one in H.
  (* the prologue does not touch the binds, nor the kind/validity of n *)
  apply bindM_ok in H as ([] & s1 & E1 & H). unfold emit, modify in E1. injection E1 as <-.
  apply bindM_ok in H as ([] & s2 & E2 & H). unfold modify in E2. injection E2 as <-.
  apply bindM_ok in H as ([] & s4 & E4 & H). unfold stamp_node, modify in E4. injection E4 as <-.
  unfold recompute_body in H.
  apply bindM_ok in H as (x4 & s5 & E5 & H). apply get_node_ok in E5 as [-> Hx4].
  assert (node_kind x4 = Some (KBindLhs b)) as Hk4.
  { simpl in Hx4. rewrite list_lookup_alter, Hn in Hx4. simpl in Hx4. injection Hx4 as <-. exact Hk. }
  rewrite Hk4 in H. clear Hx4 Hk4.
  match type of H with _ ?s0 = _ => set (s4 := s0) in * end.
  assert (Rmono s s4) as ACC.
  { subst s4. eapply Rmono_alter; [simpl; lia|reflexivity|]. intros y. unfold node_mono. simpl. done. }
  assert (binds s4 = binds s) as Hbs by done.
  (* the arm *)
  apply bindM_ok in H as (bd' & s5 & E5 & H). apply get_bind_ok in E5 as [-> Hbd'].
  rewrite Hbs, Hb in Hbd'. injection Hbd' as <-.
  do 16 mstep H ACC.
  rewrite Hold in H.
  apply bindM_ok in H as ([] & sa & Ea & H).
  apply bindM_ok in Ea as ([] & sb & Eb & Ea).
  assert (Rmono s sb) as ACCb.
  { etrans; [exact ACC|]. eapply mono_run; [|exact Eb]. go_mono. }
  apply bindM_ok in Ea as ([] & sc & Ec & Ea).
  eapply lid_mono; [| |eapply invalidate_created_post; [exact Ec|exact Hc|by eapply exists_mono]].
  - etrans; [eapply mono_run; [|exact Ea]; go_mono|]. eapply mono_run; [|exact H]. go_mono.
  - eapply exists_mono; [|exact Hex]. etrans; [exact ACCb|]. eapply mono_run; [|exact Ec]. go_mono.
Qed.

Lemma bindM_eq {A B} (m : M A) (k : A -> M B) s a s1 : m s = (Ok a, s1) -> bindM m k s = k a s1.
Proof. intros E. unfold bindM. by rewrite E. Qed.

Lemma get_node_eq n s x : nodes s !! n = Some x -> get_node n s = (Ok x, s).
Proof. intros E. unfold get_node, bindM, get, ret. by rewrite E. Qed.

(* an invalid node is never given to a node function: recomputing it panics instead *)
Lemma recompute_one_invalid fuel n s x : nodes s !! n = Some x -> n_valid x = false ->
  (recompute_one fuel n s).1 = Panic PRecomputeInvalid.
Proof.
  intros Hn Hv. unfold recompute_one.
  erewrite bindM_eq by reflexivity. erewrite bindM_eq by reflexivity.
  erewrite bindM_eq by reflexivity. unfold recompute_body.
  erewrite bindM_eq.
  2:{ apply get_node_eq. simpl. rewrite list_lookup_alter, Hn. reflexivity. }
  unfold node_kind. simpl. rewrite Hv. done.
Qed.
