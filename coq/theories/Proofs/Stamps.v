(* Timestamps never run ahead of the clock.

   Every write of `recomputed_at`, `changed_at` (node.rs) and `set_at` (var.rs) stores the stabilisation
   number current at the moment of the write (stamp_node / stamp_var in the model), and the clock only
   moves forward.  Two relations on states capture this; Frames/FrameStampsOk.v and FrameStamped.v
   (generated) show that every engine function respects them.

   Consequence used by C02: a node stamped as recomputed in the current stabilisation is not stale. *)
From stdpp Require Import base list option numbers.
From RecordUpdate Require Import RecordUpdate.
From Incr.Model Require Import Base Live Engine Api.
From Incr.Proofs Require Import Pres.

Definition node_stamps_le (T : Z) (x : node) : Prop :=
  (n_recomputed_at x <= T)%Z /\ (n_changed_at x <= T)%Z.

Definition stamps_ok (s : state) : Prop :=
  (0 <= stab_num s)%Z
  /\ (forall n x, nodes s !! n = Some x -> node_stamps_le (stab_num s) x)
  /\ (forall v x, vars s !! v = Some x -> (v_set_at x <= stab_num s)%Z).

(* ---- Rok: the clock does not go back, and stamps_ok is kept *)
Definition Rok : relation state := fun s s' =>
  (stab_num s <= stab_num s')%Z /\ (stamps_ok s -> stamps_ok s').
Global Instance Rok_preorder : PreOrder Rok.
Proof.
  split.
  - intros s. split; [lia|done].
  - intros a b c [T1 H1] [T2 H2]. split; [lia|auto].
Qed.

Lemma Rok_same s s' : stab_num s' = stab_num s -> nodes s' = nodes s -> vars s' = vars s -> Rok s s'.
Proof.
  intros H0 H1 H2. split; [lia|]. intros (A & B & C). unfold stamps_ok. rewrite H0, H1, H2. done.
Qed.
Lemma Rok_alter s s' n f : stab_num s' = stab_num s -> vars s' = vars s -> nodes s' = alter f n (nodes s) ->
  (forall x, node_stamps_le (stab_num s) x -> node_stamps_le (stab_num s) (f x)) -> Rok s s'.
Proof.
  intros H0 H2 H1 Hf. split; [lia|]. intros (A & B & C). unfold stamps_ok. rewrite H0, H1, H2.
  split_and!; [done| |done]. intros m x Hx. destruct (decide (n = m)) as [->|Hne].
  - rewrite list_lookup_alter in Hx. destruct (nodes s !! m) as [y|] eqn:Hy; [|done].
    simpl in Hx. injection Hx as <-. apply Hf. by eapply B.
  - rewrite list_lookup_alter_ne in Hx by done. by eapply B.
Qed.
Lemma Rok_app s s' k sc : stab_num s' = stab_num s -> vars s' = vars s -> nodes s' = nodes s ++ [new_node k sc] -> Rok s s'.
Proof.
  intros H0 H2 H1. split; [lia|]. intros (A & B & C). unfold stamps_ok. rewrite H0, H1, H2.
  split_and!; [done| |done]. intros m x Hx. apply lookup_app_Some in Hx as [Hx|[_ Hx]]; [by eapply B|].
  apply list_lookup_singleton_Some in Hx as [_ <-]. unfold node_stamps_le, new_node. simpl. lia.
Qed.
Lemma Rok_alter_var s s' v f : stab_num s' = stab_num s -> nodes s' = nodes s -> vars s' = alter f v (vars s) ->
  (forall x, (v_set_at x <= stab_num s)%Z -> (v_set_at (f x) <= stab_num s)%Z) -> Rok s s'.
Proof.
  intros H0 H1 H2 Hf. split; [lia|]. intros (A & B & C). unfold stamps_ok. rewrite H0, H1, H2.
  split_and!; [done|done|]. intros m x Hx. destruct (decide (v = m)) as [->|Hne].
  - rewrite list_lookup_alter in Hx. destruct (vars s !! m) as [y|] eqn:Hy; [|done].
    simpl in Hx. injection Hx as <-. apply Hf. by eapply C.
  - rewrite list_lookup_alter_ne in Hx by done. by eapply C.
Qed.
Lemma Rok_app_var s s' x : stab_num s' = stab_num s -> nodes s' = nodes s -> vars s' = vars s ++ [x] ->
  v_set_at x = stab_num s -> Rok s s'.
Proof.
  intros H0 H1 H2 Hx. split; [lia|]. intros (A & B & C). unfold stamps_ok. rewrite H0, H1, H2.
  split_and!; [done|done|]. intros m y Hy. apply lookup_app_Some in Hy as [Hy|[_ Hy]]; [by eapply C|].
  apply list_lookup_singleton_Some in Hy as [_ <-]. lia.
Qed.
(* the clock moves on *)
Lemma Rok_tick s s' : stab_num s' = (stab_num s + 1)%Z -> nodes s' = nodes s -> vars s' = vars s -> Rok s s'.
Proof.
  intros H0 H1 H2. split; [lia|]. intros (A & B & C). unfold stamps_ok. rewrite H0, H1, H2.
  split_and!; [lia| |].
  - intros n x Hx. destruct (B n x Hx). unfold node_stamps_le. lia.
  - intros v x Hx. specialize (C v x Hx). lia.
Qed.
Lemma Rok_collect pins s : Rok s (collect pins s).2.
Proof.
  split; [simpl; lia|]. intros (A & B & C). unfold stamps_ok. simpl. split_and!; [done| |].
  - intros n x Hx. rewrite list_lookup_imap in Hx. destruct (nodes s !! n) as [y|] eqn:Hy; [|done].
    simpl in Hx. injection Hx as <-. specialize (B n y Hy). case_bool_decide; exact B.
  - intros v x Hx. rewrite list_lookup_imap in Hx. destruct (vars s !! v) as [y|] eqn:Hy; [|done].
    simpl in Hx. injection Hx as <-. specialize (C v y Hy). case_bool_decide; exact C.
Qed.

(* ---- Rnow: within one stabilisation number, a node stamped as recomputed now stays stamped *)
Definition Rnow : relation state := fun s s' =>
  stab_num s' = stab_num s
  /\ forall n x, nodes s !! n = Some x -> n_recomputed_at x = stab_num s ->
       exists x', nodes s' !! n = Some x' /\ n_recomputed_at x' = stab_num s.
Global Instance Rnow_preorder : PreOrder Rnow.
Proof.
  split.
  - intros s. split; [done|]. intros n x Hx Hr. exists x. done.
  - intros a b c [T1 H1] [T2 H2]. split; [congruence|]. intros n x Hx Hr.
    destruct (H1 n x Hx Hr) as (x' & Hx' & A). rewrite <- T1 in A.
    destruct (H2 n x' Hx' A) as (x'' & Hx'' & B). exists x''. split; [done|congruence].
Qed.
Lemma Rnow_same s s' : stab_num s' = stab_num s -> nodes s' = nodes s -> Rnow s s'.
Proof. intros H0 H. split; [done|]. rewrite H. intros n x Hx Hr. exists x. done. Qed.
Lemma Rnow_alter s s' n f : stab_num s' = stab_num s -> nodes s' = alter f n (nodes s) ->
  (forall x, n_recomputed_at x = stab_num s -> n_recomputed_at (f x) = stab_num s) -> Rnow s s'.
Proof.
  intros H0 H Hf. split; [done|]. rewrite H. intros m x Hx Hr. destruct (decide (n = m)) as [->|Hne].
  - exists (f x). rewrite list_lookup_alter, Hx. split; [done|by apply Hf].
  - exists x. rewrite list_lookup_alter_ne by done. done.
Qed.
Lemma Rnow_app s s' l : stab_num s' = stab_num s -> nodes s' = nodes s ++ l -> Rnow s s'.
Proof.
  intros H0 H. split; [done|]. rewrite H. intros n x Hx Hr. exists x.
  rewrite lookup_app_l by (by eapply lookup_lt_Some). done.
Qed.
Lemma Rnow_collect pins s : Rnow s (collect pins s).2.
Proof.
  split; [done|]. intros n x Hx Hr. simpl. eexists. rewrite list_lookup_imap, Hx. simpl.
  split; [done|]. case_bool_decide; done.
Qed.

(* ---- what the stamps mean for staleness *)
Lemma stamped_now_not_stale s n x :
  stamps_ok s -> nodes s !! n = Some x -> n_recomputed_at x = stab_num s ->
  match node_kind x with Some (KExpert _) => False | _ => True end ->
  is_stale s x = false.
Proof.
  intros (A & B & C) Hx Hr Hk. unfold is_stale.
  assert (stale_wrt_child s x = false) as Hc.
  { unfold stale_wrt_child. apply not_true_is_false. intros H. apply existsb_exists in H as (c & _ & H).
    destruct (nodes s !! c) as [cx|] eqn:Hcx; [|done]. apply bool_decide_eq_true in H.
    destruct (B c cx Hcx) as [_ H']. lia. }
  destruct (node_kind x) as [[]|]; try done.
  all: try (rewrite Hc; rewrite bool_decide_eq_false_2 by lia; done).
  all: try (apply bool_decide_eq_false_2; lia).
  (* a variable's watch node *)
  match goal with |- match vars s !! ?v with _ => _ end = _ => destruct (vars s !! v) as [vr|] eqn:Hv; [|done] end.
  apply bool_decide_eq_false_2. specialize (C _ _ Hv). lia.
Qed.

(* an expert node stamped now is stale only because it was asked to run again (make_stale, or an edge
   was added or removed) *)
Lemma stamped_now_expert_stale s n x e ex :
  stamps_ok s -> nodes s !! n = Some x -> n_recomputed_at x = stab_num s ->
  node_kind x = Some (KExpert e) -> experts s !! e = Some ex ->
  is_stale s x = ex_force_stale ex.
Proof.
  intros (A & B & C) Hx Hr Hk He. unfold is_stale. rewrite Hk, He.
  assert (stale_wrt_child s x = false) as Hc.
  { unfold stale_wrt_child. apply not_true_is_false. intros H. apply existsb_exists in H as (c & _ & H).
    destruct (nodes s !! c) as [cx|] eqn:Hcx; [|done]. apply bool_decide_eq_true in H.
    destruct (B c cx Hcx) as [_ H']. lia. }
  rewrite Hc, (bool_decide_eq_false_2 (n_recomputed_at x = (-1)%Z)) by lia. by destruct (ex_force_stale ex).
Qed.

Lemma stamps_ok_init max_height dbg : stamps_ok (init_state max_height dbg).
Proof. split_and!; [done| |]; intros ? ? H; done. Qed.
