(* A small program logic for the engine monad: [pres R m] says that running [m] from any state
   ends (whatever the outcome: value, panic, out of fuel) in a state related by R.  For a preorder
   R this composes through bind, so frame and monotonicity facts about the whole engine are
   obtained function by function. *)
From stdpp Require Import base list option numbers.
From RecordUpdate Require Import RecordUpdate.
From Incr.Model Require Import Base Live Engine Api.

Definition pres (R : relation state) {A} (m : M A) : Prop := forall s, R s (m s).2.

Section rules.
Context (R : relation state) `{!PreOrder R}.

Lemma pres_ret {A} (a : A) : pres R (ret a).
Proof. intros s. simpl. reflexivity. Qed.
Lemma pres_panic {A} t : pres R (@panic A t).
Proof. intros s. simpl. reflexivity. Qed.
Lemma pres_oof {A} : pres R (@out_of_fuel A).
Proof. intros s. simpl. reflexivity. Qed.
Lemma pres_get : pres R get.
Proof. intros s. simpl. reflexivity. Qed.
Lemma pres_gets {A} (f : state -> A) : pres R (gets f).
Proof. intros s. simpl. reflexivity. Qed.
Lemma pres_modify f : (forall s, R s (f s)) -> pres R (modify f).
Proof. intros H s. simpl. apply H. Qed.

Lemma pres_bind {A B} (m : M A) (k : A -> M B) :
  pres R m -> (forall a, pres R (k a)) -> pres R (bindM m k).
Proof.
  intros Hm Hk s. unfold bindM. specialize (Hm s).
  destruct (m s) as [[a| |] s'] eqn:E; simpl in *; [|done|done].
  etrans; [exact Hm|]. apply Hk.
Qed.

Lemma pres_when b m : pres R m -> pres R (when b m).
Proof. destruct b; [done|]. intros _. apply pres_ret. Qed.
Lemma pres_massert b t : pres R (massert b t).
Proof. destruct b; [apply pres_ret|apply pres_panic]. Qed.
Lemma pres_dassert b site : pres R b -> pres R (dassert b site).
Proof.
  intros Hb. unfold dassert. apply pres_bind; [apply pres_gets|]. intros [|]; [|apply pres_ret].
  apply pres_bind; [done|]. intros [|]; [apply pres_ret|apply pres_panic].
Qed.
Lemma pres_mapM {A B} (f : A -> M B) l : (forall x, pres R (f x)) -> pres R (mapM f l).
Proof.
  intros Hf. induction l as [|x l IH]; simpl; [apply pres_ret|].
  apply pres_bind; [done|]. intros ?. apply pres_bind; [done|]. intros ?. apply pres_ret.
Qed.
Lemma pres_forM_ {A} (f : A -> M unit) l : (forall x, pres R (f x)) -> pres R (forM_ l f).
Proof.
  intros Hf. induction l as [|x l IH]; simpl; [apply pres_ret|].
  apply pres_bind; [done|]. intros ?. done.
Qed.
Lemma pres_foldM {A B} (f : B -> A -> M B) l b : (forall b x, pres R (f b x)) -> pres R (foldM f l b).
Proof.
  intros Hf. revert b. induction l as [|x l IH]; intros b; simpl; [apply pres_ret|].
  apply pres_bind; [done|]. intros ?. done.
Qed.
Lemma pres_forM_break {A} (f : A -> M bool) l : (forall x, pres R (f x)) -> pres R (forM_break l f).
Proof.
  intros Hf. induction l as [|x l IH]; simpl; [apply pres_ret|].
  apply pres_bind; [done|]. intros [|]; [done|apply pres_ret].
Qed.
Lemma pres_emit e : (forall s, R s (s <| events := e :: events s |>)) -> pres R (emit e).
Proof. intros H. apply pres_modify. done. Qed.
End rules.

(* one structural step *)
Ltac pres_step R :=
  lazymatch goal with
  | |- pres _ (ret _) => apply (pres_ret R)
  | |- pres _ (panic _) => apply (pres_panic R)
  | |- pres _ out_of_fuel => apply (pres_oof R)
  | |- pres _ get => apply (pres_get R)
  | |- pres _ (gets _) => apply (pres_gets R)
  | |- pres _ (bindM _ _) => apply (pres_bind R); [|intros ?]
  | |- pres _ (when _ _) => apply (pres_when R)
  | |- pres _ (massert _ _) => apply (pres_massert R)
  | |- pres _ (dassert _ _) => apply (pres_dassert R)
  | |- pres _ (mapM _ _) => apply (pres_mapM R); intros ?
  | |- pres _ (forM_ _ _) => apply (pres_forM_ R); intros ?
  | |- pres _ (foldM _ _ _) => apply (pres_foldM R); intros ? ?
  | |- pres _ (forM_break _ _) => apply (pres_forM_break R); intros ?
  | |- pres _ (if ?b then _ else _) => destruct b
  | |- pres _ (match ?x with _ => _ end) => destruct x
  | |- pres _ (let '(_, _) := ?x in _) => destruct x
  end.
