(* C11 / C02: the recompute heap's counter and lower bound, and what remove_min returns.

   On top of rch_inv (Proofs/RchInv.v) two more facts hold in every reachable state of a debug build:
   the length counter equals the number of queued nodes, and every queue below `height_lower_bound` is
   empty.  With them, remove_min returns a node whose height in the heap is minimal among all queued
   nodes: nodes are released in height order. *)
From stdpp Require Import base list option numbers.
From RecordUpdate Require Import RecordUpdate.
From Incr.Model Require Import Base Live Engine Api.
From Incr.Proofs Require Import Pres RchInv.

Definition qtotal (qs : list (list nid)) : Z := Z.of_nat (length (concat qs)).

Lemma qtotal_insert qs i q q' : qs !! i = Some q ->
  qtotal (<[i := q']> qs) = (qtotal qs - Z.of_nat (length q) + Z.of_nat (length q'))%Z.
Proof.
  intros Hq. unfold qtotal. pose proof (lookup_lt_Some _ _ _ Hq) as Hlt.
  rewrite insert_take_drop by done. rewrite <- (take_drop_middle qs i q Hq) at 3.
  rewrite !concat_app, !concat_cons, !app_length. lia.
Qed.

Lemma concat_all_nil (l : list (list nid)) : Forall (fun q => q = []) l -> concat l = [].
Proof. induction 1 as [|q l -> _ IH]; [done|]. simpl. exact IH. Qed.

Lemma swap_remove_length (q : list nid) i : (i < length q)%nat -> length (swap_remove q i) = (length q - 1)%nat.
Proof.
  intros Hi. unfold swap_remove. destruct (stdpp.list.last q) as [x|] eqn:Hl.
  2:{ apply last_None in Hl. subst. simpl in Hi. lia. }
  case_bool_decide.
  - rewrite removelast_firstn_len, firstn_length. lia.
  - rewrite removelast_firstn_len, firstn_length, insert_length. lia.
Qed.

Definition rch_extra (s : state) : Prop :=
  rch_len s = qtotal (rch_queues s)
  /\ (forall h q, rch_queues s !! h = Some q -> (Z.of_nat h < rch_lower s)%Z -> q = []).

(* the extra facts only read the heap's own fields *)
Lemma rch_extra_ext s s' :
  rch_len s' = rch_len s -> rch_queues s' = rch_queues s -> rch_lower s' = rch_lower s ->
  rch_extra s -> rch_extra s'.
Proof. intros H1 H2 H3 [A B]. unfold rch_extra. rewrite H1, H2, H3. done. Qed.

(* lowering the bound is always fine *)
Lemma rch_extra_lower s s' :
  rch_len s' = rch_len s -> rch_queues s' = rch_queues s -> (rch_lower s' <= rch_lower s)%Z ->
  rch_extra s -> rch_extra s'.
Proof.
  intros H1 H2 H3 [A B]. unfold rch_extra. rewrite H1, H2. split; [done|].
  intros h q Hq Hlt. eapply B; [done|lia].
Qed.

Definition Rrx : relation state := fun s s' =>
  debug s = true -> rch_inv s -> rch_extra s -> rch_inv s' /\ rch_extra s' /\ debug s' = true.
Global Instance Rrx_preorder : PreOrder Rrx.
Proof.
  split; [intros s Hd Hi Hx; done|]. intros a b c H1 H2 Hd Hi Hx.
  destruct (H1 Hd Hi Hx) as (Hb & Hxb & Hdb). by apply H2.
Qed.

Lemma Rrx_of s s' : Rri s s' -> rch_len s' = rch_len s -> rch_queues s' = rch_queues s -> rch_lower s' = rch_lower s -> Rrx s s'.
Proof.
  intros R H1 H2 H3 Hd Hi Hx. destruct (R Hd Hi) as [Hi' Hd']. split_and!; [done| |done].
  by eapply rch_extra_ext.
Qed.

(* ---- the heap's operations *)
Ltac stop_ex E := (injection E as <- <-; done).

Lemma link_state_extra s n h q : rch_queues s !! Z.to_nat h = Some q -> (0 <= h)%Z -> (rch_lower s <= h)%Z ->
  rch_extra s ->
  rch_extra (link_state s n h q <| rch_len := (rch_len s + 1)%Z |>).
Proof.
  intros Hq H0 Hlow [A B]. unfold link_state. split; simpl.
  - rewrite (qtotal_insert _ _ _ _ Hq), app_length. simpl. lia.
  - intros h' q' Hq' Hlt. rewrite list_lookup_insert_ne in Hq' by lia. by eapply B.
Qed.

Lemma ex_rch_insert n s : debug s = true -> rch_inv s -> rch_extra s -> rch_extra (rch_insert n s).2.
Proof.
  intros Hd Hinv Hex. destruct (rch_insert n s) as [r s'] eqn:E. simpl. unfold rch_insert in E.
  unfold bindM at 1 in E. destruct (dassert _ 105 s) as [r1 s1] eqn:E1.
  apply (dassert2_run (fun x s0 => negb (in_rch x) && needs_to_be_computed s0 x)) in E1 as [-> H1]; [|done].
  destruct r1 as [[]| |]; [|stop_ex E..]. destruct (H1 tt eq_refl) as (x & Hx & Hc1). clear H1.
  unfold bindM at 1 in E. destruct (dassert _ 106 s) as [r2 s2] eqn:E2.
  apply (dassert2_run (fun x s0 => bool_decide (n_height x <= rch_max_allowed s0)%Z)) in E2 as [-> H2]; [|done].
  destruct r2 as [[]| |]; [|stop_ex E..]. clear H2.
  unfold bindM at 1 in E. rewrite (get_node_run _ _ _ Hx) in E.
  unfold bindM at 1, get at 1 in E. cbv beta iota in E.
  set (s1 := if bool_decide (n_height x < rch_lower s)%Z then s <| rch_lower := n_height x |> else s).
  assert (nodes s1 = nodes s /\ rch_queues s1 = rch_queues s /\ rch_len s1 = rch_len s
          /\ (rch_lower s1 <= rch_lower s)%Z /\ (rch_lower s1 <= n_height x)%Z) as (Hn1 & Hq1 & Hl1 & Hlow1 & Hlow2)
    by (subst s1; case_bool_decide; simpl; split_and!; try done; lia).
  assert (rch_extra s1) as Hex1 by (by eapply rch_extra_lower).
  unfold bindM at 1 in E.
  assert (when (bool_decide (n_height x < rch_lower s)%Z) (modify (fun s0 => s0 <| rch_lower := n_height x |>)) s = (Ok tt, s1)) as Ew
    by (subst s1; unfold when, modify, ret; by case_bool_decide).
  rewrite Ew in E. unfold bindM at 1 in E.
  destruct (rch_link_cases n s1) as [[t El]|(x' & q & Hx' & Hpos & Hq & El)]; rewrite El in E; [stop_ex E|].
  unfold modify in E. injection E as <- <-. rewrite Hn1 in Hx'. simplify_eq.
  pose proof (link_state_extra s1 n (n_height x) q Hq Hpos Hlow2 Hex1) as P.
  eapply rch_extra_ext; [| | |exact P]; simpl; congruence.
Qed.

Lemma unlink_extra s h q i : rch_queues s !! h = Some q -> (i < length q)%nat ->
  rch_extra s ->
  rch_extra (s <| rch_queues := <[h := swap_remove q i]> (rch_queues s) |> <| rch_len := (rch_len s - 1)%Z |>).
Proof.
  intros Hq Hi [A B]. split; simpl.
  - rewrite (qtotal_insert _ _ _ _ Hq), swap_remove_length by done. lia.
  - intros h' q' Hq' Hlt. destruct (decide (h' = h)) as [->|Hne].
    + rewrite list_lookup_insert in Hq' by (by eapply lookup_lt_Some). injection Hq' as <-.
      rewrite (B _ _ Hq Hlt) in Hi. simpl in Hi. lia.
    + rewrite list_lookup_insert_ne in Hq' by done. by eapply B.
Qed.

Lemma ex_rch_remove n s : debug s = true -> rch_inv s -> rch_extra s -> rch_extra (rch_remove n s).2.
Proof.
  intros Hd Hinv Hex. destruct (rch_remove n s) as [r s'] eqn:E. simpl. unfold rch_remove in E.
  unfold bindM at 1 in E. destruct (dassert _ 107 s) as [r1 s1] eqn:E1.
  apply (dassert2_run (fun x s0 => in_rch x && negb (needs_to_be_computed s0 x))) in E1 as [-> H1]; [|done].
  destruct r1 as [[]| |]; [|stop_ex E..]. clear H1.
  unfold bindM at 1 in E.
  destruct (rch_unlink_cases n s) as [[t El]|(x & q & i & Hx & Hpos & Hq & Hi & El)]; rewrite El in E; [stop_ex E|].
  unfold bindM, upd_node, modify in E. injection E as <- <-.
  pose proof (unlink_extra s _ q i Hq (lookup_lt_Some _ _ _ Hi) Hex) as P.
  eapply rch_extra_ext; [| | |exact P]; simpl; done.
Qed.

Lemma ex_rch_increase_height n s : debug s = true -> rch_inv s -> rch_extra s -> rch_extra (rch_increase_height n s).2.
Proof.
  intros Hd Hinv Hex. destruct (rch_increase_height n s) as [r s'] eqn:E. simpl. unfold rch_increase_height in E.
  unfold bindM at 1 in E. destruct (dassert _ 110 s) as [r1 s1] eqn:E1.
  apply (dassert1_run (fun x => bool_decide (n_height_in_rch x < n_height x)%Z)) in E1 as [-> H1]; [|done].
  destruct r1 as [[]| |]; [|stop_ex E..]. destruct (H1 tt eq_refl) as (x & Hx & Hc1). clear H1. apply bool_decide_eq_true in Hc1.
  unfold bindM at 1 in E. destruct (dassert _ 111 s) as [r2 s2] eqn:E2.
  apply (dassert1_run (fun x => in_rch x)) in E2 as [-> H2]; [|done].
  destruct r2 as [[]| |]; [|stop_ex E..]. destruct (H2 tt eq_refl) as (x2 & Hx2 & Hc2). clear H2. simplify_eq.
  unfold in_rch in Hc2. apply bool_decide_eq_true in Hc2.
  unfold bindM at 1 in E. destruct (dassert _ 112 s) as [r3 s3] eqn:E3.
  apply (dassert2_run (fun x s0 => bool_decide (n_height x <= rch_max_allowed s0)%Z)) in E3 as [-> H3]; [|done].
  destruct r3 as [[]| |]; [|stop_ex E..]. destruct (H3 tt eq_refl) as (x3 & Hx3 & Hc3). clear H3. simplify_eq.
  apply bool_decide_eq_true in Hc3.
  unfold bindM at 1 in E.
  destruct (rch_unlink_cases n s) as [[t El]|(x' & q & i & Hx' & Hpos & Hq & Hi & El)]; rewrite El in E; [stop_ex E|].
  simplify_eq.
  (* the queue it leaves is not below the bound *)
  assert (rch_lower s <= n_height_in_rch x)%Z as Hlow.
  { destruct Hex as [_ B]. destruct (decide (rch_lower s <= n_height_in_rch x)%Z) as [|Hn]; [done|].
    assert (q = []) as -> by (eapply B; [exact Hq|lia]). done. }
  set (s1 := s <| rch_queues := <[Z.to_nat (n_height_in_rch x) := swap_remove q i]> (rch_queues s) |>) in *.
  destruct (rch_link_run n s1 x) as (q' & Hq' & El2); [done|lia| |].
  { subst s1. unfold rch_max_allowed, zlen in *. simpl. by rewrite insert_length. }
  rewrite El2 in E. injection E as <- <-.
  pose proof (unlink_extra s _ q i Hq (lookup_lt_Some _ _ _ Hi) Hex) as P1.
  set (s2 := s <| rch_queues := <[Z.to_nat (n_height_in_rch x) := swap_remove q i]> (rch_queues s) |>
               <| rch_len := (rch_len s - 1)%Z |>) in P1.
  assert (rch_queues s2 !! Z.to_nat (n_height x) = Some q') as Hq2 by exact Hq'.
  pose proof (link_state_extra s2 n (n_height x) q' Hq2 ltac:(lia) ltac:(simpl; lia) P1) as P2.
  eapply rch_extra_ext; [| | |exact P2]; simpl; [lia|done|done].
Qed.

Lemma ex_rch_set_max m s : debug s = true -> rch_inv s -> rch_extra s -> rch_extra (rch_set_max_height_allowed m s).2.
Proof.
  intros Hd Hinv [A B]. destruct (rch_set_max_height_allowed m s) as [r s'] eqn:E. simpl. unfold rch_set_max_height_allowed in E.
  unfold bindM at 1, get at 1 in E. cbv beta iota in E. rewrite Hd in E. cbn [andb] in E.
  destruct (forallb (fun q => bool_decide (q = [])) (drop (Z.to_nat (m + 1)) (rch_queues s))) eqn:Hall; cbn [negb] in E.
  2:{ unfold bindM, panic in E. injection E as <- <-. done. }
  unfold bindM, ret, modify in E. injection E as <- <-. simpl.
  assert (Forall (fun q => q = []) (drop (Z.to_nat (m + 1)) (rch_queues s))) as Hemp.
  { apply Forall_forall. intros q Hin. rewrite forallb_forall in Hall.
    apply Hall in Hin. by apply bool_decide_eq_true in Hin. }
  split; simpl.
  - rewrite A. unfold qtotal, resize. f_equal.
    rewrite <- (take_drop (Z.to_nat (m + 1)) (rch_queues s)) at 1.
    rewrite !concat_app, !app_length. rewrite (concat_all_nil _ Hemp).
    rewrite (concat_all_nil (replicate _ _)); [done|]. apply Forall_replicate. done.
  - intros h q Hq Hlt. unfold resize in Hq. apply lookup_app_Some in Hq as [Hq|[_ Hq]].
    + rewrite lookup_take_Some in Hq. destruct Hq as [Hq _]. eapply B; [done|lia].
    + by apply lookup_replicate in Hq as [-> _].
Qed.

(* the scan moves the bound up over empty queues only *)
Lemma rch_scan_extra fuel : forall s r s1, rch_scan fuel s = (r, s1) ->
  rch_extra s -> rch_extra s1.
Proof.
  induction fuel as [|f IH]; intros s r s1 E Hex; [unfold rch_scan, out_of_fuel in E; by simplify_eq|].
  cbn [rch_scan] in E. unfold bindM at 1, get at 1 in E. cbv beta iota in E.
  destruct (zget (rch_queues s) (rch_lower s)) as [q|] eqn:Hq.
  2:{ unfold ret in E. by simplify_eq. }
  case_bool_decide as Hnil.
  - unfold bindM at 1, modify at 1 in E. cbv beta iota in E.
    unfold bindM at 1 in E.
    match type of E with context [dassert ?b ?k ?st] => destruct (dassert b k st) as [r1 s2] eqn:Ed end.
    assert (s2 = s <| rch_lower := (rch_lower s + 1)%Z |>) as ->.
    { unfold dassert, bindM, gets, get, ret, panic in Ed. cbv beta iota in Ed. simpl in Ed.
      destruct (debug s); [case_bool_decide|]; by simplify_eq. }
    assert (rch_extra (s <| rch_lower := (rch_lower s + 1)%Z |>)) as Hex'.
    { destruct Hex as [A B]. split; [done|]. simpl. intros h q' Hq' Hlt.
      destruct (decide (Z.of_nat h < rch_lower s)%Z) as [Hl|Hl]; [by eapply B|].
      unfold zget in Hq. case_bool_decide; [done|]. assert (Z.to_nat (rch_lower s) = h) as E' by lia.
      rewrite E' in Hq. simplify_eq. done. }
    destruct r1 as [[]| |]; [|by simplify_eq..].
    by eapply IH.
  - unfold ret in E. by simplify_eq.
Qed.

Lemma ex_rch_remove_min s : debug s = true -> rch_inv s -> rch_extra s -> rch_extra (rch_remove_min s).2.
Proof.
  intros Hd Hinv Hex. destruct (rch_remove_min s) as [r s'] eqn:E. simpl. unfold rch_remove_min in E.
  unfold bindM at 1, get at 1 in E. cbv beta iota in E.
  case_bool_decide as Hlen; [unfold ret in E; stop_ex E|].
  unfold bindM at 1 in E.
  match type of E with context [dassert ?b ?k ?st] => destruct (dassert b k st) as [r1 s1] eqn:Ed end.
  assert (s1 = s) as ->.
  { unfold dassert, bindM, gets, get, ret, panic in Ed. cbv beta iota in Ed. rewrite Hd in Ed. case_bool_decide; by simplify_eq. }
  destruct r1 as [[]| |]; [|stop_ex E..].
  unfold bindM at 1 in E.
  destruct (rch_scan (S (S (length (rch_queues s)))) s) as [r2 s2] eqn:Es.
  pose proof (rch_scan_extra _ _ _ _ Es Hex) as Hex2.
  apply rch_scan_spec in Es as (Hn2 & Hq2 & Hd2 & Hsome).
  destruct r2 as [[q|]| |]; try (injection E as <- <-; done).
  destruct (Hsome q eq_refl) as (Hzq & Hne). destruct q as [|n q']; [done|].
  unfold bindM, get, modify, upd_node, ret in E. cbv beta iota in E. injection E as <- <-.
  unfold zget in Hzq. case_bool_decide as Hneg; [done|].
  destruct Hex2 as [A B]. split; simpl.
  - rewrite (qtotal_insert _ _ _ _ Hzq). simpl. lia.
  - intros h q Hq Hlt. rewrite list_lookup_insert_ne in Hq by lia. by eapply B.
Qed.

(* raise_min_height and min_height move the bound only *)
Lemma rch_raise_extra fuel : forall s r s1, rch_raise fuel s = (r, s1) -> rch_extra s ->
  rch_extra s1 /\ nodes s1 = nodes s /\ rch_queues s1 = rch_queues s /\ debug s1 = debug s.
Proof.
  induction fuel as [|f IH]; intros s r s1 E Hex; [unfold rch_raise, out_of_fuel in E; by simplify_eq|].
  cbn [rch_raise] in E. unfold bindM at 1, get at 1 in E. cbv beta iota in E.
  destruct (zget (rch_queues s) (rch_lower s)) as [[|n q]|] eqn:Hq; [|unfold ret in E; by simplify_eq..].
  unfold bindM at 1, modify at 1 in E. cbv beta iota in E.
  assert (rch_extra (s <| rch_lower := (rch_lower s + 1)%Z |>)) as Hex'.
  { destruct Hex as [A B]. split; [done|]. simpl. intros h q' Hq' Hlt.
    destruct (decide (Z.of_nat h < rch_lower s)%Z) as [Hl|Hl]; [by eapply B|].
    unfold zget in Hq. case_bool_decide; [done|]. assert (Z.to_nat (rch_lower s) = h) as E' by lia.
    rewrite E' in Hq. simplify_eq. done. }
  destruct (IH _ _ _ E Hex') as (P1 & P2 & P3 & P4). done.
Qed.

Lemma qtotal_zero_all_nil qs h q : qtotal qs = 0%Z -> qs !! h = Some q -> q = [].
Proof.
  unfold qtotal. intros H Hq. assert (concat qs = []) as Hc by (apply length_zero_iff_nil; lia).
  rewrite <- (take_drop_middle qs h q Hq) in Hc. rewrite concat_app, concat_cons in Hc.
  apply app_eq_nil in Hc as [_ Hc]. by apply app_eq_nil in Hc as [Hc _].
Qed.

Lemma rx_rch_min_height : pres Rrx rch_min_height.
Proof.
  intros s Hd Hinv Hex. destruct (rch_min_height s) as [r s'] eqn:E. simpl. unfold rch_min_height in E.
  unfold bindM at 1, get at 1 in E. cbv beta iota in E.
  case_bool_decide as Hlen.
  - unfold bindM, modify, gets, get, ret in E. cbv beta iota in E. injection E as <- <-. split_and!; [|split; simpl|done].
    + eapply rch_inv_ext; [| |exact Hinv]; done.
    + apply Hex.
    + destruct Hex as [A B]. intros h q Hq _. eapply qtotal_zero_all_nil; [|exact Hq]. congruence.
  - unfold bindM at 1 in E. destruct (rch_raise _ s) as [r1 s1] eqn:Er.
    destruct (rch_raise_extra _ _ _ _ Er Hex) as (P1 & P2 & P3 & P4).
    assert (rch_inv s1) as Hi1 by (eapply rch_inv_ext; [exact P3|by rewrite P2|exact Hinv]).
    destruct r1 as [[]| |]; unfold gets, bindM, get, ret in E; injection E as <- <-; (split_and!; [done|done|congruence]).
Qed.

Lemma rx_rch_insert n : pres Rrx (rch_insert n).
Proof. intros s Hd Hi Hx. destruct (ri_rch_insert n s Hd Hi). split_and!; [done|by apply ex_rch_insert|done]. Qed.
Lemma rx_rch_remove n : pres Rrx (rch_remove n).
Proof. intros s Hd Hi Hx. destruct (ri_rch_remove n s Hd Hi). split_and!; [done|by apply ex_rch_remove|done]. Qed.
Lemma rx_rch_increase_height n : pres Rrx (rch_increase_height n).
Proof. intros s Hd Hi Hx. destruct (ri_rch_increase_height n s Hd Hi). split_and!; [done|by apply ex_rch_increase_height|done]. Qed.
Lemma rx_rch_set_max m : pres Rrx (rch_set_max_height_allowed m).
Proof. intros s Hd Hi Hx. destruct (ri_rch_set_max m s Hd Hi). split_and!; [done|by apply ex_rch_set_max|done]. Qed.
Lemma rx_rch_remove_min : pres Rrx rch_remove_min.
Proof. intros s Hd Hi Hx. destruct (ri_rch_remove_min s Hd Hi). split_and!; [done|by apply ex_rch_remove_min|done]. Qed.

Lemma rch_extra_init max_height dbg : rch_extra (init_state max_height dbg).
Proof.
  unfold init_state. split; simpl.
  - unfold qtotal. rewrite concat_all_nil; [done|]. by apply Forall_replicate.
  - intros h q Hq _. by apply lookup_replicate in Hq as [-> _].
Qed.

(* ---- what remove_min returns: a queued node of minimal height; nothing when the heap is empty *)
Lemma rch_remove_min_is_min s r s' :
  debug s = true -> rch_inv s -> rch_extra s ->
  rch_remove_min s = (Ok r, s') ->
  match r with
  | Some n => exists x, nodes s !! n = Some x /\ (0 <= n_height_in_rch x)%Z
                /\ forall m y, nodes s !! m = Some y -> (0 <= n_height_in_rch y)%Z ->
                     (n_height_in_rch x <= n_height_in_rch y)%Z
  | None => True
  end.
Proof.
  intros Hd Hinv Hex E. unfold rch_remove_min in E.
  unfold bindM at 1, get at 1 in E. cbv beta iota in E.
  case_bool_decide as Hlen; [unfold ret in E; by simplify_eq|].
  unfold bindM at 1 in E.
  match type of E with context [dassert ?b ?k ?st] => destruct (dassert b k st) as [r1 s1] eqn:Ed end.
  assert (s1 = s) as ->.
  { unfold dassert, bindM, gets, get, ret, panic in Ed. cbv beta iota in Ed. rewrite Hd in Ed. case_bool_decide; by simplify_eq. }
  destruct r1 as [[]| |]; [|by simplify_eq..].
  unfold bindM at 1 in E.
  destruct (rch_scan (S (S (length (rch_queues s)))) s) as [r2 s2] eqn:Es.
  pose proof (rch_scan_extra _ _ _ _ Es Hex) as Hex2.
  apply rch_scan_spec in Es as (Hn2 & Hq2 & Hd2 & Hsome).
  assert (rch_inv s2) as Hinv2 by (eapply rch_inv_ext; [exact Hq2|by rewrite Hn2|exact Hinv]).
  destruct r2 as [[q|]| |]; try (unfold ret in E; by simplify_eq).
  destruct (Hsome q eq_refl) as (Hzq & Hne). destruct q as [|n q']; [done|].
  unfold bindM, get, modify, upd_node, ret in E. cbv beta iota in E. injection E as <- <-.
  unfold zget in Hzq. case_bool_decide as Hneg; [done|].
  destruct Hinv2 as (I1 & I2 & I3). destruct Hex2 as [A B].
  destruct (I1 _ _ n Hzq ltac:(left)) as (x & Hx & Hhx). rewrite Hn2 in Hx.
  exists x. split_and!; [done|lia|].
  intros m y Hy Hpos. rewrite <- Hn2 in Hy. destruct (I2 _ _ Hy Hpos) as (qm & Hqm & Hin).
  destruct (decide (n_height_in_rch x <= n_height_in_rch y)%Z) as [|Hlt]; [done|].
  assert (qm = []) as -> by (eapply B; [exact Hqm|lia]). by apply elem_of_nil in Hin.
Qed.

Lemma rx_rch_raise fuel : pres Rrx (rch_raise fuel).
Proof.
  intros s Hd Hinv Hex. destruct (rch_raise fuel s) as [r s1] eqn:E. simpl.
  destruct (rch_raise_extra _ _ _ _ E Hex) as (P1 & P2 & P3 & P4).
  split_and!; [|done|congruence]. eapply rch_inv_ext; [exact P3|by rewrite P2|exact Hinv].
Qed.
