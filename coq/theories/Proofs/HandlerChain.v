(* C09: from "the node changed" to "its handlers are told" — the links of the chain. *)
From stdpp Require Import base list option numbers.
From RecordUpdate Require Import RecordUpdate.
From Incr.Model Require Import Base Live Engine Api.
From Incr.Proofs Require Import Pres HandlerQueue FrameHasGrow Handlers HandlerQueueEnd FrameHasInv.

Lemma history_has_inv fuel max_height dbg ops :
  Forall (fun e => has_inv e.2) (run_history fuel max_height dbg ops).
Proof. unfold run_history. apply run_has_inv. apply has_inv_init. Qed.

Lemma bindM_run {A B} (m : M A) (k : A -> M B) s a s1 : m s = (Ok a, s1) -> bindM m k s = k a s1.
Proof. intros E. unfold bindM. by rewrite E. Qed.

(* 1. an unsuppressed result of a live node with at least one handler puts the node on the stack,
      whatever happens afterwards in maybe_change_value *)
Lemma mcv_manual_queues fuel n old rc s x :
  has_inv s -> nodes s !! n = Some x -> n_live x = true -> (0 < n_num_handlers x)%Z ->
  n ∈ has_stack (maybe_change_value_manual fuel n old true rc s).2.
Proof.
  intros Hi Hx Hl Hh. unfold maybe_change_value_manual. cbn [negb].
  erewrite bindM_run by reflexivity. erewrite bindM_run by reflexivity.
  match goal with |- context [bindM (maybe_handle_after_stabilisation n) ?k ?s0] => set (s2 := s0); set (rest := k) end.
  assert (has_inv s2) as Hi2.
  { assert (Rhas s s2) as [R _]; [|by apply R]. subst s2.
    apply (Rhas_alter _ _ n (fun x => x <| n_changed_at := stab_num s |>)); [reflexivity|reflexivity|].
    intros ? ? ?; simpl in *; done. }
  assert (nodes s2 !! n = Some (x <| n_changed_at := stab_num s |>)) as Hx2.
  { subst s2. simpl. by rewrite list_lookup_alter, Hx. }
  unfold bindM at 1. unfold maybe_handle_after_stabilisation. unfold bindM at 1, get_node at 1. unfold bindM at 1, get at 1.
  cbv beta iota. rewrite Hx2. unfold ret at 1. cbv beta iota. simpl n_num_handlers. rewrite bool_decide_eq_true_2 by done.
  destruct (handle_after_stabilisation_queues n s2 _ Hi2 Hx2 Hl) as [Hok Hin].
  destruct (handle_after_stabilisation n s2) as [r s3] eqn:E3. simpl in Hok, Hin. subst r.
  assert (pres Rhas (rest tt)) as P by (subst rest; cbv beta; go_has).
  destruct (P s3) as [_ G]. by apply G.
Qed.

(* 2. it stays there until the propagation phase is over *)
Lemma queued_until_end_of_propagation fuel s n :
  n ∈ has_stack s -> n ∈ has_stack (stabilise_loop fuel s).2.
Proof. intros Hn. destruct (has_stabilise_loop fuel s) as [_ G]. by apply G. Qed.

(* 3. the end of the stabilisation is the deferred writes followed by the emptying of the stack ... *)
Lemma stabilise_end_prepare_split s :
  stabilise_end_prepare s = (end_prepare_prefix ;;; end_prepare_queue) s.
Proof.
  rewrite stabilise_end_prepare_unfold. unfold end_prepare_prefix, end_prepare_queue.
  unfold bindM, modify, get. cbv beta iota.
  repeat match goal with |- context [forM_ ?l ?f ?st] => destruct (forM_ l f st) as [[[]| |] ?]; cbv beta iota end; reflexivity.
Qed.
