(* C07: what an observer read depends on, and which operations leave it alone. *)
From stdpp Require Import base list option numbers.
From RecordUpdate Require Import RecordUpdate.
From Incr.Model Require Import Base Live Engine Api.
From Incr.Proofs Require Import Pres FrameRead.

(* the value a node shows (map_ref reads through to its input) only depends on the value, validity
   and kind of existing nodes *)
Lemma node_value_frame s s' :
  (forall n x, nodes s !! n = Some x -> exists x', nodes s' !! n = Some x' /\ node_val_same x x') ->
  forall fuel n, is_Some (nodes s !! n) -> node_value fuel s' n = node_value fuel s n.
Proof.
  intros H fuel. induction fuel as [|f IH]; intros n [x Hx]; [done|]. simpl.
  destruct (H n x Hx) as (x' & Hx' & Hv & Hva & Hk). rewrite Hx, Hx'.
  unfold node_kind. rewrite Hva, Hk, Hv.
  destruct (n_valid x); [|done]. destruct (n_kind x); try done.
  case_bool_decide as Hlt; [|done]. f_equal. apply IH.
  apply lookup_lt_is_Some. apply lookup_lt_Some in Hx. lia.
Qed.

Definition read_result (s : state) (o : oid) : res (val + Z) := (observer_read o s).1.

Lemma observer_read_eq o s ob :
  obss s !! o = Some ob ->
  observer_read o s =
    (Ok (match st_status s with
         | Stabilising => inr ERR_CURRENTLY_STABILISING
         | _ => match o_state ob with
                | OCreated => inr ERR_NEVER_STABILISED
                | OInUse => match node_value (S (o_observing ob)) s (o_observing ob) with
                            | Some v => inl v | None => inr ERR_OBSERVING_INVALID end
                | ODisallowed | OUnlinked => inr ERR_DISALLOWED
                end
         end), s).
Proof.
  intros Ho. unfold observer_read, get_obs, value_of, bindM, get, gets, ret. cbv beta iota. rewrite Ho.
  cbv beta iota. destruct (st_status s), (o_state ob); done.
Qed.

(* the same relation, except that one observer [t] may have been touched *)
Definition RreadX (t : oid) : relation state := fun s s' =>
  st_status s' = st_status s
  /\ (forall n x, nodes s !! n = Some x -> exists x', nodes s' !! n = Some x' /\ node_val_same x x')
  /\ (forall o ob, o <> t -> obss s !! o = Some ob -> exists ob', obss s' !! o = Some ob' /\ obs_read_same ob ob').
Global Instance RreadX_preorder t : PreOrder (RreadX t).
Proof.
  split.
  - intros s. split_and!; try done; intros; eexists; done.
  - intros a b c (S1&H1&O1) (S2&H2&O2). split_and!; try congruence.
    + intros n x Hx. destruct (H1 n x Hx) as (x' & Hx' & A1 & A2 & A3).
      destruct (H2 n x' Hx') as (x'' & Hx'' & B1 & B2 & B3). exists x''. split; [done|]. split_and!; congruence.
    + intros o ob Hne Ho. destruct (O1 o ob Hne Ho) as (ob' & Ho' & A1 & A2).
      destruct (O2 o ob' Hne Ho') as (ob'' & Ho'' & B1 & B2). exists ob''. split; [done|]. split; congruence.
Qed.
Lemma Rread_RreadX t s s' : Rread s s' -> RreadX t s s'.
Proof. intros (H1&H2&H3). split_and!; try done. intros o ob _. apply H3. Qed.
Lemma pres_weaken t {A} (m : M A) : pres Rread m -> pres (RreadX t) m.
Proof. intros H s. apply Rread_RreadX, H. Qed.

(* if nothing a read depends on changed, the read returns the same thing *)
Lemma read_frame t s s' o ob :
  RreadX t s s' -> o <> t -> obss s !! o = Some ob -> is_Some (nodes s !! o_observing ob) ->
  read_result s' o = read_result s o.
Proof.
  intros (Hst & Hn & Hob) Hne Ho Hex. destruct (Hob o ob Hne Ho) as (ob' & Ho' & Hs & Hobs).
  unfold read_result. rewrite (observer_read_eq o s ob Ho), (observer_read_eq o s' ob' Ho'). cbn [fst].
  rewrite Hst, Hs, Hobs. rewrite (node_value_frame s s' Hn) by done. done.
Qed.

(* ---- the operations of the API *)
Lemma read_hnode_get st h : pres Rread (hnode_get st h). Proof. prim_read hnode_get. Qed.
Global Hint Resolve read_hnode_get : pres_read.

Lemma RreadX_upd_obs t f s : RreadX t s (s <| obss := alter f t (obss s) |>).
Proof.
  split_and!; try done.
  - intros n x Hx. exists x. done.
  - intros o ob Hne Ho. exists ob. simpl. rewrite list_lookup_alter_ne by done. done.
Qed.

(* disallowing an observer touches only that observer *)
Lemma readx_disallow o : pres (RreadX o) (disallow_future_use o).
Proof.
  unfold disallow_future_use.
  repeat first
    [ pres_step (RreadX o)
    | apply (pres_weaken o); solve [go_read]
    | apply (pres_modify (RreadX o)); intros ?; apply RreadX_upd_obs ].
Qed.

Definition is_lifecycle_op_on (o : oid) (op : op) : bool :=
  match op with
  | OpDisallow o' | OpDropObs o' => bool_decide (o' = o)
  | _ => false
  end.

(* the observer a lifecycle op acts on, if any *)
Definition op_target (op : op) : option oid :=
  match op with OpDisallow o | OpDropObs o => Some o | _ => None end.

Lemma step_readx fuel st op : op <> OpStabilise -> expert_op op = false ->
  match op_target op with
  | Some t => pres (RreadX t) (step fuel st op)
  | None => pres Rread (step fuel st op)
  end.
Proof.
  intros Hns Hne. destruct op; try done; simpl.
  all: try (unfold step; solve [go_read]).
  - (* OpDropObs o *)
    unfold step.
    repeat first
      [ pres_step (RreadX o)
      | apply readx_disallow
      | apply (pres_weaken o); solve [go_read]
      | apply (pres_modify (RreadX o)); intros ?; apply RreadX_upd_obs ].
  - (* OpDisallow o *)
    unfold step.
    repeat first [ pres_step (RreadX o) | apply readx_disallow ].
Qed.

(* C07: an operation other than stabilise does not move any observer's read, except for the
   observer it disallows/drops *)
Lemma step_read_frame fuel st op s o ob :
  op <> OpStabilise -> expert_op op = false -> op_target op <> Some o ->
  obss s !! o = Some ob -> is_Some (nodes s !! o_observing ob) ->
  read_result (step fuel st op s).2 o = read_result s o.
Proof.
  intros Hns Hne Ht Ho Hex. pose proof (step_readx fuel st op Hns Hne) as H.
  destruct (op_target op) as [t|] eqn:E.
  - eapply (read_frame t); [apply H|congruence|exact Ho|exact Hex].
  - eapply (read_frame (S o)); [apply Rread_RreadX, H|lia|exact Ho|exact Hex].
Qed.

(* the end-of-op collection of temporaries does not move reads either *)
Lemma collect_read_frame pins s o ob :
  obss s !! o = Some ob -> is_Some (nodes s !! o_observing ob) ->
  read_result (collect pins s).2 o = read_result s o.
Proof.
  intros Ho Hex. eapply (read_frame (S o)); [apply Rread_RreadX, Rread_collect|lia|exact Ho|exact Hex].
Qed.

Lemma end_of_op_read_frame s o ob :
  obss s !! o = Some ob -> is_Some (nodes s !! o_observing ob) ->
  read_result (end_of_op s) o = read_result s o.
Proof.
  intros Ho Hex. eapply (read_frame (S o)); [apply Rread_RreadX|lia|exact Ho|exact Hex].
  unfold end_of_op. etrans; [apply (Rread_collect [])|]. split_and!; try done; intros ? ? H; eexists; (split; [exact H|done]).
Qed.

(* one step of a history (the op, then the end-of-op collection) *)
Lemma run_one_read_frame fuel st op s o ob :
  op <> OpStabilise -> expert_op op = false -> op_target op <> Some o ->
  obss s !! o = Some ob -> is_Some (nodes s !! o_observing ob) ->
  Forall (fun e => read_result e.2 o = read_result s o) (run fuel [op] st s).
Proof.
  intros Hns Hne Ht Ho Hex. cbn [run].
  set (s0 := s <| events := [] |>).
  assert (Rread s0 s) as R0.
  { split_and!; try done; intros; eexists; done. }
  assert (obss s0 !! o = Some ob) as Ho0 by done.
  assert (is_Some (nodes s0 !! o_observing ob)) as Hex0 by done.
  pose proof (step_read_frame fuel st op s0 o ob Hns Hne Ht Ho0 Hex0) as H1.
  pose proof (step_readx fuel st op Hns Hne) as HR.
  destruct (step fuel st op s0) as [r s1] eqn:E. simpl in H1.
  (* the observer and its node still exist after the step *)
  assert (exists ob1, obss s1 !! o = Some ob1 /\ o_observing ob1 = o_observing ob /\ is_Some (nodes s1 !! o_observing ob)) as (ob1 & Ho1 & Hoo & Hex1).
  { destruct (op_target op) as [t|] eqn:Et.
    - specialize (HR s0). rewrite E in HR. destruct HR as (_ & Hn & Hob).
      destruct (Hob o ob ltac:(congruence) Ho0) as (ob1 & ? & ? & ?).
      destruct Hex0 as [x Hx]. destruct (Hn _ x Hx) as (x' & ? & _). exists ob1. split_and!; try done.
    - specialize (HR s0). rewrite E in HR. destruct HR as (_ & Hn & Hob).
      destruct (Hob o ob Ho0) as (ob1 & ? & ? & ?).
      destruct Hex0 as [x Hx]. destruct (Hn _ x Hx) as (x' & ? & _). exists ob1. split_and!; try done. }
  assert (read_result (end_of_op s1) o = read_result s o) as H2.
  { rewrite (end_of_op_read_frame s1 o ob1 Ho1) by (rewrite Hoo; done). rewrite H1.
    eapply (read_frame (S o)); [apply Rread_RreadX; exact R0|lia|exact Ho0|exact Hex0]. }
  destruct r as [[st' out]| |]; simpl; repeat constructor; exact H2.
Qed.

(* a new observer reads NeverStabilised *)
Lemma observe_read fuel st h s st' o s' :
  step fuel st (OpObserve h) s = (Ok (st', OutObs o), s') -> st_status s <> Stabilising ->
  read_result s' o = Ok (inr ERR_NEVER_STABILISED).
Proof.
  cbn [step]. unfold hnode_get, observe, bindM, get, ret, panic, modify. cbv beta iota.
  destruct (handles s !! h) as [[n|]|]; cbv beta iota; intros H Hst; simplify_eq.
  unfold read_result. erewrite observer_read_eq.
  2:{ simpl. rewrite lookup_app_r by lia. rewrite Nat.sub_diag. reflexivity. }
  simpl. destruct (st_status s); done.
Qed.
