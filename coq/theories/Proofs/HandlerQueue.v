(* C09: a node that changed is queued for its update handlers.

   `handle_after_stabilisation` (node.rs:947) pushes a node on the state's stack once, guarded by the
   node's `is_in_handle_after_stabilisation` flag; the stack is emptied at the end of the stabilisation,
   where each node still alive is turned into a (node, report) pair for the handlers.

   has_inv: every live node whose flag is set is on the stack, and the stack only names existing nodes.
   Rhas: the invariant is kept and the stack only grows (everything except the end of a stabilisation).
   Rhi: the invariant is kept (everything). *)
From stdpp Require Import base list option numbers.
From RecordUpdate Require Import RecordUpdate.
From Incr.Model Require Import Base Live Engine Api.
From Incr.Proofs Require Import Pres.

Definition has_inv (s : state) : Prop :=
  (forall n x, nodes s !! n = Some x -> n_live x = true -> n_in_has x = true -> n ∈ has_stack s)
  /\ (forall n, n ∈ has_stack s -> is_Some (nodes s !! n)).

Definition Rhas : relation state := fun s s' =>
  (has_inv s -> has_inv s') /\ (forall n, n ∈ has_stack s -> n ∈ has_stack s').
Global Instance Rhas_preorder : PreOrder Rhas.
Proof.
  split; [intros s; split; [intros H; exact H|intros n H; exact H]|]. intros a b c [H1 G1] [H2 G2]. split; [auto|]. intros n Hn. auto.
Qed.

Definition Rhi : relation state := fun s s' => has_inv s -> has_inv s'.
Global Instance Rhi_preorder : PreOrder Rhi.
Proof. split; [intros s H; exact H|]. intros a b c H1 H2 Hi. auto. Qed.

Lemma Rhi_of_Rhas s s' : Rhas s s' -> Rhi s s'.
Proof. intros [H _]. exact H. Qed.

Lemma pres_weaken {A} (R R' : relation state) (m : M A) : (forall s s', R s s' -> R' s s') -> pres R m -> pres R' m.
Proof. intros H P s. apply H, P. Qed.

(* ---- elementary writes *)
Lemma Rhas_same s s' : nodes s' = nodes s -> has_stack s' = has_stack s -> Rhas s s'.
Proof. intros H1 H2. unfold Rhas, has_inv. rewrite H1, H2. done. Qed.

Lemma Rhas_alter s s' n f : has_stack s' = has_stack s -> nodes s' = alter f n (nodes s) ->
  (forall x, n_live (f x) = true -> n_in_has (f x) = true -> n_live x = true /\ n_in_has x = true) -> Rhas s s'.
Proof.
  intros H2 H1 Hf. unfold Rhas. rewrite H2. split; [|done]. intros [A B]. unfold has_inv. rewrite H1, H2. split.
  - intros m x Hx Hl Hh. destruct (decide (n = m)) as [->|Hne].
    + rewrite list_lookup_alter in Hx. destruct (nodes s !! m) as [y|] eqn:Hy; [|done]. simpl in Hx. injection Hx as <-.
      destruct (Hf y Hl Hh). by eapply A.
    + rewrite list_lookup_alter_ne in Hx by done. by eapply A.
  - intros m Hm. destruct (B m Hm) as [y Hy]. destruct (decide (n = m)) as [->|Hne].
    + rewrite list_lookup_alter, Hy. by eexists.
    + rewrite list_lookup_alter_ne by done. by eexists.
Qed.

Lemma Rhas_app s s' k sc : has_stack s' = has_stack s -> nodes s' = nodes s ++ [new_node k sc] -> Rhas s s'.
Proof.
  intros H2 H1. unfold Rhas. rewrite H2. split; [|done]. intros [A B]. unfold has_inv. rewrite H1, H2. split.
  - intros m x Hx Hl Hh. apply lookup_app_Some in Hx as [Hx|[_ Hx]]; [by eapply A|].
    apply list_lookup_singleton_Some in Hx as [_ <-]. done.
  - intros m Hm. destruct (B m Hm) as [y Hy]. exists y. by apply lookup_app_l_Some.
Qed.

Lemma Rhas_collect pins s : Rhas s (collect pins s).2.
Proof.
  split; [|done]. intros [A B]. split; simpl.
  - intros m x Hx Hl Hh. rewrite list_lookup_imap in Hx. destruct (nodes s !! m) as [y|] eqn:Hy; [|done].
    simpl in Hx. injection Hx as <-. case_bool_decide; [by eapply A|done].
  - intros m Hm. destruct (B m Hm) as [y Hy]. rewrite list_lookup_imap, Hy. by eexists.
Qed.

(* the one function that sets the flag pushes the node *)
Lemma has_handle_after_stabilisation n : pres Rhas (handle_after_stabilisation n).
Proof.
  intros s. unfold handle_after_stabilisation, get_node, upd_node, modify. unfold bindM, get, ret, panic. cbv beta iota.
  destruct (nodes s !! n) as [x|] eqn:Hx; [|reflexivity]. cbv beta iota.
  destruct (n_in_has x) eqn:Hf; [reflexivity|]. simpl. split.
  - intros [A B]. split; simpl.
    + intros m y Hy Hl Hh. destruct (decide (n = m)) as [->|Hne]; [apply elem_of_app; right; by apply elem_of_list_singleton|].
      rewrite list_lookup_alter_ne in Hy by done. apply elem_of_app. left. by eapply A.
    + intros m Hm. apply elem_of_app in Hm as [Hm|Hm%elem_of_list_singleton].
      * destruct (B m Hm) as [y Hy]. destruct (decide (n = m)) as [->|Hne];
          [rewrite list_lookup_alter, Hy; by eexists|rewrite list_lookup_alter_ne by done; by eexists].
      * subst m. rewrite list_lookup_alter, Hx. by eexists.
  - intros m Hm. simpl. apply elem_of_app. by left.
Qed.

(* ... and afterwards the node is on the stack, if it is alive *)
Lemma handle_after_stabilisation_queues n s x :
  has_inv s -> nodes s !! n = Some x -> n_live x = true ->
  (handle_after_stabilisation n s).1 = Ok tt /\ n ∈ has_stack (handle_after_stabilisation n s).2.
Proof.
  intros [A B] Hx Hl. unfold handle_after_stabilisation, get_node, upd_node, modify. unfold bindM, get, ret. cbv beta iota.
  rewrite Hx. cbv beta iota. destruct (n_in_has x) eqn:Hf; simpl.
  - split; [done|]. by eapply A.
  - split; [done|]. apply elem_of_app. right. by apply elem_of_list_singleton.
Qed.

Lemma has_inv_init max_height dbg : has_inv (init_state max_height dbg).
Proof. split; simpl; [intros n x Hx; done|intros n Hn; by apply elem_of_nil in Hn]. Qed.
