(* C13: what the rest of a history looks like once a stabilisation has failed.

   - no read moves any more: whatever the program does next (a further stabilise included, which
     refuses), every observer it has not itself disallowed or dropped keeps returning what it returned
     right after the failure.  If the panic came from an update handler the status is
     RunningOnUpdateHandlers, the propagation phase had finished, and what the reads return are the
     fully propagated values; if it came from a node function the status is Stabilising and every read
     is refused (FrameStatus.run_reads_refused).
   - giving up handles (observers, variables, node handles, the handles bind closures exported) never
     panics, in any state. *)
From stdpp Require Import base list option numbers.
From RecordUpdate Require Import RecordUpdate.
From Incr.Model Require Import Base Live Engine Api.
From Incr.Proofs Require Import Pres FrameStatus FrameRead Reads.

(* the part of Rread that matters for one observer *)
Definition Rro (o : oid) : relation state := fun s s' =>
  st_status s' = st_status s
  /\ (forall n x, nodes s !! n = Some x -> exists x', nodes s' !! n = Some x' /\ node_val_same x x')
  /\ (forall ob, obss s !! o = Some ob -> exists ob', obss s' !! o = Some ob' /\ obs_read_same ob ob').
Global Instance Rro_preorder o : PreOrder (Rro o).
Proof.
  split.
  - intros s. split_and!; try done; intros; eexists; done.
  - intros a b c (S1&H1&O1) (S2&H2&O2). split_and!; try congruence.
    + intros n x Hx. destruct (H1 n x Hx) as (x' & Hx' & A1 & A2 & A3).
      destruct (H2 n x' Hx') as (x'' & Hx'' & B1 & B2 & B3). exists x''. split; [done|]. split_and!; congruence.
    + intros ob Ho. destruct (O1 ob Ho) as (ob' & Ho' & A1 & A2).
      destruct (O2 ob' Ho') as (ob'' & Ho'' & B1 & B2). exists ob''. split; [done|]. split; congruence.
Qed.
Lemma Rro_of_RreadX t o s s' : o <> t -> RreadX t s s' -> Rro o s s'.
Proof. intros Hne (H1&H2&H3). split_and!; try done. intros ob. by apply H3. Qed.
Lemma Rro_of_Rread o s s' : Rread s s' -> Rro o s s'.
Proof. intros (H1&H2&H3). split_and!; try done. intros ob. apply H3. Qed.

Lemma Rro_read o s s' ob :
  Rro o s s' -> obss s !! o = Some ob -> is_Some (nodes s !! o_observing ob) ->
  read_result s' o = read_result s o.
Proof.
  intros (Hst & Hn & Hob) Ho Hex. destruct (Hob ob Ho) as (ob' & Ho' & Hs & Hobs).
  unfold read_result. rewrite (observer_read_eq o s ob Ho), (observer_read_eq o s' ob' Ho'). cbn [fst].
  rewrite Hst, Hs, Hobs. rewrite (node_value_frame s s' Hn) by done. done.
Qed.

(* one operation of the history (the op and the end-of-op collection), either in a poisoned state or
   when the operation is not a stabilise *)
Lemma step_Rro fuel st op s o :
  st_status s <> NotStabilising \/ op <> OpStabilise -> expert_op op = false -> op_target op <> Some o ->
  Rro o s (end_of_op (step fuel st op (s <| events := [] |>)).2).
Proof.
  intros Hp Hne Ht.
  set (s0 := s <| events := [] |>).
  assert (Rro o s s0) as R0.
  { split_and!; try done; intros; eexists; done. }
  assert (forall s1, Rro o s1 (end_of_op s1)) as Rend.
  { intros s1. apply Rro_of_Rread. unfold end_of_op. etrans; [apply (Rread_collect [])|].
    split_and!; try done; intros ? ? H; eexists; (split; [exact H|done]). }
  etrans; [exact R0|]. etrans; [|apply Rend].
  assert (op = OpStabilise \/ op <> OpStabilise) as [->|Hns] by (destruct op; (by left) || (by right)).
  - destruct Hp as [Hp|Hp]; [|done]. cbn [step]. unfold bindM. rewrite stabilise_refuses by done. done.
  - pose proof (step_readx fuel st op Hns Hne) as H.
    destruct (op_target op) as [t|] eqn:E.
    + apply (Rro_of_RreadX t); [congruence|apply H].
    + apply Rro_of_Rread, H.
Qed.

Local Opaque step end_of_op.
Lemma run_reads_frozen fuel ops : forall st s o ob,
  st_status s <> NotStabilising \/ Forall (fun op => op <> OpStabilise) ops ->
  Forall (fun op => expert_op op = false /\ op_target op <> Some o) ops ->
  obss s !! o = Some ob -> is_Some (nodes s !! o_observing ob) ->
  Forall (fun e => read_result e.2 o = read_result s o) (run fuel ops st s).
Proof.
  induction ops as [|op ops IH]; intros st s o ob Hp Hops Ho Hex; simpl; [constructor|].
  inversion Hops as [|? ? [Hne Ht] Hops']; subst. clear Hops. rename Hops' into Hops.
  assert (st_status s <> NotStabilising \/ op <> OpStabilise) as Hp1.
  { destruct Hp as [Hp|Hp]; [by left|right]. by inversion Hp. }
  pose proof (step_Rro fuel st op s o Hp1 Hne Ht) as R.
  destruct (step fuel st op (s <| events := [] |>)) as [r s1] eqn:E. simpl in R.
  set (s2 := end_of_op s1) in *.
  assert (st_status s2 <> NotStabilising \/ Forall (fun op => op <> OpStabilise) ops) as Hp2.
  { destruct Hp as [Hp|Hp]; [left|right; by inversion Hp]. destruct R as (-> & _). exact Hp. }
  pose proof (Rro_read o s s2 ob R Ho Hex) as Hr.
  destruct R as (_ & Hn & Hob). destruct (Hob ob Ho) as (ob2 & Ho2 & _ & Hoo).
  assert (is_Some (nodes s2 !! o_observing ob2)) as Hex2.
  { rewrite Hoo. destruct Hex as [x Hx]. destruct (Hn _ x Hx) as (x' & ? & _). by eexists. }
  assert (forall st', Forall (fun e => read_result e.2 o = read_result s o) (run fuel ops st' s2)) as Hrest.
  { intros st'. eapply Forall_impl; [|exact (IH st' s2 o ob2 Hp2 Hops Ho2 Hex2)].
    intros [[? ?] sx] He; simpl in *. rewrite He. exact Hr. }
  destruct r as [[st' out]| |]; simpl; (constructor; [exact Hr|apply Hrest]).
Qed.
Local Transparent step end_of_op.

Lemma run_poisoned_reads_frozen fuel ops st s o ob :
  st_status s <> NotStabilising ->
  Forall (fun op => expert_op op = false /\ op_target op <> Some o) ops ->
  obss s !! o = Some ob -> is_Some (nodes s !! o_observing ob) ->
  Forall (fun e => read_result e.2 o = read_result s o) (run fuel ops st s).
Proof. intros Hp. apply run_reads_frozen. by left. Qed.

Lemma run_nonstab_reads_frozen fuel ops st s o ob :
  Forall (fun op => op <> OpStabilise) ops ->
  Forall (fun op => expert_op op = false /\ op_target op <> Some o) ops ->
  obss s !! o = Some ob -> is_Some (nodes s !! o_observing ob) ->
  Forall (fun e => read_result e.2 o = read_result s o) (run fuel ops st s).
Proof. intros H. apply run_reads_frozen. by right. Qed.

(* ---- giving up handles never panics *)
Definition is_drop_op (o : op) : bool :=
  match o with
  | OpDropObs _ | OpDisallow _ | OpDropNode _ | OpDropVar _ | OpDropExports => true
  | _ => false
  end.

(* Ok, or the history named a handle that was never created (outside the DSL) *)
Definition no_real_panic {A} (r : res A) : Prop :=
  match r with Ok _ => True | Panic (PModelGap _) => True | _ => False end.

Lemma disallow_no_panic o s : no_real_panic (disallow_future_use o s).1.
Proof.
  unfold disallow_future_use, get_obs, upd_obs, modify, bindM, get, ret, panic. cbv beta iota.
  destruct (obss s !! o) as [ob|]; [|done]. cbv beta iota. destruct (o_state ob); done.
Qed.

Lemma drops_never_panic fuel st o s : is_drop_op o = true -> no_real_panic (step fuel st o s).1.
Proof.
  intros Hd. destruct o; try discriminate Hd; cbn [step].
  - (* OpDropObs *)
    unfold get_obs, upd_obs, modify, bindM, get, ret, panic. cbv beta iota.
    destruct (obss s !! o) as [ob|]; [|done]. cbv beta iota.
    case_bool_decide; [|done].
    match goal with |- context [disallow_future_use o ?s'] => pose proof (disallow_no_panic o s') as Hd2;
      destruct (disallow_future_use o s') as [[[]| |] ?] end; done.
  - (* OpDisallow *)
    unfold bindM. pose proof (disallow_no_panic o s) as H.
    destruct (disallow_future_use o s) as [[[]| |] ?]; done.
  - (* OpDropNode *) done.
  - (* OpDropVar *)
    unfold drop_var_handle, get_var, upd_var, modify, bindM, get, ret, panic. cbv beta iota.
    destruct (vars s !! x) as [v|]; [|done]. cbv beta iota. case_bool_decide; done.
  - (* OpDropExports *) done.
Qed.

(* drop operations are neither stabilise nor expert operations *)
Lemma run_drops_reads_frozen fuel ops st s o ob :
  Forall (fun op => is_drop_op op = true /\ op_target op <> Some o) ops ->
  obss s !! o = Some ob -> is_Some (nodes s !! o_observing ob) ->
  Forall (fun e => read_result e.2 o = read_result s o) (run fuel ops st s).
Proof.
  intros Hops. apply run_reads_frozen.
  - right. eapply List.Forall_impl; [|exact Hops]. intros op [Hd _] ->. done.
  - eapply List.Forall_impl; [|exact Hops]. intros op [Hd Ht]. split; [|done]. by destruct op.
Qed.
