(* A third judgment for the engine monad, for invariants that only hold as long as nothing panicked:
   [okp2 I J m] says that from a state satisfying I, if m returns normally it does so in a state
   satisfying J.  (After a panic the operation was cut short; the library makes no promise about the
   bookkeeping it was in the middle of updating.)  [okp I] is [okp2 I I]. *)
From stdpp Require Import base list option numbers.
From RecordUpdate Require Import RecordUpdate.
From Incr.Model Require Import Base Live Engine Api.

Definition okp2 (I J : state -> Prop) {A} (m : M A) : Prop :=
  forall s a s', I s -> m s = (Ok a, s') -> J s'.
Notation okp I := (okp2 I I).

Lemma okp2_bind {A B} (I J K : state -> Prop) (m : M A) (k : A -> M B) :
  okp2 I J m -> (forall a, okp2 J K (k a)) -> okp2 I K (bindM m k).
Proof.
  intros Hm Hk s b s' Hs. unfold bindM. destruct (m s) as [[a| |] s1] eqn:E; [|done..].
  intros H. eapply Hk; [|exact H]. by eapply Hm.
Qed.

Lemma okp2_weaken {A} (I I' J J' : state -> Prop) (m : M A) :
  (forall s, I' s -> I s) -> (forall s, J s -> J' s) -> okp2 I J m -> okp2 I' J' m.
Proof. intros H1 H2 Hm s a s' Hs E. apply H2. eapply Hm; [by apply H1|done]. Qed.

Section rules.
Context (I : state -> Prop).

Lemma okp_ret {A} (a : A) : okp I (ret a).
Proof. intros s b s' Hs [= _ <-]. done. Qed.
Lemma okp_panic {A} t : okp I (@panic A t).
Proof. intros s b s' Hs [=]. Qed.
Lemma okp_oof {A} : okp I (@out_of_fuel A).
Proof. intros s b s' Hs [=]. Qed.
Lemma okp_get : okp I get.
Proof. intros s b s' Hs [= _ <-]. done. Qed.
Lemma okp_gets {A} (f : state -> A) : okp I (gets f).
Proof. intros s b s' Hs [= _ <-]. done. Qed.
Lemma okp_modify f : (forall s, I s -> I (f s)) -> okp I (modify f).
Proof. intros H s b s' Hs [= _ <-]. by apply H. Qed.
Lemma okp_bind {A B} (m : M A) (k : A -> M B) : okp I m -> (forall a, okp I (k a)) -> okp I (bindM m k).
Proof. apply okp2_bind. Qed.
Lemma okp_when b m : okp I m -> okp I (when b m).
Proof. destruct b; [done|]. intros _. apply okp_ret. Qed.
Lemma okp_massert b t : okp I (massert b t).
Proof. destruct b; [apply okp_ret|apply okp_panic]. Qed.
Lemma okp_dassert b site : okp I b -> okp I (dassert b site).
Proof.
  intros Hb. unfold dassert. apply okp_bind; [apply okp_gets|]. intros [|]; [|apply okp_ret].
  apply okp_bind; [done|]. intros [|]; [apply okp_ret|apply okp_panic].
Qed.
Lemma okp_mapM {A B} (f : A -> M B) l : (forall x, okp I (f x)) -> okp I (mapM f l).
Proof.
  intros Hf. induction l as [|x l IH]; simpl; [apply okp_ret|].
  apply okp_bind; [done|]. intros ?. apply okp_bind; [done|]. intros ?. apply okp_ret.
Qed.
Lemma okp_forM_ {A} (f : A -> M unit) l : (forall x, okp I (f x)) -> okp I (forM_ l f).
Proof.
  intros Hf. induction l as [|x l IH]; simpl; [apply okp_ret|].
  apply okp_bind; [done|]. intros ?. done.
Qed.
Lemma okp_foldM {A B} (f : B -> A -> M B) l b : (forall b x, okp I (f b x)) -> okp I (foldM f l b).
Proof.
  intros Hf. revert b. induction l as [|x l IH]; intros b; simpl; [apply okp_ret|].
  apply okp_bind; [done|]. intros ?. done.
Qed.
Lemma okp_forM_break {A} (f : A -> M bool) l : (forall x, okp I (f x)) -> okp I (forM_break l f).
Proof.
  intros Hf. induction l as [|x l IH]; simpl; [apply okp_ret|].
  apply okp_bind; [done|]. intros [|]; [done|apply okp_ret].
Qed.
End rules.

Ltac okp_step I :=
  lazymatch goal with
  | |- okp2 _ _ (ret _) => apply (okp_ret I)
  | |- okp2 _ _ (panic _) => apply (okp_panic I)
  | |- okp2 _ _ out_of_fuel => apply (okp_oof I)
  | |- okp2 _ _ get => apply (okp_get I)
  | |- okp2 _ _ (gets _) => apply (okp_gets I)
  | |- okp2 _ _ (bindM _ _) => apply (okp_bind I); [|intros ?]
  | |- okp2 _ _ (when _ _) => apply (okp_when I)
  | |- okp2 _ _ (massert _ _) => apply (okp_massert I)
  | |- okp2 _ _ (dassert _ _) => apply (okp_dassert I)
  | |- okp2 _ _ (mapM _ _) => apply (okp_mapM I); intros ?
  | |- okp2 _ _ (forM_ _ _) => apply (okp_forM_ I); intros ?
  | |- okp2 _ _ (foldM _ _ _) => apply (okp_foldM I); intros ? ?
  | |- okp2 _ _ (forM_break _ _) => apply (okp_forM_break I); intros ?
  | |- okp2 _ _ (if ?b then _ else _) => destruct b
  | |- okp2 _ _ (match ?x with _ => _ end) => destruct x
  | |- okp2 _ _ (let '(_, _) := ?x in _) => destruct x
  end.

(* along a history: P holds after every operation up to (and including) the last one before the first that
   does not return normally *)
Fixpoint while_ok (l : list (res out * list event * state)) (P : state -> Prop) : Prop :=
  match l with
  | [] => True
  | e :: l' => match e.1.1 with Ok _ => P e.2 /\ while_ok l' P | _ => True end
  end.
