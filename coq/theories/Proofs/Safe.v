(* A second judgment for the engine monad: [safe I Q m] says that from any state satisfying the
   invariant I, running m ends (whatever the outcome) in a state satisfying I, and if it panics the
   tag satisfies Q.  It composes through bind like [pres], and lets "this panic is never raised from
   a consistent state" be proved function by function. *)
From stdpp Require Import base list option numbers.
From RecordUpdate Require Import RecordUpdate.
From Incr.Model Require Import Base Live Engine Api.

Definition safe (I : state -> Prop) (Q : ptag -> Prop) {A} (m : M A) : Prop :=
  forall s, I s -> I (m s).2 /\ (forall t, (m s).1 = Panic t -> Q t).

Section rules.
Context (I : state -> Prop) (Q : ptag -> Prop).

Lemma safe_ret {A} (a : A) : safe I Q (ret a).
Proof. intros s Hs. simpl. split; [done|intros t [=]]. Qed.
Lemma safe_panic {A} t : Q t -> safe I Q (@panic A t).
Proof. intros Ht s Hs. simpl. split; [done|]. by intros t' [= <-]. Qed.
Lemma safe_oof {A} : safe I Q (@out_of_fuel A).
Proof. intros s Hs. simpl. split; [done|intros t [=]]. Qed.
Lemma safe_get : safe I Q get.
Proof. intros s Hs. simpl. split; [done|intros t [=]]. Qed.
Lemma safe_gets {A} (f : state -> A) : safe I Q (gets f).
Proof. intros s Hs. simpl. split; [done|intros t [=]]. Qed.
Lemma safe_modify f : (forall s, I s -> I (f s)) -> safe I Q (modify f).
Proof. intros H s Hs. simpl. split; [by apply H|intros t [=]]. Qed.

Lemma safe_bind {A B} (m : M A) (k : A -> M B) :
  safe I Q m -> (forall a, safe I Q (k a)) -> safe I Q (bindM m k).
Proof.
  intros Hm Hk s Hs. unfold bindM. destruct (Hm s Hs) as [H1 H2].
  destruct (m s) as [[a| |] s'] eqn:E; simpl in *.
  - apply Hk. exact H1.
  - split; [done|]. intros t' [= <-]. by apply H2.
  - split; [done|intros t' [=]].
Qed.

Lemma safe_when b m : safe I Q m -> safe I Q (when b m).
Proof. destruct b; [done|]. intros _. apply safe_ret. Qed.
Lemma safe_massert b t : Q t -> safe I Q (massert b t).
Proof. intros Ht. destruct b; [apply safe_ret|by apply safe_panic]. Qed.
Lemma safe_dassert b site : safe I Q b -> Q (PDebugAssert site) -> safe I Q (dassert b site).
Proof.
  intros Hb Ht. unfold dassert. apply safe_bind; [apply safe_gets|]. intros [|]; [|apply safe_ret].
  apply safe_bind; [done|]. intros [|]; [apply safe_ret|by apply safe_panic].
Qed.
Lemma safe_mapM {A B} (f : A -> M B) l : (forall x, safe I Q (f x)) -> safe I Q (mapM f l).
Proof.
  intros Hf. induction l as [|x l IH]; simpl; [apply safe_ret|].
  apply safe_bind; [done|]. intros ?. apply safe_bind; [done|]. intros ?. apply safe_ret.
Qed.
Lemma safe_forM_ {A} (f : A -> M unit) l : (forall x, safe I Q (f x)) -> safe I Q (forM_ l f).
Proof.
  intros Hf. induction l as [|x l IH]; simpl; [apply safe_ret|].
  apply safe_bind; [done|]. intros ?. done.
Qed.
Lemma safe_foldM {A B} (f : B -> A -> M B) l b : (forall b x, safe I Q (f b x)) -> safe I Q (foldM f l b).
Proof.
  intros Hf. revert b. induction l as [|x l IH]; intros b; simpl; [apply safe_ret|].
  apply safe_bind; [done|]. intros ?. done.
Qed.
Lemma safe_forM_break {A} (f : A -> M bool) l : (forall x, safe I Q (f x)) -> safe I Q (forM_break l f).
Proof.
  intros Hf. induction l as [|x l IH]; simpl; [apply safe_ret|].
  apply safe_bind; [done|]. intros [|]; [done|apply safe_ret].
Qed.
End rules.

(* one structural step; [qt] proves the side condition on a tag *)
Ltac safe_step I Q qt :=
  lazymatch goal with
  | |- safe _ _ (ret _) => apply (safe_ret I Q)
  | |- safe _ _ (panic _) => apply (safe_panic I Q); qt
  | |- safe _ _ out_of_fuel => apply (safe_oof I Q)
  | |- safe _ _ get => apply (safe_get I Q)
  | |- safe _ _ (gets _) => apply (safe_gets I Q)
  | |- safe _ _ (bindM _ _) => apply (safe_bind I Q); [|intros ?]
  | |- safe _ _ (when _ _) => apply (safe_when I Q)
  | |- safe _ _ (massert _ _) => apply (safe_massert I Q); qt
  | |- safe _ _ (dassert _ _) => apply (safe_dassert I Q); [|qt]
  | |- safe _ _ (mapM _ _) => apply (safe_mapM I Q); intros ?
  | |- safe _ _ (forM_ _ _) => apply (safe_forM_ I Q); intros ?
  | |- safe _ _ (foldM _ _ _) => apply (safe_foldM I Q); intros ? ?
  | |- safe _ _ (forM_break _ _) => apply (safe_forM_break I Q); intros ?
  | |- safe _ _ (if ?b then _ else _) => destruct b
  | |- safe _ _ (match ?x with _ => _ end) => destruct x
  | |- safe _ _ (let '(_, _) := ?x in _) => destruct x
  end.
