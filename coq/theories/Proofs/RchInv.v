(* C11: the recompute heap and the nodes' height_in_recompute_heap cells describe the same set. *)
From stdpp Require Import base list option numbers.
From RecordUpdate Require Import RecordUpdate.
From Incr.Model Require Import Base Live Engine Api.
From Incr.Proofs Require Import Pres.

(* a node is in queue h exactly when its cell says h; no node twice in a queue *)
Definition rch_inv (s : state) : Prop :=
  (forall h q n, rch_queues s !! h = Some q -> n ∈ q ->
     exists x, nodes s !! n = Some x /\ n_height_in_rch x = Z.of_nat h)
  /\ (forall n x, nodes s !! n = Some x -> (0 <= n_height_in_rch x)%Z ->
        exists q, rch_queues s !! Z.to_nat (n_height_in_rch x) = Some q /\ n ∈ q)
  /\ (forall h q, rch_queues s !! h = Some q -> NoDup q).

(* ---- link *)
Definition link_state (s : state) (n : nid) (h : Z) (q : list nid) : state :=
  s <| nodes := alter (fun x => x <| n_height_in_rch := h |>) n (nodes s) |>
    <| rch_queues := <[Z.to_nat h := q ++ [n]]> (rch_queues s) |>.

Lemma rch_link_cases n s :
  (exists t, rch_link n s = (Panic t, s))
  \/ (exists x q, nodes s !! n = Some x /\ (0 <= n_height x)%Z /\ rch_queues s !! Z.to_nat (n_height x) = Some q
        /\ rch_link n s = (Ok tt, link_state s n (n_height x) q)).
Proof.
  unfold rch_link, get_node, massert, upd_node, modify. unfold bindM, get, ret, panic. cbv beta iota.
  destruct (nodes s !! n) as [x|] eqn:Hx; [|left; by eexists]. cbv beta iota.
  case_bool_decide as H0; [|left; by eexists]. cbv beta iota.
  case_bool_decide as H1; [|left; by eexists]. cbv beta iota.
  unfold zget. rewrite bool_decide_eq_false_2 by lia.
  unfold rch_max_allowed, zlen in H1.
  destruct (rch_queues s !! Z.to_nat (n_height x)) as [q|] eqn:Hq.
  - right. exists x, q. done.
  - apply lookup_ge_None in Hq. lia.
Qed.

(* the invariant with node n taken out of the queues (its cell may still say otherwise) *)
Definition rch_inv_but (s : state) (n : nid) : Prop :=
  (forall h q m, rch_queues s !! h = Some q -> m ∈ q ->
     exists x, nodes s !! m = Some x /\ n_height_in_rch x = Z.of_nat h)
  /\ (forall m x, m <> n -> nodes s !! m = Some x -> (0 <= n_height_in_rch x)%Z ->
        exists q, rch_queues s !! Z.to_nat (n_height_in_rch x) = Some q /\ m ∈ q)
  /\ (forall h q, rch_queues s !! h = Some q -> NoDup q)
  /\ (forall h q, rch_queues s !! h = Some q -> n ∉ q).

Lemma rch_inv_but_of_inv s n x : rch_inv s -> nodes s !! n = Some x -> (n_height_in_rch x < 0)%Z -> rch_inv_but s n.
Proof.
  intros (I1 & I2 & I3) Hx Hneg. split_and!; [done| |done|].
  - intros m y _ Hy Hpos. by eapply I2.
  - intros h q Hq Hin. destruct (I1 _ _ _ Hq Hin) as (y & Hy & Hh). simplify_eq. lia.
Qed.

Lemma rch_inv_link s n x q :
  rch_inv_but s n -> nodes s !! n = Some x -> (0 <= n_height x)%Z -> rch_queues s !! Z.to_nat (n_height x) = Some q ->
  rch_inv (link_state s n (n_height x) q).
Proof.
  intros (I1 & I2 & I3 & Hfree) Hx H0 Hq. unfold link_state. split_and!; simpl.
  - intros h q' m Hq' Hm. destruct (decide (h = Z.to_nat (n_height x))) as [->|Hh].
    + rewrite list_lookup_insert in Hq' by (by eapply lookup_lt_Some). injection Hq' as <-.
      apply elem_of_app in Hm as [Hm|Hm%elem_of_list_singleton].
      * destruct (I1 _ _ _ Hq Hm) as (y & Hy & Hhy). assert (m <> n) by (intros ->; by apply (Hfree _ _ Hq)).
        exists y. by rewrite list_lookup_alter_ne.
      * subst m. eexists. rewrite list_lookup_alter, Hx. simpl. split; [done|]. simpl. lia.
    + rewrite list_lookup_insert_ne in Hq' by done. destruct (I1 _ _ _ Hq' Hm) as (y & Hy & Hhy).
      assert (m <> n) by (intros ->; by apply (Hfree _ _ Hq')). exists y. by rewrite list_lookup_alter_ne.
  - intros m y Hy Hpos. destruct (decide (m = n)) as [->|Hm].
    + rewrite list_lookup_alter, Hx in Hy. simpl in Hy. injection Hy as <-. simpl.
      exists (q ++ [n]). rewrite list_lookup_insert by (by eapply lookup_lt_Some). split; [done|]. apply elem_of_app. right. by apply elem_of_list_singleton.
    + rewrite list_lookup_alter_ne in Hy by done. destruct (I2 _ _ Hm Hy Hpos) as (q' & Hq' & Hin).
      destruct (decide (Z.to_nat (n_height_in_rch y) = Z.to_nat (n_height x))) as [E|E].
      * rewrite E in *. simplify_eq. exists (q ++ [n]). rewrite list_lookup_insert by (by eapply lookup_lt_Some).
        split; [done|]. apply elem_of_app. by left.
      * exists q'. by rewrite list_lookup_insert_ne.
  - intros h q' Hq'. destruct (decide (h = Z.to_nat (n_height x))) as [->|Hh].
    + rewrite list_lookup_insert in Hq' by (by eapply lookup_lt_Some). injection Hq' as <-.
      apply NoDup_app. split; [by eapply I3|]. split; [|apply NoDup_singleton].
      intros m Hm ->%elem_of_list_singleton. by apply (Hfree _ _ Hq).
    + rewrite list_lookup_insert_ne in Hq' by done. by eapply I3.
Qed.

(* ---- swap_remove on a duplicate-free list *)
Lemma swap_remove_spec (l : list nat) i n : NoDup l -> l !! i = Some n ->
  NoDup (swap_remove l i) /\ (forall m, m ∈ swap_remove l i <-> m ∈ l /\ m <> n).
Proof.
  intros Hnd Hi. unfold swap_remove. destruct (stdpp.list.last l) as [x|] eqn:Hl.
  2:{ apply last_None in Hl. subst. done. }
  apply last_Some in Hl as [l' ->]. rewrite app_length. simpl.
  pose proof Hnd as Hnd2. apply NoDup_app in Hnd2 as (Hnd' & Hnotin & _).
  case_bool_decide as Hlast.
  - assert (i = length l') as -> by lia. rewrite lookup_app_r, Nat.sub_diag in Hi by done. injection Hi as <-.
    rewrite removelast_last. split; [done|]. intros m. rewrite elem_of_app, elem_of_list_singleton. split.
    + intros Hm. split; [by left|]. intros ->. by apply (Hnotin x); [|apply elem_of_list_singleton].
    + intros [[Hm| ->] Hne]; done.
  - assert (i < length l') as Hlt by (apply lookup_lt_Some in Hi; rewrite app_length in Hi; simpl in Hi; lia).
    rewrite lookup_app_l in Hi by done.
    rewrite insert_app_l by done. rewrite removelast_last.
    assert (x ∉ l') as Hx by (intros Hx; by apply (Hnotin x); [|apply elem_of_list_singleton]).
    split.
    + apply NoDup_alt. intros p q e Hp Hq.
      destruct (decide (p = i)) as [->|Hpi], (decide (q = i)) as [->|Hqi]; try done.
      * rewrite list_lookup_insert in Hp by done. injection Hp as <-. rewrite list_lookup_insert_ne in Hq by done.
        exfalso. apply Hx. by eapply elem_of_list_lookup_2.
      * rewrite list_lookup_insert in Hq by done. injection Hq as <-. rewrite list_lookup_insert_ne in Hp by done.
        exfalso. apply Hx. by eapply elem_of_list_lookup_2.
      * rewrite list_lookup_insert_ne in Hp, Hq by done. eapply NoDup_lookup; eauto.
    + intros m. rewrite elem_of_app, elem_of_list_singleton. split.
      * intros [p Hp]%elem_of_list_lookup. destruct (decide (p = i)) as [->|Hpi].
        -- rewrite list_lookup_insert in Hp by done. injection Hp as <-. split; [by right|].
           intros ->. apply Hx. by eapply elem_of_list_lookup_2.
        -- rewrite list_lookup_insert_ne in Hp by done. split; [left; by eapply elem_of_list_lookup_2|].
           intros ->. apply Hpi. eapply NoDup_lookup; eauto.
      * intros [[[p Hp]%elem_of_list_lookup| ->] Hne].
        -- assert (p <> i) by (intros ->; congruence). apply elem_of_list_lookup. exists p. by rewrite list_lookup_insert_ne.
        -- apply elem_of_list_lookup. exists i. by rewrite list_lookup_insert.
Qed.

(* ---- unlink *)
Lemma rch_unlink_cases n s :
  (exists t, rch_unlink n s = (Panic t, s))
  \/ (exists x q i, nodes s !! n = Some x /\ (0 <= n_height_in_rch x)%Z
        /\ rch_queues s !! Z.to_nat (n_height_in_rch x) = Some q /\ q !! i = Some n
        /\ rch_unlink n s = (Ok tt, s <| rch_queues := <[Z.to_nat (n_height_in_rch x) := swap_remove q i]> (rch_queues s) |>)).
Proof.
  unfold rch_unlink, get_node, modify. unfold bindM, get, ret, panic. cbv beta iota.
  destruct (nodes s !! n) as [x|] eqn:Hx; [|left; by eexists]. cbv beta iota.
  unfold zget. case_bool_decide as Hneg; [left; by eexists|].
  destruct (rch_queues s !! Z.to_nat (n_height_in_rch x)) as [q|] eqn:Hq; [|left; by eexists].
  unfold find_pos. destruct (list_find (λ y, y = n) q) as [[i y]|] eqn:Hf; simpl; [|left; by eexists].
  apply list_find_Some in Hf as (Hi & -> & _). right. exists x, q, i. split_and!; try done. lia.
Qed.

Lemma rch_inv_unlink s n x q i :
  rch_inv s -> nodes s !! n = Some x -> (0 <= n_height_in_rch x)%Z ->
  rch_queues s !! Z.to_nat (n_height_in_rch x) = Some q -> q !! i = Some n ->
  rch_inv_but (s <| rch_queues := <[Z.to_nat (n_height_in_rch x) := swap_remove q i]> (rch_queues s) |>) n.
Proof.
  intros (I1 & I2 & I3) Hx Hpos Hq Hi.
  destruct (swap_remove_spec q i n (I3 _ _ Hq) Hi) as (Hnd & Hmem).
  assert (forall h q', h <> Z.to_nat (n_height_in_rch x) -> rch_queues s !! h = Some q' -> n ∉ q') as Hother.
  { intros h q' Hh Hq' Hin. destruct (I1 _ _ _ Hq' Hin) as (y & Hy & Hhy). simplify_eq. lia. }
  split_and!; simpl.
  - intros h q' m Hq' Hm. destruct (decide (h = Z.to_nat (n_height_in_rch x))) as [->|Hh].
    + rewrite list_lookup_insert in Hq' by (by eapply lookup_lt_Some). injection Hq' as <-.
      apply Hmem in Hm as [Hm _]. by eapply I1.
    + rewrite list_lookup_insert_ne in Hq' by done. by eapply I1.
  - intros m y Hm Hy Hpy. destruct (I2 _ _ Hy Hpy) as (q' & Hq' & Hin).
    destruct (decide (Z.to_nat (n_height_in_rch y) = Z.to_nat (n_height_in_rch x))) as [E|E].
    + rewrite E in *. simplify_eq. exists (swap_remove q i). rewrite list_lookup_insert by (by eapply lookup_lt_Some).
      split; [done|]. by apply Hmem.
    + exists q'. by rewrite list_lookup_insert_ne.
  - intros h q' Hq'. destruct (decide (h = Z.to_nat (n_height_in_rch x))) as [->|Hh].
    + rewrite list_lookup_insert in Hq' by (by eapply lookup_lt_Some). by injection Hq' as <-.
    + rewrite list_lookup_insert_ne in Hq' by done. by eapply I3.
  - intros h q' Hq'. destruct (decide (h = Z.to_nat (n_height_in_rch x))) as [->|Hh].
    + rewrite list_lookup_insert in Hq' by (by eapply lookup_lt_Some). injection Hq' as <-.
      intros Hin. apply Hmem in Hin as [_ Hne]. done.
    + rewrite list_lookup_insert_ne in Hq' by done. by eapply Hother.
Qed.

(* ---- the relation threaded through the engine: in a debug build (where the heap's preconditions are
   asserted) every function keeps the invariant, whatever its outcome *)
Definition Rri : relation state := fun s s' => debug s = true -> rch_inv s -> rch_inv s' /\ debug s' = true.
Global Instance Rri_preorder : PreOrder Rri.
Proof.
  split; [intros s Hd Hi; done|]. intros a b c H1 H2 Hd Hi. destruct (H1 Hd Hi) as [Hb Hdb]. by apply H2.
Qed.

(* the invariant only reads the queues and the cells *)
Lemma rch_inv_ext s s' :
  rch_queues s' = rch_queues s ->
  (forall n, (n_height_in_rch <$> nodes s' !! n) = (n_height_in_rch <$> nodes s !! n)) ->
  rch_inv s -> rch_inv s'.
Proof.
  intros Hq Hn (I1 & I2 & I3). unfold rch_inv. rewrite Hq. split_and!; [| |done].
  - intros h q n Hhq Hin. destruct (I1 _ _ _ Hhq Hin) as (x & Hx & Hh). specialize (Hn n). rewrite Hx in Hn. simpl in Hn.
    destruct (nodes s' !! n) as [x'|]; [|done]. simpl in Hn. exists x'. split; [done|]. congruence.
  - intros n x' Hx' Hpos. specialize (Hn n). rewrite Hx' in Hn. simpl in Hn.
    destruct (nodes s !! n) as [x|] eqn:Hx; [|done]. simpl in Hn. injection Hn as Hn. rewrite Hn in Hpos |- *. by eapply I2.
Qed.
Lemma rch_inv_but_ext s s' n :
  rch_queues s' = rch_queues s ->
  (forall m, (n_height_in_rch <$> nodes s' !! m) = (n_height_in_rch <$> nodes s !! m)) ->
  rch_inv_but s n -> rch_inv_but s' n.
Proof.
  intros Hq Hn (I1 & I2 & I3 & I4). unfold rch_inv_but. rewrite Hq. split_and!; [| |done|done].
  - intros h q m Hhq Hin. destruct (I1 _ _ _ Hhq Hin) as (x & Hx & Hh). specialize (Hn m). rewrite Hx in Hn. simpl in Hn.
    destruct (nodes s' !! m) as [x'|]; [|done]. simpl in Hn. exists x'. split; [done|]. congruence.
  - intros m x' Hm Hx' Hpos. specialize (Hn m). rewrite Hx' in Hn. simpl in Hn.
    destruct (nodes s !! m) as [x|] eqn:Hx; [|done]. simpl in Hn. injection Hn as Hn. rewrite Hn in Hpos |- *. by eapply I2.
Qed.

(* setting n's cell to -1 once it is out of the queues restores the invariant *)
Lemma rch_inv_clear s n :
  rch_inv_but s n -> rch_inv (s <| nodes := alter (fun x => x <| n_height_in_rch := (-1)%Z |>) n (nodes s) |>).
Proof.
  intros (I1 & I2 & I3 & I4). split_and!; simpl; [| |done].
  - intros h q m Hq Hin. destruct (I1 _ _ _ Hq Hin) as (x & Hx & Hh).
    assert (m <> n) by (intros ->; by apply (I4 _ _ Hq)). exists x. by rewrite list_lookup_alter_ne.
  - intros m x Hx Hpos. destruct (decide (m = n)) as [->|Hm].
    + rewrite list_lookup_alter in Hx. destruct (nodes s !! n); simpl in Hx; [|done]. injection Hx as <-. simpl in Hpos. lia.
    + rewrite list_lookup_alter_ne in Hx by done. by eapply I2.
Qed.

(* ---- stepping helpers *)
Lemma dassert2_run (f : node -> state -> bool) n site s r s1 : debug s = true ->
  dassert (x <- get_node n ;; s0 <- get ;; ret (f x s0)) site s = (r, s1) ->
  s1 = s /\ (forall u, r = Ok u -> exists x, nodes s !! n = Some x /\ f x s = true).
Proof.
  intros Hd. unfold dassert, get_node. unfold bindM, gets, get, ret, panic. cbv beta iota. rewrite Hd. cbv beta iota.
  destruct (nodes s !! n) as [x|]; cbv beta iota; [|intros [= <- <-]; split; [done|intros ? [=]]].
  destruct (f x s) eqn:E; intros [= <- <-]; (split; [done|]); [intros _ _; by exists x|intros ? [=]].
Qed.
Lemma dassert1_run (f : node -> bool) n site s r s1 : debug s = true ->
  dassert (x <- get_node n ;; ret (f x)) site s = (r, s1) ->
  s1 = s /\ (forall u, r = Ok u -> exists x, nodes s !! n = Some x /\ f x = true).
Proof.
  intros Hd. unfold dassert, get_node. unfold bindM, gets, get, ret, panic. cbv beta iota. rewrite Hd. cbv beta iota.
  destruct (nodes s !! n) as [x|]; cbv beta iota; [|intros [= <- <-]; split; [done|intros ? [=]]].
  destruct (f x) eqn:E; intros [= <- <-]; (split; [done|]); [intros _ _; by exists x|intros ? [=]].
Qed.
Lemma get_node_run n s x : nodes s !! n = Some x -> get_node n s = (Ok x, s).
Proof. intros E. unfold get_node, bindM, get, ret. by rewrite E. Qed.

Ltac stop_here E := (injection E as <- <-; split; done).

Lemma ri_rch_insert n : pres Rri (rch_insert n).
Proof.
  intros s Hd Hinv. destruct (rch_insert n s) as [r s'] eqn:E. simpl. unfold rch_insert in E.
  unfold bindM at 1 in E. destruct (dassert _ 105 s) as [r1 s1] eqn:E1.
  apply (dassert2_run (fun x s0 => negb (in_rch x) && needs_to_be_computed s0 x)) in E1 as [-> H1]; [|done].
  destruct r1 as [[]| |]; [|stop_here E..]. destruct (H1 tt eq_refl) as (x & Hx & Hc1). clear H1.
  unfold bindM at 1 in E. destruct (dassert _ 106 s) as [r2 s2] eqn:E2.
  apply (dassert2_run (fun x s0 => bool_decide (n_height x <= rch_max_allowed s0)%Z)) in E2 as [-> H2]; [|done].
  destruct r2 as [[]| |]; [|stop_here E..]. clear H2.
  unfold bindM at 1 in E. rewrite (get_node_run _ _ _ Hx) in E.
  unfold bindM at 1, get at 1 in E. cbv beta iota in E.
  apply andb_true_iff in Hc1 as [Hc1 _]. apply negb_true_iff in Hc1. unfold in_rch in Hc1. apply bool_decide_eq_false in Hc1.
  set (s1 := if bool_decide (n_height x < rch_lower s)%Z then s <| rch_lower := n_height x |> else s).
  assert (rch_inv s1 /\ debug s1 = true /\ nodes s1 = nodes s /\ rch_queues s1 = rch_queues s) as (Hinv1 & Hd1 & Hn1 & Hq1)
    by (subst s1; case_bool_decide; done).
  unfold bindM at 1 in E.
  assert (when (bool_decide (n_height x < rch_lower s)%Z) (modify (fun s0 => s0 <| rch_lower := n_height x |>)) s = (Ok tt, s1)) as Ew
    by (subst s1; unfold when, modify, ret; by case_bool_decide).
  rewrite Ew in E. unfold bindM at 1 in E.
  destruct (rch_link_cases n s1) as [[t El]|(x' & q & Hx' & Hpos & Hq & El)]; rewrite El in E; [stop_here E|].
  unfold modify in E. injection E as <- <-. simpl. rewrite Hn1 in Hx'. simplify_eq.
  assert (rch_inv (link_state s1 n (n_height x) q)) as Hl.
  { apply rch_inv_link; [|by rewrite Hn1|done|done]. eapply rch_inv_but_of_inv; [done|by rewrite Hn1|lia]. }
  split; [|done]. eapply rch_inv_ext; [| |exact Hl]; done.
Qed.

Lemma ri_rch_remove n : pres Rri (rch_remove n).
Proof.
  intros s Hd Hinv. destruct (rch_remove n s) as [r s'] eqn:E. simpl. unfold rch_remove in E.
  unfold bindM at 1 in E. destruct (dassert _ 107 s) as [r1 s1] eqn:E1.
  apply (dassert2_run (fun x s0 => in_rch x && negb (needs_to_be_computed s0 x))) in E1 as [-> H1]; [|done].
  destruct r1 as [[]| |]; [|stop_here E..]. clear H1.
  unfold bindM at 1 in E.
  destruct (rch_unlink_cases n s) as [[t El]|(x & q & i & Hx & Hpos & Hq & Hi & El)]; rewrite El in E; [stop_here E|].
  unfold bindM, upd_node, modify in E. injection E as <- <-. simpl.
  pose proof (rch_inv_unlink s n x q i Hinv Hx Hpos Hq Hi) as Hb.
  split; [|done]. eapply rch_inv_ext; [| |exact (rch_inv_clear _ _ Hb)]; done.
Qed.

Lemma rch_link_run n s x : nodes s !! n = Some x -> (0 <= n_height x)%Z -> (n_height x <= rch_max_allowed s)%Z ->
  exists q, rch_queues s !! Z.to_nat (n_height x) = Some q /\ rch_link n s = (Ok tt, link_state s n (n_height x) q).
Proof.
  intros Hx H0 H1. unfold rch_link, get_node, massert, upd_node, modify. unfold bindM, get, ret, panic. cbv beta iota.
  rewrite Hx. cbv beta iota. rewrite !bool_decide_eq_true_2 by done. cbv beta iota.
  unfold zget. rewrite bool_decide_eq_false_2 by lia. unfold rch_max_allowed, zlen in H1.
  destruct (rch_queues s !! Z.to_nat (n_height x)) as [q|] eqn:Hq; [by exists q|].
  apply lookup_ge_None in Hq. lia.
Qed.

Lemma ri_rch_increase_height n : pres Rri (rch_increase_height n).
Proof.
  intros s Hd Hinv. destruct (rch_increase_height n s) as [r s'] eqn:E. simpl. unfold rch_increase_height in E.
  unfold bindM at 1 in E. destruct (dassert _ 110 s) as [r1 s1] eqn:E1.
  apply (dassert1_run (fun x => bool_decide (n_height_in_rch x < n_height x)%Z)) in E1 as [-> H1]; [|done].
  destruct r1 as [[]| |]; [|stop_here E..]. destruct (H1 tt eq_refl) as (x & Hx & Hc1). clear H1. apply bool_decide_eq_true in Hc1.
  unfold bindM at 1 in E. destruct (dassert _ 111 s) as [r2 s2] eqn:E2.
  apply (dassert1_run (fun x => in_rch x)) in E2 as [-> H2]; [|done].
  destruct r2 as [[]| |]; [|stop_here E..]. destruct (H2 tt eq_refl) as (x2 & Hx2 & Hc2). clear H2. simplify_eq.
  unfold in_rch in Hc2. apply bool_decide_eq_true in Hc2.
  unfold bindM at 1 in E. destruct (dassert _ 112 s) as [r3 s3] eqn:E3.
  apply (dassert2_run (fun x s0 => bool_decide (n_height x <= rch_max_allowed s0)%Z)) in E3 as [-> H3]; [|done].
  destruct r3 as [[]| |]; [|stop_here E..]. destruct (H3 tt eq_refl) as (x3 & Hx3 & Hc3). clear H3. simplify_eq.
  apply bool_decide_eq_true in Hc3.
  unfold bindM at 1 in E.
  destruct (rch_unlink_cases n s) as [[t El]|(x' & q & i & Hx' & Hpos & Hq & Hi & El)]; rewrite El in E; [stop_here E|].
  simplify_eq.
  pose proof (rch_inv_unlink s n x q i Hinv Hx Hpos Hq Hi) as Hb.
  set (s1 := s <| rch_queues := <[Z.to_nat (n_height_in_rch x) := swap_remove q i]> (rch_queues s) |>) in *.
  destruct (rch_link_run n s1 x) as (q' & Hq' & El2); [done|lia| |].
  { subst s1. unfold rch_max_allowed, zlen in *. simpl. by rewrite insert_length. }
  rewrite El2 in E. injection E as <- <-. split; [|done]. apply rch_inv_link; [exact Hb|exact Hx|lia|exact Hq'].
Qed.

(* set_max_height_allowed: debug builds refuse to drop a non-empty queue *)
Lemma ri_rch_set_max m : pres Rri (rch_set_max_height_allowed m).
Proof.
  intros s Hd Hinv. destruct (rch_set_max_height_allowed m s) as [r s'] eqn:E. simpl. unfold rch_set_max_height_allowed in E.
  unfold bindM at 1, get at 1 in E. cbv beta iota in E. rewrite Hd in E. cbn [andb] in E.
  destruct (forallb (fun q => bool_decide (q = [])) (drop (Z.to_nat (m + 1)) (rch_queues s))) eqn:Hall; cbn [negb] in E.
  2:{ unfold bindM, panic in E. stop_here E. }
  unfold bindM, ret, modify in E. injection E as <- <-. simpl. split; [|done].
  destruct Hinv as (I1 & I2 & I3). unfold resize.
  assert (forall h q, rch_queues s !! h = Some q -> (Z.to_nat (m + 1) <= h)%nat -> q = []) as Hempty.
  { intros h q Hq Hge. rewrite forallb_forall in Hall. specialize (Hall q).
    assert (In q (drop (Z.to_nat (m + 1)) (rch_queues s))) as Hin.
    { apply elem_of_list_In. apply elem_of_list_lookup. exists (h - Z.to_nat (m + 1))%nat. rewrite lookup_drop.
      replace (Z.to_nat (m + 1) + (h - Z.to_nat (m + 1)))%nat with h by lia. done. }
    apply Hall in Hin. by apply bool_decide_eq_true in Hin. }
  split_and!; simpl.
  - intros h q n Hq Hin. apply lookup_app_Some in Hq as [Hq|[_ Hq]].
    + rewrite lookup_take_Some in Hq. destruct Hq as [Hq _]. by eapply I1.
    + apply lookup_replicate in Hq as [-> _]. by apply elem_of_nil in Hin.
  - intros n x Hx Hpos. destruct (I2 _ _ Hx Hpos) as (q & Hq & Hin).
    destruct (decide (Z.to_nat (n_height_in_rch x) < Z.to_nat (m + 1))%nat) as [Hlt|Hge].
    + exists q. split; [|done]. apply lookup_app_l_Some. by rewrite lookup_take.
    + rewrite (Hempty _ _ Hq ltac:(lia)) in Hin. by apply elem_of_nil in Hin.
  - intros h q Hq. apply lookup_app_Some in Hq as [Hq|[_ Hq]].
    + rewrite lookup_take_Some in Hq. destruct Hq as [Hq _]. by eapply I3.
    + apply lookup_replicate in Hq as [-> _]. constructor.
Qed.

(* ---- remove_min *)
Lemma rch_scan_spec fuel : forall s r s1, rch_scan fuel s = (r, s1) ->
  nodes s1 = nodes s /\ rch_queues s1 = rch_queues s /\ debug s1 = debug s
  /\ (forall q, r = Ok (Some q) -> zget (rch_queues s1) (rch_lower s1) = Some q /\ q <> []).
Proof.
  induction fuel as [|f IH]; intros s r s1 E; [unfold rch_scan, out_of_fuel in E; by simplify_eq|].
  cbn [rch_scan] in E. unfold bindM at 1, get at 1 in E. cbv beta iota in E.
  destruct (zget (rch_queues s) (rch_lower s)) as [q|] eqn:Hq.
  2:{ unfold ret in E. by simplify_eq. }
  case_bool_decide as Hnil.
  - unfold bindM at 1, modify at 1 in E. cbv beta iota in E.
    unfold bindM at 1 in E.
    match type of E with context [dassert ?b ?k ?st] => destruct (dassert b k st) as [r1 s2] eqn:Ed end.
    assert (s2 = s <| rch_lower := (rch_lower s + 1)%Z |>) as ->.
    { unfold dassert, bindM, gets, get, ret, panic in Ed. cbv beta iota in Ed. simpl in Ed.
      destruct (debug s); [case_bool_decide|]; by simplify_eq. }
    destruct r1 as [[]| |]; [|by simplify_eq..].
    apply IH in E as (E1 & E2 & E3 & E4). done.
  - unfold ret in E. injection E as <- <-. split_and!; try done. intros q0 [= <-]. done.
Qed.

Lemma ri_rch_remove_min : pres Rri rch_remove_min.
Proof.
  intros s Hd Hinv. destruct (rch_remove_min s) as [r s'] eqn:E. simpl. unfold rch_remove_min in E.
  unfold bindM at 1, get at 1 in E. cbv beta iota in E.
  case_bool_decide as Hlen; [unfold ret in E; stop_here E|].
  unfold bindM at 1 in E.
  match type of E with context [dassert ?b ?k ?st] => destruct (dassert b k st) as [r1 s1] eqn:Ed end.
  assert (s1 = s) as ->.
  { unfold dassert, bindM, gets, get, ret, panic in Ed. cbv beta iota in Ed. rewrite Hd in Ed. case_bool_decide; by simplify_eq. }
  destruct r1 as [[]| |]; [|stop_here E..].
  unfold bindM at 1 in E.
  destruct (rch_scan (S (S (length (rch_queues s)))) s) as [r2 s2] eqn:Es.
  apply rch_scan_spec in Es as (Hn2 & Hq2 & Hd2 & Hsome).
  assert (rch_inv s2) as Hinv2 by (eapply rch_inv_ext; [exact Hq2|by rewrite Hn2|exact Hinv]).
  destruct r2 as [[q|]| |]; try (injection E as <- <-; split; [done|congruence]).
  destruct (Hsome q eq_refl) as (Hzq & Hne). destruct q as [|n q']; [done|].
  unfold bindM, get, modify, upd_node, ret in E. cbv beta iota in E. injection E as <- <-. simpl.
  split; [|congruence].
  unfold zget in Hzq. case_bool_decide as Hneg; [done|].
  destruct Hinv2 as (I1 & I2 & I3).
  pose proof (I3 _ _ Hzq) as Hnd. apply stdpp.list.NoDup_cons in Hnd as [Hnin Hnd'].
  destruct (I1 _ _ n Hzq ltac:(left)) as (x & Hx & Hhx).
  set (l := Z.to_nat (rch_lower s2)) in *.
  assert (rch_inv_but (s2 <| rch_queues := <[l := q']> (rch_queues s2) |>) n) as Hb.
  { split_and!; simpl.
    - intros h q m Hq Hm. destruct (decide (h = l)) as [->|Hh].
      + rewrite list_lookup_insert in Hq by (by eapply lookup_lt_Some). injection Hq as <-. apply (I1 _ _ m Hzq). by right.
      + rewrite list_lookup_insert_ne in Hq by done. by eapply I1.
    - intros m y Hm Hy Hpy. destruct (I2 _ _ Hy Hpy) as (q & Hq & Hin).
      destruct (decide (Z.to_nat (n_height_in_rch y) = l)) as [El|El].
      + rewrite El in *. simplify_eq. exists q'. rewrite list_lookup_insert by (by eapply lookup_lt_Some). split; [done|].
        apply elem_of_cons in Hin as [->|Hin]; done.
      + exists q. by rewrite list_lookup_insert_ne.
    - intros h q Hq. destruct (decide (h = l)) as [->|Hh].
      + rewrite list_lookup_insert in Hq by (by eapply lookup_lt_Some). by injection Hq as <-.
      + rewrite list_lookup_insert_ne in Hq by done. by eapply I3.
    - intros h q Hq Hin. destruct (decide (h = l)) as [->|Hh].
      + rewrite list_lookup_insert in Hq by (by eapply lookup_lt_Some). by injection Hq as <-.
      + rewrite list_lookup_insert_ne in Hq by done. destruct (I1 _ _ _ Hq Hin) as (y & Hy & Hhy). simplify_eq. lia. }
  eapply rch_inv_ext; [| |exact (rch_inv_clear _ _ Hb)]; done.
Qed.

Lemma rch_inv_init max_height dbg : rch_inv (init_state max_height dbg).
Proof.
  unfold init_state. split_and!; simpl.
  - intros h q n Hq Hin. apply lookup_replicate in Hq as [-> _]. by apply elem_of_nil in Hin.
  - intros n x Hx. done.
  - intros h q Hq. apply lookup_replicate in Hq as [-> _]. constructor.
Qed.

(* ---- which panics the heap's operations can raise from a consistent state *)
From Incr.Proofs Require Import Safe.

Definition Iri (s : state) : Prop := debug s = true /\ rch_inv s.
(* the three internal failures of the heap: "node was not in recompute heap", and an index out of
   bounds when reading a queue *)
Definition Qri (t : ptag) : Prop := t <> PNotInRch /\ t <> PIndex 103 /\ t <> PIndex 104.

Lemma Iri_of_Rri s s' : Rri s s' -> Iri s -> Iri s'.
Proof. intros R [Hd Hi]. destruct (R Hd Hi). done. Qed.

Lemma bind_panic {A B} (m : M A) (k : A -> M B) s t s' :
  bindM m k s = (Panic t, s') -> m s = (Panic t, s') \/ exists a s1, m s = (Ok a, s1) /\ k a s1 = (Panic t, s').
Proof. unfold bindM. destruct (m s) as [[a| |] s1] eqn:E; intros H; [right; by exists a, s1|left; by simplify_eq|done]. Qed.

Lemma get_node_panic n s t s' : get_node n s = (Panic t, s') -> t = PModelGap 1.
Proof. unfold get_node, bindM, get, ret, panic. destruct (nodes s !! n); intros H; by simplify_eq. Qed.

Lemma dassert2_tags (f : node -> state -> bool) n site s t s' :
  dassert (x <- get_node n ;; s0 <- get ;; ret (f x s0)) site s = (Panic t, s') -> t = PDebugAssert site \/ t = PModelGap 1.
Proof.
  unfold dassert, get_node. unfold bindM, gets, get, ret, panic. cbv beta iota. destruct (debug s); cbv beta iota; [|done].
  destruct (nodes s !! n) as [x|]; cbv beta iota; [|intros [= <- <-]; by right].
  destruct (f x s); intros H; [done|]. injection H as <- <-. by left.
Qed.
Lemma dassert1_tags (f : node -> bool) n site s t s' :
  dassert (x <- get_node n ;; ret (f x)) site s = (Panic t, s') -> t = PDebugAssert site \/ t = PModelGap 1.
Proof.
  unfold dassert, get_node. unfold bindM, gets, get, ret, panic. cbv beta iota. destruct (debug s); cbv beta iota; [|done].
  destruct (nodes s !! n) as [x|]; cbv beta iota; [|intros [= <- <-]; by right].
  destruct (f x); intros H; [done|]. injection H as <- <-. by left.
Qed.

Lemma rch_link_tags n s t s' : rch_link n s = (Panic t, s') -> t = PModelGap 1 \/ t = PAssert 101 \/ t = PAssert 102.
Proof.
  unfold rch_link, get_node, massert, upd_node, modify. unfold bindM, get, ret, panic. cbv beta iota.
  destruct (nodes s !! n) as [x|] eqn:Hx; [|intros [= <- <-]; by left]. cbv beta iota.
  case_bool_decide as H0; [|intros [= <- <-]; right; by left]. cbv beta iota.
  case_bool_decide as H1; [|intros [= <- <-]; right; by right]. cbv beta iota.
  unfold zget. rewrite bool_decide_eq_false_2 by lia. unfold rch_max_allowed, zlen in H1.
  destruct (rch_queues s !! Z.to_nat (n_height x)) as [q|] eqn:Hq; [done|].
  apply lookup_ge_None in Hq. lia.
Qed.

(* from a consistent state, unlinking a node whose cell says it is in the heap succeeds *)
Lemma rch_unlink_ok n s x : rch_inv s -> nodes s !! n = Some x -> (0 <= n_height_in_rch x)%Z ->
  exists s', rch_unlink n s = (Ok tt, s').
Proof.
  intros (I1 & I2 & I3) Hx Hpos. destruct (I2 _ _ Hx Hpos) as (q & Hq & Hin).
  unfold rch_unlink, get_node, modify. unfold bindM, get, ret, panic. cbv beta iota. rewrite Hx. cbv beta iota.
  unfold zget. rewrite bool_decide_eq_false_2 by lia. rewrite Hq.
  unfold find_pos. destruct (list_find (fun y => y = n) q) as [[i y]|] eqn:Hf; simpl; [by eexists|].
  apply list_find_None in Hf. rewrite Forall_forall in Hf. apply elem_of_list_In in Hin. by destruct (Hf n Hin).
Qed.

Ltac qri := (unfold Qri; split_and!; congruence).
Ltac qri_or H := (destruct_or! H; subst; qri).

Lemma sf_rch_insert n : safe Iri Qri (rch_insert n).
Proof.
  intros s [Hd Hi]. split; [apply (Iri_of_Rri s); [apply ri_rch_insert|done]|].
  intros t E. destruct (rch_insert n s) as [r s'] eqn:E'. simpl in E. subst r. unfold rch_insert in E'.
  apply bind_panic in E' as [E'|(u1 & s1 & _ & E')]; [apply dassert2_tags in E'; qri_or E'|].
  apply bind_panic in E' as [E'|(u2 & s2 & _ & E')]; [apply dassert2_tags in E'; qri_or E'|].
  apply bind_panic in E' as [E'|(x & s3 & _ & E')]; [apply get_node_panic in E'; subst; qri|].
  apply bind_panic in E' as [E'|(s4 & s5 & _ & E')]; [unfold get in E'; done|].
  apply bind_panic in E' as [E'|(u6 & s6 & _ & E')]; [unfold when, modify, ret in E'; by case_bool_decide|].
  apply bind_panic in E' as [E'|(u7 & s7 & _ & E')]; [apply rch_link_tags in E'; qri_or E'|].
  unfold modify in E'. done.
Qed.

Lemma sf_rch_remove n : safe Iri Qri (rch_remove n).
Proof.
  intros s [Hd Hi]. split; [apply (Iri_of_Rri s); [apply ri_rch_remove|done]|].
  intros t E. destruct (rch_remove n s) as [r s'] eqn:E'. simpl in E. subst r. unfold rch_remove in E'.
  apply bind_panic in E' as [E'|(u1 & s1 & E1 & E')]; [apply dassert2_tags in E'; qri_or E'|].
  apply (dassert2_run (fun x s0 => in_rch x && negb (needs_to_be_computed s0 x))) in E1 as [-> H1]; [|done].
  destruct (H1 u1 eq_refl) as (x & Hx & Hc). apply andb_true_iff in Hc as [Hc _]. unfold in_rch in Hc. apply bool_decide_eq_true in Hc.
  destruct (rch_unlink_ok n s x Hi Hx Hc) as (s2 & Eu).
  apply bind_panic in E' as [E'|(u2 & s3 & _ & E')]; [congruence|].
  unfold bindM, upd_node, modify in E'. done.
Qed.

Lemma sf_rch_increase_height n : safe Iri Qri (rch_increase_height n).
Proof.
  intros s [Hd Hi]. split; [apply (Iri_of_Rri s); [apply ri_rch_increase_height|done]|].
  intros t E. destruct (rch_increase_height n s) as [r s'] eqn:E'. simpl in E. subst r. unfold rch_increase_height in E'.
  apply bind_panic in E' as [E'|(u1 & s1 & E1 & E')]; [apply dassert1_tags in E'; qri_or E'|].
  apply (dassert1_run (fun x => bool_decide (n_height_in_rch x < n_height x)%Z)) in E1 as [-> _]; [|done].
  apply bind_panic in E' as [E'|(u2 & s2 & E2 & E')]; [apply dassert1_tags in E'; qri_or E'|].
  apply (dassert1_run (fun x => in_rch x)) in E2 as [-> H2]; [|done].
  destruct (H2 u2 eq_refl) as (x & Hx & Hc). unfold in_rch in Hc. apply bool_decide_eq_true in Hc.
  apply bind_panic in E' as [E'|(u3 & s3 & E3 & E')]; [apply dassert2_tags in E'; qri_or E'|].
  apply (dassert2_run (fun x s0 => bool_decide (n_height x <= rch_max_allowed s0)%Z)) in E3 as [-> _]; [|done].
  destruct (rch_unlink_ok n s x Hi Hx Hc) as (s4 & Eu).
  apply bind_panic in E' as [E'|(u4 & s5 & _ & E')]; [congruence|].
  apply rch_link_tags in E'. qri_or E'.
Qed.

Lemma sf_rch_set_max m : safe Iri Qri (rch_set_max_height_allowed m).
Proof.
  intros s [Hd Hi]. split; [apply (Iri_of_Rri s); [apply ri_rch_set_max|done]|].
  intros t E. destruct (rch_set_max_height_allowed m s) as [r s'] eqn:E'. simpl in E. subst r. unfold rch_set_max_height_allowed in E'.
  unfold bindM at 1, get at 1 in E'. cbv beta iota in E'.
  apply bind_panic in E' as [E'|(u1 & s1 & _ & E')].
  - destruct (_ && _) in E'; [unfold panic in E'; injection E' as <- <-; qri|done].
  - unfold bindM, modify in E'. done.
Qed.

Lemma sf_rch_remove_min : safe Iri Qri rch_remove_min.
Proof.
  intros s [Hd Hi]. split; [apply (Iri_of_Rri s); [apply ri_rch_remove_min|done]|].
  intros t E. destruct (rch_remove_min s) as [r s'] eqn:E'. simpl in E. subst r. unfold rch_remove_min in E'.
  unfold bindM at 1, get at 1 in E'. cbv beta iota in E'. case_bool_decide; [done|].
  apply bind_panic in E' as [E'|(u1 & s1 & _ & E')].
  { unfold dassert, bindM, gets, get, ret, panic in E'. cbv beta iota in E'. destruct (debug s); [case_bool_decide|]; simplify_eq. qri. }
  apply bind_panic in E' as [E'|(oq & s2 & _ & E')].
  { (* the scan only fails on its own assertion *)
    clear -E'. revert s1 E'. generalize (S (S (length (rch_queues s)))). intros fuel. induction fuel as [|f IH]; intros s1 E'; [done|].
    cbn [rch_scan] in E'. unfold bindM at 1, get at 1 in E'. cbv beta iota in E'.
    destruct (zget (rch_queues s1) (rch_lower s1)) as [q|]; [|done]. case_bool_decide; [|done].
    apply bind_panic in E' as [E'|(u & s3 & _ & E')]; [done|].
    apply bind_panic in E' as [E'|(u' & s4 & _ & E')]; [|by eapply IH].
    unfold dassert, bindM, gets, get, ret, panic in E'. cbv beta iota in E'. destruct (debug s3); [case_bool_decide|]; simplify_eq. qri. }
  destruct oq as [[|n q']|]; try done.
Qed.
