(* C19: the height limit is exact; misuse panics immediately. *)
From stdpp Require Import base list option numbers.
From RecordUpdate Require Import RecordUpdate.
From Incr.Model Require Import Base Live Engine Api.
From Incr.Proofs Require Import Pres FrameStatus FrameMono Invalidate.
Local Open Scope Z_scope.

(* set_height: the only place heights are written *)
Lemma set_height_eq n h s :
  set_height n h s =
    if bool_decide (ahh_max_seen s < h) then
      if bool_decide (ahh_max_allowed s < h) then (Panic PHeightLimit, s <| ahh_max_seen := h |>)
      else (Ok tt, s <| ahh_max_seen := h |> <| nodes := alter (fun x => x <| n_height := h |>) n (nodes s) |>)
    else (Ok tt, s <| nodes := alter (fun x => x <| n_height := h |>) n (nodes s) |>).
Proof.
  unfold set_height, bindM, get, modify, upd_node, ret, panic. cbv beta iota.
  case_bool_decide; cbv beta iota; [|done]. simpl. case_bool_decide; done.
Qed.

(* as long as the greatest height seen is within the limit (true of every state that has not already
   panicked with HeightLimit), setting a height panics — with HeightLimit, nothing else — exactly when
   it exceeds the limit *)
Lemma height_limit_exact n h s :
  ahh_max_seen s <= ahh_max_allowed s ->
  ((set_height n h s).1 = Panic PHeightLimit <-> ahh_max_allowed s < h)
  /\ (ahh_max_allowed s < h \/ (set_height n h s).1 = Ok tt).
Proof.
  intros Hinv. rewrite set_height_eq. repeat case_bool_decide; simpl; split; try split; try done; try lia; auto.
Qed.

(* ... and an accepted height keeps that invariant *)
Lemma set_height_keeps_seen_within_limit n h s :
  ahh_max_seen s <= ahh_max_allowed s -> (set_height n h s).1 = Ok tt ->
  ahh_max_seen (set_height n h s).2 <= ahh_max_allowed (set_height n h s).2
  /\ ahh_max_allowed (set_height n h s).2 = ahh_max_allowed s.
Proof.
  intros Hinv. rewrite set_height_eq. unfold ahh_max_allowed. repeat case_bool_decide; simpl; try done; lia.
Qed.

(* a state created with new_with_height(N) allows exactly heights 0..N in both heaps *)
Lemma init_state_limit N dbg : 0 <= N ->
  ahh_max_allowed (init_state N dbg) = N /\ rch_max_allowed (init_state N dbg) = N
  /\ ahh_max_seen (init_state N dbg) = 0.
Proof.
  intros HN. unfold ahh_max_allowed, rch_max_allowed, init_state, zlen. simpl.
  rewrite replicate_length. split_and!; try done; lia.
Qed.

Lemma resize_length {A} (l : list A) n d : length (resize l n d) = n.
Proof. unfold resize. rewrite app_length, take_length, replicate_length. lia. Qed.

(* set_max_height_allowed(N): refused below the greatest height seen, otherwise both heaps allow
   exactly N afterwards *)
Lemma set_max_height_below_seen N s :
  st_status s <> Stabilising -> N < ahh_max_seen s ->
  set_max_height_allowed N s = (Panic PSetMaxBelowSeen, s).
Proof.
  intros Hst Hlt. unfold set_max_height_allowed, bindM, gets. cbv beta iota.
  destruct (st_status s); try done.
  all: unfold ahh_set_max_height_allowed, bindM, get, panic; cbv beta iota; rewrite bool_decide_eq_true_2 by done; done.
Qed.

Lemma dassert_state b site s :
  (forall s0, (b s0).2 = s0) -> (dassert b site s).2 = s.
Proof.
  intros Hb. unfold dassert, bindM, gets, ret, panic. cbv beta iota. destruct (debug s); [|done].
  specialize (Hb s). destruct (b s) as [[[|]| |] s0]; simpl in *; by subst.
Qed.

Lemma set_max_height_exact N s s' :
  0 <= N -> set_max_height_allowed N s = (Ok tt, s') ->
  ahh_max_allowed s' = N /\ rch_max_allowed s' = N /\ ahh_max_seen s <= N.
Proof.
  intros HN. unfold set_max_height_allowed, bindM at 1, gets. cbv beta iota.
  assert (forall (k : M unit), match st_status s with Stabilising => panic PSetMaxDuringStabilise | _ => k end s = (Ok tt, s')
            -> k s = (Ok tt, s')) as Hm by (intros k; destruct (st_status s); done).
  intros H. apply Hm in H. clear Hm.
  apply bindM_ok in H as ([] & s1 & E1 & H).
  unfold ahh_set_max_height_allowed in E1.
  apply bindM_ok in E1 as (s0 & s0' & E0 & E1). unfold get in E0. injection E0 as <- <-.
  apply bindM_ok in E1 as ([] & sa & Ea & E1).
  case_bool_decide as Hseen; [done|]. unfold ret in Ea. injection Ea as <-.
  apply bindM_ok in E1 as ([] & sb & Eb & E1).
  assert (sb = s) as ->.
  { match type of Eb with dassert ?b ?k _ = _ => pose proof (dassert_state b k s ltac:(intros ?; reflexivity)) as P end.
    rewrite Eb in P. exact P. }
  apply bindM_ok in E1 as ([] & sc & Ec & E1).
  assert (sc = s) as ->.
  { match type of Ec with dassert ?b ?k _ = _ => pose proof (dassert_state b k s ltac:(intros ?; reflexivity)) as P end.
    rewrite Ec in P. exact P. }
  unfold modify in E1. injection E1 as <-.
  unfold rch_set_max_height_allowed in H.
  apply bindM_ok in H as (sd & sd' & Ed & H). unfold get in Ed. injection Ed as <- <-.
  apply bindM_ok in H as ([] & se & Ee & H).
  assert (se = s <| ahh_queues := resize (ahh_queues s) (Z.to_nat (N + 1)) [] |>) as ->.
  { destruct (_ && _) in Ee; unfold ret, panic in Ee; by simplify_eq. }
  apply bindM_ok in H as ([] & sf & Ef & H). unfold modify in Ef, H. injection Ef as <-. injection H as <-.
  unfold ahh_max_allowed, rch_max_allowed, zlen. simpl. rewrite !resize_length. split_and!; lia.
Qed.

(* stabilise from inside a node function or a handler: an immediate panic, the state untouched *)
Lemma nested_stabilise_effect fuel arg s :
  st_status s <> NotStabilising -> run_effect fuel arg EStabilise s = (Panic PNestedStabilise, s).
Proof. intros H. unfold run_effect, bindM, gets. cbv beta iota. destruct (st_status s); done. Qed.

(* closing a cycle: when the walk of adjust_heights reaches the node the new edge starts from, it
   panics naming the cycle *)
Lemma dassert_release b site s : debug s = false -> dassert b site s = (Ok tt, s).
Proof. intros Hd. unfold dassert, bindM, gets, ret. cbv beta iota. by rewrite Hd. Qed.

Lemma ensure_height_requirement_cycle oc op child s :
  debug s = false -> (ensure_height_requirement oc op child oc s).1 = Panic PCycle.
Proof.
  intros Hd. unfold ensure_height_requirement.
  erewrite bindM_eq by (by apply dassert_release). erewrite bindM_eq by (by apply dassert_release).
  rewrite bool_decide_eq_true_2 by done. done.
Qed.

(* during the propagation phase (from a node, fold, bind or cutoff function) the call is refused and changes nothing;
   in the handler phase the status is RunningOnUpdateHandlers and the call is served like one from top level *)
Lemma set_max_height_during_propagation N s :
  st_status s = Stabilising -> set_max_height_allowed N s = (Panic PSetMaxDuringStabilise, s).
Proof. intros H. unfold set_max_height_allowed, bindM, gets. cbv beta iota. rewrite H. reflexivity. Qed.

(* what a closure or handler calls is that very function *)
Lemma effect_set_max_height fuel arg N : run_effect fuel arg (ESetMaxHeight N) = set_max_height_allowed N.
Proof. reflexivity. Qed.
