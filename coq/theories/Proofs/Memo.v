(* C20: memoised functions (weak_memoize_fn). *)
From stdpp Require Import base list option numbers.
From RecordUpdate Require Import RecordUpdate.
From Incr.Model Require Import Base Live Engine Api.
From Incr.Proofs Require Import Pres FrameScope.

(* computations that only read: whatever the outcome, the state is the one they started in *)
Definition ro {A} (m : M A) : Prop := forall s, (m s).2 = s.
Lemma ro_ret {A} (a : A) : ro (ret a). Proof. done. Qed.
Lemma ro_panic {A} t : ro (@panic A t). Proof. done. Qed.
Lemma ro_bind {A B} (m : M A) (k : A -> M B) : ro m -> (forall a, ro (k a)) -> ro (bindM m k).
Proof.
  intros Hm Hk s. unfold bindM. specialize (Hm s). destruct (m s) as [[a| |] s1]; simpl in *; subst; [apply Hk|done|done].
Qed.
Lemma ro_get_node n : ro (get_node n).
Proof. intros s. unfold get_node, bindM, get, ret, panic. by destruct (nodes s !! n). Qed.
Lemma ro_get_bind n : ro (get_bind n).
Proof. intros s. unfold get_bind, bindM, get, ret, panic. by destruct (binds s !! n). Qed.
Lemma ro_scope_is_valid sc : ro (scope_is_valid sc).
Proof.
  destruct sc as [|b]; [apply ro_ret|]. unfold scope_is_valid. apply ro_bind; [apply ro_get_bind|]. intros bd.
  apply ro_bind; [destruct (b_live bd); [apply ro_ret|apply ro_panic]|]. intros _.
  apply ro_bind; [apply ro_get_node|]. intros ?. apply ro_ret.
Qed.
Lemma ro_memo_lookup mm k : ro (memo_lookup mm k).
Proof.
  unfold memo_lookup. destruct (assoc_find k (m_table mm)); [|apply ro_ret].
  apply ro_bind; [apply ro_get_node|]. intros ?. apply ro_ret.
Qed.
Lemma ro_run {A} (m : M A) s : ro m -> m s = ((m s).1, s).
Proof. intros H. specialize (H s). destruct (m s) as [r s1]. simpl in *. by subst. Qed.

(* ---- switching scope *)
Lemma Qsc_set_scope s sc : sc ∈ in_play s -> Qsc s (s <| cur_scope := sc |>).
Proof.
  intros Hsc. unfold Qsc, in_play, memo_scopes. simpl. split_and!; try done.
  - intros sc' H. by right.
  - intros i x Hx. exists x. done.
  - intros i x' Hi Hx. apply lookup_lt_Some in Hx. lia.
Qed.
Lemma Qsc_restore s s2 : Qsc s s2 -> Qsc s (s2 <| cur_scope := cur_scope s |>).
Proof. intros (P&M&C&L&O&N&E). unfold Qsc. simpl. split_and!; try done. by left. Qed.

(* what [within_scope] does, for every outcome *)
Lemma within_scope_run {A} sc (f : M A) s :
  within_scope sc f s =
  match (scope_is_valid sc s).1 with
  | Ok true => match f (s <| cur_scope := sc |>) with
               | (Ok a, s2) => (Ok a, s2 <| cur_scope := cur_scope s |>)
               | (Panic t, s2) => (Panic t, s2)
               | (OutOfFuel, s2) => (OutOfFuel, s2)
               end
  | Ok false => (Panic PInvalidScope, s)
  | Panic t => (Panic t, s)
  | OutOfFuel => (OutOfFuel, s)
  end.
Proof.
  unfold within_scope. unfold bindM at 1. rewrite (ro_run _ s (ro_scope_is_valid sc)).
  simpl. destruct ((scope_is_valid sc s).1) as [[|]| |]; reflexivity.
Qed.

Lemma Qsc_within_scope {A} sc (f : M A) s : pres Qsc f -> sc ∈ in_play s -> Qsc s (within_scope sc f s).2.
Proof.
  intros Hf Hsc. rewrite within_scope_run. destruct ((scope_is_valid sc s).1) as [[|]| |]; try reflexivity.
  specialize (Hf (s <| cur_scope := sc |>)).
  destruct (f (s <| cur_scope := sc |>)) as [[a| |] s2]; simpl in *.
  - apply Qsc_restore. etrans; [apply Qsc_set_scope, Hsc|exact Hf].
  - etrans; [apply Qsc_set_scope, Hsc|exact Hf].
  - etrans; [apply Qsc_set_scope, Hsc|exact Hf].
Qed.

Lemma memo_scope_in_play s m mm : memos s !! m = Some mm -> m_scope mm ∈ in_play s.
Proof.
  intros H. right. unfold memo_scopes. apply elem_of_list_fmap. exists mm. split; [done|]. by eapply elem_of_list_lookup_2.
Qed.

(* ---- the frame for templates and memoised calls *)
Lemma sc_instantiate_memo fuel :
  (forall p v b r, pres Qsc (instantiate fuel p v b r)) /\ (forall p m k, pres Qsc (memo_call fuel p m k)).
Proof.
  induction fuel as [|f [IH1 IH2]]; (split; intros; simpl; [go_sc|]).
  - go_sc.
  - (* memo_call *)
    intros s. unfold bindM at 1. unfold get at 1. cbv beta iota.
    destruct (memos s !! m) as [mm|] eqn:Em; [|reflexivity].
    unfold bindM at 1. rewrite (ro_run _ s (ro_memo_lookup mm k)).
    destruct ((memo_lookup mm k s).1) as [[n|]| |]; try reflexivity.
    unfold bindM at 1.
    assert (pres Qsc (user_call;;; emit (EvMemoFn m k);;; instantiate f p (VInt k) (m_body mm) (m_ret mm))) as Hbody by go_sc.
    pose proof (Qsc_within_scope (m_scope mm) _ s Hbody (memo_scope_in_play _ _ _ Em)) as HQ.
    destruct (within_scope (m_scope mm) _ s) as [[[n|]| |] s3]; cbn [snd] in HQ; try exact HQ.
    etrans; [exact HQ|]. apply (pres_bind Qsc (memo_store m k n)); [apply sc_memo_store|]. intros _.
    apply (pres_bind Qsc); [apply (pres_modify Qsc); intros ?; apply Qsc_collect|]. intros _. apply (pres_ret Qsc).
Qed.
Lemma sc_instantiate fuel p v b r : pres Qsc (instantiate fuel p v b r). Proof. apply sc_instantiate_memo. Qed.
Lemma sc_memo_call fuel p m k : pres Qsc (memo_call fuel p m k). Proof. apply sc_instantiate_memo. Qed.

(* ---- what a memoised call does *)
Lemma memo_call_hit f p m k s mm n x :
  memos s !! m = Some mm -> assoc_find k (m_table mm) = Some n -> nodes s !! n = Some x -> n_live x = true ->
  memo_call (S f) p m k s = (Ok n, s).
Proof.
  intros Em Ek Hx Hl. cbn [memo_call]. unfold bindM at 1, get at 1. cbv beta iota. rewrite Em.
  unfold bindM at 1, memo_lookup. rewrite Ek. unfold bindM at 1, get_node, bindM, get. cbv beta iota. rewrite Hx.
  unfold ret. rewrite Hl. reflexivity.
Qed.

(* no entry for the key, or an entry whose node has been freed *)
Definition memo_miss (s : state) (mm : memo) (k : Z) : Prop :=
  match assoc_find k (m_table mm) with
  | None => True
  | Some n => exists x, nodes s !! n = Some x /\ n_live x = false
  end.
Lemma memo_lookup_miss s mm k : memo_miss s mm k -> memo_lookup mm k s = (Ok None, s).
Proof.
  unfold memo_miss, memo_lookup. destruct (assoc_find k (m_table mm)) as [n|]; [|done].
  intros (x & Hx & Hl). unfold bindM, get_node, bindM, get, ret. cbv beta iota. rewrite Hx, Hl. done.
Qed.

Lemma assoc_find_set k n l : assoc_find k (assoc_set k n l) = Some n.
Proof. unfold assoc_set. simpl. by rewrite bool_decide_eq_true_2. Qed.

Lemma bindM_ok' {A B} (m : M A) (k : A -> M B) s b s' :
  bindM m k s = (Ok b, s') -> exists a s1, m s = (Ok a, s1) /\ k a s1 = (Ok b, s').
Proof. unfold bindM. destruct (m s) as [[a| |] s1] eqn:E; intros H; [|done|done]. by exists a, s1. Qed.
Lemma user_call_ok s u s1 : user_call s = (Ok u, s1) -> s1 = s <| inv_count := S (inv_count s) |>.
Proof.
  unfold user_call, bindM, modify, get. cbv beta iota. case_bool_decide; [done|]. unfold ret. intros Hr. by simplify_eq.
Qed.

Lemma memo_call_miss f p m k s mm n s' :
  memos s !! m = Some mm -> memo_miss s mm k -> memo_call (S f) p m k s = (Ok n, s') ->
  (* the underlying function ran, in the scope weak_memoize_fn was called in *)
  (exists s1 s2, cur_scope s1 = m_scope mm /\ events s1 = EvMemoFn m k :: events s /\ nodes s1 = nodes s /\ memos s1 = memos s
     /\ instantiate f p (VInt k) (m_body mm) (m_ret mm) s1 = (Ok (Some n), s2)
     (* the key is bound to the result, and the function's own locals are dropped *)
     /\ s' = (collect (ONode n :: (ONode <$> p))
                (s2 <| cur_scope := cur_scope s |> <| memos := alter (fun mm => mm <| m_table := assoc_set k n (m_table mm) |>) m (memos s2) |>)).2).
Proof.
  intros Em Hmiss H. cbn [memo_call] in H. unfold bindM at 1, get at 1 in H. cbv beta iota in H. rewrite Em in H.
  unfold bindM at 1 in H. rewrite (memo_lookup_miss _ _ _ Hmiss) in H.
  apply bindM_ok' in H as (r & s3 & Hw & H).
  rewrite within_scope_run in Hw.
  destruct ((scope_is_valid (m_scope mm) s).1) as [[|]| |]; try done.
  match type of Hw with context [bindM ?a ?b ?st] => destruct (bindM a b st) as [[r'| |] s2] eqn:Eb; try done end.
  simplify_eq.
  apply bindM_ok' in Eb as (u1 & sa & Hu & Eb). apply user_call_ok in Hu as ->.
  apply bindM_ok' in Eb as (u2 & sb & He & Eb). unfold emit, modify in He. simplify_eq.
  destruct r as [n'|]; [|done].
  unfold memo_store, collect, bindM, modify, ret in H. simplify_eq.
  eexists _, s2. split_and!; [| | | |exact Eb|]; done.
Qed.

(* every node a memoised call creates belongs to a scope in which some weak_memoize_fn was called *)
Lemma memo_call_new_nodes_scope fuel p m k s :
  let s' := (memo_call fuel p m k s).2 in
  forall i x, length (nodes s) <= i -> nodes s' !! i = Some x -> n_created_in x ∈ memo_scopes s.
Proof.
  destruct fuel as [|f]; cbn zeta; [intros i x Hi Hx; apply lookup_lt_Some in Hx; simpl in Hx; lia|].
  cbn [memo_call]. unfold bindM at 1, get at 1. cbv beta iota.
  destruct (memos s !! m) as [mm|] eqn:Em; [|intros i x Hi Hx; apply lookup_lt_Some in Hx; simpl in Hx; lia].
  unfold bindM at 1. rewrite (ro_run _ s (ro_memo_lookup mm k)).
  destruct ((memo_lookup mm k s).1) as [[n|]| |]; try (intros i x Hi Hx; apply lookup_lt_Some in Hx; simpl in Hx; lia).
  unfold bindM at 1. rewrite within_scope_run.
  destruct ((scope_is_valid (m_scope mm) s).1) as [[|]| |]; try (intros i x Hi Hx; apply lookup_lt_Some in Hx; simpl in Hx; lia).
  assert (pres Qsc (user_call;;; emit (EvMemoFn m k);;; instantiate f p (VInt k) (m_body mm) (m_ret mm))) as Hbody.
  { apply (pres_bind Qsc); [unfold user_call; go_sc|]. intros _. apply (pres_bind Qsc); [go_sc|]. intros _. apply sc_instantiate. }
  specialize (Hbody (s <| cur_scope := m_scope mm |>)).
  assert (forall sc, sc ∈ in_play (s <| cur_scope := m_scope mm |>) -> sc ∈ memo_scopes s) as Hsub.
  { intros sc Hsc. unfold in_play in Hsc. simpl in Hsc. apply elem_of_cons in Hsc as [->|Hsc]; [|done].
    apply elem_of_list_fmap. exists mm. split; [done|]. by eapply elem_of_list_lookup_2. }
  destruct Hbody as (_&_&_&_&_&N&_). simpl in N.
  destruct ((user_call;;; emit (EvMemoFn m k);;; instantiate f p (VInt k) (m_body mm) (m_ret mm)) (s <| cur_scope := m_scope mm |>))
    as [[[n|]| |] s2]; simpl in *; intros i x Hi Hx; apply Hsub.
  2-4: eapply N; done.
  (* the collection at the end only clears liveness flags *)
  rewrite list_lookup_imap in Hx. destruct (nodes s2 !! i) as [y|] eqn:Hy; [|done]. simpl in Hx.
  assert (n_created_in x = n_created_in y) as -> by (case_bool_decide; by simplify_eq).
  eapply N; done.
Qed.

(* a successful call is one of the two cases *)
Lemma memo_call_ok_cases f p m k s n s' :
  memo_call (S f) p m k s = (Ok n, s') ->
  exists mm, memos s !! m = Some mm
    /\ ((s' = s /\ assoc_find k (m_table mm) = Some n /\ exists x, nodes s !! n = Some x /\ n_live x = true)
        \/ memo_miss s mm k).
Proof.
  intros H. cbn [memo_call] in H. unfold bindM at 1, get at 1 in H. cbv beta iota in H.
  destruct (memos s !! m) as [mm|] eqn:Em; [|done]. exists mm. split; [done|].
  unfold memo_miss. unfold bindM at 1, memo_lookup in H.
  destruct (assoc_find k (m_table mm)) as [n0|] eqn:Ek; [|by right].
  unfold bindM at 1, get_node, bindM, get in H. cbv beta iota in H.
  destruct (nodes s !! n0) as [x|] eqn:Hx; [|done]. unfold ret in H.
  destruct (n_live x) eqn:Hl.
  - left. simplify_eq. split_and!; try done. by exists x.
  - right. by exists x.
Qed.

Lemma memo_call_restores_scope f p m k s n s' : memo_call (S f) p m k s = (Ok n, s') -> cur_scope s' = cur_scope s.
Proof.
  intros H. destruct (memo_call_ok_cases _ _ _ _ _ _ _ H) as (mm & Em & [(-> & _)|Hmiss]); [done|].
  destruct (memo_call_miss _ _ _ _ _ _ _ _ Em Hmiss H) as (s1 & s2 & _ & _ & _ & _ & _ & ->). done.
Qed.

(* after any successful call the key is bound to the returned node *)
Lemma memo_call_binds_key f p m k s n s' :
  memo_call (S f) p m k s = (Ok n, s') -> exists mm', memos s' !! m = Some mm' /\ assoc_find k (m_table mm') = Some n.
Proof.
  intros H. destruct (memo_call_ok_cases _ _ _ _ _ _ _ H) as (mm & Em & [(-> & Ek & _)|Hmiss]); [by exists mm|].
  destruct (memo_call_miss _ _ _ _ _ _ _ _ Em Hmiss H) as (s1 & s2 & Hc & He & Hn & Hm & Hi & ->). simpl.
  pose proof (sc_instantiate f p (VInt k) (m_body mm) (m_ret mm) s1) as Q. rewrite Hi in Q. destruct Q as (P&_). simpl in P.
  assert (m < length (memos s2)) as Hlt.
  { apply prefix_length in P. unfold memo_scopes in P. rewrite !fmap_length, Hm in P. apply lookup_lt_Some in Em. lia. }
  destruct (lookup_lt_is_Some_2 _ _ Hlt) as [mm2 Hmm2].
  eexists. rewrite list_lookup_alter, Hmm2. split; [reflexivity|]. simpl. apply assoc_find_set.
Qed.

Lemma memo_call_twice f f' p p' m k s n s' x :
  memo_call (S f) p m k s = (Ok n, s') -> nodes s' !! n = Some x -> n_live x = true ->
  memo_call (S f') p' m k s' = (Ok n, s').
Proof.
  intros H Hx Hl. destruct (memo_call_binds_key _ _ _ _ _ _ _ H) as (mm' & Em & Ek). by eapply memo_call_hit.
Qed.

Lemma memo_call_top_scope fuel p m k s :
  Forall (fun mm => m_scope mm = STop) (memos s) ->
  forall i x, length (nodes s) <= i -> nodes (memo_call fuel p m k s).2 !! i = Some x -> n_created_in x = STop.
Proof.
  intros Htop i x Hi Hx. pose proof (memo_call_new_nodes_scope fuel p m k s i x Hi Hx) as Hin.
  unfold memo_scopes in Hin. apply elem_of_list_fmap in Hin as (mm & -> & Hmm).
  rewrite Forall_forall in Htop. apply Htop. by apply elem_of_list_In.
Qed.
