(* C12: the ownership abstraction.  [live_set] is what a reference-counting heap keeps. *)
From stdpp Require Import base list list_numbers option numbers.
From RecordUpdate Require Import RecordUpdate.
From Incr.Model Require Import Base Live.

Lemma filter_sublist' {A} (P : A -> Prop) `{forall x, Decision (P x)} (l : list A) : sublist (filter P l) l.
Proof.
  induction l as [|x l IH]; [done|]. rewrite filter_cons. destruct (decide (P x)).
  - by apply sublist_skip.
  - by apply sublist_cons.
Qed.

Lemma sublist_elem_of' {A} (l1 l2 : list A) x : sublist l1 l2 -> x ∈ l1 -> x ∈ l2.
Proof.
  induction 1 as [|y l1 l2 H IH|y l1 l2 H IH]; [done| |].
  - intros [->|Hx]%elem_of_cons; [by left|right; auto].
  - intros Hx. right. auto.
Qed.

Lemma elem_of_concat {A} (x : A) (ls : list (list A)) : x ∈ concat ls <-> exists l, x ∈ l /\ l ∈ ls.
Proof.
  induction ls as [|l ls IH]; simpl.
  - split; [by intros ?%elem_of_nil|by intros (l & _ & ?%elem_of_nil)].
  - rewrite elem_of_app, IH. split.
    + intros [H|(l' & H1 & H2)]; [exists l; split; [done|by left]|exists l'; split; [done|by right]].
    + intros (l' & H1 & [->|H2]%elem_of_cons); [by left|right; by exists l'].
Qed.

Section fixpoint.
Context (s : state) (rts : list obj).

Definition referenced (cur : list obj) : list obj := rts ++ concat (out_edges s <$> cur).
Definition step_live (cur : list obj) : list obj := filter (fun x => x ∈ referenced cur) cur.

Lemma live_fix_unfold fuel cur :
  live_fix (S fuel) s rts cur =
    if bool_decide (length (step_live cur) = length cur) then cur else live_fix fuel s rts (step_live cur).
Proof. done. Qed.

Lemma step_live_sublist cur : sublist (step_live cur) cur.
Proof. apply filter_sublist'. Qed.

Lemma sublist_same_length {A} (l1 l2 : list A) : sublist l1 l2 -> length l1 = length l2 -> l1 = l2.
Proof.
  induction 1 as [|x l1 l2 H IH|x l1 l2 H IH]; simpl; intros Hl; [done| |].
  - f_equal. apply IH. lia.
  - apply sublist_length in H. lia.
Qed.

Lemma live_fix_sublist fuel : forall cur, sublist (live_fix fuel s rts cur) cur.
Proof.
  induction fuel as [|f IH]; intros cur; [done|]. rewrite live_fix_unfold.
  case_bool_decide; [done|]. etrans; [apply IH|apply step_live_sublist].
Qed.

(* with enough fuel the result is a fixpoint of one refinement step *)
Lemma live_fix_stable fuel : forall cur, length cur < fuel ->
  step_live (live_fix fuel s rts cur) = live_fix fuel s rts cur.
Proof.
  induction fuel as [|f IH]; intros cur Hlen; [lia|]. rewrite live_fix_unfold.
  case_bool_decide as Hl.
  - apply sublist_same_length; [apply step_live_sublist|done].
  - apply IH. pose proof (sublist_length _ _ (step_live_sublist cur)). lia.
Qed.

(* nothing leaks: every object kept is a root or is referenced by an object that is kept *)
Lemma live_fix_referenced fuel cur x : length cur < fuel ->
  x ∈ live_fix fuel s rts cur ->
  x ∈ rts \/ exists y, y ∈ live_fix fuel s rts cur /\ x ∈ out_edges s y.
Proof.
  intros Hlen Hx. rewrite <-(live_fix_stable fuel cur Hlen) in Hx.
  apply elem_of_list_filter in Hx as [Hr _]. unfold referenced in Hr.
  apply elem_of_app in Hr as [Hr|Hr]; [by left|right].
  apply elem_of_concat in Hr as (l & Hxl & Hl). apply elem_of_list_fmap in Hl as (y & -> & Hy).
  by exists y.
Qed.

(* nothing dangles: whatever a kept object references, and was allocated, is kept *)
Lemma live_fix_closed fuel : forall cur x y,
  y ∈ live_fix fuel s rts cur -> x ∈ out_edges s y -> x ∈ cur -> x ∈ live_fix fuel s rts cur.
Proof.
  induction fuel as [|f IH]; intros cur x y Hy Hxy Hx; [done|]. rewrite live_fix_unfold in *.
  case_bool_decide; [done|]. eapply IH; [exact Hy|exact Hxy|].
  apply elem_of_list_filter. split; [|done]. unfold referenced. apply elem_of_app. right.
  apply elem_of_concat. exists (out_edges s y). split; [done|]. apply elem_of_list_fmap. exists y. split; [done|].
  eapply sublist_elem_of'; [|exact Hy]. etrans; [apply live_fix_sublist|apply step_live_sublist].
Qed.

(* roots that were allocated stay allocated *)
Lemma live_fix_roots fuel : forall cur x, x ∈ rts -> x ∈ cur -> x ∈ live_fix fuel s rts cur.
Proof.
  induction fuel as [|f IH]; intros cur x Hr Hx; [done|]. rewrite live_fix_unfold.
  case_bool_decide; [done|]. apply IH; [done|]. apply elem_of_list_filter. split; [|done].
  unfold referenced. apply elem_of_app. by left.
Qed.
End fixpoint.

Definition allocated (s : state) : list obj := filter (fun x => obj_live s x = true) (all_objs s).

Lemma live_set_eq s pins : live_set s pins = live_fix (S (length (allocated s))) s (roots s pins) (allocated s).
Proof. done. Qed.

Lemma live_set_no_leak s pins x :
  x ∈ live_set s pins -> x ∈ roots s pins \/ exists y, y ∈ live_set s pins /\ x ∈ out_edges s y.
Proof. rewrite live_set_eq. apply live_fix_referenced. lia. Qed.

Lemma live_set_no_dangling s pins x y :
  y ∈ live_set s pins -> x ∈ out_edges s y -> x ∈ allocated s -> x ∈ live_set s pins.
Proof. rewrite live_set_eq. apply live_fix_closed. Qed.

Lemma live_set_roots s pins x : x ∈ roots s pins -> x ∈ allocated s -> x ∈ live_set s pins.
Proof. rewrite live_set_eq. apply live_fix_roots. Qed.

Lemma live_set_allocated s pins x : x ∈ live_set s pins -> x ∈ allocated s.
Proof. rewrite live_set_eq. intros H. eapply sublist_elem_of'; [apply live_fix_sublist|exact H]. Qed.

(* ---- [collect] writes exactly that set into the allocation flags *)
Lemma obj_live_collect s pins x :
  obj_live (collect pins s).2 x = (obj_live s x && bool_decide (x ∈ live_set s pins)).
Proof.
  destruct x as [n|b|v|o]; simpl.
  - rewrite list_lookup_imap. destruct (nodes s !! n) as [nd|]; simpl; [|done].
    case_bool_decide; simpl; [by rewrite andb_true_r|by rewrite andb_false_r].
  - rewrite list_lookup_imap. destruct (binds s !! b) as [bd|]; simpl; [|done].
    case_bool_decide; simpl; [by rewrite andb_true_r|by rewrite andb_false_r].
  - rewrite list_lookup_imap. destruct (vars s !! v) as [vr|]; simpl; [|done].
    case_bool_decide; simpl; [by rewrite andb_true_r|by rewrite andb_false_r].
  - rewrite list_lookup_imap. destruct (obss s !! o) as [ob|]; simpl; [|done].
    case_bool_decide; simpl; [by rewrite andb_true_r|by rewrite andb_false_r].
Qed.

Lemma allocated_spec s x : x ∈ allocated s <-> x ∈ all_objs s /\ obj_live s x = true.
Proof. unfold allocated. rewrite elem_of_list_filter. tauto. Qed.

Lemma obj_live_in_all s x : obj_live s x = true -> x ∈ all_objs s.
Proof.
  unfold all_objs. destruct x as [n|b|v|o]; simpl; intros H.
  - destruct (nodes s !! n) eqn:E; [|done]. apply elem_of_app. left.
    apply elem_of_list_fmap. exists n. split; [done|]. apply elem_of_seq. apply lookup_lt_Some in E. lia.
  - destruct (binds s !! b) eqn:E; [|done]. apply elem_of_app. right. apply elem_of_app. left.
    apply elem_of_list_fmap. exists b. split; [done|]. apply elem_of_seq. apply lookup_lt_Some in E. lia.
  - destruct (vars s !! v) eqn:E; [|done]. apply elem_of_app. right. apply elem_of_app. right. apply elem_of_app. left.
    apply elem_of_list_fmap. exists v. split; [done|]. apply elem_of_seq. apply lookup_lt_Some in E. lia.
  - destruct (obss s !! o) eqn:E; [|done]. do 3 (apply elem_of_app; right).
    apply elem_of_list_fmap. exists o. split; [done|]. apply elem_of_seq. apply lookup_lt_Some in E. lia.
Qed.

Lemma collect_live_iff s pins x :
  obj_live (collect pins s).2 x = true <-> x ∈ live_set s pins.
Proof.
  rewrite obj_live_collect, andb_true_iff, bool_decide_eq_true. split; [tauto|].
  intros H. split; [|done]. apply live_set_allocated in H. by apply allocated_spec in H as [_ ?].
Qed.

(* collect changes nothing but allocation flags: in particular not who references whom *)
Lemma out_edges_collect s pins x : out_edges (collect pins s).2 x = out_edges s x.
Proof.
  destruct x as [n|b|v|o]; simpl.
  - rewrite list_lookup_imap. destruct (nodes s !! n) as [nd|]; simpl; [|done]. case_bool_decide; done.
  - rewrite list_lookup_imap. destruct (binds s !! b) as [bd|]; simpl; [|done]. case_bool_decide; done.
  - rewrite list_lookup_imap. destruct (vars s !! v) as [vr|]; simpl; [|done]. case_bool_decide; done.
  - rewrite list_lookup_imap. destruct (obss s !! o) as [ob|]; simpl; [|done]. case_bool_decide; done.
Qed.

(* after a collection: no allocated object holds a strong reference to an object that this collection
   released *)
Lemma collect_no_dangling s pins x y :
  obj_live (collect pins s).2 y = true -> x ∈ out_edges (collect pins s).2 y ->
  obj_live s x = true -> obj_live (collect pins s).2 x = true.
Proof.
  rewrite !collect_live_iff, out_edges_collect. intros Hy Hxy Hx.
  eapply live_set_no_dangling; [exact Hy|exact Hxy|]. apply allocated_spec. split; [by apply obj_live_in_all|done].
Qed.

(* after a collection: every allocated object is held by the program (a handle, the state's own
   containers, a pinned local) or by another allocated object — nothing else survives *)
Lemma collect_no_leak s pins x :
  obj_live (collect pins s).2 x = true ->
  x ∈ roots s pins \/ exists y, obj_live (collect pins s).2 y = true /\ x ∈ out_edges (collect pins s).2 y.
Proof.
  rewrite collect_live_iff. intros H. destruct (live_set_no_leak s pins x H) as [?|(y & Hy & Hxy)]; [by left|right].
  exists y. rewrite collect_live_iff, out_edges_collect. done.
Qed.

(* whatever the program still holds stays allocated *)
Lemma collect_keeps_roots s pins x :
  x ∈ roots s pins -> obj_live s x = true -> obj_live (collect pins s).2 x = true.
Proof.
  intros Hr Hl. rewrite collect_live_iff. apply live_set_roots; [done|].
  apply allocated_spec. split; [by apply obj_live_in_all|done].
Qed.
