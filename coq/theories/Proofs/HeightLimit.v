(* C19: no node is ever higher than the greatest height seen, which never exceeds the greatest height
   allowed (all builds, as long as nothing panicked). *)
From stdpp Require Import base list option numbers.
From RecordUpdate Require Import RecordUpdate.
From Incr.Model Require Import Base Live Engine Api.
From Incr.Proofs Require Import Pres OkPres.

Definition HL (s : state) : Prop :=
  (0 <= ahh_max_seen s)%Z /\ (ahh_max_seen s <= ahh_max_allowed s)%Z
  /\ forall n x, nodes s !! n = Some x -> (n_height x <= ahh_max_seen s)%Z.

Lemma HL_same s s' : nodes s' = nodes s -> ahh_max_seen s' = ahh_max_seen s -> length (ahh_queues s') = length (ahh_queues s) ->
  HL s -> HL s'.
Proof.
  intros H1 H2 H3 (A & B & C). unfold HL, ahh_max_allowed, zlen in *. rewrite H1, H2, H3. done.
Qed.

Lemma HL_alter s s' m f : nodes s' = alter f m (nodes s) -> ahh_max_seen s' = ahh_max_seen s ->
  length (ahh_queues s') = length (ahh_queues s) ->
  (forall x, n_height (f x) = n_height x) -> HL s -> HL s'.
Proof.
  intros H1 H2 H3 Hf (A & B & C). unfold HL, ahh_max_allowed, zlen in *. rewrite H1, H2, H3. split_and!; [done|done|].
  intros n x Hx. destruct (decide (m = n)) as [->|Hne].
  - rewrite list_lookup_alter in Hx. destruct (nodes s !! n) as [y|] eqn:Hy; [|done]. simpl in Hx. injection Hx as <-.
    rewrite Hf. by eapply C.
  - rewrite list_lookup_alter_ne in Hx by done. by eapply C.
Qed.

Lemma HL_app s s' k sc : nodes s' = nodes s ++ [new_node k sc] -> ahh_max_seen s' = ahh_max_seen s ->
  length (ahh_queues s') = length (ahh_queues s) -> HL s -> HL s'.
Proof.
  intros H1 H2 H3 (A & B & C). unfold HL, ahh_max_allowed, zlen in *. rewrite H1, H2, H3. split_and!; [done|done|].
  intros n x Hx. apply lookup_app_Some in Hx as [Hx|[_ Hx]]; [by eapply C|].
  apply list_lookup_singleton_Some in Hx as [_ <-]. simpl. lia.
Qed.

Lemma HL_collect pins s : HL s -> HL (collect pins s).2.
Proof.
  intros (A & B & C). split_and!; [done|done|]. simpl. intros n x Hx. rewrite list_lookup_imap in Hx.
  destruct (nodes s !! n) as [y|] eqn:Hy; [|done]. simpl in Hx. injection Hx as <-.
  specialize (C n y Hy). by case_bool_decide.
Qed.

(* the two writers *)
Lemma hl_set_height n h : okp HL (set_height n h).
Proof.
  intros s u s' (A & B & C) E. unfold set_height in E. unfold bindM at 1, get at 1 in E. cbv beta iota in E.
  case_bool_decide as Hseen.
  - unfold bindM at 1 in E. unfold bindM at 1, modify at 1 in E. cbv beta iota in E.
    unfold ahh_max_allowed at 1 in E. simpl in E. fold (ahh_max_allowed s) in E.
    case_bool_decide as Hlim; [done|]. unfold ret at 1 in E. cbv beta iota in E.
    unfold upd_node, modify in E. simplify_eq. unfold HL, ahh_max_allowed, zlen in *. simpl.
    split_and!; [lia|lia|]. intros m x Hx. destruct (decide (n = m)) as [->|Hne].
    + rewrite list_lookup_alter in Hx. destruct (nodes s !! m) as [y|]; [|done]. simpl in Hx. injection Hx as <-. simpl. lia.
    + rewrite list_lookup_alter_ne in Hx by done. specialize (C m x Hx). lia.
  - unfold bindM at 1, ret at 1 in E. cbv beta iota in E. unfold upd_node, modify in E. simplify_eq.
    unfold HL, ahh_max_allowed, zlen in *. simpl. split_and!; [done|done|].
    intros m x Hx. destruct (decide (n = m)) as [->|Hne].
    + rewrite list_lookup_alter in Hx. destruct (nodes s !! m) as [y|]; [|done]. simpl in Hx. injection Hx as <-. simpl. lia.
    + rewrite list_lookup_alter_ne in Hx by done. by eapply C.
Qed.

Lemma resize_length {A} (l : list A) n d : length (resize l n d) = n.
Proof. unfold resize. rewrite app_length, take_length, replicate_length. lia. Qed.

Lemma hl_ahh_set_max m : okp HL (ahh_set_max_height_allowed m).
Proof.
  intros s u s' (A & B & C) E. unfold ahh_set_max_height_allowed in E.
  unfold bindM at 1, get at 1 in E. cbv beta iota in E. unfold bindM at 1 in E.
  case_bool_decide as Hlow; [done|]. unfold ret at 1 in E. cbv beta iota in E.
  unfold dassert, bindM, gets, get, ret, panic, modify in E. cbv beta iota in E.
  assert (s' = s <| ahh_queues := resize (ahh_queues s) (Z.to_nat (m + 1)) [] |>) as ->.
  { destruct (debug s) eqn:Hd; cbv beta iota in E; [|rewrite Hd in E; cbv beta iota in E; by simplify_eq].
    case_bool_decide; cbv beta iota in E; [|done]. rewrite Hd in E. cbv beta iota in E.
    destruct (forallb _ _); cbv beta iota in E; by simplify_eq. }
  unfold HL, ahh_max_allowed, zlen in *. simpl. rewrite resize_length. split_and!; [done|lia|done].
Qed.

(* the remaining writes to the queues keep their number *)
Lemma HL_ahh_insert s s' i q : nodes s' = nodes s -> ahh_max_seen s' = ahh_max_seen s ->
  ahh_queues s' = <[i := q]> (ahh_queues s) -> HL s -> HL s'.
Proof. intros H1 H2 H3. apply HL_same; [done|done|]. by rewrite H3, insert_length. Qed.

Lemma HL_init N dbg : (0 <= N)%Z -> HL (init_state N dbg).
Proof.
  intros HN. unfold HL, ahh_max_allowed, zlen, init_state. simpl. rewrite replicate_length. split_and!; [done|lia|].
  intros n x Hx. done.
Qed.
