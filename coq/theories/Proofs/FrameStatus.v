(* Frame: nothing below [stabilise] writes the stabilisation status. *)
From stdpp Require Import base list option numbers.
From RecordUpdate Require Import RecordUpdate.
From Incr.Model Require Import Base Live Engine Api.
From Incr.Proofs Require Import Pres.

Definition same {X} (phi : state -> X) : relation state := fun s s' => phi s = phi s'.
Global Instance same_preorder {X} (phi : state -> X) : PreOrder (same phi).
Proof. split; [intros s; reflexivity|intros a b c H1 H2; unfold same in *; congruence]. Qed.

Definition Rst : relation state := same st_status.
Global Instance Rst_preorder : PreOrder Rst := same_preorder _.

Ltac solve_write_st := unfold Rst, same; reflexivity.

Create HintDb pres_st discriminated.

Ltac leaf_st :=
  lazymatch goal with
  | |- pres _ (modify _) => apply (pres_modify Rst); intros ?; solve_write_st
  | |- pres _ (emit _) => apply (pres_modify Rst); intros ?; solve_write_st
  | |- pres _ (upd_node _ _) => apply (pres_modify Rst); intros ?; solve_write_st
  | |- pres _ (stamp_node _ _) => apply (pres_modify Rst); intros ?; solve_write_st
  | |- pres _ (stamp_var _ _) => apply (pres_modify Rst); intros ?; solve_write_st
  | |- pres _ (upd_bind _ _) => apply (pres_modify Rst); intros ?; solve_write_st
  | |- pres _ (upd_var _ _) => apply (pres_modify Rst); intros ?; solve_write_st
  | |- pres _ (upd_obs _ _) => apply (pres_modify Rst); intros ?; solve_write_st
  | |- pres _ (upd_expert _ _) => apply (pres_modify Rst); intros ?; solve_write_st
  | |- pres _ (upd_edge _ _) => apply (pres_modify Rst); intros ?; solve_write_st
  | |- pres _ (upd_perkey _ _) => apply (pres_modify Rst); intros ?; solve_write_st
  | |- pres _ (collect _) => apply (pres_modify Rst); intros ?; solve_write_st
  | |- _ => solve [eauto with pres_st]
  end.
Ltac go_st := repeat (first [pres_step Rst | leaf_st]).

Ltac prim f := intros; unfold f; go_st.

Lemma st_get_node n : pres Rst (get_node n). Proof. prim get_node. Qed.
Lemma st_get_bind n : pres Rst (get_bind n). Proof. prim get_bind. Qed.
Lemma st_get_var n : pres Rst (get_var n). Proof. prim get_var. Qed.
Lemma st_get_obs n : pres Rst (get_obs n). Proof. prim get_obs. Qed.
Global Hint Resolve st_get_node st_get_bind st_get_var st_get_obs : pres_st.
Lemma st_value_of n : pres Rst (value_of n). Proof. prim value_of. Qed.
Global Hint Resolve st_value_of : pres_st.
Lemma st_user_call : pres Rst user_call. Proof. prim user_call. Qed.
Lemma st_get_expert x : pres Rst (get_expert x). Proof. prim get_expert. Qed.
Lemma st_get_edge x : pres Rst (get_edge x). Proof. prim get_edge. Qed.
Lemma st_get_perkey x : pres Rst (get_perkey x). Proof. prim get_perkey. Qed.
Global Hint Resolve st_user_call st_get_expert st_get_edge st_get_perkey : pres_st.
Lemma st_edge_on_change p e : pres Rst (edge_on_change p e). Proof. prim edge_on_change. Qed.
Global Hint Resolve st_edge_on_change : pres_st.
Lemma st_run_edge_callback p x ci : pres Rst (run_edge_callback p x ci). Proof. prim run_edge_callback. Qed.
Lemma st_observability_change p x b : pres Rst (observability_change p x b). Proof. prim observability_change. Qed.
Global Hint Resolve st_run_edge_callback st_observability_change : pres_st.

Lemma st_rch_link n : pres Rst (rch_link n). Proof. prim rch_link. Qed.
Lemma st_rch_unlink n : pres Rst (rch_unlink n). Proof. prim rch_unlink. Qed.
Global Hint Resolve st_rch_link st_rch_unlink : pres_st.
Lemma st_rch_insert n : pres Rst (rch_insert n). Proof. prim rch_insert. Qed.
Lemma st_rch_remove n : pres Rst (rch_remove n). Proof. prim rch_remove. Qed.
Global Hint Resolve st_rch_insert st_rch_remove : pres_st.
Lemma st_rch_scan fuel : pres Rst (rch_scan fuel).
Proof. induction fuel; simpl; go_st. Qed.
Global Hint Resolve st_rch_scan : pres_st.
Lemma st_rch_remove_min : pres Rst rch_remove_min. Proof. prim rch_remove_min. Qed.
Lemma st_rch_raise fuel : pres Rst (rch_raise fuel).
Proof. induction fuel; simpl; go_st. Qed.
Global Hint Resolve st_rch_remove_min st_rch_raise : pres_st.
Lemma st_rch_min_height : pres Rst rch_min_height. Proof. prim rch_min_height. Qed.
Lemma st_rch_increase_height n : pres Rst (rch_increase_height n). Proof. prim rch_increase_height. Qed.
Global Hint Resolve st_rch_min_height st_rch_increase_height : pres_st.

Lemma st_ahh_add_unless_mem n : pres Rst (ahh_add_unless_mem n). Proof. prim ahh_add_unless_mem. Qed.
Lemma st_ahh_scan fuel h : pres Rst (ahh_scan fuel h).
Proof. revert h; induction fuel; intros; simpl; go_st. Qed.
Global Hint Resolve st_ahh_add_unless_mem st_ahh_scan : pres_st.
Lemma st_ahh_remove_min : pres Rst ahh_remove_min. Proof. prim ahh_remove_min. Qed.
Lemma st_set_height n h : pres Rst (set_height n h). Proof. prim set_height. Qed.
Global Hint Resolve st_ahh_remove_min st_set_height : pres_st.
Lemma st_ensure_height_requirement a b c d : pres Rst (ensure_height_requirement a b c d).
Proof. prim ensure_height_requirement. Qed.
Global Hint Resolve st_ensure_height_requirement : pres_st.
Lemma st_ahh_visit a b c : pres Rst (ahh_visit a b c). Proof. prim ahh_visit. Qed.
Global Hint Resolve st_ahh_visit : pres_st.
Lemma st_adjust_heights_loop fuel a b : pres Rst (adjust_heights_loop fuel a b).
Proof. induction fuel; simpl; go_st. Qed.
Global Hint Resolve st_adjust_heights_loop : pres_st.
Lemma st_adjust_heights fuel a b : pres Rst (adjust_heights fuel a b). Proof. prim adjust_heights. Qed.
Lemma st_rch_set_max n : pres Rst (rch_set_max_height_allowed n). Proof. prim rch_set_max_height_allowed. Qed.
Lemma st_ahh_set_max n : pres Rst (ahh_set_max_height_allowed n). Proof. prim ahh_set_max_height_allowed. Qed.
Global Hint Resolve st_adjust_heights st_rch_set_max st_ahh_set_max : pres_st.

Lemma st_add_parent a b c : pres Rst (add_parent a b c). Proof. prim add_parent. Qed.
Lemma st_remove_parent a b c : pres Rst (remove_parent a b c). Proof. prim remove_parent. Qed.
Lemma st_scope_height sc : pres Rst (scope_height sc). Proof. prim scope_height. Qed.
Lemma st_scope_is_necessary sc : pres Rst (scope_is_necessary sc). Proof. prim scope_is_necessary. Qed.
Lemma st_scope_is_valid sc : pres Rst (scope_is_valid sc). Proof. prim scope_is_valid. Qed.
Global Hint Resolve st_add_parent st_remove_parent st_scope_height st_scope_is_necessary st_scope_is_valid : pres_st.
Lemma st_has n : pres Rst (handle_after_stabilisation n). Proof. prim handle_after_stabilisation. Qed.
Global Hint Resolve st_has : pres_st.
Lemma st_maybe_has n : pres Rst (maybe_handle_after_stabilisation n). Proof. prim maybe_handle_after_stabilisation. Qed.
Global Hint Resolve st_maybe_has : pres_st.

Lemma st_became_necessary_both fuel :
  (forall n, pres Rst (became_necessary fuel n))
  /\ (forall a b c, pres Rst (add_parent_without_adjusting_heights fuel a b c)).
Proof.
  induction fuel as [|f [IH1 IH2]]; (split; [intros n|intros a b c]); simpl; go_st.
Qed.
Lemma st_became_necessary fuel n : pres Rst (became_necessary fuel n).
Proof. apply st_became_necessary_both. Qed.
Lemma st_add_parent_wah fuel a b c : pres Rst (add_parent_without_adjusting_heights fuel a b c).
Proof. apply st_became_necessary_both. Qed.
Global Hint Resolve st_became_necessary st_add_parent_wah : pres_st.

Lemma st_remove_children_all fuel :
  (forall n, pres Rst (remove_children fuel n))
  /\ (forall n, pres Rst (check_if_unnecessary fuel n))
  /\ (forall n, pres Rst (became_unnecessary fuel n)).
Proof. induction fuel as [|f (IH1 & IH2 & IH3)]; (split_and!; intros n); simpl; go_st. Qed.
Lemma st_remove_children fuel n : pres Rst (remove_children fuel n).
Proof. apply st_remove_children_all. Qed.
Lemma st_check_if_unnecessary fuel n : pres Rst (check_if_unnecessary fuel n).
Proof. apply st_remove_children_all. Qed.
Lemma st_became_unnecessary fuel n : pres Rst (became_unnecessary fuel n).
Proof. apply st_remove_children_all. Qed.
Global Hint Resolve st_remove_children st_check_if_unnecessary st_became_unnecessary : pres_st.
Lemma st_remove_child_edge fuel a b c : pres Rst (remove_child_edge fuel a b c). Proof. prim remove_child_edge. Qed.
Global Hint Resolve st_remove_child_edge : pres_st.

Lemma st_invalidate_node fuel n : pres Rst (invalidate_node fuel n).
Proof. revert n; induction fuel as [|f IH]; intros n; simpl; go_st. Qed.
Global Hint Resolve st_invalidate_node : pres_st.
Lemma st_invalidate_created fuel l : pres Rst (invalidate_nodes_created_on_rhs fuel l).
Proof. prim invalidate_nodes_created_on_rhs. Qed.
Lemma st_propagate_invalidity fuel : pres Rst (propagate_invalidity fuel).
Proof. induction fuel as [|f IH]; simpl; go_st. Qed.
Global Hint Resolve st_invalidate_created st_propagate_invalidity : pres_st.
Lemma st_state_add_parent fuel a b c : pres Rst (state_add_parent fuel a b c).
Proof. prim state_add_parent. Qed.
Global Hint Resolve st_state_add_parent : pres_st.
Lemma st_change_child_bind_rhs fuel a b c d : pres Rst (change_child_bind_rhs fuel a b c d).
Proof. prim change_child_bind_rhs. Qed.
Global Hint Resolve st_change_child_bind_rhs : pres_st.

Lemma st_did_set_var x : pres Rst (did_set_var_while_not_stabilising x).
Proof. prim did_set_var_while_not_stabilising. Qed.
Global Hint Resolve st_did_set_var : pres_st.
Lemma st_set_var_wns x v : pres Rst (set_var_while_not_stabilising x v).
Proof. prim set_var_while_not_stabilising. Qed.
Lemma st_var_write x f : pres Rst (var_write x f). Proof. prim var_write. Qed.
Lemma st_observer_read o : pres Rst (observer_read o). Proof. prim observer_read. Qed.
Global Hint Resolve st_set_var_wns st_var_write st_observer_read : pres_st.
Lemma st_drop_var_handle x : pres Rst (drop_var_handle x). Proof. prim drop_var_handle. Qed.
Global Hint Resolve st_drop_var_handle : pres_st.
Lemma st_with_var_handle x m : pres Rst m -> pres Rst (with_var_handle x m). Proof. intros; unfold with_var_handle; go_st. Qed.
Lemma st_create_node k : pres Rst (create_node k). Proof. prim create_node. Qed.
Global Hint Resolve st_create_node : pres_st.
Lemma st_create_bind l f : pres Rst (create_bind l f). Proof. prim create_bind. Qed.
Lemma st_resolve l o : pres Rst (resolve l o). Proof. prim resolve. Qed.
Global Hint Resolve st_create_bind st_resolve : pres_st.
Lemma st_memo_new f : pres Rst (memo_new f). Proof. prim memo_new. Qed.
Global Hint Resolve st_memo_new : pres_st.
Lemma st_memo_lookup mm k : pres Rst (memo_lookup mm k). Proof. prim memo_lookup. Qed.
Lemma st_memo_store m k n : pres Rst (memo_store m k n). Proof. prim memo_store. Qed.
Lemma st_within_scope {A} sc (f : M A) : pres Rst f -> pres Rst (within_scope sc f). Proof. intros; unfold within_scope; go_st. Qed.
Global Hint Resolve st_memo_lookup st_memo_store : pres_st.
Global Hint Extern 1 (pres Rst (within_scope _ _)) => (apply st_within_scope; go_st) : pres_st.
Lemma st_instantiate_memo fuel :
  (forall p v b r, pres Rst (instantiate fuel p v b r)) /\ (forall p m k, pres Rst (memo_call fuel p m k)).
Proof. induction fuel as [|f [IH1 IH2]]; (split; intros; simpl; go_st). Qed.
Lemma st_instantiate fuel p v b r : pres Rst (instantiate fuel p v b r). Proof. apply st_instantiate_memo. Qed.
Lemma st_memo_call fuel p m k : pres Rst (memo_call fuel p m k). Proof. apply st_instantiate_memo. Qed.
Global Hint Resolve st_memo_call st_instantiate : pres_st.
Lemma st_assert_running_is_child n : pres Rst (assert_running_is_child n). Proof. prim assert_running_is_child. Qed.
Global Hint Resolve st_assert_running_is_child : pres_st.
Lemma st_expert_make_stale n : pres Rst (expert_make_stale n). Proof. prim expert_make_stale. Qed.
Lemma st_expert_swap n a b c d : pres Rst (expert_swap_children_except_in_kind n a b c d).
Proof. prim expert_swap_children_except_in_kind. Qed.
Global Hint Resolve st_expert_make_stale st_expert_swap : pres_st.
Lemma st_expert_add_dependency fuel n c cb : pres Rst (expert_add_dependency fuel n c cb). Proof. prim expert_add_dependency. Qed.
Global Hint Resolve st_expert_add_dependency : pres_st.
Lemma st_ex_swap_children x a b : pres Rst (ex_swap_children x a b). Proof. prim ex_swap_children. Qed.
Lemma st_ex_pop_child_edge x : pres Rst (ex_pop_child_edge x). Proof. prim ex_pop_child_edge. Qed.
Global Hint Resolve st_ex_swap_children st_ex_pop_child_edge : pres_st.
Lemma st_expert_remove_dependency fuel n e : pres Rst (expert_remove_dependency fuel n e). Proof. prim expert_remove_dependency. Qed.
Lemma st_expert_invalidate fuel n : pres Rst (expert_invalidate fuel n). Proof. prim expert_invalidate. Qed.
Lemma st_upgrade_unwrap n k : pres Rst (upgrade_unwrap n k). Proof. prim upgrade_unwrap. Qed.
Global Hint Resolve st_expert_remove_dependency st_expert_invalidate st_upgrade_unwrap : pres_st.
Lemma st_perkey_visit fuel pk kd : pres Rst (perkey_visit fuel pk kd). Proof. prim perkey_visit. Qed.
Global Hint Resolve st_perkey_visit : pres_st.
Lemma st_perkey_step fuel pk m : pres Rst (perkey_step fuel pk m). Proof. prim perkey_step. Qed.
Global Hint Resolve st_perkey_step : pres_st.
Lemma st_slot_get sl : pres Rst (slot_get sl). Proof. prim slot_get. Qed.
Lemma st_slot_set sl v : pres Rst (slot_set sl v). Proof. prim slot_set. Qed.
Global Hint Resolve st_slot_get st_slot_set : pres_st.
Lemma st_subscribe o h : pres Rst (subscribe o h). Proof. prim subscribe. Qed.
Lemma st_unsubscribe o a b : pres Rst (unsubscribe o a b). Proof. prim unsubscribe. Qed.
Global Hint Resolve st_subscribe st_unsubscribe : pres_st.
Lemma st_with_handle h k : (forall n, pres Rst (k n)) -> pres Rst (with_handle h k). Proof. intros; unfold with_handle; go_st. Qed.
Global Hint Extern 1 (pres Rst (with_handle _ _)) => (apply st_with_handle; intros ?; go_st) : pres_st.
Global Hint Extern 1 (pres Rst (with_var_handle _ _)) => (apply st_with_var_handle; go_st) : pres_st.
Lemma st_set_max_height n : pres Rst (set_max_height_allowed n). Proof. prim set_max_height_allowed. Qed.
Global Hint Resolve st_set_max_height : pres_st.
Lemma st_run_effect fuel a e : pres Rst (run_effect fuel a e).
Proof. destruct e; unfold run_effect; go_st. Qed.
Global Hint Resolve st_run_effect : pres_st.
Lemma st_run_effects fuel a l : pres Rst (run_effects fuel a l). Proof. prim run_effects. Qed.
Lemma st_should_cutoff n c a b : pres Rst (should_cutoff n c a b). Proof. prim should_cutoff. Qed.
Global Hint Resolve st_run_effects st_should_cutoff : pres_st.
Lemma st_child_changed fuel : forall p c ci old, pres Rst (child_changed fuel p c ci old).
Proof. induction fuel as [|f IH]; intros; simpl; go_st. Qed.
Global Hint Resolve st_child_changed : pres_st.
Lemma st_can_recompute_now p c : pres Rst (parent_iter_can_recompute_now p c).
Proof. prim parent_iter_can_recompute_now. Qed.
Global Hint Resolve st_can_recompute_now : pres_st.
Lemma st_mcv_manual fuel n old dc rc : pres Rst (maybe_change_value_manual fuel n old dc rc).
Proof. prim maybe_change_value_manual. Qed.
Global Hint Resolve st_mcv_manual : pres_st.
Lemma st_mcv fuel n v : pres Rst (maybe_change_value fuel n v). Proof. prim maybe_change_value. Qed.
Global Hint Resolve st_mcv : pres_st.
Lemma st_unwrap_value n s : pres Rst (unwrap_value n s). Proof. prim unwrap_value. Qed.
Global Hint Resolve st_unwrap_value : pres_st.
Lemma st_copy_child_bindrhs fuel n c : pres Rst (copy_child_bindrhs fuel n c). Proof. prim copy_child_bindrhs. Qed.
Global Hint Resolve st_copy_child_bindrhs : pres_st.
Lemma st_recompute_body fuel n : pres Rst (recompute_body fuel n). Proof. prim recompute_body. Qed.
Global Hint Resolve st_recompute_body : pres_st.
Lemma st_recompute_one fuel n : pres Rst (recompute_one fuel n). Proof. prim recompute_one. Qed.
Global Hint Resolve st_recompute_one : pres_st.
Lemma st_recompute fuel : forall n, pres Rst (recompute fuel n).
Proof. induction fuel as [|f IH]; intros; simpl; go_st. Qed.
Global Hint Resolve st_recompute : pres_st.

(* Api.v, everything below stabilise *)
Lemma st_observe n : pres Rst (observe n). Proof. prim observe. Qed.
Lemma st_add_new_observers fuel : pres Rst (add_new_observers fuel). Proof. prim add_new_observers. Qed.
Lemma st_unlink_observer fuel o ob : pres Rst (unlink_observer fuel o ob). Proof. prim unlink_observer. Qed.
Global Hint Resolve st_unlink_observer : pres_st.
Lemma st_unlink_disallowed fuel : pres Rst (unlink_disallowed_observers fuel). Proof. prim unlink_disallowed_observers. Qed.
Lemma st_disallow o : pres Rst (disallow_future_use o). Proof. prim disallow_future_use. Qed.
Global Hint Resolve st_observe st_add_new_observers st_unlink_disallowed st_disallow : pres_st.
Lemma st_state_unsubscribe a b : pres Rst (state_unsubscribe a b). Proof. prim state_unsubscribe. Qed.
Lemma st_node_update_of n : pres Rst (node_update_of n). Proof. prim node_update_of. Qed.
Global Hint Resolve st_state_unsubscribe st_node_update_of : pres_st.
Lemma st_really_run o i h n nu : pres Rst (really_run o i h n nu). Proof. prim really_run. Qed.
Global Hint Resolve st_really_run : pres_st.
Lemma st_handler_run o i h n nu now : pres Rst (handler_run o i h n nu now). Proof. prim handler_run. Qed.
Global Hint Resolve st_handler_run : pres_st.
Lemma st_run_all o n nu now : pres Rst (run_all o n nu now). Proof. prim run_all. Qed.
Global Hint Resolve st_run_all : pres_st.
Lemma st_add_on_update_handler n h : pres Rst (add_on_update_handler n h). Proof. prim add_on_update_handler. Qed.
Lemma st_node_really_run n i h nu : pres Rst (node_really_run n i h nu). Proof. prim node_really_run. Qed.
Global Hint Resolve st_add_on_update_handler st_node_really_run : pres_st.
Lemma st_node_handler_run n i h nu now : pres Rst (node_handler_run n i h nu now). Proof. prim node_handler_run. Qed.
Global Hint Resolve st_node_handler_run : pres_st.
Lemma st_run_ouh n nu now : pres Rst (run_on_update_handlers n nu now). Proof. prim run_on_update_handlers. Qed.
Global Hint Resolve st_run_ouh : pres_st.
Lemma st_stabilise_loop fuel : pres Rst (stabilise_loop fuel).
Proof. induction fuel as [|f IH]; simpl; go_st. Qed.
Global Hint Resolve st_stabilise_loop : pres_st.

Lemma st_stabilise_start_links fuel : pres Rst (stabilise_start_links fuel).
Proof. prim stabilise_start_links. Qed.
Lemma st_stabilise_end_prepare : pres Rst stabilise_end_prepare. Proof. prim stabilise_end_prepare. Qed.
Lemma st_stabilise_end_run_handlers : pres Rst stabilise_end_run_handlers.
Proof. prim stabilise_end_run_handlers. Qed.
Global Hint Resolve st_stabilise_start_links st_stabilise_end_prepare st_stabilise_end_run_handlers : pres_st.

(* ------------------------------------------------------------------ consequences *)
Definition is_ok {A} (r : res A) : bool := match r with Ok _ => true | _ => false end.

Lemma pres_status {A} (m : M A) s : pres Rst m -> st_status (m s).2 = st_status s.
Proof. intros H. symmetry. apply H. Qed.

(* a failing [m ;;; k]: either [m] failed, or [m] succeeded and [k] failed from m's final state *)
Lemma bindM_fail {A B} (m : M A) (k : A -> M B) s :
  is_ok (bindM m k s).1 = false ->
  (is_ok (m s).1 = false /\ (bindM m k s).2 = (m s).2)
  \/ (exists a, (m s).1 = Ok a /\ bindM m k s = k a (m s).2).
Proof.
  unfold bindM. destruct (m s) as [[a| |] s'] eqn:E; simpl; intros H.
  - right. by exists a.
  - by left.
  - by left.
Qed.

Lemma modify_ok f s : modify f s = (Ok tt, f s). Proof. done. Qed.

(* stabilise_end fails only in its first two phases, where the status is Stabilising resp.
   RunningOnUpdateHandlers *)
Lemma stabilise_end_fail s :
  is_ok (stabilise_end s).1 = false ->
  st_status (stabilise_end s).2 = st_status s
  \/ st_status (stabilise_end s).2 = RunningOnUpdateHandlers.
Proof.
  pose proof (pres_status _ s st_stabilise_end_prepare) as H1.
  unfold stabilise_end, bindM, modify. cbv beta iota.
  destruct (stabilise_end_prepare s) as [[[]| |] s1] eqn:E1; simpl in *; [|by left..].
  pose proof (pres_status _ (s1 <| st_status := RunningOnUpdateHandlers |>) st_stabilise_end_run_handlers) as H2.
  destruct (stabilise_end_run_handlers _) as [[[]| |] s3] eqn:E2; simpl in *; [done|by right..].
Qed.

(* C13: if stabilise does not return normally, the state is left poisoned *)
Lemma stabilise_unfold fuel s :
  stabilise fuel s = match st_status s with
                     | NotStabilising => (stabilise_start fuel ;;; stabilise_loop fuel ;;; stabilise_end) s
                     | _ => (Panic PNestedStabilise, s)
                     end.
Proof. unfold stabilise. unfold bindM at 1. simpl. by destruct (st_status s). Qed.

Lemma stabilise_fail_poisons fuel s :
  is_ok (stabilise fuel s).1 = false -> st_status (stabilise fuel s).2 <> NotStabilising.
Proof.
  rewrite stabilise_unfold.
  destruct (st_status s) eqn:Est; [|simpl; congruence|simpl; congruence].
  unfold stabilise_start, bindM, modify. cbv beta iota.
  set (s0 := s <| st_status := Stabilising |>).
  pose proof (pres_status _ s0 (st_stabilise_start_links fuel)) as H1.
  destruct (stabilise_start_links fuel s0) as [[[]| |] s1] eqn:E1; simpl in *; [|congruence..].
  pose proof (pres_status _ s1 (st_stabilise_loop fuel)) as H2.
  destruct (stabilise_loop fuel s1) as [[[]| |] s2] eqn:E2; simpl in *; [|congruence..].
  intros H. destruct (stabilise_end_fail s2) as [H3|H3].
  - destruct (stabilise_end s2) as [[[]| |] ?]; done.
  - destruct (stabilise_end s2) as [[[]| |] ?]; simpl in *; congruence.
  - destruct (stabilise_end s2) as [[[]| |] ?]; simpl in *; congruence.
Qed.

(* a poisoned state refuses to stabilise, and is left exactly as it was *)
Lemma stabilise_refuses fuel s :
  st_status s <> NotStabilising -> stabilise fuel s = (Panic PNestedStabilise, s).
Proof. intros H. rewrite stabilise_unfold. destruct (st_status s); done. Qed.

(* while the status is Stabilising every read is refused *)
Lemma read_refused o s ob :
  obss s !! o = Some ob -> st_status s = Stabilising ->
  observer_read o s = (Ok (inr ERR_CURRENTLY_STABILISING), s).
Proof.
  intros Ho Hst. unfold observer_read, get_obs, bindM, get, gets, ret. cbv beta iota. rewrite Ho.
  cbv beta iota. rewrite Hst. done.
Qed.

Lemma st_hnode_get st h : pres Rst (hnode_get st h). Proof. prim hnode_get. Qed.
Global Hint Resolve st_hnode_get : pres_st.

(* no operation of the API resets the status of a poisoned state *)
Lemma step_keeps_poison fuel st o s :
  st_status s <> NotStabilising -> st_status (step fuel st o s).2 = st_status s.
Proof.
  intros Hp. destruct o; try (solve [apply pres_status; unfold step; go_st]).
  (* OpStabilise *)
  cbn [step]. unfold bindM. rewrite stabilise_refuses by done. done.
Qed.

Lemma collect_status pins s : st_status (collect pins s).2 = st_status s.
Proof. done. Qed.

Lemma end_of_op_status s : st_status (end_of_op s) = st_status s.
Proof. done. Qed.

Local Opaque collect step end_of_op.
(* ... hence every state of the rest of the history is poisoned *)
Lemma run_keeps_poison fuel ops : forall st s,
  st_status s <> NotStabilising ->
  Forall (fun e => st_status e.2 = st_status s) (run fuel ops st s).
Proof.
  induction ops as [|o ops IH]; intros st s Hp; simpl; [constructor|].
  assert (st_status (s <| events := [] |>) <> NotStabilising) as Hp0 by done.
  pose proof (step_keeps_poison fuel st o _ Hp0) as Hst.
  destruct (step fuel st o (s <| events := [] |>)) as [r s1] eqn:E. simpl in Hst.
  assert (st_status (end_of_op s1) <> NotStabilising) as Hp1 by (rewrite end_of_op_status; congruence).
  assert (forall st', Forall (fun e => st_status e.2 = st_status s) (run fuel ops st' (end_of_op s1))) as Hrest.
  { intros st'. eapply Forall_impl; [|exact (IH st' _ Hp1)].
    intros [[? ?] sx] He; simpl in *. rewrite He, end_of_op_status. done. }
  destruct r as [[st' out]| |]; simpl.
  all: constructor; [simpl; rewrite end_of_op_status; done|apply Hrest].
Qed.

Local Transparent step.
(* in a state poisoned during propagation every read of the rest of the history is refused *)
Lemma step_read_refused fuel st o s :
  st_status s = Stabilising ->
  (step fuel st (OpRead o) s).1 = Ok (st, OutRead (inr ERR_CURRENTLY_STABILISING))
  \/ (step fuel st (OpRead o) s).1 = Panic (PModelGap 4).
Proof.
  intros Hst. cbn [step]. unfold bindM.
  destruct (obss s !! o) as [ob|] eqn:Ho.
  - left. rewrite (read_refused o s ob Ho Hst). done.
  - right. unfold observer_read, get_obs, bindM, get. cbv beta iota. rewrite Ho. done.
Qed.
Local Opaque step.

Lemma run_reads_refused fuel ops : forall st s,
  st_status s = Stabilising ->
  Forall2 (fun o e => match o with
                      | OpRead _ => e.1.1 = Ok (OutRead (inr ERR_CURRENTLY_STABILISING))
                                    \/ e.1.1 = Panic (PModelGap 4)
                      | _ => True
                      end) ops (run fuel ops st s).
Proof.
  induction ops as [|o ops IH]; intros st s Hst; simpl; [constructor|].
  assert (st_status (s <| events := [] |>) = Stabilising) as Hst0 by done.
  assert (st_status (s <| events := [] |>) <> NotStabilising) as Hp0 by (rewrite Hst0; done).
  pose proof (step_keeps_poison fuel st o _ Hp0) as Hk.
  assert (forall o' r' s', st_status (s <| events := [] |>) = Stabilising ->
            step fuel st (OpRead o') (s <| events := [] |>) = (r', s') ->
            r' = Ok (st, OutRead (inr ERR_CURRENTLY_STABILISING)) \/ r' = Panic (PModelGap 4)) as Hr.
  { intros o' r' s' Hs' E'. pose proof (step_read_refused fuel st o' _ Hs') as H. rewrite E' in H. exact H. }
  destruct (step fuel st o (s <| events := [] |>)) as [r s1] eqn:E. simpl in Hk.
  assert (st_status (end_of_op s1) = Stabilising) as H1 by (rewrite end_of_op_status; congruence).
  destruct r as [[st' out]| |]; simpl; (constructor; [|apply IH; done]).
  all: destruct o; try done.
  all: destruct (Hr _ _ _ Hst0 E) as [Hr'|Hr']; simplify_eq; simpl; auto.
Qed.
