(* Sorted association lists as maps: lookup, insert, remove, extensionality. *)
From stdpp Require Import base list option numbers sorting.
From Incr.Model Require Import SymDiff MapOps.
From Incr.Proofs Require Import SymDiffProofs.

Section maps.
Context {V : Type}.
Implicit Types m : list (Z * V).

Definition smap m : Prop := StronglySorted Z.lt (keys m).

Lemma smap_nil : smap ([] : list (Z * V)). Proof. constructor. Qed.
Lemma smap_cons_inv k v m : smap ((k, v) :: m) -> smap m /\ Forall (fun j => k < j)%Z (keys m).
Proof. intros H. by apply StronglySorted_inv in H. Qed.
Lemma smap_cons k v m : smap m -> Forall (fun j => k < j)%Z (keys m) -> smap ((k, v) :: m).
Proof. intros. by constructor. Qed.

Lemma get_lt_None m k : Forall (fun j => k < j)%Z (keys m) -> assoc_get m k = None.
Proof.
  induction m as [|[k' v] m IH]; [done|]. intros [H1 H2]%Forall_cons. simpl in *.
  rewrite bool_decide_eq_false_2 by lia. by apply IH.
Qed.

Lemma get_Some_in m k v : assoc_get m k = Some v -> k ∈ keys m.
Proof.
  induction m as [|[k' v'] m IH]; [done|]. simpl. case_bool_decide; subst.
  - intros _. apply elem_of_cons. by left.
  - intros Hg. apply elem_of_cons. right. by apply IH.
Qed.

(* two sorted maps with the same lookups are equal *)
Lemma smap_ext m1 m2 : smap m1 -> smap m2 -> (forall k, assoc_get m1 k = assoc_get m2 k) -> m1 = m2.
Proof.
  revert m2. induction m1 as [|[k1 v1] m1 IH]; intros m2 H1 H2 Hext.
  - destruct m2 as [|[k2 v2] m2]; [done|]. specialize (Hext k2). simpl in Hext.
    rewrite bool_decide_eq_true_2 in Hext by done. done.
  - destruct m2 as [|[k2 v2] m2].
    { specialize (Hext k1). simpl in Hext. rewrite bool_decide_eq_true_2 in Hext by done. done. }
    apply smap_cons_inv in H1 as [S1 L1]. apply smap_cons_inv in H2 as [S2 L2].
    assert (k1 = k2) as ->.
    { destruct (Z.lt_trichotomy k1 k2) as [Hlt|[->|Hgt]]; [|done|].
      - pose proof (Hext k1) as E. simpl in E. rewrite bool_decide_eq_true_2 in E by done.
        rewrite bool_decide_eq_false_2 in E by lia. symmetry in E. apply get_Some_in in E.
        eapply Forall_forall in L2; [|exact E]. lia.
      - pose proof (Hext k2) as E. simpl in E. rewrite (bool_decide_eq_true_2 (k2 = k2)) in E by done.
        rewrite bool_decide_eq_false_2 in E by lia. apply get_Some_in in E.
        eapply Forall_forall in L1; [|exact E]. lia. }
    pose proof (Hext k2) as E. simpl in E. rewrite !bool_decide_eq_true_2 in E by done. injection E as ->.
    f_equal. apply IH; [done|done|]. intros k. specialize (Hext k). simpl in Hext.
    case_bool_decide; [|done]. subst. rewrite !get_lt_None; done.
Qed.

(* ---- insert *)
Lemma keys_insert_elem k v m j : j ∈ keys (m_insert k v m) <-> j = k \/ j ∈ keys m.
Proof.
  induction m as [|[k' v'] m IH]; simpl.
  - unfold keys. simpl. rewrite elem_of_list_singleton, elem_of_nil. tauto.
  - repeat case_bool_decide; subst; unfold keys in *; simpl; rewrite ?elem_of_cons, ?IH; tauto.
Qed.

Lemma smap_insert k v m : smap m -> smap (m_insert k v m).
Proof.
  induction m as [|[k' v'] m IH]; intros Hs; simpl.
  - apply smap_cons; [constructor|constructor].
  - apply smap_cons_inv in Hs as [Hs Hl]. repeat case_bool_decide; subst.
    + apply smap_cons; [by apply smap_cons|]. unfold keys. simpl. constructor; [done|].
      eapply Forall_impl; [exact Hl|]. simpl. lia.
    + by apply smap_cons.
    + apply smap_cons; [by apply IH|]. apply Forall_forall. intros j Hj.
      apply keys_insert_elem in Hj as [->|Hj]; [lia|]. eapply Forall_forall in Hl; [|exact Hj]. done.
Qed.

Lemma get_insert k v m j : assoc_get (m_insert k v m) j = if bool_decide (j = k) then Some v else assoc_get m j.
Proof.
  induction m as [|[k' v'] m IH]; simpl.
  - repeat case_bool_decide; subst; done.
  - repeat case_bool_decide; subst; simpl; repeat case_bool_decide; subst; try done; try lia.
    all: rewrite IH; repeat case_bool_decide; subst; done.
Qed.

(* ---- remove *)
Lemma keys_remove_sub k m j : j ∈ keys (m_remove k m) -> j ∈ keys m.
Proof.
  induction m as [|[k' v'] m IH]; simpl; [done|]. case_bool_decide; subst; unfold keys in *; simpl.
  - intros Hg. apply elem_of_cons. by right.
  - rewrite !elem_of_cons. intros [->|Hg]; [by left|right; by apply IH].
Qed.

Lemma smap_remove k m : smap m -> smap (m_remove k m).
Proof.
  induction m as [|[k' v'] m IH]; intros Hs; simpl; [done|].
  apply smap_cons_inv in Hs as [Hs Hl]. case_bool_decide; subst; [done|].
  apply smap_cons; [by apply IH|]. apply Forall_forall. intros j Hj%keys_remove_sub.
  eapply Forall_forall in Hl; [|exact Hj]. done.
Qed.

Lemma get_remove k m j : smap m -> assoc_get (m_remove k m) j = if bool_decide (j = k) then None else assoc_get m j.
Proof.
  induction m as [|[k' v'] m IH]; intros Hs; simpl.
  - by case_bool_decide.
  - apply smap_cons_inv in Hs as [Hs Hl]. destruct (decide (k = k')) as [->|Hne].
    + rewrite bool_decide_eq_true_2 by done. destruct (decide (j = k')) as [->|Hj].
      * rewrite !bool_decide_eq_true_2 by done. by apply get_lt_None.
      * rewrite bool_decide_eq_false_2 by done. rewrite (bool_decide_eq_false_2 (k' = j)) by done. done.
    + rewrite bool_decide_eq_false_2 by done. simpl. destruct (decide (k' = j)) as [->|Hj].
      * rewrite bool_decide_eq_true_2 by done. rewrite bool_decide_eq_false_2 by done. done.
      * rewrite bool_decide_eq_false_2 by done. by apply IH.
Qed.
End maps.
