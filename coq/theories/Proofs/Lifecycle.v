(* C10: the observer lifecycle. *)
From stdpp Require Import base list option numbers.
From RecordUpdate Require Import RecordUpdate.
From Incr.Model Require Import Base Live Engine Api.
From Incr.Proofs Require Import Pres FrameStatus FrameGone Reads.

Lemma get_obs_ok o s a s' : get_obs o s = (Ok a, s') -> s' = s /\ obss s !! o = Some a.
Proof. unfold get_obs, bindM, get, ret, panic. destruct (obss s !! o); intros H; by simplify_eq. Qed.

Lemma get_obs_state o s : (get_obs o s).2 = s.
Proof. unfold get_obs, bindM, get, ret, panic. by destruct (obss s !! o). Qed.

Lemma Rgone_alter_at s s' o f ob :
  obss s !! o = Some ob -> obss s' = alter f o (obss s) -> obs_gone_mono ob (f ob) -> Rgone s s'.
Proof.
  intros Ho H Hf o' ob' Ho'. rewrite H. destruct (decide (o = o')) as [->|Hne].
  - rewrite Ho in Ho'. injection Ho' as <-. exists (f ob). rewrite list_lookup_alter, Ho. done.
  - exists ob'. rewrite list_lookup_alter_ne by done. done.
Qed.

(* add_new_observers is the only place that writes InUse, and it does so on a Created observer *)
Lemma gone_add_new_observers fuel : pres Rgone (add_new_observers fuel).
Proof.
  unfold add_new_observers.
  apply (pres_bind Rgone); [go_gone|intros s0].
  apply (pres_bind Rgone); [go_gone|intros _].
  apply (pres_forM_ Rgone). intros x.
  intros s. unfold bindM at 1. pose proof (get_obs_state x s) as Hs.
  destruct (get_obs x s) as [[ob| |] sx] eqn:E; simpl in Hs; subst sx; [|reflexivity..].
  apply get_obs_ok in E as [_ Ho]. cbv beta iota.
  destruct (negb (o_live ob)); [reflexivity|].
  destruct (o_state ob) eqn:Est; try reflexivity.
  (* Created -> InUse, then code that does not touch lifecycle states *)
  unfold bindM at 1. unfold upd_obs at 1, modify at 1. cbv beta iota.
  transitivity (s <| obss := alter (fun ob => ob <| o_state := OInUse |>) x (obss s) |>).
  { eapply (Rgone_alter_at s _ x _ ob); [exact Ho|reflexivity|].
    split; [done|]. rewrite Est. intros [?|?]; done. }
  match goal with |- Rgone ?s1 (?m ?s1).2 => assert (pres Rgone m) as P by go_gone; apply P end.
Qed.
Global Hint Resolve gone_add_new_observers : pres_gone.

Lemma gone_stabilise_start_links fuel : pres Rgone (stabilise_start_links fuel).
Proof. unfold stabilise_start_links. go_gone. Qed.
Global Hint Resolve gone_stabilise_start_links : pres_gone.
Lemma gone_stabilise_start fuel : pres Rgone (stabilise_start fuel). Proof. unfold stabilise_start. go_gone. Qed.
Lemma gone_stabilise_end : pres Rgone stabilise_end. Proof. unfold stabilise_end. go_gone. Qed.
Global Hint Resolve gone_stabilise_start gone_stabilise_end : pres_gone.
Lemma gone_stabilise fuel : pres Rgone (stabilise fuel). Proof. unfold stabilise. go_gone. Qed.
Lemma gone_hnode_get st h : pres Rgone (hnode_get st h). Proof. unfold hnode_get. go_gone. Qed.
Global Hint Resolve gone_stabilise gone_hnode_get : pres_gone.
Lemma gone_step fuel st o : pres Rgone (step fuel st o).
Proof. destruct o; unfold step; go_gone. Qed.

Lemma run_gone fuel ops : forall st s, Forall (fun e => Rgone s e.2) (run fuel ops st s).
Proof.
  induction ops as [|o ops IH]; intros st s; simpl; [constructor|].
  assert (Rgone s (s <| events := [] |>)) as H0 by (apply Rgone_obss; reflexivity).
  pose proof (gone_step fuel st o (s <| events := [] |>)) as H1.
  destruct (step fuel st o (s <| events := [] |>)) as [r s1] eqn:E. simpl in H1.
  assert (Rgone s1 (end_of_op s1)) as H2.
  { unfold end_of_op. etrans; [apply Rgone_collect|]. apply Rgone_obss. reflexivity. }
  assert (Rgone s (end_of_op s1)) as H3 by (etrans; [exact H0|]; etrans; [exact H1|exact H2]).
  destruct r as [[st' out]| |]; simpl; (constructor; [exact H3|]).
  all: eapply Forall_impl; [|apply IH]; intros e He; simpl in *; etrans; [exact H3|exact He].
Qed.

(* once an observer is disallowed (explicitly, or by dropping its last handle) it stays so through
   any history, and every read of it answers Disallowed (or CurrentlyStabilising while poisoned) *)
Lemma disallowed_forever fuel ops st s o ob :
  obss s !! o = Some ob -> gone (o_state ob) ->
  Forall (fun e => read_result e.2 o = Ok (inr ERR_DISALLOWED)
                   \/ read_result e.2 o = Ok (inr ERR_CURRENTLY_STABILISING)) (run fuel ops st s).
Proof.
  intros Ho Hg. eapply Forall_impl; [|exact (run_gone fuel ops st s)].
  intros e He. destruct (He o ob Ho) as (ob' & Ho' & _ & Hg'). specialize (Hg' Hg).
  unfold read_result. rewrite (observer_read_eq o _ ob' Ho'). cbn [fst].
  destruct (st_status e.2); [left|right; done|left]; destruct Hg' as [-> | ->]; done.
Qed.

(* ... and subscribing to it fails with Disallowed, leaving the state untouched *)
Lemma subscribe_gone o h s ob :
  obss s !! o = Some ob -> gone (o_state ob) -> subscribe o h s = (Ok (inr ERR_DISALLOWED), s).
Proof.
  intros Ho Hg. unfold subscribe, get_obs, bindM, get, gets, ret. cbv beta iota. rewrite Ho. cbv beta iota.
  destruct Hg as [-> | ->]; done.
Qed.

(* unsubscribing with a token of another observer is rejected with Mismatch and changes nothing *)
Lemma unsubscribe_mismatch o to tok s : to <> o -> unsubscribe o to tok s = (Ok ERR_MISMATCH, s).
Proof. intros Hne. unfold unsubscribe. rewrite bool_decide_eq_false_2 by done. done. Qed.

(* unsubscribing through the state after the observer is gone from all_observers is a no-op *)
Lemma state_unsubscribe_gone to tok s : to ∉ all_obs s -> state_unsubscribe to tok s = (Ok tt, s).
Proof.
  intros Hn. unfold state_unsubscribe, bindM, get. cbv beta iota. rewrite bool_decide_eq_false_2 by done. done.
Qed.

(* clones share one lifecycle: dropping a handle that is not the last one changes nothing but the count *)
Lemma drop_clone_keeps_state fuel st o s ob :
  obss s !! o = Some ob -> (1 < o_handles ob)%nat ->
  step fuel st (OpDropObs o) s
  = (Ok (st, OutUnit), s <| obss := alter (fun ob => ob <| o_handles := pred (o_handles ob) |>) o (obss s) |>).
Proof.
  intros Ho Hh. cbn [step]. unfold get_obs, bindM, get, ret, upd_obs, modify. cbv beta iota. rewrite Ho. cbv beta iota.
  rewrite bool_decide_eq_false_2 by lia. done.
Qed.

(* disallow / dropping the last handle touch no other observer's record, no node and not the status *)
Lemma disallow_frame_others o s :
  st_status (disallow_future_use o s).2 = st_status s
  /\ nodes (disallow_future_use o s).2 = nodes s
  /\ forall o', o' <> o -> obss (disallow_future_use o s).2 !! o' = obss s !! o'.
Proof.
  unfold disallow_future_use, get_obs, bindM, get, ret, panic, upd_obs, modify. cbv beta iota.
  destruct (obss s !! o) as [ob|] eqn:Ho; cbv beta iota; [|done].
  destruct (o_state ob); cbv beta iota; simpl; split_and!; try done.
  all: intros o' Hne; by rewrite list_lookup_alter_ne.
Qed.
