(* C14: the children vector of an expert node and the index cells of its edges. *)
From stdpp Require Import base list option numbers.
From RecordUpdate Require Import RecordUpdate.
From Incr.Model Require Import Base Live Engine Api.
From Incr.Proofs Require Import Pres FrameDeps.

Lemma bindM_okE {A B} (m : M A) (k : A -> M B) s b s' :
  bindM m k s = (Ok b, s') -> exists a s1, m s = (Ok a, s1) /\ k a s1 = (Ok b, s').
Proof. unfold bindM. destruct (m s) as [[a| |] s1] eqn:E; intros H; [|done|done]. by exists a, s1. Qed.
Lemma get_node_okE n s a s' : get_node n s = (Ok a, s') -> s' = s /\ nodes s !! n = Some a.
Proof. unfold get_node, bindM, get, ret, panic. destruct (nodes s !! n); intros H; by simplify_eq. Qed.
Lemma get_expert_okE x s a s' : get_expert x s = (Ok a, s') -> s' = s /\ experts s !! x = Some a.
Proof. unfold get_expert, bindM, get, ret, panic. destruct (experts s !! x); intros H; by simplify_eq. Qed.
Lemma get_edge_okE e s a s' : get_edge e s = (Ok a, s') -> s' = s /\ edges s !! e = Some a.
Proof. unfold get_edge, bindM, get, ret, panic. destruct (edges s !! e); intros H; by simplify_eq. Qed.
Lemma pres_run {A} R (m : M A) s r s' : pres R m -> m s = (r, s') -> R s s'.
Proof. intros P E. specialize (P s). by rewrite E in P. Qed.

(* the children vector lists distinct edges, and the index cell of the i-th one says i *)
Definition children_ok (s : state) (x : nat) : Prop :=
  exists ex, experts s !! x = Some ex /\ NoDup (ex_children ex)
    /\ forall i e, ex_children ex !! i = Some e ->
         exists ed, edges s !! e = Some ed /\ ed_index ed = Some (Z.of_nat i).

Lemma children_of_dep s s' x ex : Rdep s s' -> experts s !! x = Some ex ->
  exists ex', experts s' !! x = Some ex' /\ ex_children ex' = ex_children ex.
Proof.
  intros [H _] Hx. assert ((ex_children <$> experts s') !! x = (ex_children <$> experts s) !! x) as E by (by rewrite H).
  rewrite !list_lookup_fmap, Hx in E. simpl in E. destruct (experts s' !! x) as [ex'|]; [|done]. simpl in E. exists ex'. split; congruence.
Qed.
Lemma edge_dep s s' e ed : Rdep s s' -> edges s !! e = Some ed ->
  exists ed', edges s' !! e = Some ed' /\ ed_index ed' = ed_index ed /\ ed_child ed' = ed_child ed.
Proof.
  intros [_ H] He. assert ((edge_core <$> edges s') !! e = (edge_core <$> edges s) !! e) as E by (by rewrite H).
  rewrite !list_lookup_fmap, He in E. simpl in E. destruct (edges s' !! e) as [ed'|]; [|done]. simpl in E.
  unfold edge_core in E. exists ed'. split; [done|]. split; congruence.
Qed.
Lemma children_ok_dep s s' x : Rdep s s' -> children_ok s x -> children_ok s' x.
Proof.
  intros R (ex & Hx & Hnd & Hi). destruct (children_of_dep _ _ _ _ R Hx) as (ex' & Hx' & Hc).
  exists ex'. rewrite Hc. split_and!; try done. intros i e Hie. destruct (Hi i e Hie) as (ed & He & Hidx).
  destruct (edge_dep _ _ _ _ R He) as (ed' & He' & Hidx' & _). exists ed'. split; congruence.
Qed.

(* ---- add_dependency appends a fresh edge *)
Lemma add_dependency_children fuel n child cb s eid s' x nd :
  nodes s !! n = Some nd -> node_kind nd = Some (KExpert x) -> children_ok s x ->
  expert_add_dependency fuel n child cb s = (Ok eid, s') ->
  eid = length (edges s)
  /\ (exists ex ex', experts s !! x = Some ex /\ experts s' !! x = Some ex' /\ ex_children ex' = ex_children ex ++ [eid])
  /\ (exists ed, edges s' !! eid = Some ed /\ ed_child ed = child)
  /\ children_ok s' x.
Proof.
  intros Hn Hk (ex & Hx & Hnd & Hi) H. unfold expert_add_dependency in H.
  unfold bindM at 1, get at 1 in H. cbv beta iota in H.
  apply bindM_okE in H as (nd' & s0 & E0 & H). apply get_node_okE in E0 as [-> Hn']. simplify_eq. rewrite Hk in H.
  apply bindM_okE in H as (ex0 & s0 & E0 & H). apply get_expert_okE in E0 as [-> Hx0]. simplify_eq.
  apply bindM_okE in H as ([] & s1 & E1 & H). unfold modify in E1. injection E1 as <-.
  apply bindM_okE in H as ([] & s2 & E2 & H). unfold upd_expert, modify in E2. injection E2 as <-.
  match type of H with bindM ?a ?k ?st = _ => set (s2 := st) in * end.
  set (eid0 := length (edges s)) in *.
  set (ex' := ex <| ex_children := ex_children ex ++ [eid0] |> <| ex_force_stale := true |>).
  assert (experts s2 !! x = Some ex') as Hx2.
  { subst s2. simpl. rewrite list_lookup_alter, Hx. done. }
  assert (edges s2 = edges s ++ [Edge child cb (Some (zlen (ex_children ex))) None]) as He2 by done.
  assert (children_ok s2 x) as Hok2.
  { exists ex'. split; [done|]. split.
    - simpl. apply NoDup_app. split; [done|]. split; [|apply NoDup_singleton].
      intros e He ->%elem_of_list_singleton. apply elem_of_list_lookup in He as [i Hie].
      destruct (Hi i _ Hie) as (ed & Hed & _). apply lookup_lt_Some in Hed. unfold eid0 in Hed. lia.
    - intros i e Hie. simpl in Hie. rewrite He2. apply lookup_app_Some in Hie as [Hie|[Hlen Hie]].
      + destruct (Hi i e Hie) as (ed & Hed & Hidx). exists ed. split; [|done]. by apply lookup_app_l_Some.
      + apply list_lookup_singleton_Some in Hie as [Hi0 <-]. eexists. split.
        * rewrite lookup_app_r by done. by rewrite Nat.sub_diag.
        * simpl. unfold zlen. f_equal. lia. }
  (* the rest only links the new child: it does not touch children vectors or index cells *)
  apply bindM_okE in H as (nd2 & s3 & E3 & H). apply get_node_okE in E3 as [-> Hn2].
  apply bindM_okE in H as ([] & s4 & E4 & H). unfold ret in H. injection H as <- <-.
  assert (Rdep s2 s4) as R.
  { eapply pres_run; [|exact E4]. destruct (is_necessary nd2); go_dep. }
  split; [done|]. split_and!.
  - destruct (children_of_dep _ _ _ _ R Hx2) as (ex4 & Hx4 & Hc4). exists ex, ex4. done.
  - assert (edges s2 !! eid0 = Some (Edge child cb (Some (zlen (ex_children ex))) None)) as Hed.
    { rewrite He2, lookup_app_r by done. by rewrite Nat.sub_diag. }
    destruct (edge_dep _ _ _ _ R Hed) as (ed' & Hed' & _ & Hc). exists ed'. done.
  - by eapply children_ok_dep.
Qed.

(* ---- swap_children keeps the vector and the cells in step *)
Lemma zget_nat {A} (l : list A) (i : nat) : zget l (Z.of_nat i) = l !! i.
Proof. unfold zget. rewrite bool_decide_eq_false_2 by lia. by rewrite Nat2Z.id. Qed.
Lemma zset_nat {A} (l : list A) (i : nat) x : zset l (Z.of_nat i) x = <[i := x]> l.
Proof. unfold zset. by rewrite Nat2Z.id. Qed.

Lemma swap_children_ok x (i j : nat) s s' ex a b :
  children_ok s x -> experts s !! x = Some ex -> ex_children ex !! i = Some a -> ex_children ex !! j = Some b ->
  ex_swap_children x (Z.of_nat i) (Z.of_nat j) s = (Ok tt, s') ->
  children_ok s' x
  /\ (exists ex', experts s' !! x = Some ex' /\ ex_children ex' = <[j := a]> (<[i := b]> (ex_children ex)))
  /\ (forall y, y <> x -> experts s' !! y = experts s !! y).
Proof.
  intros (ex0 & Hx0 & Hnd & Hi) Hx Ha Hb H. simplify_eq.
  unfold ex_swap_children in H.
  apply bindM_okE in H as (ex1 & s0 & E0 & H). apply get_expert_okE in E0 as [-> Hx1]. simplify_eq.
  rewrite !zget_nat, Ha, Hb in H.
  destruct (Hi i a Ha) as (eda & Hea & Hia). destruct (Hi j b Hb) as (edb & Heb & Hib).
  apply bindM_okE in H as (ea & s0 & E0 & H). apply get_edge_okE in E0 as [-> Hea']. simplify_eq.
  apply bindM_okE in H as (eb & s0 & E0 & H). apply get_edge_okE in E0 as [-> Heb']. simplify_eq.
  unfold bindM, upd_edge, upd_expert, modify in H. simpl in H. injection H as <-.
  unfold zset. rewrite !Nat2Z.id.
  set (ex' := ex0 <| ex_children := <[j := a]> (<[i := b]> (ex_children ex0)) |>).
  split_and!.
  - exists ex'. split; [simpl; rewrite list_lookup_alter, Hx0; done|]. split.
    + (* still no duplicates: a transposition *)
      simpl. destruct (decide (i = j)) as [->|Hij].
      * simplify_eq. rewrite list_insert_insert, list_insert_id by done. done.
      * apply NoDup_alt. intros p q e Hp Hq.
        assert (forall p e, <[j := a]> (<[i := b]> (ex_children ex0)) !! p = Some e ->
                  ex_children ex0 !! (if decide (p = j) then i else if decide (p = i) then j else p) = Some e) as Hperm.
        { intros p0 e0 Hp0. destruct (decide (p0 = j)) as [->|Hpj].
          - rewrite list_lookup_insert in Hp0 by (rewrite insert_length; by eapply lookup_lt_Some). by simplify_eq.
          - rewrite list_lookup_insert_ne in Hp0 by done. destruct (decide (p0 = i)) as [->|Hpi].
            + rewrite list_lookup_insert in Hp0 by (by eapply lookup_lt_Some). by simplify_eq.
            + by rewrite list_lookup_insert_ne in Hp0. }
        apply Hperm in Hp. apply Hperm in Hq. pose proof (NoDup_lookup _ _ _ _ Hnd Hp Hq) as E.
        repeat case_decide; subst; try done; lia.
    + intros p e Hp. simpl in Hp. simpl.
      destruct (decide (p = j)) as [->|Hpj].
      * rewrite list_lookup_insert in Hp by (rewrite insert_length; by eapply lookup_lt_Some). injection Hp as <-.
        (* a sits at j now: its cell got b's old content, j *)
        destruct (decide (a = b)) as [->|Hab].
        -- eexists. rewrite list_lookup_alter, list_lookup_alter, Heb'. simpl. split; [done|]. simpl. congruence.
        -- eexists. rewrite list_lookup_alter_ne by done. rewrite list_lookup_alter, Hea'. simpl. split; [done|]. simpl. done.
      * rewrite list_lookup_insert_ne in Hp by done. destruct (decide (p = i)) as [->|Hpi].
        -- rewrite list_lookup_insert in Hp by (by eapply lookup_lt_Some). injection Hp as <-.
           destruct (decide (a = b)) as [->|Hab].
           ++ eexists. rewrite list_lookup_alter, list_lookup_alter, Hea'. simpl. split; [done|]. simpl.
              assert (i = j) by (eapply NoDup_lookup; eauto). congruence.
           ++ eexists. rewrite list_lookup_alter, list_lookup_alter_ne by done. rewrite Heb'. simpl. split; [done|]. simpl. done.
        -- rewrite list_lookup_insert_ne in Hp by done.
           destruct (Hi p e Hp) as (ed & He & Hidx).
           assert (e <> a) by (intros ->; apply Hpi; eapply NoDup_lookup; eauto).
           assert (e <> b) by (intros ->; apply Hpj; eapply NoDup_lookup; eauto).
           exists ed. rewrite !list_lookup_alter_ne by done. done.
  - exists ex'. split; [simpl; rewrite list_lookup_alter, Hx0; done|done].
  - intros y Hy. simpl. by rewrite list_lookup_alter_ne.
Qed.

(* ---- pop_child_edge drops the last edge and clears its cell *)
Lemma pop_child_edge_ok x s s' r ex :
  children_ok s x -> experts s !! x = Some ex ->
  ex_pop_child_edge x s = (Ok r, s') ->
  r = stdpp.list.last (ex_children ex)
  /\ children_ok s' x
  /\ (exists ex', experts s' !! x = Some ex' /\ ex_children ex' = removelast (ex_children ex))
  /\ (forall p, r = Some p -> exists ed, edges s' !! p = Some ed /\ ed_index ed = None).
Proof.
  intros (ex0 & Hx0 & Hnd & Hi) Hx H. simplify_eq. unfold ex_pop_child_edge in H.
  apply bindM_okE in H as (ex1 & s0 & E0 & H). apply get_expert_okE in E0 as [-> Hx1]. simplify_eq.
  destruct (stdpp.list.last (ex_children ex0)) as [p|] eqn:Hl.
  2:{ unfold ret in H. injection H as <- <-. split; [done|]. apply last_None in Hl. rewrite Hl. simpl.
      split_and!; [exists ex0; by rewrite Hl in *|exists ex0; by rewrite Hl|done]. }
  unfold bindM, upd_expert, upd_edge, modify, ret in H. simpl in H. injection H as <- <-.
  apply last_Some in Hl as [l' Hl]. rewrite Hl in Hnd, Hi.
  assert ((l' ++ [p]) !! length l' = Some p) as Hp by (rewrite lookup_app_r by done; by rewrite Nat.sub_diag).
  destruct (Hi _ _ Hp) as (edp & Hep & _).
  apply NoDup_app in Hnd as (Hnd' & Hnotin & _).
  set (ex' := ex0 <| ex_children := removelast (ex_children ex0) |> <| ex_force_stale := true |>).
  assert (ex_children ex' = l') as Hc' by (simpl; by rewrite Hl, removelast_last).
  split; [done|]. split_and!.
  - exists ex'. split; [simpl; rewrite list_lookup_alter, Hx0; done|]. rewrite Hc'. split; [done|].
    intros i e Hie. destruct (Hi i e) as (ed & He & Hidx); [by apply lookup_app_l_Some|].
    assert (e <> p). { intros ->. apply (Hnotin p); [by eapply elem_of_list_lookup_2|by apply elem_of_list_singleton]. }
    exists ed. simpl. by rewrite list_lookup_alter_ne.
  - exists ex'. split; [simpl; rewrite list_lookup_alter, Hx0; done|done].
  - intros p' [= <-]. eexists. simpl. rewrite list_lookup_alter, Hep. done.
Qed.

(* ---- remove_dependency: the edge leaves the vector, the others keep cell = position *)
Lemma remove_dependency_children fuel n eid s s' x nd ex :
  nodes s !! n = Some nd -> node_kind nd = Some (KExpert x) -> children_ok s x ->
  experts s !! x = Some ex -> eid ∈ ex_children ex ->
  expert_remove_dependency fuel n eid s = (Ok tt, s') ->
  children_ok s' x
  /\ (exists ex', experts s' !! x = Some ex' /\ forall e, e ∈ ex_children ex' <-> e ∈ ex_children ex /\ e <> eid)
  /\ (exists ed, edges s' !! eid = Some ed /\ ed_index ed = None).
Proof.
  intros Hn Hk Hok Hx Hin H. unfold expert_remove_dependency in H.
  destruct Hok as (ex0 & Hx0 & Hnd & Hi). simplify_eq.
  apply elem_of_list_lookup in Hin as [i0 Hi0].
  destruct (Hi _ _ Hi0) as (ed & Hed & Hidx).
  apply bindM_okE in H as (ed' & s0 & E0 & H). apply get_edge_okE in E0 as [-> Hed']. simplify_eq. rewrite Hidx in H.
  apply bindM_okE in H as (nd' & s0 & E0 & H). apply get_node_okE in E0 as [-> Hn']. simplify_eq. rewrite Hk in H.
  (* the debug check reads only *)
  apply bindM_okE in H as ([] & s1 & E1 & H).
  assert (Rdep s s1) as R1 by (eapply pres_run; [|exact E1]; go_dep).
  destruct (children_of_dep _ _ _ _ R1 Hx0) as (ex1 & Hx1 & Hc1).
  apply bindM_okE in H as (ex1' & s0 & E0 & H). apply get_expert_okE in E0 as [-> Hx1']. simplify_eq. rewrite Hc1 in H.
  destruct (stdpp.list.last (ex_children ex0)) as [last_edge|] eqn:Hlast; [|done].
  pose proof Hlast as Hlast'. apply last_Some in Hlast' as [l' Hl].
  assert (ex_children ex0 !! length l' = Some last_edge) as Hpl by (rewrite Hl, lookup_app_r by done; by rewrite Nat.sub_diag).
  destruct (Hi _ _ Hpl) as (led & Hled & Hlidx).
  destruct (edge_dep _ _ _ _ R1 Hled) as (led1 & Hled1 & Hlidx1 & _).
  apply bindM_okE in H as (led' & s0 & E0 & H). apply get_edge_okE in E0 as [-> Hled']. simplify_eq. rewrite Hlidx1, Hlidx in H.
  assert (children_ok s1 x) as Hok1 by (eapply children_ok_dep; [exact R1|]; exists ex0; done).
  (* the swap *)
  apply bindM_okE in H as ([] & s2 & E2 & H).
  assert (exists ex2, experts s2 !! x = Some ex2 /\ children_ok s2 x
            /\ ex_children ex2 = <[length l' := eid]> (<[i0 := last_edge]> (ex_children ex0))) as (ex2 & Hx2 & Hok2 & Hc2).
  { case_bool_decide as Heq.
    - unfold ret in E2. injection E2 as <-. assert (i0 = length l') as -> by lia. exists ex1'. split; [done|]. split; [done|].
      rewrite Hc1. assert (eid = last_edge) as -> by congruence. rewrite list_insert_insert. by rewrite list_insert_id.
    - apply bindM_okE in E2 as (nd2 & s0 & E0 & E2). apply get_node_okE in E0 as [-> _].
      apply bindM_okE in E2 as ([] & s15 & E15 & E2).
      assert (Rdep s1 s15) as R15 by (eapply pres_run; [|exact E15]; destruct (is_necessary nd2); go_dep).
      destruct (children_of_dep _ _ _ _ R15 Hx1') as (ex15 & Hx15 & Hc15).
      assert (children_ok s15 x) as Hok15 by (by eapply children_ok_dep).
      destruct (swap_children_ok x i0 (length l') s15 s2 ex15 eid last_edge Hok15 Hx15) as (Hok2 & (ex2 & Hx2 & Hc2) & _);
        [by rewrite Hc15, Hc1|by rewrite Hc15, Hc1|exact E2|].
      exists ex2. split; [done|]. split; [done|]. by rewrite Hc2, Hc15, Hc1. }
  (* everything up to the pop leaves vectors and cells alone *)
  apply bindM_okE in H as ([] & s3 & E3 & H).
  assert (Rdep s2 s3) as R3 by (eapply pres_run; [|exact E3]; go_dep).
  apply bindM_okE in H as ([] & s4 & E4 & H).
  assert (Rdep s3 s4) as R4 by (eapply pres_run; [|exact E4]; go_dep).
  apply bindM_okE in H as (nd4 & s0 & E0 & H). apply get_node_okE in E0 as [-> _].
  apply bindM_okE in H as ([] & s5 & E5 & H).
  assert (Rdep s4 s5) as R5 by (eapply pres_run; [|exact E5]; destruct (is_necessary nd4); go_dep).
  assert (Rdep s2 s5) as R25 by (etrans; [exact R3|]; etrans; [exact R4|exact R5]).
  destruct (children_of_dep _ _ _ _ R25 Hx2) as (ex5 & Hx5 & Hc5).
  assert (children_ok s5 x) as Hok5 by (by eapply children_ok_dep).
  (* the pop *)
  apply bindM_okE in H as (popped & s6 & E6 & H).
  destruct (pop_child_edge_ok x s5 s6 popped ex5 Hok5 Hx5 E6) as (-> & Hok6 & (ex6 & Hx6 & Hc6) & Hnone).
  assert (stdpp.list.last (ex_children ex5) = Some eid) as Hl5.
  { rewrite Hc5, Hc2, Hl. destruct (decide (i0 = length l')) as [->|Hne].
    - rewrite list_insert_insert. rewrite insert_app_r_alt by done. rewrite Nat.sub_diag. simpl. by rewrite last_snoc.
    - assert (i0 < length l') by (apply lookup_lt_Some in Hi0; rewrite Hl, app_length in Hi0; simpl in Hi0; lia).
      rewrite insert_app_l by done. rewrite insert_app_r_alt by (rewrite insert_length; lia).
      rewrite insert_length, Nat.sub_diag. simpl. by rewrite last_snoc. }
  rewrite Hl5 in H, Hnone.
  assert (s' = s6) as ->.
  { unfold dassert, bindM, gets, ret in H. destruct (debug s6); [case_bool_decide; by simplify_eq|by simplify_eq]. }
  split; [done|]. split.
  - exists ex6. split; [done|]. intros e. rewrite Hc6, Hc5, Hc2, Hl.
    destruct (decide (i0 = length l')) as [->|Hne].
    + assert (eid = last_edge) as -> by (rewrite Hl, lookup_app_r, Nat.sub_diag in Hi0 by done; simpl in Hi0; congruence).
      rewrite list_insert_insert. rewrite insert_app_r_alt by done. rewrite Nat.sub_diag. simpl. rewrite removelast_last.
      rewrite Hl in Hnd. apply NoDup_app in Hnd as (_ & Hnotin & _).
      rewrite elem_of_app, elem_of_list_singleton. split.
      * intros He. split; [by left|]. intros ->. by apply (Hnotin last_edge); [|apply elem_of_list_singleton].
      * intros [[He|Heq] Hneq]; [done|by subst].
    + assert (i0 < length l') as Hlt by (apply lookup_lt_Some in Hi0; rewrite Hl, app_length in Hi0; simpl in Hi0; lia).
      rewrite insert_app_l by done. rewrite insert_app_r_alt by (rewrite insert_length; lia).
      rewrite insert_length, Nat.sub_diag. simpl. rewrite removelast_last.
      assert (l' !! i0 = Some eid) as Hi0' by (rewrite Hl, lookup_app_l in Hi0 by done; done).
      rewrite Hl in Hnd. pose proof Hnd as Hnd2. apply NoDup_app in Hnd2 as (Hnd' & Hnotin & _).
      rewrite elem_of_app, elem_of_list_singleton. split.
      * intros He. apply elem_of_list_lookup in He as [p Hp]. destruct (decide (p = i0)) as [->|Hpi].
        -- rewrite list_lookup_insert in Hp by done. injection Hp as <-. split; [by right|].
           intros Heq. apply (Hnotin eid); [by eapply elem_of_list_lookup_2|apply elem_of_list_singleton; congruence].
        -- rewrite list_lookup_insert_ne in Hp by done. split; [left; by eapply elem_of_list_lookup_2|].
           intros Heq. subst e. apply Hpi. eapply NoDup_lookup; eauto.
      * intros [[He|Heq] Hneq].
        -- apply elem_of_list_lookup in He as [p Hp]. assert (p <> i0) by (intros ->; congruence).
           apply elem_of_list_lookup. exists p. by rewrite list_lookup_insert_ne.
        -- subst e. apply elem_of_list_lookup. exists i0. by rewrite list_lookup_insert.
  - by apply Hnone.
Qed.

(* ---- callbacks *)
(* an expert node that has already run (it no longer fires everything) is told at once about the edge
   at child index ci, with the child's current value *)
Lemma run_edge_callback_delivers p x ci s ex e ed v :
  experts s !! x = Some ex -> ex_fire_all ex = false -> zget (ex_children ex) ci = Some e ->
  edges s !! e = Some ed -> ed_cb ed = CbLog -> node_value (S (ed_child ed)) s (ed_child ed) = Some v ->
  crash_at s <> Some (S (inv_count s)) ->
  run_edge_callback p x ci s =
    (Ok tt, s <| inv_count := S (inv_count s) |> <| events := EvEdgeCb p e v :: events s |>
              <| edges := alter (fun d => d <| ed_seen := Some v |>) e (edges s) |>).
Proof.
  intros Hx Hf Hc He Hcb Hv Hcr. unfold run_edge_callback, get_expert, bindM, get, ret. cbv beta iota. rewrite Hx. cbv beta iota.
  rewrite Hf, Hc. unfold edge_on_change, get_edge, bindM, get, ret. cbv beta iota. rewrite He. cbv beta iota. rewrite Hcb.
  unfold value_of, bindM, get, ret. cbv beta iota. rewrite Hv.
  unfold user_call, bindM, modify, get, emit, upd_edge, modify. cbv beta iota. simpl.
  rewrite bool_decide_eq_false_2 by done. reflexivity.
Qed.

(* while it has never run, or after it was unobserved, nothing is delivered edge by edge: the next
   recompute fires every callback *)
Lemma run_edge_callback_waits p x ci s ex :
  experts s !! x = Some ex -> ex_fire_all ex = true -> run_edge_callback p x ci s = (Ok tt, s).
Proof. intros Hx Hf. unfold run_edge_callback, get_expert, bindM, get, ret. cbv beta iota. rewrite Hx. cbv beta iota. by rewrite Hf. Qed.

(* a child without a value (not computed yet, or invalid) is skipped rather than unwrapped *)
Lemma edge_on_change_no_value p e s ed :
  edges s !! e = Some ed -> node_value (S (ed_child ed)) s (ed_child ed) = None -> edge_on_change p e s = (Ok tt, s).
Proof.
  intros He Hv. unfold edge_on_change, get_edge, bindM, get, ret. cbv beta iota. rewrite He. cbv beta iota.
  destruct (ed_cb ed); [done| |]; unfold value_of, bindM, get, ret; cbv beta iota; by rewrite Hv.
Qed.

(* make_stale: sets the flag; a second call before the recompute changes nothing *)
Lemma make_stale_idempotent n s nd x ex :
  nodes s !! n = Some nd -> node_kind nd = Some (KExpert x) -> experts s !! x = Some ex -> ex_force_stale ex = true ->
  debug s = false -> expert_make_stale n s = (Ok tt, s).
Proof.
  intros Hn Hk Hx Hf Hd. unfold expert_make_stale, get_node, bindM, get, ret. cbv beta iota. rewrite Hn. cbv beta iota. rewrite Hk.
  unfold assert_running_is_child, bindM, gets, ret. cbv beta iota. rewrite Hd.
  unfold get_expert, bindM, get, ret. cbv beta iota. rewrite Hx. cbv beta iota. by rewrite Hf.
Qed.

Lemma only_add_remove_rewire fuel :
    (forall a b c, pres Rdep (state_add_parent fuel a b c))
    /\ (forall n, pres Rdep (became_necessary fuel n))
    /\ (forall n, pres Rdep (became_unnecessary fuel n))
    /\ (forall n, pres Rdep (invalidate_node fuel n))
    /\ pres Rdep (propagate_invalidity fuel)
    /\ (forall n, pres Rdep (expert_make_stale n))
    /\ (forall x a b, pres Rdep (var_write x a) /\ pres Rdep (observer_read b)).
Proof.
  split_and!.
  - intros. apply dep_state_add_parent.
  - intros. apply dep_became_necessary.
  - intros. apply dep_became_unnecessary.
  - intros. apply dep_invalidate_node.
  - apply dep_propagate_invalidity.
  - intros. apply dep_expert_make_stale.
  - intros. split; [apply dep_var_write|apply dep_observer_read].
Qed.
