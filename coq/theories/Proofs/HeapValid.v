(* C03: the recompute heap holds valid nodes only (debug builds, as long as nothing panicked).

   VNx X s: in s every node whose cell says it is in the recompute heap is valid, except possibly the
   nodes listed in X — the ones invalidate_node has just marked invalid and is about to take out of the
   heap. *)
From stdpp Require Import base list option numbers.
From RecordUpdate Require Import RecordUpdate.
From Incr.Model Require Import Base Live Engine Api.
From Incr.Proofs Require Import Pres OkPres RchInv.

Definition VNx (X : list nid) (s : state) : Prop :=
  debug s = true
  /\ forall n x, nodes s !! n = Some x -> (0 <= n_height_in_rch x)%Z -> n_valid x = true \/ n ∈ X.

Lemma VNx_mono X X' s : (forall n, n ∈ X -> n ∈ X') -> VNx X s -> VNx X' s.
Proof. intros H [Hd A]. split; [done|]. intros n x Hx Hp. destruct (A n x Hx Hp); auto. Qed.

(* the exception for n can be dropped once n is necessary again, or out of the heap *)
Lemma VNx_resolve X s n x : nodes s !! n = Some x -> (n_valid x = true \/ (n_height_in_rch x < 0)%Z) ->
  VNx (n :: X) s -> VNx X s.
Proof.
  intros Hx Hr [Hd A]. split; [done|]. intros m y Hy Hp. destruct (A m y Hy Hp) as [|Hin]; [by left|].
  apply elem_of_cons in Hin as [->|Hin]; [|by right]. simplify_eq. destruct Hr; [by left|lia].
Qed.

Lemma VNx_same X s s' : debug s' = debug s -> nodes s' = nodes s -> VNx X s -> VNx X s'.
Proof. intros H1 H2 [Hd A]. split; [congruence|]. rewrite H2. exact A. Qed.

Lemma VNx_alter X s s' m f : debug s' = debug s -> nodes s' = alter f m (nodes s) ->
  (forall x, n_height_in_rch (f x) = n_height_in_rch x) ->
  ((forall x, n_valid x = true -> n_valid (f x) = true) \/ m ∈ X) ->
  VNx X s -> VNx X s'.
Proof.
  intros H1 H2 Hc Hn [Hd A]. split; [congruence|]. rewrite H2. intros n x Hx Hp.
  destruct (decide (m = n)) as [->|Hne].
  - rewrite list_lookup_alter in Hx. destruct (nodes s !! n) as [y|] eqn:Hy; [|done]. simpl in Hx. injection Hx as <-.
    rewrite Hc in Hp. destruct Hn as [Hn|Hin]; [|by right]. destruct (A n y Hy Hp) as [Hnec|]; [left; by apply Hn|by right].
  - rewrite list_lookup_alter_ne in Hx by done. by eapply A.
Qed.

Lemma VNx_app X s s' k sc : debug s' = debug s -> nodes s' = nodes s ++ [new_node k sc] -> VNx X s -> VNx X s'.
Proof.
  intros H1 H2 [Hd A]. split; [congruence|]. rewrite H2. intros n x Hx Hp.
  apply lookup_app_Some in Hx as [Hx|[_ Hx]]; [by eapply A|].
  apply list_lookup_singleton_Some in Hx as [_ <-]. simpl in Hp. lia.
Qed.

Lemma VNx_collect X pins s : VNx X s -> VNx X (collect pins s).2.
Proof.
  intros [Hd A]. split; [done|]. simpl. intros n x Hx Hp. rewrite list_lookup_imap in Hx.
  destruct (nodes s !! n) as [y|] eqn:Hy; [|done]. simpl in Hx. injection Hx as <-.
  assert (n_valid (if bool_decide (ONode n ∈ live_set s pins) then y else y <| n_live := false |>) = n_valid y
          /\ n_height_in_rch (if bool_decide (ONode n ∈ live_set s pins) then y else y <| n_live := false |>) = n_height_in_rch y)
    as [E1 E2] by (case_bool_decide; done).
  rewrite E1. rewrite E2 in Hp. by eapply A.
Qed.

(* ---- the heap's own operations *)
Lemma vn_rch_insert n X : okp (VNx X) (rch_insert n).
Proof.
  intros s u s' [Hd A] E. unfold rch_insert in E.
  unfold bindM at 1 in E. destruct (dassert _ 105 s) as [r1 s1] eqn:E1.
  apply (dassert2_run (fun x s0 => negb (in_rch x) && needs_to_be_computed s0 x)) in E1 as [-> H1]; [|done].
  destruct r1 as [[]| |]; [|done..]. destruct (H1 tt eq_refl) as (x & Hx & Hc1). clear H1.
  unfold bindM at 1 in E. destruct (dassert _ 106 s) as [r2 s2] eqn:E2.
  apply (dassert2_run (fun x s0 => bool_decide (n_height x <= rch_max_allowed s0)%Z)) in E2 as [-> H2]; [|done].
  destruct r2 as [[]| |]; [|done..]. clear H2.
  unfold bindM at 1 in E. rewrite (get_node_run _ _ _ Hx) in E.
  unfold bindM at 1, get at 1 in E. cbv beta iota in E.
  apply andb_true_iff in Hc1 as [_ Hc1]. unfold needs_to_be_computed in Hc1. apply andb_true_iff in Hc1 as [_ Hst].
  assert (n_valid x = true) as Hnec.
  { unfold is_stale, node_kind in Hst. destruct (n_valid x); [done|]. done. }
  set (s1 := if bool_decide (n_height x < rch_lower s)%Z then s <| rch_lower := n_height x |> else s).
  assert (nodes s1 = nodes s /\ debug s1 = debug s) as (Hn1 & Hd1) by (subst s1; case_bool_decide; done).
  unfold bindM at 1 in E.
  assert (when (bool_decide (n_height x < rch_lower s)%Z) (modify (fun s0 => s0 <| rch_lower := n_height x |>)) s = (Ok tt, s1)) as Ew
    by (subst s1; unfold when, modify, ret; by case_bool_decide).
  rewrite Ew in E. unfold bindM at 1 in E.
  destruct (rch_link_cases n s1) as [[t El]|(x' & q & Hx' & Hpos & Hq & El)]; rewrite El in E; [cbv beta iota in E; done|].
  unfold modify in E. simplify_eq. rewrite Hn1 in Hx'. simplify_eq.
  split; [simpl; congruence|]. simpl. rewrite Hn1. intros m y Hy Hp. destruct (decide (n = m)) as [->|Hne].
  - rewrite list_lookup_alter, Hx in Hy. simpl in Hy. injection Hy as <-. left. exact Hnec.
  - rewrite list_lookup_alter_ne in Hy by done. by eapply A.
Qed.

(* removing n settles n's exception, if it had one *)
Lemma vn_rch_remove_resolves n X : okp2 (VNx (n :: X)) (VNx X) (rch_remove n).
Proof.
  intros s u s' [Hd A] E. unfold rch_remove in E.
  unfold bindM at 1 in E. destruct (dassert _ 107 s) as [r1 s1] eqn:E1.
  apply (dassert2_run (fun x s0 => in_rch x && negb (needs_to_be_computed s0 x))) in E1 as [-> H1]; [|done].
  destruct r1 as [[]| |]; [|done..]. clear H1.
  unfold bindM at 1 in E.
  destruct (rch_unlink_cases n s) as [[t El]|(x & q & i & Hx & Hpos & Hq & Hi & El)]; rewrite El in E; [cbv beta iota in E; done|].
  unfold bindM, upd_node, modify in E. simplify_eq. split; [done|]. simpl.
  intros m y Hy Hp. destruct (decide (n = m)) as [->|Hne].
  - rewrite list_lookup_alter, Hx in Hy. simpl in Hy. injection Hy as <-. simpl in Hp. lia.
  - rewrite list_lookup_alter_ne in Hy by done. destruct (A m y Hy Hp) as [|Hin]; [by left|].
    apply elem_of_cons in Hin as [->|Hin]; [done|by right].
Qed.

Lemma vn_rch_remove n X : okp (VNx X) (rch_remove n).
Proof.
  eapply okp2_weaken; [| |apply (vn_rch_remove_resolves n X)]; [|done].
  intros s. apply VNx_mono. intros m Hm. by right.
Qed.

Lemma vn_rch_increase_height n X : okp (VNx X) (rch_increase_height n).
Proof.
  intros s u s' [Hd A] E. unfold rch_increase_height in E.
  unfold bindM at 1 in E. destruct (dassert _ 110 s) as [r1 s1] eqn:E1.
  apply (dassert1_run (fun x => bool_decide (n_height_in_rch x < n_height x)%Z)) in E1 as [-> H1]; [|done].
  destruct r1 as [[]| |]; [|done..]. destruct (H1 tt eq_refl) as (x & Hx & Hc1). clear H1. apply bool_decide_eq_true in Hc1.
  unfold bindM at 1 in E. destruct (dassert _ 111 s) as [r2 s2] eqn:E2.
  apply (dassert1_run (fun x => in_rch x)) in E2 as [-> H2]; [|done].
  destruct r2 as [[]| |]; [|done..]. destruct (H2 tt eq_refl) as (x2 & Hx2 & Hc2). clear H2. simplify_eq.
  unfold in_rch in Hc2. apply bool_decide_eq_true in Hc2.
  unfold bindM at 1 in E. destruct (dassert _ 112 s) as [r3 s3] eqn:E3.
  apply (dassert2_run (fun x s0 => bool_decide (n_height x <= rch_max_allowed s0)%Z)) in E3 as [-> H3]; [|done].
  destruct r3 as [[]| |]; [|done..]. clear H3.
  unfold bindM at 1 in E.
  destruct (rch_unlink_cases n s) as [[t El]|(x' & q & i & Hx' & Hpos & Hq & Hi & El)]; rewrite El in E; [cbv beta iota in E; done|].
  simplify_eq.
  set (s1 := s <| rch_queues := <[Z.to_nat (n_height_in_rch x) := swap_remove q i]> (rch_queues s) |>) in *.
  destruct (rch_link_cases n s1) as [[t El2]|(x2 & q2 & Hx2 & Hpos2 & Hq2 & El2)]; rewrite El2 in E; [cbv beta iota in E; done|].
  simplify_eq. assert (x2 = x) as -> by (subst s1; simpl in Hx2; congruence).
  split; [done|]. simpl. intros m y Hy Hp. destruct (decide (n = m)) as [->|Hne].
  - rewrite list_lookup_alter, Hx in Hy. simpl in Hy. injection Hy as <-.
    destruct (A m x Hx Hpos) as [Hn|Hin]; [left; exact Hn|by right].
  - rewrite list_lookup_alter_ne in Hy by done. by eapply A.
Qed.

Lemma vn_rch_remove_min X : okp (VNx X) rch_remove_min.
Proof.
  intros s u s' [Hd A] E. unfold rch_remove_min in E.
  unfold bindM at 1, get at 1 in E. cbv beta iota in E.
  case_bool_decide as Hlen; [unfold ret in E; by simplify_eq|].
  unfold bindM at 1 in E.
  match type of E with context [dassert ?b ?k ?st] => destruct (dassert b k st) as [r1 s1] eqn:Ed end.
  assert (s1 = s) as ->.
  { unfold dassert, bindM, gets, get, ret, panic in Ed. cbv beta iota in Ed. rewrite Hd in Ed. case_bool_decide; by simplify_eq. }
  destruct r1 as [[]| |]; [|done..].
  unfold bindM at 1 in E.
  destruct (rch_scan (S (S (length (rch_queues s)))) s) as [r2 s2] eqn:Es.
  apply rch_scan_spec in Es as (Hn2 & Hq2 & Hd2 & Hsome).
  destruct r2 as [[q|]| |]; try (unfold ret in E; simplify_eq; split; [congruence|by rewrite Hn2]); try done.
  destruct q as [|n q']; [unfold ret in E; simplify_eq; split; [congruence|by rewrite Hn2]|].
  unfold bindM, get, upd_node, modify, ret in E. cbv beta iota in E. simplify_eq.
  split; [simpl; rewrite Hd2; exact Hd|]. simpl. rewrite Hn2. intros m y Hy Hp. destruct (decide (n = m)) as [->|Hne].
  - rewrite list_lookup_alter in Hy. destruct (nodes s !! m) as [z|]; [|done]. simpl in Hy. injection Hy as <-. simpl in Hp. lia.
  - rewrite list_lookup_alter_ne in Hy by done. by eapply A.
Qed.
