(* C16: the per-key operators of incremental-map (Model/Engine.v perkey_step). *)
From stdpp Require Import base list option numbers sorting.
From RecordUpdate Require Import RecordUpdate.
From Incr.Model Require Import Base Live Engine Api.
From Incr.Proofs Require Import Pres FramePkPrev.

(* ---- the difference the closure iterates over *)
Definition zsorted (m : list (Z * Z)) : Prop := StronglySorted (fun a b => (a.1 < b.1)%Z) m.

Lemma zm_get_lt k m : zsorted m -> (forall kv, kv ∈ m -> (k < kv.1)%Z) -> zm_get k m = None.
Proof.
  induction m as [|[k' v] m IH]; intros Hs Hlt; [done|]. simpl. rewrite bool_decide_eq_false_2.
  - apply IH; [by inversion Hs|]. intros kv Hkv. apply Hlt. by right.
  - pose proof (Hlt (k', v) ltac:(left)) as H. simpl in H. lia.
Qed.
Lemma zsorted_head_lt k v m kv : zsorted ((k, v) :: m) -> kv ∈ m -> (k < kv.1)%Z.
Proof. intros Hs Hin. inversion Hs as [|? ? _ Hall]; subst. rewrite Forall_forall in Hall. by apply Hall. Qed.

(* what a difference element says about the two lookups *)
Definition diff_ok (a b : list (Z * Z)) (k : Z) (d : dkind) : Prop :=
  match d with
  | DLeft => is_Some (zm_get k a) /\ zm_get k b = None
  | DRight => zm_get k a = None /\ is_Some (zm_get k b)
  | DUnequal => exists v1 v2, zm_get k a = Some v1 /\ zm_get k b = Some v2 /\ v1 <> v2
  end.

Lemma zm_diff_aux_spec fuel : forall a b, (length a + length b <= fuel)%nat -> zsorted a -> zsorted b ->
  (* sound: every element reports a real difference; complete: every differing key is reported *)
  (forall k d, (k, d) ∈ zm_diff_aux fuel a b -> diff_ok a b k d)
  /\ (forall k, zm_get k a <> zm_get k b -> exists d, (k, d) ∈ zm_diff_aux fuel a b)
  (* ascending, hence each key once; and no key below both heads *)
  /\ StronglySorted (fun x y => (x.1 < y.1)%Z) (zm_diff_aux fuel a b)
  /\ (forall lo, (forall kv, kv ∈ a -> (lo < kv.1)%Z) -> (forall kv, kv ∈ b -> (lo < kv.1)%Z) ->
        forall kd, kd ∈ zm_diff_aux fuel a b -> (lo < kd.1)%Z).
Proof.
  induction fuel as [|f IH]; intros a b Hlen Ha Hb.
  { destruct a, b; simpl in Hlen; try lia. simpl. split_and!; try done; [intros ? ? H%elem_of_nil; done|constructor|intros ? ? ? ? H%elem_of_nil; done]. }
  destruct a as [|[k1 v1] a'], b as [|[k2 v2] b']; cbn [zm_diff_aux].
  - split_and!; try done; [intros ? ? H%elem_of_nil; done|constructor|intros ? ? ? ? H%elem_of_nil; done].
  - (* a empty: everything in b is new *)
    assert (zsorted b') as Hb' by (by inversion Hb).
    destruct (IH [] b' ltac:(simpl in *; lia) ltac:(constructor) Hb') as (S1 & C1 & O1 & L1).
    split_and!.
    + intros k d [[= -> ->]|Hin]%elem_of_cons.
      * simpl. rewrite bool_decide_eq_true_2 by done. split; [done|by eexists].
      * pose proof (S1 k d Hin) as HH. destruct d; simpl in *.
        -- destruct HH as [[? ?] _]. done.
        -- destruct HH as [_ Hs]. split; [done|]. case_bool_decide; [by eexists|done].
        -- destruct HH as (? & ? & ? & _). done.
    + intros k Hne. simpl in Hne. destruct (decide (k2 = k)) as [->|Hk].
      * exists DRight. by left.
      * rewrite bool_decide_eq_false_2 in Hne by done. destruct (C1 k Hne) as [d Hd]. exists d. by right.
    + constructor; [done|]. apply Forall_forall. intros kd Hkd.
      apply (L1 k2); [intros ? H%elem_of_nil; done| |done]. intros kv Hkv. by eapply zsorted_head_lt.
    + intros lo Hla Hlb kd [->|Hkd]%elem_of_cons.
      * simpl. apply (Hlb (k2, v2)). by left.
      * apply (L1 lo); [intros ? H%elem_of_nil; done| |done]. intros kv Hkv. apply Hlb. by right.
  - (* b empty: everything in a is gone *)
    assert (zsorted a') as Ha' by (by inversion Ha).
    destruct (IH a' [] ltac:(simpl in *; lia) Ha' ltac:(constructor)) as (S1 & C1 & O1 & L1).
    split_and!.
    + intros k d [[= -> ->]|Hin]%elem_of_cons.
      * simpl. rewrite bool_decide_eq_true_2 by done. split; [by eexists|done].
      * pose proof (S1 k d Hin) as HH. destruct d; simpl in *.
        -- destruct HH as [Hs _]. split; [|done]. case_bool_decide; [by eexists|done].
        -- destruct HH as [_ [? ?]]. done.
        -- destruct HH as (? & ? & _ & ? & _). done.
    + intros k Hne. simpl in Hne. destruct (decide (k1 = k)) as [->|Hk].
      * exists DLeft. by left.
      * rewrite bool_decide_eq_false_2 in Hne by done. destruct (C1 k Hne) as [d Hd]. exists d. by right.
    + constructor; [done|]. apply Forall_forall. intros kd Hkd.
      apply (L1 k1); [|intros ? H%elem_of_nil; done|done]. intros kv Hkv. by eapply zsorted_head_lt.
    + intros lo Hla Hlb kd [->|Hkd]%elem_of_cons.
      * simpl. apply (Hla (k1, v1)). by left.
      * apply (L1 lo); [|intros ? H%elem_of_nil; done|done]. intros kv Hkv. apply Hla. by right.
  - assert (zsorted a') as Ha' by (by inversion Ha). assert (zsorted b') as Hb' by (by inversion Hb).
    case_bool_decide as H12.
    + (* k1 < k2: k1 only on the left *)
      destruct (IH a' ((k2, v2) :: b') ltac:(simpl in *; lia) Ha' Hb) as (S1 & C1 & O1 & L1).
      assert (zm_get k1 ((k2, v2) :: b') = None) as Hn1.
      { apply zm_get_lt; [done|]. intros kv [->|Hkv]%elem_of_cons; [simpl; lia|].
        pose proof (zsorted_head_lt _ _ _ _ Hb Hkv). lia. }
      split_and!.
      * intros k d [[= -> ->]|Hin]%elem_of_cons.
        -- split; [simpl; rewrite bool_decide_eq_true_2 by done; by eexists|done].
        -- pose proof (L1 k1 ltac:(intros kv Hkv; by eapply zsorted_head_lt)
                         ltac:(intros kv [->|Hkv]%elem_of_cons; [simpl; lia|pose proof (zsorted_head_lt _ _ _ _ Hb Hkv); lia])
                         (k, d) Hin) as Hlt. simpl in Hlt.
           specialize (S1 k d Hin). destruct d; simpl in *; rewrite (bool_decide_eq_false_2 (k1 = k)) by lia; done.
      * intros k Hne. destruct (decide (k1 = k)) as [->|Hk]; [exists DLeft; by left|].
        cbn [zm_get] in Hne. rewrite (bool_decide_eq_false_2 (k1 = k)) in Hne by done.
        destruct (C1 k Hne) as [d Hd]. exists d. by right.
      * constructor; [done|]. apply Forall_forall. intros kd Hkd.
        apply (L1 k1); [intros kv Hkv; by eapply zsorted_head_lt| |done].
        intros kv [->|Hkv]%elem_of_cons; [simpl; lia|pose proof (zsorted_head_lt _ _ _ _ Hb Hkv); lia].
      * intros lo Hla Hlb kd [->|Hkd]%elem_of_cons; [simpl; apply (Hla (k1, v1)); by left|].
        apply (L1 lo); [intros kv Hkv; apply Hla; by right|done|done].
    + case_bool_decide as H21.
      * (* k2 < k1: k2 only on the right *)
        destruct (IH ((k1, v1) :: a') b' ltac:(simpl in *; lia) Ha Hb') as (S1 & C1 & O1 & L1).
        assert (zm_get k2 ((k1, v1) :: a') = None) as Hn2.
        { apply zm_get_lt; [done|]. intros kv [->|Hkv]%elem_of_cons; [simpl; lia|].
          pose proof (zsorted_head_lt _ _ _ _ Ha Hkv). lia. }
        split_and!.
        -- intros k d [[= -> ->]|Hin]%elem_of_cons.
           ++ split; [done|simpl; rewrite bool_decide_eq_true_2 by done; by eexists].
           ++ pose proof (L1 k2 ltac:(intros kv [->|Hkv]%elem_of_cons; [simpl; lia|pose proof (zsorted_head_lt _ _ _ _ Ha Hkv); lia])
                           ltac:(intros kv Hkv; by eapply zsorted_head_lt) (k, d) Hin) as Hlt. simpl in Hlt.
              specialize (S1 k d Hin). destruct d; simpl in *; rewrite (bool_decide_eq_false_2 (k2 = k)) by lia; done.
        -- intros k Hne. destruct (decide (k2 = k)) as [->|Hk]; [exists DRight; by left|].
           cbn [zm_get] in Hne. rewrite (bool_decide_eq_false_2 (k2 = k)) in Hne by done.
           destruct (C1 k Hne) as [d Hd]. exists d. by right.
        -- constructor; [done|]. apply Forall_forall. intros kd Hkd.
           apply (L1 k2); [|intros kv Hkv; by eapply zsorted_head_lt|done].
           intros kv [->|Hkv]%elem_of_cons; [simpl; lia|pose proof (zsorted_head_lt _ _ _ _ Ha Hkv); lia].
        -- intros lo Hla Hlb kd [->|Hkd]%elem_of_cons; [simpl; apply (Hlb (k2, v2)); by left|].
           apply (L1 lo); [done|intros kv Hkv; apply Hlb; by right|done].
      * (* same key *)
        assert (k1 = k2) as -> by lia.
        destruct (IH a' b' ltac:(simpl in *; lia) Ha' Hb') as (S1 & C1 & O1 & L1).
        assert (forall k d, (k, d) ∈ zm_diff_aux f a' b' -> (k2 < k)%Z) as Hgt.
        { intros k d Hin.
          assert (forall kv, kv ∈ a' -> (k2 < kv.1)%Z) as Hla' by (intros kv Hkv; by eapply (zsorted_head_lt k2 v1 a')).
          assert (forall kv, kv ∈ b' -> (k2 < kv.1)%Z) as Hlb' by (intros kv Hkv; by eapply (zsorted_head_lt k2 v2 b')).
          exact (L1 k2 Hla' Hlb' (k, d) Hin). }
        assert (forall k d, (k, d) ∈ zm_diff_aux f a' b' -> diff_ok ((k2, v1) :: a') ((k2, v2) :: b') k d) as Hlift.
        { intros k d Hin. pose proof (Hgt k d Hin). specialize (S1 k d Hin).
          destruct d; simpl in *; rewrite (bool_decide_eq_false_2 (k2 = k)) by lia; done. }
        case_bool_decide as Hv.
        -- subst v2. split_and!; [done| |done|].
           ++ intros k Hne. cbn [zm_get] in Hne. destruct (decide (k2 = k)) as [->|Hk]; [by rewrite !bool_decide_eq_true_2 in Hne|].
              rewrite !(bool_decide_eq_false_2 (k2 = k)) in Hne by done. by apply C1.
           ++ intros lo Hla Hlb kd Hkd. apply (L1 lo); [intros kv Hkv; apply Hla; by right|intros kv Hkv; apply Hlb; by right|done].
        -- split_and!.
           ++ intros k d [[= -> ->]|Hin]%elem_of_cons; [|by apply Hlift].
              exists v1, v2. simpl. rewrite !bool_decide_eq_true_2 by done. done.
           ++ intros k Hne. destruct (decide (k2 = k)) as [->|Hk]; [exists DUnequal; by left|].
              cbn [zm_get] in Hne. rewrite !(bool_decide_eq_false_2 (k2 = k)) in Hne by done.
              destruct (C1 k Hne) as [d Hd]. exists d. by right.
           ++ constructor; [done|]. apply Forall_forall. intros [k d] Hkd. simpl. by eapply Hgt.
           ++ intros lo Hla Hlb kd [->|Hkd]%elem_of_cons; [simpl; apply (Hla (k2, v1)); by left|].
              apply (L1 lo); [intros kv Hkv; apply Hla; by right|intros kv Hkv; apply Hlb; by right|done].
Qed.

Lemma zm_diff_spec a b : zsorted a -> zsorted b ->
  (forall k d, (k, d) ∈ zm_diff a b -> diff_ok a b k d)
  /\ (forall k, zm_get k a <> zm_get k b -> exists d, (k, d) ∈ zm_diff a b)
  /\ StronglySorted (fun x y => (x.1 < y.1)%Z) (zm_diff a b).
Proof. intros Ha Hb. destruct (zm_diff_aux_spec _ a b (le_n _) Ha Hb) as (S1 & C1 & O1 & _). done. Qed.

(* ---- the remembered input *)
Lemma bindM_okP {A B} (m : M A) (k : A -> M B) s b s' :
  bindM m k s = (Ok b, s') -> exists a s1, m s = (Ok a, s1) /\ k a s1 = (Ok b, s').
Proof. unfold bindM. destruct (m s) as [[a| |] s1] eqn:E; intros H; [|done|done]. by exists a, s1. Qed.

(* after a successful pass of the closure the remembered input is the new input *)
Lemma perkey_step_sync fuel pk new s s' :
  perkey_step fuel pk new s = (Ok tt, s') -> exists r, perkeys s' !! pk = Some r /\ pk_prev r = new.
Proof.
  intros H. unfold perkey_step in H.
  apply bindM_okP in H as (r0 & s0 & E0 & H).
  assert (s0 = s /\ perkeys s !! pk = Some r0) as [-> Hr0].
  { unfold get_perkey, bindM, get, ret, panic in E0. destruct (perkeys s !! pk); by simplify_eq. }
  apply bindM_okP in H as ([] & s1 & E1 & H).
  assert (Rpk s s1) as R.
  { assert (pres Rpk (forM_ (zm_diff (pk_prev r0) new) (perkey_visit fuel pk))) as P by go_pk.
    specialize (P s). by rewrite E1 in P. }
  unfold upd_perkey, modify in H. injection H as <-. simpl.
  assert (is_Some (perkeys s1 !! pk)) as [r1 Hr1].
  { apply lookup_lt_is_Some. apply (f_equal length) in R. rewrite !fmap_length in R. rewrite R. by eapply lookup_lt_Some. }
  exists (r1 <| pk_prev := new |>). rewrite list_lookup_alter, Hr1. done.
Qed.

(* visiting one difference element does not touch any operator's remembered input *)
Lemma perkey_visit_keeps_prev fuel pk kd : pres Rpk (perkey_visit fuel pk kd).
Proof. apply pk_perkey_visit. Qed.
