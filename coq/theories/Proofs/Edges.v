(* C11: the edge arrays.  A dependency edge is recorded on both ends: the child's parents vector holds the
   parent at some index i together with `my_child_index_in_parent_at_index[i] = ci`, and the parent's
   `my_parent_index_in_child_at_index[ci] = i`.  add_parent establishes such a link and disturbs no other;
   remove_parent (with its swap_remove and index fix-up) removes exactly the one it is given. *)
From stdpp Require Import base list option numbers.
From RecordUpdate Require Import RecordUpdate.
From Incr.Model Require Import Base Live Engine Api.

Definition link (s : state) (c : nid) (i : nat) (p : nid) (ci : Z) : Prop :=
  exists cn pn, nodes s !! c = Some cn /\ nodes s !! p = Some pn
    /\ n_parents cn !! i = Some p /\ zget (n_cix_in_parent cn) (Z.of_nat i) = Some ci
    /\ (0 <= ci)%Z /\ zget (n_pix_in_child pn) ci = Some (Z.of_nat i).

(* ---- arrays *)
Lemma zget_Some {A} (l : list A) i x : zget l i = Some x -> (0 <= i)%Z /\ l !! Z.to_nat i = Some x.
Proof. unfold zget. case_bool_decide; [done|]. intros Hl. split; [lia|done]. Qed.
Lemma zget_nat {A} (l : list A) (i : nat) : zget l (Z.of_nat i) = l !! i.
Proof. unfold zget. rewrite bool_decide_eq_false_2 by lia. by rewrite Nat2Z.id. Qed.
Lemma pad_to_lookup_lt {A} (l : list A) idx d (i : nat) : (i < length l)%nat -> pad_to l idx d !! i = l !! i.
Proof. intros. unfold pad_to. by rewrite lookup_app_l. Qed.
Lemma pad_to_length {A} (l : list A) idx d : (0 <= idx)%Z -> (Z.to_nat idx < length (pad_to l idx d))%nat.
Proof. intros. unfold pad_to. rewrite app_length, replicate_length. lia. Qed.
Lemma zget_zset_eq {A} (l : list A) i x : (0 <= i)%Z -> (Z.to_nat i < length l)%nat -> zget (zset l i x) i = Some x.
Proof. intros H0 Hl. unfold zget, zset. rewrite bool_decide_eq_false_2 by lia. by rewrite list_lookup_insert. Qed.
Lemma zget_zset_ne {A} (l : list A) i j x : (0 <= i)%Z -> (0 <= j)%Z -> i <> j -> zget (zset l i x) j = zget l j.
Proof.
  intros Hi Hj Hne. unfold zget, zset. case_bool_decide; [done|]. rewrite list_lookup_insert_ne; [done|]. lia.
Qed.
Lemma zget_pad_to_in {A} (l : list A) idx d j x : zget l j = Some x -> zget (pad_to l idx d) j = Some x.
Proof.
  intros H. apply zget_Some in H as [Hj H]. unfold zget. rewrite bool_decide_eq_false_2 by lia.
  rewrite pad_to_lookup_lt; [done|]. by eapply lookup_lt_Some.
Qed.

(* ---- add_parent *)
Definition add_parent_state (s : state) (c : nid) (ci : Z) (p : nid) (cn : node) : state :=
  let pi := zlen (n_parents cn) in
  s <| nodes :=
    alter (fun x => x <| n_parents := n_parents x ++ [p] |>) c
      (alter (fun x => x <| n_pix_in_child := zset (pad_to (n_pix_in_child x) ci (-1)%Z) ci pi |>) p
         (alter (fun x => x <| n_cix_in_parent := zset (pad_to (n_cix_in_parent x) pi (-1)%Z) pi ci |>) c (nodes s))) |>.

Lemma add_parent_run s c ci p cn : c <> p -> nodes s !! c = Some cn ->
  add_parent c ci p s = (Ok tt, add_parent_state s c ci p cn).
Proof.
  intros Hne Hc. unfold add_parent. rewrite bool_decide_eq_false_2 by done.
  unfold bindM at 1, ret at 1. cbv beta iota. unfold bindM at 1, get_node at 1. unfold bindM at 1, get at 1. cbv beta iota.
  rewrite Hc. unfold ret at 1. cbv beta iota. unfold bindM, upd_node, modify. cbv beta iota. reflexivity.
Qed.

Section add.
Context (s : state) (c p : nid) (ci : Z) (cn pn : node).
Context (Hne : c <> p) (Hc : nodes s !! c = Some cn) (Hp : nodes s !! p = Some pn) (Hci : (0 <= ci)%Z).
Let pi := zlen (n_parents cn).
Let s' := add_parent_state s c ci p cn.
Let cn' := cn <| n_cix_in_parent := zset (pad_to (n_cix_in_parent cn) pi (-1)%Z) pi ci |> <| n_parents := n_parents cn ++ [p] |>.
Let pn' := pn <| n_pix_in_child := zset (pad_to (n_pix_in_child pn) ci (-1)%Z) ci pi |>.

Lemma add_lookup_c : nodes s' !! c = Some cn'.
Proof.
  subst s' cn'. unfold add_parent_state. simpl. rewrite list_lookup_alter, list_lookup_alter_ne by done.
  rewrite list_lookup_alter, Hc. done.
Qed.
Lemma add_lookup_p : nodes s' !! p = Some pn'.
Proof.
  subst s' pn'. unfold add_parent_state. simpl. rewrite list_lookup_alter_ne by done. rewrite list_lookup_alter.
  rewrite list_lookup_alter_ne by done. rewrite Hp. done.
Qed.
Lemma add_lookup_o x : x <> c -> x <> p -> nodes s' !! x = nodes s !! x.
Proof. intros H1 H2. subst s'. unfold add_parent_state. simpl. by rewrite !list_lookup_alter_ne by done. Qed.

(* the new link *)
Lemma add_parent_links : link s' c (length (n_parents cn)) p ci.
Proof.
  exists cn', pn'. split_and!; [apply add_lookup_c|apply add_lookup_p| | |done|].
  - subst cn'. simpl. rewrite lookup_app_r by done. by rewrite Nat.sub_diag.
  - subst cn'. simpl. fold (zlen (n_parents cn)). fold pi. apply zget_zset_eq; [subst pi; unfold zlen; lia|].
    apply pad_to_length. subst pi. unfold zlen. lia.
  - subst pn'. simpl. fold (zlen (n_parents cn)). fold pi. apply zget_zset_eq; [done|]. by apply pad_to_length.
Qed.

(* every other link is kept *)
Lemma add_parent_keeps c' i' p' ci' :
  link s c' i' p' ci' -> (p', ci') <> (p, ci) -> link s' c' i' p' ci'.
Proof.
  intros (cn0 & pn0 & Hc0 & Hp0 & Hpar & Hcix & Hci' & Hpix) Hother.
  assert (exists cn1, nodes s' !! c' = Some cn1 /\ n_parents cn1 !! i' = Some p'
                      /\ zget (n_cix_in_parent cn1) (Z.of_nat i') = Some ci') as (cn1 & Hc1 & Hpar1 & Hcix1).
  { destruct (decide (c' = c)) as [->|Hcc].
    - exists cn'. split; [apply add_lookup_c|]. assert (cn0 = cn) as -> by congruence. subst cn'. simpl. split.
      + by apply lookup_app_l_Some.
      + assert (i' < length (n_parents cn))%nat as Hlt by (by eapply lookup_lt_Some).
        rewrite zget_zset_ne; [by apply zget_pad_to_in|subst pi; unfold zlen; lia|lia|subst pi; unfold zlen; lia].
    - destruct (decide (c' = p)) as [->|Hcp].
      + exists pn'. split; [apply add_lookup_p|]. assert (cn0 = pn) as -> by congruence. subst pn'. simpl. done.
      + exists cn0. rewrite add_lookup_o by done. done. }
  assert (exists pn1, nodes s' !! p' = Some pn1 /\ zget (n_pix_in_child pn1) ci' = Some (Z.of_nat i')) as (pn1 & Hp1 & Hpix1).
  { destruct (decide (p' = p)) as [->|Hpp].
    - exists pn'. split; [apply add_lookup_p|]. assert (pn0 = pn) as -> by congruence. subst pn'. simpl.
      rewrite zget_zset_ne; [by apply zget_pad_to_in|done|done|]. intros ->. by apply Hother.
    - destruct (decide (p' = c)) as [->|Hpc].
      + exists cn'. split; [apply add_lookup_c|]. assert (pn0 = cn) as -> by congruence. subst cn'. simpl. done.
      + exists pn0. rewrite add_lookup_o by done. done. }
  exists cn1, pn1. done.
Qed.
End add.

(* ---- remove_parent *)
Lemma bindM_st {A B} (m : M A) (k : A -> M B) s a s1 : m s = (Ok a, s1) -> bindM m k s = k a s1.
Proof. intros E. unfold bindM. by rewrite E. Qed.
Lemma get_node_st n s x : nodes s !! n = Some x -> get_node n s = (Ok x, s).
Proof. intros E. unfold get_node, bindM, get, ret. by rewrite E. Qed.
Lemma dassert_ret_true site s : dassert (ret true) site s = (Ok tt, s).
Proof. unfold dassert, bindM, gets, ret. cbv beta iota. by destruct (debug s). Qed.

(* the state after removing entry i of c's parents, the last entry (parent end_p, child index eci) being moved
   into its place when i is not the last index *)
Definition remove_parent_state (s : state) (c : nid) (i : nat) (p : nid) (ci : Z) (cn : node)
    (moved : option (nid * Z)) : state :=
  let last := (length (n_parents cn) - 1)%nat in
  let nodes1 := alter (fun x => x <| n_pix_in_child := zset (n_pix_in_child x) ci (-1)%Z |>) p (nodes s) in
  let nodes3 := match moved with
                | Some (end_p, eci) =>
                    alter (fun x => x <| n_cix_in_parent := zset (n_cix_in_parent x) (Z.of_nat i) eci |>) c
                      (alter (fun x => x <| n_pix_in_child := zset (n_pix_in_child x) eci (Z.of_nat i) |>) end_p nodes1)
                | None => nodes1
                end in
  s <| nodes :=
    alter (fun x => x <| n_parents := swap_remove (n_parents x) i |>) c
      (alter (fun x => x <| n_cix_in_parent := zset (n_cix_in_parent x) (Z.of_nat last) (-1)%Z |>) c nodes3) |>.

(* removing the last entry *)
Lemma remove_parent_run_last s c i p ci cn pn :
  c <> p -> nodes s !! c = Some cn -> nodes s !! p = Some pn ->
  n_parents cn !! i = Some p -> zget (n_pix_in_child pn) ci = Some (Z.of_nat i) ->
  i = (length (n_parents cn) - 1)%nat -> (i < length (n_cix_in_parent cn))%nat ->
  remove_parent c ci p s = (Ok tt, remove_parent_state s c i p ci cn None).
Proof.
  intros Hne Hc Hp Hpar Hpix Hlast Hcixlen.
  assert (i < length (n_parents cn))%nat as Hlt by (by eapply lookup_lt_Some).
  unfold remove_parent. rewrite bool_decide_eq_false_2 by done.
  unfold bindM at 1, ret at 1. cbv beta iota.
  rewrite (bindM_st _ _ _ _ _ (get_node_st p s pn Hp)). rewrite (bindM_st _ _ _ _ _ (get_node_st c s cn Hc)).
  rewrite Hpix.
  rewrite (bool_decide_eq_true_2 (1 <= zlen (n_parents cn))%Z) by (unfold zlen; lia).
  rewrite (bool_decide_eq_true_2 (0 <= Z.of_nat i)%Z) by lia. cbn [andb].
  rewrite (bindM_st _ _ _ _ _ (dassert_ret_true 143 s)).
  rewrite zget_nat, Hpar. rewrite (bool_decide_eq_true_2 (Some p = Some p)) by done.
  rewrite (bindM_st _ _ _ _ _ (dassert_ret_true 144 s)).
  unfold bindM at 1, upd_node at 1, modify at 1. cbv beta iota.
  unfold bindM at 1, get at 1. cbv beta iota.
  rewrite (bool_decide_eq_false_2 (zlen (n_parents cn) = 0)%Z) by (unfold zlen; lia).
  unfold bindM at 1, ret at 1. cbv beta iota.
  rewrite (bool_decide_eq_false_2 (Z.of_nat i < zlen (n_parents cn) - 1)%Z) by (unfold zlen; lia).
  unfold bindM at 1, ret at 1. cbv beta iota.
  set (s1 := s <| nodes := alter _ p (nodes s) |>).
  assert (nodes s1 !! c = Some cn) as Hc1 by (subst s1; simpl; by rewrite list_lookup_alter_ne).
  rewrite (bindM_st _ _ _ _ _ (get_node_st c s1 cn Hc1)).
  rewrite (bool_decide_eq_true_2 (zlen (n_parents cn) - 1 < zlen (n_cix_in_parent cn))%Z) by (unfold zlen; lia).
  unfold bindM at 1, ret at 1. cbv beta iota.
  unfold bindM at 1, upd_node at 1, modify at 1. cbv beta iota.
  rewrite (bool_decide_eq_true_2 (Z.of_nat i < zlen (n_parents cn))%Z) by (unfold zlen; lia).
  unfold bindM at 1, ret at 1. cbv beta iota. unfold upd_node, modify.
  unfold remove_parent_state. subst s1. simpl. rewrite Nat2Z.id.
  replace (Z.of_nat (length (n_parents cn) - 1)) with (zlen (n_parents cn) - 1)%Z by (unfold zlen; lia).
  reflexivity.
Qed.

(* removing an entry that is not the last: the last entry is moved into its place and its parent is told *)
Lemma remove_parent_run_moved s c i p ci cn pn end_p en eci :
  c <> p -> nodes s !! c = Some cn -> nodes s !! p = Some pn ->
  n_parents cn !! i = Some p -> zget (n_pix_in_child pn) ci = Some (Z.of_nat i) ->
  (i < length (n_parents cn) - 1)%nat ->
  n_parents cn !! (length (n_parents cn) - 1)%nat = Some end_p ->
  nodes s !! end_p = Some en -> n_live en = true -> end_p <> c ->
  n_cix_in_parent cn !! (length (n_parents cn) - 1)%nat = Some eci ->
  (0 <= eci)%Z -> (eci < zlen (n_pix_in_child en))%Z ->
  remove_parent c ci p s = (Ok tt, remove_parent_state s c i p ci cn (Some (end_p, eci))).
Proof.
  intros Hne Hc Hp Hpar Hpix Hlt Hend He Hlive Hec Heci Heci0 Heci1.
  assert (length (n_parents cn) - 1 < length (n_cix_in_parent cn))%nat as Hcixlen by (by eapply lookup_lt_Some).
  unfold remove_parent. rewrite bool_decide_eq_false_2 by done.
  unfold bindM at 1, ret at 1. cbv beta iota.
  rewrite (bindM_st _ _ _ _ _ (get_node_st p s pn Hp)). rewrite (bindM_st _ _ _ _ _ (get_node_st c s cn Hc)).
  rewrite Hpix.
  rewrite (bool_decide_eq_true_2 (1 <= zlen (n_parents cn))%Z) by (unfold zlen; lia).
  rewrite (bool_decide_eq_true_2 (0 <= Z.of_nat i)%Z) by lia. cbn [andb].
  rewrite (bindM_st _ _ _ _ _ (dassert_ret_true 143 s)).
  rewrite zget_nat, Hpar. rewrite (bool_decide_eq_true_2 (Some p = Some p)) by done.
  rewrite (bindM_st _ _ _ _ _ (dassert_ret_true 144 s)).
  unfold bindM at 1, upd_node at 1, modify at 1. cbv beta iota.
  unfold bindM at 1, get at 1. cbv beta iota.
  rewrite (bool_decide_eq_false_2 (zlen (n_parents cn) = 0)%Z) by (unfold zlen; lia).
  unfold bindM at 1, ret at 1. cbv beta iota.
  rewrite (bool_decide_eq_true_2 (Z.of_nat i < zlen (n_parents cn) - 1)%Z) by (unfold zlen; lia).
  replace (zlen (n_parents cn) - 1)%Z with (Z.of_nat (length (n_parents cn) - 1)) by (unfold zlen; lia).
  rewrite !zget_nat, Hend.
  set (s1 := s <| nodes := alter _ p (nodes s) |>).
  assert (exists en1, nodes s1 !! end_p = Some en1 /\ n_live en1 = true /\ zlen (n_pix_in_child en1) = zlen (n_pix_in_child en))
    as (en1 & He1 & Hlive1 & Hlen1).
  { subst s1. simpl. destruct (decide (p = end_p)) as [->|Hpe].
    - rewrite list_lookup_alter, He. simpl. eexists. split; [done|]. simpl. split; [done|].
      unfold zlen, zset. by rewrite insert_length.
    - rewrite list_lookup_alter_ne by done. by exists en. }
  unfold bindM at 1. rewrite (bindM_st _ _ _ _ _ (get_node_st end_p s1 en1 He1)). rewrite Hlive1.
  rewrite bool_decide_eq_false_2 by done. unfold bindM at 1, ret at 1. cbv beta iota.
  rewrite Heci.
  rewrite (bindM_st _ _ _ _ _ (get_node_st end_p s1 en1 He1)).
  rewrite (bool_decide_eq_true_2 (0 <= eci)%Z) by done. rewrite (bool_decide_eq_true_2 (eci < zlen (n_pix_in_child en1))%Z) by lia.
  cbn [andb]. unfold bindM at 1, ret at 1. cbv beta iota.
  unfold bindM at 1, upd_node at 1, modify at 1. cbv beta iota.
  rewrite (bool_decide_eq_true_2 (Z.of_nat i < zlen (n_cix_in_parent cn))%Z) by (unfold zlen; lia).
  unfold bindM at 1, ret at 1. cbv beta iota.
  unfold upd_node at 1, modify at 1. cbv beta iota.
  set (s3 := _ <| nodes := alter _ c _ |>).
  assert (exists cn3, nodes s3 !! c = Some cn3 /\ length (n_cix_in_parent cn3) = length (n_cix_in_parent cn)) as (cn3 & Hc3 & Hl3).
  { subst s3 s1. simpl. rewrite list_lookup_alter. rewrite list_lookup_alter_ne by done. rewrite list_lookup_alter_ne by done.
    rewrite Hc. simpl. eexists. split; [done|]. simpl. unfold zset. by rewrite insert_length. }
  rewrite (bindM_st _ _ _ _ _ (get_node_st c s3 cn3 Hc3)).
  rewrite (bool_decide_eq_true_2 (Z.of_nat (length (n_parents cn) - 1) < zlen (n_cix_in_parent cn3))%Z) by (unfold zlen; lia).
  unfold bindM at 1, ret at 1. cbv beta iota.
  unfold bindM at 1, upd_node at 1, modify at 1. cbv beta iota.
  rewrite (bool_decide_eq_true_2 (Z.of_nat i < zlen (n_parents cn))%Z) by (unfold zlen; lia).
  unfold bindM at 1, ret at 1. cbv beta iota. unfold upd_node, modify.
  unfold remove_parent_state. subst s3 s1. simpl. rewrite Nat2Z.id. reflexivity.
Qed.

Lemma swap_remove_last {A} (l : list A) : swap_remove l (length l - 1) = removelast l.
Proof.
  unfold swap_remove. destruct (stdpp.list.last l) eqn:E; [by rewrite bool_decide_eq_true_2|].
  apply last_None in E. by subst.
Qed.
Lemma swap_remove_inner {A} (l : list A) i x : (i < length l - 1)%nat -> stdpp.list.last l = Some x ->
  swap_remove l i = removelast (<[i := x]> l).
Proof. intros Hi Hl. unfold swap_remove. rewrite Hl. rewrite bool_decide_eq_false_2 by lia. done. Qed.
Lemma removelast_lookup {A} (l : list A) j : (j < length l - 1)%nat -> removelast l !! j = l !! j.
Proof. intros H. rewrite removelast_firstn_len. rewrite lookup_take; [done|lia]. Qed.
Lemma last_lookup_eq {A} (l : list A) : stdpp.list.last l = l !! (length l - 1)%nat.
Proof. rewrite last_lookup. f_equal. lia. Qed.

(* ---- what remove_parent does to the links: the last-entry case *)
Section remove_last.
Context (s : state) (c p : nid) (i : nat) (ci : Z) (cn pn : node).
Context (Hne : c <> p) (Hc : nodes s !! c = Some cn) (Hp : nodes s !! p = Some pn).
Context (Hpix : zget (n_pix_in_child pn) ci = Some (Z.of_nat i)) (Hlast : i = (length (n_parents cn) - 1)%nat)
        (Hpar : n_parents cn !! i = Some p).
Let s' := remove_parent_state s c i p ci cn None.
Let cn' := cn <| n_cix_in_parent := zset (n_cix_in_parent cn) (Z.of_nat (length (n_parents cn) - 1)) (-1)%Z |>
              <| n_parents := swap_remove (n_parents cn) i |>.
Let pn' := pn <| n_pix_in_child := zset (n_pix_in_child pn) ci (-1)%Z |>.

Lemma rl_lookup_c : nodes s' !! c = Some cn'.
Proof.
  subst s' cn'. unfold remove_parent_state. simpl. rewrite !list_lookup_alter. rewrite list_lookup_alter_ne by done.
  rewrite Hc. done.
Qed.
Lemma rl_lookup_p : nodes s' !! p = Some pn'.
Proof.
  subst s' pn'. unfold remove_parent_state. simpl. rewrite !list_lookup_alter_ne by done. rewrite list_lookup_alter, Hp. done.
Qed.
Lemma rl_lookup_o x : x <> c -> x <> p -> nodes s' !! x = nodes s !! x.
Proof. intros H1 H2. subst s'. unfold remove_parent_state. simpl. by rewrite !list_lookup_alter_ne by done. Qed.

(* the link that was given is gone: the parent's slot says -1 *)
Lemma remove_last_unlinks i' : ~ link s' c i' p ci.
Proof.
  intros (cn1 & pn1 & _ & Hp1 & _ & _ & _ & Hx). rewrite rl_lookup_p in Hp1. injection Hp1 as <-. subst pn'. simpl in Hx.
  apply zget_Some in Hpix as [H0 Hl]. rewrite zget_zset_eq in Hx; [injection Hx as Hx; lia|done|by eapply lookup_lt_Some].
Qed.

(* every other link stays where it is *)
Lemma remove_last_keeps c' i' p' ci' :
  link s c' i' p' ci' -> (c', i') <> (c, i) -> (p', ci') <> (p, ci) -> link s' c' i' p' ci'.
Proof.
  intros (cn0 & pn0 & Hc0 & Hp0 & Hpar0 & Hcix0 & Hci' & Hpix0) Hent Hslot.
  assert (exists cn1, nodes s' !! c' = Some cn1 /\ n_parents cn1 !! i' = Some p'
                      /\ zget (n_cix_in_parent cn1) (Z.of_nat i') = Some ci') as (cn1 & Hc1 & Hpar1 & Hcix1).
  { destruct (decide (c' = c)) as [->|Hcc].
    - exists cn'. split; [apply rl_lookup_c|]. assert (cn0 = cn) as -> by congruence. subst cn'. simpl.
      assert (i' < length (n_parents cn))%nat as Hlt by (by eapply lookup_lt_Some).
      assert (i' <> i) by (intros ->; by apply Hent). split.
      + rewrite Hlast, swap_remove_last, removelast_lookup by lia. done.
      + rewrite zget_zset_ne; [done|lia|lia|lia].
    - destruct (decide (c' = p)) as [->|Hcp].
      + exists pn'. split; [apply rl_lookup_p|]. assert (cn0 = pn) as -> by congruence. subst pn'. simpl. done.
      + exists cn0. rewrite rl_lookup_o by done. done. }
  assert (exists pn1, nodes s' !! p' = Some pn1 /\ zget (n_pix_in_child pn1) ci' = Some (Z.of_nat i')) as (pn1 & Hp1 & Hpix1).
  { destruct (decide (p' = p)) as [->|Hpp].
    - exists pn'. split; [apply rl_lookup_p|]. assert (pn0 = pn) as -> by congruence. subst pn'. simpl.
      rewrite zget_zset_ne; [done| |done|]; [by apply zget_Some in Hpix as [? _]|intros ->; by apply Hslot].
    - destruct (decide (p' = c)) as [->|Hpc].
      + exists cn'. split; [apply rl_lookup_c|]. assert (pn0 = cn) as -> by congruence. subst cn'. simpl. done.
      + exists pn0. rewrite rl_lookup_o by done. done. }
  exists cn1, pn1. done.
Qed.
End remove_last.

(* ---- the case where the last entry is moved into the hole *)
Section remove_moved.
Context (s : state) (c p end_p : nid) (i : nat) (ci eci : Z) (cn pn en : node).
Context (Hne : c <> p) (Hec : end_p <> c) (Hc : nodes s !! c = Some cn) (Hp : nodes s !! p = Some pn) (He : nodes s !! end_p = Some en).
Context (Hpix : zget (n_pix_in_child pn) ci = Some (Z.of_nat i)) (Hpar : n_parents cn !! i = Some p).
Let last := (length (n_parents cn) - 1)%nat.
Context (Hlt : (i < last)%nat).
(* the last entry is a link too *)
Context (Hend : n_parents cn !! last = Some end_p) (Heci : zget (n_cix_in_parent cn) (Z.of_nat last) = Some eci)
        (Heci0 : (0 <= eci)%Z) (Hepix : zget (n_pix_in_child en) eci = Some (Z.of_nat last)).
Let s' := remove_parent_state s c i p ci cn (Some (end_p, eci)).
Let cn' := cn <| n_cix_in_parent := zset (zset (n_cix_in_parent cn) (Z.of_nat i) eci) (Z.of_nat last) (-1)%Z |>
              <| n_parents := swap_remove (n_parents cn) i |>.
Definition upd_other (x : nid) (xn : node) : node :=
  let xn1 := if decide (x = p) then xn <| n_pix_in_child := zset (n_pix_in_child xn) ci (-1)%Z |> else xn in
  if decide (x = end_p) then xn1 <| n_pix_in_child := zset (n_pix_in_child xn1) eci (Z.of_nat i) |> else xn1.

Lemma rm_lookup_c : nodes s' !! c = Some cn'.
Proof.
  subst s' cn' last. unfold remove_parent_state. simpl. rewrite !list_lookup_alter.
  rewrite (list_lookup_alter_ne _ _ end_p c) by done. rewrite (list_lookup_alter_ne _ _ p c) by done.
  rewrite Hc. done.
Qed.
Lemma rm_lookup_o x xn : x <> c -> nodes s !! x = Some xn -> nodes s' !! x = Some (upd_other x xn).
Proof.
  intros Hxc Hx. subst s'. unfold remove_parent_state, upd_other. simpl.
  rewrite !(list_lookup_alter_ne _ _ c x) by done.
  destruct (decide (x = end_p)) as [Hxe|Hxe], (decide (x = p)) as [Hxp|Hxp].
  - rewrite <- Hxe, <- Hxp. rewrite !list_lookup_alter, Hx. done.
  - rewrite <- Hxe. rewrite list_lookup_alter. rewrite list_lookup_alter_ne by (intros ->; done). rewrite Hx. done.
  - rewrite <- Hxp. rewrite list_lookup_alter_ne by (intros E; by rewrite E in Hxe). rewrite list_lookup_alter, Hx. done.
  - rewrite !list_lookup_alter_ne by (intros ->; done). done.
Qed.

(* the two slots are different: one says i, the other says last *)
Lemma rm_slots_differ : (end_p, eci) <> (p, ci).
Proof.
  intros [= -> ->]. assert (en = pn) as -> by congruence. rewrite Hepix in Hpix. injection Hpix as Hx. lia.
Qed.

Lemma rm_ci_range : (0 <= ci)%Z /\ (Z.to_nat ci < length (n_pix_in_child pn))%nat.
Proof. apply zget_Some in Hpix as [H0 Hl]. split; [done|by eapply lookup_lt_Some]. Qed.
Lemma rm_eci_range : (Z.to_nat eci < length (n_pix_in_child en))%nat.
Proof. apply zget_Some in Hepix as [H0 Hl]. by eapply lookup_lt_Some. Qed.

(* the given link is gone *)
Lemma remove_moved_unlinks i' : ~ link s' c i' p ci.
Proof.
  intros (cn1 & pn1 & _ & Hp1 & _ & _ & _ & Hx).
  rewrite (rm_lookup_o p pn) in Hp1 by done. injection Hp1 as <-. unfold upd_other in Hx.
  destruct rm_ci_range as [H0 Hl]. rewrite (decide_True (P := p = p)) in Hx by done.
  destruct (decide (p = end_p)) as [Hpe|Hpe]; simpl in Hx.
  - rewrite zget_zset_ne in Hx; [|done|done|].
    + rewrite zget_zset_eq in Hx by done. injection Hx as Hx. lia.
    + intros E. apply rm_slots_differ. congruence.
  - rewrite zget_zset_eq in Hx by done. injection Hx as Hx. lia.
Qed.

(* the last entry now lives at index i, and its parent knows *)
Lemma remove_moved_relinks : link s' c i end_p eci.
Proof.
  exists cn', (upd_other end_p en). split_and!; [apply rm_lookup_c|by apply rm_lookup_o| | |done|].
  - subst cn'. simpl. rewrite (swap_remove_inner _ _ end_p); [|subst last; lia|by rewrite last_lookup_eq].
    rewrite removelast_lookup by (rewrite insert_length; subst last; lia).
    rewrite list_lookup_insert; [done|]. apply lookup_lt_Some in Hpar. done.
  - subst cn'. simpl. rewrite zget_zset_ne; [|lia|lia|lia].
    apply zget_zset_eq; [lia|]. rewrite Nat2Z.id. apply zget_Some in Heci as [_ Hl]. apply lookup_lt_Some in Hl.
    rewrite Nat2Z.id in Hl. subst last. lia.
  - unfold upd_other. rewrite (decide_True (P := end_p = end_p)) by done. simpl.
    apply zget_zset_eq; [done|]. destruct (decide (end_p = p)) as [Hep|]; simpl.
    + unfold zset. rewrite insert_length. apply rm_eci_range.
    + apply rm_eci_range.
Qed.

(* every other link stays where it is *)
Lemma remove_moved_keeps c' i' p' ci' :
  link s c' i' p' ci' -> (c', i') <> (c, i) -> (c', i') <> (c, last) ->
  (p', ci') <> (p, ci) -> (p', ci') <> (end_p, eci) -> link s' c' i' p' ci'.
Proof.
  intros (cn0 & pn0 & Hc0 & Hp0 & Hpar0 & Hcix0 & Hci' & Hpix0) Hent1 Hent2 Hslot1 Hslot2.
  assert (exists cn1, nodes s' !! c' = Some cn1 /\ n_parents cn1 !! i' = Some p'
                      /\ zget (n_cix_in_parent cn1) (Z.of_nat i') = Some ci') as (cn1 & Hc1 & Hpar1 & Hcix1).
  { destruct (decide (c' = c)) as [->|Hcc].
    - exists cn'. split; [apply rm_lookup_c|]. assert (cn0 = cn) as -> by congruence. subst cn'. simpl.
      assert (i' < length (n_parents cn))%nat as Hl by (by eapply lookup_lt_Some).
      assert (i' <> i) by (intros ->; by apply Hent1). assert (i' <> last) by (intros ->; by apply Hent2). split.
      + rewrite (swap_remove_inner _ _ end_p); [|subst last; lia|by rewrite last_lookup_eq].
        rewrite removelast_lookup by (rewrite insert_length; subst last; lia).
        rewrite list_lookup_insert_ne by done. done.
      + rewrite zget_zset_ne; [|lia|lia|lia]. rewrite zget_zset_ne; [done|lia|lia|lia].
    - exists (upd_other c' cn0). split; [by apply rm_lookup_o|]. unfold upd_other.
      destruct (decide (c' = p)), (decide (c' = end_p)); simpl; done. }
  assert (exists pn1, nodes s' !! p' = Some pn1 /\ zget (n_pix_in_child pn1) ci' = Some (Z.of_nat i')) as (pn1 & Hp1 & Hpix1).
  { destruct (decide (p' = c)) as [->|Hpc].
    - exists cn'. split; [apply rm_lookup_c|]. assert (pn0 = cn) as -> by congruence. subst cn'. simpl. done.
    - exists (upd_other p' pn0). split; [by apply rm_lookup_o|]. unfold upd_other. destruct rm_ci_range as [H0 _].
      destruct (decide (p' = p)) as [Hpp|Hpp], (decide (p' = end_p)) as [Hpe|Hpe]; simpl.
      + rewrite zget_zset_ne; [|done|done|intros E; apply Hslot2; congruence].
        rewrite zget_zset_ne; [done|done|done|intros E; apply Hslot1; congruence].
      + rewrite zget_zset_ne; [done|done|done|intros E; apply Hslot1; congruence].
      + rewrite zget_zset_ne; [done|done|done|intros E; apply Hslot2; congruence].
      + done. }
  exists cn1, pn1. done.
Qed.
End remove_moved.

(* ---- the three statements, in terms of links only *)
Lemma add_parent_spec s c ci p cn pn :
  c <> p -> nodes s !! c = Some cn -> nodes s !! p = Some pn -> (0 <= ci)%Z ->
  exists s', add_parent c ci p s = (Ok tt, s')
    /\ link s' c (length (n_parents cn)) p ci
    /\ forall c' i' p' ci', link s c' i' p' ci' -> (p', ci') <> (p, ci) -> link s' c' i' p' ci'.
Proof.
  intros Hne Hc Hp Hci. exists (add_parent_state s c ci p cn). split_and!.
  - by apply add_parent_run.
  - by eapply add_parent_links.
  - intros. by eapply add_parent_keeps.
Qed.

Lemma remove_parent_last_spec s c i p ci cn :
  nodes s !! c = Some cn -> link s c i p ci -> c <> p -> i = (length (n_parents cn) - 1)%nat ->
  exists s', remove_parent c ci p s = (Ok tt, s')
    /\ (forall i', ~ link s' c i' p ci)
    /\ forall c' i' p' ci', link s c' i' p' ci' -> (c', i') <> (c, i) -> (p', ci') <> (p, ci) -> link s' c' i' p' ci'.
Proof.
  intros Hc (cn0 & pn & Hc0 & Hp & Hpar & Hcix & Hci & Hpix) Hne Hlast. assert (cn0 = cn) as -> by congruence.
  exists (remove_parent_state s c i p ci cn None). split_and!.
  - eapply remove_parent_run_last; try done. rewrite zget_nat in Hcix. by eapply lookup_lt_Some.
  - by eapply remove_last_unlinks.
  - intros. by eapply remove_last_keeps.
Qed.

Lemma remove_parent_moved_spec s c i p ci cn end_p eci en :
  nodes s !! c = Some cn -> link s c i p ci -> c <> p ->
  (i < length (n_parents cn) - 1)%nat ->
  link s c (length (n_parents cn) - 1) end_p eci -> nodes s !! end_p = Some en -> n_live en = true -> end_p <> c ->
  exists s', remove_parent c ci p s = (Ok tt, s')
    /\ (forall i', ~ link s' c i' p ci)
    /\ link s' c i end_p eci
    /\ forall c' i' p' ci', link s c' i' p' ci' -> (c', i') <> (c, i) -> (c', i') <> (c, (length (n_parents cn) - 1)%nat) ->
         (p', ci') <> (p, ci) -> (p', ci') <> (end_p, eci) -> link s' c' i' p' ci'.
Proof.
  intros Hc (cn0 & pn & Hc0 & Hp & Hpar & Hcix & Hci & Hpix) Hne Hlt
         (cn1 & en1 & Hc1 & He1 & Hend & Heci & Heci0 & Hepix) He Hlive Hec.
  assert (cn0 = cn) as -> by congruence. assert (cn1 = cn) as -> by congruence. assert (en1 = en) as -> by congruence.
  exists (remove_parent_state s c i p ci cn (Some (end_p, eci))). split_and!.
  - eapply remove_parent_run_moved; try done.
    + by rewrite zget_nat in Heci.
    + apply zget_Some in Hepix as [_ Hl]. apply lookup_lt_Some in Hl. unfold zlen. lia.
  - by eapply remove_moved_unlinks.
  - by eapply remove_moved_relinks.
  - intros. by eapply remove_moved_keeps.
Qed.

(* ---- expert_swap_children_except_in_kind: the two links exchange their child indices *)
Lemma bindM_ok3 {A B} (m : M A) (k : A -> M B) s b s' :
  bindM m k s = (Ok b, s') -> exists a s1, m s = (Ok a, s1) /\ k a s1 = (Ok b, s').
Proof. unfold bindM. destruct (m s) as [[a| |] s1] eqn:E; intros H; [|done|done]. by exists a, s1. Qed.

Lemma dassert_ok_state b site s u s1 : (forall st, (b st).2 = st) -> dassert b site s = (Ok u, s1) -> s1 = s.
Proof.
  intros Hb. unfold dassert, bindM, gets. cbv beta iota. destruct (debug s); [|unfold ret; by intros [= _ <-]].
  specialize (Hb s). destruct (b s) as [[[|]| |] s2]; simpl in Hb; subst; unfold ret, panic; by intros [= _ <-].
Qed.

Lemma swap_children_links n c1 c2 ci1 ci2 i1 i2 s s' :
  link s c1 i1 n ci1 -> link s c2 i2 n ci2 -> ci1 <> ci2 ->
  expert_swap_children_except_in_kind n c1 ci1 c2 ci2 s = (Ok tt, s') ->
  link s' c1 i1 n ci2 /\ link s' c2 i2 n ci1.
Proof.
  intros (cn1 & pn & Hc1 & Hp & Hpar1 & Hcix1 & H01 & Hpix1) (cn2 & pn' & Hc2 & Hp' & Hpar2 & Hcix2 & H02 & Hpix2) Hne E.
  assert (pn' = pn) as -> by congruence.
  unfold expert_swap_children_except_in_kind in E.
  apply bindM_ok3 in E as (u0 & s0 & E0 & E).
  apply dassert_ok_state in E0 as ->.
  2:{ intros st. unfold get_node. unfold bindM, get, ret, panic. simpl. destruct (nodes st !! n); simpl; done. }
  apply bindM_ok3 in E as (u1 & s1 & E1 & E).
  destruct (bool_decide (n = c1) || bool_decide (n = c2)) eqn:Hb; [done|]. unfold ret in E1. injection E1 as _ <-.
  apply orb_false_iff in Hb as [Hb1 Hb2]. apply bool_decide_eq_false in Hb1, Hb2.
  rewrite (bindM_st _ _ _ _ _ (get_node_st n s pn Hp)) in E. rewrite (bindM_st _ _ _ _ _ (get_node_st c1 s cn1 Hc1)) in E.
  rewrite (bindM_st _ _ _ _ _ (get_node_st c2 s cn2 Hc2)) in E. rewrite Hpix1, Hpix2 in E.
  apply bindM_ok3 in E as (u2 & s2 & E2 & E). apply dassert_ok_state in E2 as ->; [|done].
  apply bindM_ok3 in E as (u3 & s3 & E3 & E). apply dassert_ok_state in E3 as ->; [|done].
  apply bindM_ok3 in E as (u4 & s4 & E4 & E).
  match type of E4 with (if ?b then _ else _) _ = _ => destruct b eqn:Hrange; [|done] end. unfold ret in E4. injection E4 as _ <-.
  unfold bindM, upd_node, modify in E. injection E as <-.
  apply zget_Some in Hcix1 as Hl1. destruct Hl1 as [_ Hl1]. apply lookup_lt_Some in Hl1. rewrite Nat2Z.id in Hl1.
  apply zget_Some in Hcix2 as Hl2. destruct Hl2 as [_ Hl2]. apply lookup_lt_Some in Hl2. rewrite Nat2Z.id in Hl2.
  apply zget_Some in Hpix1 as Hx1. destruct Hx1 as [_ Hx1]. apply lookup_lt_Some in Hx1.
  apply zget_Some in Hpix2 as Hx2. destruct Hx2 as [_ Hx2]. apply lookup_lt_Some in Hx2.
  set (f1 := fun c : node => c <| n_cix_in_parent := zset (n_cix_in_parent c) (Z.of_nat i1) ci2 |>).
  set (f2 := fun c : node => c <| n_cix_in_parent := zset (n_cix_in_parent c) (Z.of_nat i2) ci1 |>).
  set (fp := fun p : node => p <| n_pix_in_child := zset (zset (n_pix_in_child p) ci1 (Z.of_nat i2)) ci2 (Z.of_nat i1) |>).
  (* the final records of n, c1 and c2 *)
  assert (nodes (s <| nodes := alter fp n (alter f2 c2 (alter f1 c1 (nodes s))) |>) !! n = Some (fp pn)) as Hn'.
  { simpl. rewrite list_lookup_alter. rewrite !list_lookup_alter_ne by done. by rewrite Hp. }
  assert (zget (n_pix_in_child (fp pn)) ci2 = Some (Z.of_nat i1)) as Hp2'.
  { subst fp. simpl. apply zget_zset_eq; [done|]. unfold zset. by rewrite insert_length. }
  assert (zget (n_pix_in_child (fp pn)) ci1 = Some (Z.of_nat i2)) as Hp1'.
  { subst fp. simpl. rewrite zget_zset_ne by done. by apply zget_zset_eq. }
  destruct (decide (c1 = c2)) as [->|Hcc].
  - (* the same child twice *)
    assert (cn2 = cn1) as -> by congruence.
    assert (i1 <> i2) as Hii.
    { intros ->. rewrite Hcix1 in Hcix2. by injection Hcix2. }
    assert (nodes (s <| nodes := alter fp n (alter f2 c2 (alter f1 c2 (nodes s))) |>) !! c2 = Some (f2 (f1 cn1))) as Hc'.
    { simpl. rewrite list_lookup_alter_ne by done. rewrite !list_lookup_alter. by rewrite Hc1. }
    split; eexists _, _; (split_and!; [exact Hc'|exact Hn'| | |done|done]).
    + subst f1 f2. simpl. done.
    + subst f1 f2. simpl. rewrite zget_zset_ne; [|lia|lia|lia]. apply zget_zset_eq; [lia|by rewrite Nat2Z.id].
    + subst f1 f2. simpl. done.
    + subst f1 f2. simpl. apply zget_zset_eq; [lia|]. unfold zset. rewrite insert_length, Nat2Z.id. done.
  - assert (nodes (s <| nodes := alter fp n (alter f2 c2 (alter f1 c1 (nodes s))) |>) !! c1 = Some (f1 cn1)) as Hc1'.
    { simpl. rewrite list_lookup_alter_ne by done. rewrite list_lookup_alter_ne by done. rewrite list_lookup_alter. by rewrite Hc1. }
    assert (nodes (s <| nodes := alter fp n (alter f2 c2 (alter f1 c1 (nodes s))) |>) !! c2 = Some (f2 cn2)) as Hc2'.
    { simpl. rewrite list_lookup_alter_ne by done. rewrite list_lookup_alter. rewrite list_lookup_alter_ne by done. by rewrite Hc2. }
    split.
    + exists (f1 cn1), (fp pn). split_and!; [exact Hc1'|exact Hn'|done| |done|done].
      subst f1. simpl. apply zget_zset_eq; [lia|by rewrite Nat2Z.id].
    + exists (f2 cn2), (fp pn). split_and!; [exact Hc2'|exact Hn'|done| |done|done].
      subst f2. simpl. apply zget_zset_eq; [lia|by rewrite Nat2Z.id].
Qed.
