(* C09: what a subscription is told. *)
From stdpp Require Import base list option numbers.
From RecordUpdate Require Import RecordUpdate.
From Incr.Model Require Import Base Live Engine Api.

(* the decision table of OnUpdateHandler::run as a function: what (if anything) a handler that was
   last told [prev] is told when its node reports [nu] *)
Definition deliver (prev : previously) (nu : node_update) : option node_update :=
  match prev, nu with
  | PInvalidated, _ => None
  | PChanged, NUNecessary | PNecessary, NUNecessary | PUnnecessary, NUUnnecessary => None
  | PNever, NUChanged | PUnnecessary, NUChanged => Some NUNecessary
  | _, nu => Some nu
  end.

Definition prev_of (nu : node_update) : previously :=
  match nu with
  | NUChanged => PChanged | NUNecessary => PNecessary
  | NUInvalidated => PInvalidated | NUUnnecessary => PUnnecessary
  end.

Lemma handler_run_eq o ix h n nu now :
  handler_run o ix h n nu now =
    if bool_decide (hd_created_at h < now)%Z then
      match deliver (hd_prev h) nu with
      | Some k => really_run o ix h n k
      | None => ret tt
      end
    else ret tt.
Proof. unfold handler_run, deliver. case_bool_decide; [|done]. destruct (hd_prev h), nu; done. Qed.

(* the same table governs the handlers attached to a node itself (Incr::on_update) *)
Lemma node_handler_run_eq n ix h nu now :
  node_handler_run n ix h nu now =
    if bool_decide (hd_created_at h < now)%Z then
      match deliver (hd_prev h) nu with
      | Some k => node_really_run n ix h k
      | None => ret tt
      end
    else ret tt.
Proof. unfold node_handler_run, deliver. case_bool_decide; [|done]. destruct (hd_prev h), nu; done. Qed.

(* the sequence of deliveries of one handler over successive reports of its node *)
Fixpoint deliveries (prev : previously) (nus : list node_update) : list node_update :=
  match nus with
  | [] => []
  | nu :: nus' =>
      match deliver prev nu with
      | Some k => k :: deliveries (prev_of k) nus'
      | None => deliveries prev nus'
      end
  end.

(* an observed node never reports Unnecessary *)
Definition no_unnecessary (nus : list node_update) : Prop := Forall (fun nu => nu <> NUUnnecessary) nus.

Lemma deliveries_from_started prev nus :
  prev <> PNever -> prev <> PUnnecessary -> no_unnecessary nus ->
  NUNecessary ∉ deliveries prev nus.
Proof.
  revert prev. induction nus as [|nu nus IH]; intros prev H1 H2 Hn; simpl; [apply not_elem_of_nil|].
  pose proof (Forall_inv Hn) as Hnu. pose proof (Forall_inv_tail Hn) as Hn'.
  destruct prev, nu; simpl; try done; try (apply IH; done).
  all: try (rewrite not_elem_of_cons; split; [done|apply IH; done]).
Qed.

(* Initialised at most once, and only as the very first thing a subscription hears *)
Lemma initialised_once nus :
  no_unnecessary nus ->
  match deliveries PNever nus with
  | [] => True
  | d :: ds => NUNecessary ∉ ds
  end.
Proof.
  induction nus as [|nu nus IH]; intros Hn; simpl; [done|].
  pose proof (Forall_inv Hn) as Hnu. pose proof (Forall_inv_tail Hn) as Hn'.
  destruct nu; simpl; try done.
  all: apply deliveries_from_started; done.
Qed.

(* the first thing it hears about a node with a value is Initialised, never Changed *)
Lemma first_is_initialised nus d ds :
  deliveries PNever nus = d :: ds -> d = NUNecessary \/ d = NUInvalidated \/ d = NUUnnecessary.
Proof.
  induction nus as [|nu nus IH]; simpl; [done|].
  destruct nu; simpl; intros H; simplify_eq; auto.
Qed.

(* after Invalidated nothing is ever delivered again *)
Lemma nothing_after_invalidated nus : deliveries PInvalidated nus = [].
Proof. induction nus as [|nu nus IH]; simpl; [done|]. by destruct nu. Qed.

(* every Changed a subscription hears comes from a report Changed of the node *)
Lemma changed_only_when_reported prev nus :
  NUChanged ∈ deliveries prev nus -> NUChanged ∈ nus.
Proof.
  revert prev. induction nus as [|nu nus IH]; intros prev; simpl; [done|].
  destruct (deliver prev nu) as [k|] eqn:E.
  - intros [Hk|H]%elem_of_cons.
    + subst k. destruct prev, nu; simpl in E; simplify_eq; apply elem_of_cons; auto.
    + apply elem_of_cons. right. by eapply IH.
  - intros H. apply elem_of_cons. right. by eapply IH.
Qed.

(* a report Changed is always passed on (as Initialised the first time), unless the subscription
   already heard Invalidated *)
Lemma changed_is_never_lost prev :
  prev <> PInvalidated -> is_Some (deliver prev NUChanged).
Proof. destruct prev; simpl; try done; by eexists. Qed.

(* ---- what the node reports: node_update (node.rs:966) *)
Lemma node_update_of_eq n s x :
  nodes s !! n = Some x ->
  node_update_of n s =
    (Ok (if negb (n_valid x) then NUInvalidated
         else if negb (is_necessary x) then NUUnnecessary
         else match node_value (S n) s n with
              | Some _ => if bool_decide (n_changed_at x + 1 = stab_num s)%Z then NUChanged else NUNecessary
              | None => NUNecessary
              end), s).
Proof.
  intros Hn. unfold node_update_of, get_node, value_of, bindM, get, gets, ret. cbv beta iota. rewrite Hn. cbv beta iota.
  destruct (n_valid x); [|done]. destruct (is_necessary x); done.
Qed.

(* an observed node (one with a linked observer) never reports Unnecessary *)
Lemma observed_not_unnecessary n s x r s' :
  nodes s !! n = Some x -> n_observers x <> [] -> node_update_of n s = (Ok r, s') -> r <> NUUnnecessary.
Proof.
  intros Hn Ho. rewrite (node_update_of_eq n s x Hn). intros H. simplify_eq.
  assert (is_necessary x = true) as Hnec.
  { unfold is_necessary. destruct (n_observers x); [done|]. rewrite orb_true_iff. left. rewrite orb_true_iff. right. done. }
  rewrite Hnec. destruct (n_valid x); simpl; [|done]. repeat case_match; done.
Qed.

(* ---- no callback after disallow / unsubscribe / unlink *)
(* a disallowed observer's handlers are not run: run_all does nothing at all *)
Lemma run_all_disallowed o n nu now s ob :
  obss s !! o = Some ob -> o_state ob = ODisallowed -> run_all o n nu now s = (Ok tt, s).
Proof.
  intros Ho Hst. unfold run_all. unfold bindM at 1, get_obs at 1. unfold bindM at 1, get at 1. cbv beta iota. rewrite Ho.
  unfold ret at 1. cbv beta iota.
  generalize (seq 0 (length (o_handlers ob))). intros l. induction l as [|ix l IH]; [done|].
  cbn [forM_]. unfold bindM at 1. unfold bindM at 1, get_obs at 1. unfold bindM at 1, get at 1. cbv beta iota. rewrite Ho.
  unfold ret at 1. cbv beta iota. destruct (o_handlers ob !! ix); rewrite ?Hst; unfold ret at 1; cbv beta iota; exact IH.
Qed.

Lemma obss_set_obss s v : obss (s <| obss := v |>) = v. Proof. done. Qed.
Lemma obss_set_nodes s v : obss (s <| nodes := v |>) = obss s. Proof. done. Qed.

(* after a successful unsubscribe no handler with that token is left in the observer's table *)
Lemma unsubscribe_removes o tok s c s' :
  unsubscribe o o tok s = (Ok c, s') ->
  forall ob', obss s' !! o = Some ob' -> (o_state ob' = OInUse \/ o_state ob' = OCreated) ->
    Forall (fun h => hd_token h <> tok) (o_handlers ob').
Proof.
  intros E ob' Ho' Hst. unfold unsubscribe in E. rewrite bool_decide_eq_true_2 in E by done. cbn [negb] in E.
  unfold bindM at 1, get_obs at 1 in E. unfold bindM at 1, get at 1 in E. cbv beta iota in E.
  destruct (obss s !! o) as [ob|] eqn:Ho; [|done]. unfold ret at 1 in E. cbv beta iota in E.
  assert (forall s1, (if bool_decide (running_obs s1 = Some o) then panic (PBorrow 451) else ret tt) s1 = (Ok tt, s1)
                     \/ exists t, (if bool_decide (running_obs s1 = Some o) then @panic unit (PBorrow 451) else ret tt) s1 = (Panic t, s1)) as Hb.
  { intros s1. case_bool_decide; [right; by eexists|by left]. }
  assert (o_state ob = ODisallowed \/ o_state ob = OUnlinked ->
          Forall (fun h => hd_token h <> tok) (o_handlers ob')) as Hgone.
  { intros Hg. assert (s' = s) as -> by (destruct Hg as [Hg|Hg]; rewrite Hg in E; unfold ret in E; by simplify_eq).
    rewrite Ho in Ho'. injection Ho' as <-. destruct Hg, Hst; congruence. }
  destruct (o_state ob) eqn:Hs; try (apply Hgone; auto; fail).
  all: unfold bindM at 1, get at 1 in E; cbv beta iota in E; unfold bindM at 1 in E;
       destruct (Hb s) as [Hok|[t Hp]]; [rewrite Hok in E|rewrite Hp in E; done]; cbv beta iota in E.
  all: destruct (existsb _ (o_handlers ob)) eqn:Hex; cbn [negb] in E.
  all: try (cbv beta iota in E; unfold ret in E; assert (s' = s) as -> by congruence; assert (ob' = ob) as -> by congruence;
            apply Forall_forall; intros h Hh Heq;
            assert (existsb (fun h0 => bool_decide (hd_token h0 = tok)) (o_handlers ob) = true) as Hc
              by (apply existsb_exists; exists h; split; [first [done|by apply elem_of_list_In]|by apply bool_decide_eq_true]);
            congruence).
  all: unfold bindM, upd_obs, upd_node, modify, ret in E; cbv beta iota in E; injection E as _ <-.
  all: try rewrite obss_set_nodes in Ho'.
  all: try rewrite obss_set_obss in Ho'.
  all: rewrite list_lookup_alter, Ho in Ho'; simpl in Ho'; injection Ho' as <-; simpl;
       apply Forall_forall; intros h Hh; apply elem_of_list_In in Hh; apply elem_of_list_filter in Hh as [Hh _]; exact Hh.
Qed.

