(* C06: cutoffs gate propagation. *)
From stdpp Require Import base list option numbers.
From RecordUpdate Require Import RecordUpdate.
From Incr.Model Require Import Base Live Engine Api.
From Incr.Proofs Require Import Pres FrameMono Invalidate FrameChg.
Local Open Scope Z_scope.

(* ---- what each cutoff kind answers *)
Lemma should_cutoff_never n o v s : should_cutoff n CNever o v s = (Ok false, s).
Proof. done. Qed.
Lemma should_cutoff_always n o v s : should_cutoff n CAlways o v s = (Ok true, s).
Proof. done. Qed.
Lemma should_cutoff_eq n o v s : should_cutoff n CPartialEq o v s = (Ok (val_eqb o v), s).
Proof. done. Qed.

(* a function cutoff is consulted once, with (old, new) in that order, and its answer is used *)
Lemma should_cutoff_fn n cid o v s r s' :
  should_cutoff n (CFn cid) o v s = (Ok r, s') ->
  r = cut_sem cid o v /\ events s' = EvCut n o v r :: events s /\ inv_count s' = S (inv_count s)
  /\ nodes s' = nodes s.
Proof.
  unfold should_cutoff, user_call, bindM, modify, get, ret, panic, emit. cbv beta iota. simpl.
  case_bool_decide as Hc; intros Hr; simplify_eq. done.
Qed.
Lemma should_cutoff_boxed n cid o v s r s' :
  should_cutoff n (CBoxed cid) o v s = (Ok r, s') ->
  r = cut_sem cid o v /\ events s' = EvCut n o v r :: events s /\ inv_count s' = S (inv_count s)
  /\ nodes s' = nodes s.
Proof.
  unfold should_cutoff, user_call, bindM, modify, get, ret, panic, emit. cbv beta iota. simpl.
  case_bool_decide as Hc; intros Hr; simplify_eq. done.
Qed.

(* ---- a suppressed result stops here: changed_at does not move, no dependant is touched *)
Lemma mcv_manual_suppressed fuel n old run_cc s :
  maybe_change_value_manual fuel n old false run_cc s = (Ok None, s).
Proof. done. Qed.

Lemma upd_node_eq n f s : upd_node n f s = (Ok tt, s <| nodes := alter f n (nodes s) |>).
Proof. done. Qed.

Lemma mcv_suppressed fuel n v s x o s1 :
  nodes s !! n = Some x -> n_value x = Some o ->
  should_cutoff n (n_cutoff x) o v (s <| nodes := alter (fun y => y <| n_value := None |>) n (nodes s) |>) = (Ok true, s1) ->
  maybe_change_value fuel n v s = (Ok None, s1 <| nodes := alter (fun y => y <| n_value := Some v |>) n (nodes s1) |>).
Proof.
  intros Hn Ho Hc. unfold maybe_change_value.
  rewrite (bindM_eq _ _ _ _ _ (get_node_eq n s x Hn)). rewrite Ho.
  rewrite (bindM_eq _ _ _ _ _ (upd_node_eq _ _ _)).
  erewrite bindM_eq.
  2:{ rewrite (bindM_eq _ _ _ _ _ Hc). reflexivity. }
  rewrite (bindM_eq _ _ _ _ _ (upd_node_eq _ _ _)). done.
Qed.

(* ---- an unsuppressed result stamps the node: changed_at becomes the current stabilisation number,
   which is what makes every dependant stale *)
Lemma mcv_manual_changed fuel n old run_cc s r s' x :
  nodes s !! n = Some x ->
  maybe_change_value_manual fuel n old true run_cc s = (Ok r, s') ->
  exists x', nodes s' !! n = Some x' /\ n_changed_at x' = stab_num s.
Proof.
  intros Hn H. unfold maybe_change_value_manual in H. cbn [negb] in H.
  apply bindM_ok in H as ([] & s1 & E1 & H). unfold stamp_node, modify in E1. injection E1 as <-.
  match type of H with ?m ?s1 = _ =>
    assert (pres Rchg m) as P by go_chg; specialize (P s1)
  end.
  rewrite H in P. destruct P as [_ P].
  destruct (P n (x <| n_changed_at := stab_num s |>)) as (x' & Hx' & Hc).
  { simpl. rewrite list_lookup_alter, Hn. done. }
  exists x'. done.
Qed.

(* is_stale, spelled out: a node with a function is stale exactly when it never ran or some input
   changed (was stamped) after it last ran *)
Lemma is_stale_spec s x :
  n_valid x = true ->
  match n_kind x with KVar _ | KConst _ | KExpert _ => False | _ => True end ->
  is_stale s x = bool_decide (n_recomputed_at x = -1)
                 || existsb (fun c => match nodes s !! c with
                                      | Some cx => bool_decide (n_recomputed_at x < n_changed_at cx)
                                      | None => false end) (children_of s x).
Proof. intros Hv Hk. unfold is_stale, node_kind, stale_wrt_child. rewrite Hv. destruct (n_kind x); done. Qed.
