(* C05 / C11: the force_necessary pin is only set while change_child_bind_rhs rewires a bind's right-hand side;
   at every quiescent point no node carries it, so "necessary" means: has a recorded dependant or an observer. *)
From stdpp Require Import base list option numbers.
From RecordUpdate Require Import RecordUpdate.
From Incr.Model Require Import Base Live Engine Api.
From Incr.Proofs Require Import Pres OkPres.

Definition FNx (X : list nid) (s : state) : Prop :=
  forall n x, nodes s !! n = Some x -> n_force_necessary x = true -> n ∈ X.

Lemma FNx_mono X X' s : (forall n, n ∈ X -> n ∈ X') -> FNx X s -> FNx X' s.
Proof. intros H A n x Hx Hf. apply H. by eapply A. Qed.

Lemma FNx_resolve X s n x : nodes s !! n = Some x -> n_force_necessary x = false -> FNx (n :: X) s -> FNx X s.
Proof.
  intros Hx Hf A m y Hy Hfy. specialize (A m y Hy Hfy). apply elem_of_cons in A as [->|A]; [|done]. simplify_eq. congruence.
Qed.

Lemma FNx_same X s s' : nodes s' = nodes s -> FNx X s -> FNx X s'.
Proof. intros H A. unfold FNx. by rewrite H. Qed.

Lemma FNx_alter X s s' m f : nodes s' = alter f m (nodes s) ->
  ((forall x, n_force_necessary (f x) = n_force_necessary x) \/ m ∈ X) -> FNx X s -> FNx X s'.
Proof.
  intros H Hf A n x Hx Hfx. rewrite H in Hx. destruct (decide (m = n)) as [->|Hne].
  - rewrite list_lookup_alter in Hx. destruct (nodes s !! n) as [y|] eqn:Hy; [|done]. simpl in Hx. injection Hx as <-.
    destruct Hf as [Hf|Hin]; [|done]. rewrite Hf in Hfx. by eapply A.
  - rewrite list_lookup_alter_ne in Hx by done. by eapply A.
Qed.

Lemma FNx_app X s s' k sc : nodes s' = nodes s ++ [new_node k sc] -> FNx X s -> FNx X s'.
Proof.
  intros H A n x Hx Hfx. rewrite H in Hx. apply lookup_app_Some in Hx as [Hx|[_ Hx]]; [by eapply A|].
  apply list_lookup_singleton_Some in Hx as [_ <-]. done.
Qed.

Lemma FNx_collect X pins s : FNx X s -> FNx X (collect pins s).2.
Proof.
  intros A n x Hx Hfx. simpl in Hx. rewrite list_lookup_imap in Hx.
  destruct (nodes s !! n) as [y|] eqn:Hy; [|done]. simpl in Hx. injection Hx as <-.
  eapply A; [exact Hy|]. by case_bool_decide.
Qed.

Lemma FNx_init max_height dbg : FNx [] (init_state max_height dbg).
Proof. intros n x Hx. done. Qed.
