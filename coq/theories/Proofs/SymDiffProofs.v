From stdpp Require Import base list option numbers sorting sets.
From Incr.Model Require Import SymDiff.

(* spec of MergeOnce: sorted union, ties once *)
Fixpoint merge_keys (a : list Z) : list Z -> list Z :=
  fix go (b : list Z) : list Z :=
  match a, b with
  | [], _ => b
  | _, [] => a
  | x :: a', y :: b' =>
      if bool_decide (x < y)%Z then x :: merge_keys a' b
      else if bool_decide (y < x)%Z then y :: go b'
      else x :: merge_keys a' b'
  end.

Lemma omap_cons {A B} (f : A -> option B) x l :
  omap f (x :: l) = match f x with Some y => y :: omap f l | None => omap f l end.
Proof. done. Qed.

Lemma sublist_Forall' {A} (P : A -> Prop) l1 l2 : sublist l1 l2 -> Forall P l2 -> Forall P l1.
Proof.
  induction 1 as [|x l1 l2 Hsub IH|x l1 l2 Hsub IH]; intros H; [done| |].
  - apply Forall_cons in H as [??]. constructor; auto.
  - apply Forall_cons in H as [??]. auto.
Qed.

Lemma sublist_StronglySorted {A} (R : relation A) l1 l2 :
  StronglySorted R l2 -> sublist l1 l2 -> StronglySorted R l1.
Proof.
  intros Hs Hsub. revert Hs. induction Hsub as [|x l1 l2 Hsub IH|x l1 l2 Hsub IH]; intros Hs.
  - constructor.
  - apply StronglySorted_inv in Hs as [Hs Hx]. constructor; [by apply IH|].
    eapply sublist_Forall'; done.
  - apply StronglySorted_inv in Hs as [Hs Hx]. by apply IH.
Qed.

Definition fused_ok (s : mo) : Prop :=
  match mo_fused s with
  | None => True
  | Some true => mo_b s = []
  | Some false => mo_a s = []
  end.

Definition mo_len (s : mo) : nat := length (mo_a s) + length (mo_b s).

Lemma merge_keys_nil_r a : merge_keys a [] = a.
Proof. by destruct a. Qed.
Lemma merge_keys_nil_l b : merge_keys [] b = b.
Proof. by destruct b. Qed.

Lemma mo_next_spec s : fused_ok s ->
  match mo_next s with
  | None => mo_a s = [] /\ mo_b s = []
  | Some (k, s') => fused_ok s' /\ merge_keys (mo_a s) (mo_b s) = k :: merge_keys (mo_a s') (mo_b s')
                    /\ mo_len s' < mo_len s
  end.
Proof.
  destruct s as [a b fu]. unfold fused_ok, mo_next, mo_len. simpl. intros Hok.
  destruct fu as [[|]|].
  - subst b. destruct a as [|x a']; simpl; [done|].
    rewrite !merge_keys_nil_r. repeat split; lia.
  - subst a. destruct b as [|y b']; simpl; [done|].
    rewrite !merge_keys_nil_l. repeat split; lia.
  - destruct a as [|x a'], b as [|y b']; simpl.
    + done.
    + rewrite merge_keys_nil_l. repeat split; lia.
    + rewrite merge_keys_nil_r. repeat split; lia.
    + repeat case_bool_decide; simpl; repeat split; try lia.
Qed.

Lemma mo_collect_spec n : forall s, fused_ok s -> mo_len s < n ->
  mo_collect n s = Some (merge_keys (mo_a s) (mo_b s)).
Proof.
  induction n as [|n IH]; intros s Hok Hlen; [lia|].
  simpl. pose proof (mo_next_spec s Hok) as H.
  destruct (mo_next s) as [[k s']|].
  - destruct H as (Hok' & -> & Hl). rewrite IH; [done|done|lia].
  - destruct H as [-> ->]. done.
Qed.

Lemma merge_keys_elem a : forall b k, k ∈ merge_keys a b <-> k ∈ a \/ k ∈ b.
Proof.
  induction a as [|x a' IHa]; intros b k.
  - destruct b; simpl; set_solver.
  - induction b as [|y b' IHb]; [simpl; set_solver|].
    simpl. repeat case_bool_decide.
    + rewrite elem_of_cons, IHa. set_solver.
    + rewrite elem_of_cons. rewrite IHb. set_solver.
    + assert (x = y) as -> by lia. rewrite elem_of_cons, IHa. set_solver.
Qed.

Lemma merge_keys_sorted a : forall b, StronglySorted Z.lt a -> StronglySorted Z.lt b ->
  StronglySorted Z.lt (merge_keys a b).
Proof.
  induction a as [|x a' IHa]; intros b Ha Hb; [by destruct b|].
  induction b as [|y b' IHb]; [done|].
  apply StronglySorted_inv in Ha as [Ha Hxa]. apply StronglySorted_inv in Hb as [Hb Hyb].
  simpl. repeat case_bool_decide.
  - constructor; [apply IHa; [done|by constructor]|].
    apply Forall_forall. intros k [Hk|Hk]%merge_keys_elem.
    + by eapply Forall_forall in Hxa.
    + apply elem_of_cons in Hk as [->|Hk]; [done|]. eapply Forall_forall in Hyb; [|done]. lia.
  - constructor; [apply IHb; done|].
    apply Forall_forall. intros k Hk.
    change (k ∈ merge_keys (x :: a') b') in Hk. apply merge_keys_elem in Hk as [Hk|Hk].
    + apply elem_of_cons in Hk as [->|Hk]; [done|]. eapply Forall_forall in Hxa; [|done]. lia.
    + by eapply Forall_forall in Hyb.
  - assert (x = y) as -> by lia. constructor; [by apply IHa|].
    apply Forall_forall. intros k [Hk|Hk]%merge_keys_elem.
    + by eapply Forall_forall in Hxa.
    + by eapply Forall_forall in Hyb.
Qed.

Theorem merge_once_correct a b :
  StronglySorted Z.lt a -> StronglySorted Z.lt b ->
  exists out, mo_collect (S (length a + length b)) (MO a b None) = Some out
    /\ StronglySorted Z.lt out /\ (forall k, k ∈ out <-> k ∈ a \/ k ∈ b).
Proof.
  intros Ha Hb. exists (merge_keys a b). split; [|split].
  - apply (mo_collect_spec _ (MO a b None)); unfold mo_len; simpl; [done|lia].
  - by apply merge_keys_sorted.
  - apply merge_keys_elem.
Qed.

(* ------------------------------------------------------------------ *)
Section values.
Context {V : Type} `{EqDecision V}.
Implicit Types a b : list (Z * V).

(* what the diff says about one key *)
Definition diff_at a b (k : Z) : option (Z * diff_elem V) :=
  match assoc_get a k, assoc_get b k with
  | Some x, Some y => if bool_decide (x = y) then None else Some (k, DUnequal x y)
  | Some x, None => Some (k, DLeft x)
  | None, Some y => Some (k, DRight y)
  | None, None => None
  end.

Definition sorted_map (a : list (Z * V)) : Prop := StronglySorted Z.lt (keys a).

Lemma assoc_get_is_Some a k : is_Some (assoc_get a k) <-> k ∈ keys a.
Proof.
  induction a as [|[k' v] a IH]; simpl.
  - split; [by intros [? ?]|by intros ?%elem_of_nil].
  - case_bool_decide; subst.
    + split; [intros _; apply elem_of_cons; by left|by eexists].
    + rewrite IH. unfold keys. simpl. rewrite elem_of_cons. naive_solver.
Qed.

Lemma assoc_get_None a k : assoc_get a k = None <-> k ∉ keys a.
Proof. rewrite <-assoc_get_is_Some, eq_None_not_Some. done. Qed.

Definition covered a b (ks : mo) : Prop :=
  forall k, k ∈ mo_a ks \/ k ∈ mo_b ks -> is_Some (assoc_get a k) \/ is_Some (assoc_get b k).

Lemma mo_next_elems s k s' : fused_ok s -> mo_next s = Some (k, s') ->
  (k ∈ mo_a s \/ k ∈ mo_b s) /\ (forall j, j ∈ mo_a s' \/ j ∈ mo_b s' -> j ∈ mo_a s \/ j ∈ mo_b s).
Proof.
  destruct s as [a0 b0 fu]. unfold fused_ok, mo_next. simpl. intros Hok Hn.
  destruct fu as [[|]|]; simpl in *.
  - destruct a0; simplify_eq/=. set_solver.
  - destruct b0; simplify_eq/=. set_solver.
  - destruct a0 as [|x a'], b0 as [|y b']; simplify_eq/=.
    + set_solver.
    + set_solver.
    + repeat case_bool_decide; simplify_eq/=; set_solver.
Qed.

Lemma sd_next_spec fuel : forall a b ks, fused_ok ks -> covered a b ks -> mo_len ks < fuel ->
  match sd_next fuel (SD a b ks) with
  | None => False
  | Some None => omap (diff_at a b) (merge_keys (mo_a ks) (mo_b ks)) = []
  | Some (Some (x, s')) =>
      sd_self s' = a /\ sd_other s' = b /\ fused_ok (sd_keys s') /\ covered a b (sd_keys s')
      /\ mo_len (sd_keys s') < mo_len ks
      /\ omap (diff_at a b) (merge_keys (mo_a ks) (mo_b ks))
         = x :: omap (diff_at a b) (merge_keys (mo_a (sd_keys s')) (mo_b (sd_keys s')))
  end.
Proof.
  induction fuel as [|fuel IH]; intros a b ks Hok Hcov Hlen; [lia|].
  simpl. pose proof (mo_next_spec ks Hok) as Hn.
  pose proof (mo_next_elems ks) as Hel.
  destruct (mo_next ks) as [[k ks']|].
  - destruct Hn as (Hok' & Hmk & Hl).
    destruct (Hel k ks' Hok eq_refl) as [Hk Hsub].
    assert (covered a b ks') as Hcov' by (intros j Hj; apply Hcov, Hsub, Hj).
    rewrite Hmk. simpl. unfold diff_at at 1 3 5.
    destruct (assoc_get a k) as [x|] eqn:Ea, (assoc_get b k) as [y|] eqn:Eb.
    + case_bool_decide.
      * specialize (IH a b ks' Hok' Hcov' ltac:(lia)).
        destruct (sd_next fuel (SD a b ks')) as [[[x' s']|]|]; [|done|done].
        destruct IH as (?&?&?&?&?&?). repeat split; try done. lia.
      * simpl. repeat split; done.
    + simpl. repeat split; done.
    + simpl. repeat split; done.
    + destruct (Hcov k Hk) as [[? ?]|[? ?]]; congruence.
  - destruct Hn as [-> ->]. done.
Qed.

Lemma sd_collect_S n (s : @sd V) : sd_collect (S n) s =
  match sd_next (sd_fuel s) s with
  | None => None
  | Some None => Some []
  | Some (Some (x, s')) => (x ::.) <$> sd_collect n s'
  end.
Proof. done. Qed.

Lemma sd_collect_spec n : forall a b ks, fused_ok ks -> covered a b ks -> mo_len ks < n ->
  sd_collect n (SD a b ks) = Some (omap (diff_at a b) (merge_keys (mo_a ks) (mo_b ks))).
Proof.
  induction n as [|n IH]; intros a b ks Hok Hcov Hlen; [lia|].
  rewrite sd_collect_S.
  pose proof (sd_next_spec (sd_fuel (SD a b ks)) a b ks Hok Hcov) as Hn.
  specialize (Hn ltac:(unfold sd_fuel, mo_len; simpl; lia)).
  destruct (sd_next (sd_fuel (SD a b ks)) (SD a b ks)) as [[[x [a' b' ks']]|]|]; [|by rewrite Hn|done].
  simpl in Hn. destruct Hn as (-> & -> & Hok' & Hcov' & Hl & ->).
  rewrite IH; [done|done|done|lia].
Qed.

(* ---- omap diff_at over the merged keys is diff_spec ---- *)
Lemma assoc_get_cons_ne a k0 v k : k0 ≠ k -> assoc_get ((k0, v) :: a) k = assoc_get a k.
Proof. intros. simpl. by rewrite bool_decide_eq_false_2. Qed.

Lemma diff_at_drop_l a b k0 v l : Forall (λ k, k0 < k)%Z l ->
  omap (diff_at ((k0, v) :: a) b) l = omap (diff_at a b) l.
Proof.
  induction 1 as [|k l Hk _ IH]; [done|]. rewrite !omap_cons, IH. unfold diff_at.
  rewrite assoc_get_cons_ne by lia. done.
Qed.
Lemma diff_at_drop_r a b k0 v l : Forall (λ k, k0 < k)%Z l ->
  omap (diff_at a ((k0, v) :: b)) l = omap (diff_at a b) l.
Proof.
  induction 1 as [|k l Hk _ IH]; [done|]. rewrite !omap_cons, IH. unfold diff_at.
  rewrite (assoc_get_cons_ne b) by lia. done.
Qed.

Lemma sorted_map_cons k v a : sorted_map ((k, v) :: a) ->
  sorted_map a /\ Forall (λ j, k < j)%Z (keys a).
Proof. intros H. by apply StronglySorted_inv in H. Qed.

Lemma assoc_get_lt_None a k : Forall (λ j, k < j)%Z (keys a) -> assoc_get a k = None.
Proof.
  intros H. apply assoc_get_None. intros Hk. eapply Forall_forall in H; [|done]. lia.
Qed.

Lemma assoc_get_head a k v : assoc_get ((k, v) :: a) k = Some v.
Proof. simpl. by rewrite bool_decide_eq_true_2. Qed.

Lemma diff_at_head_l a b k v : Forall (λ j, k < j)%Z (keys b) ->
  diff_at ((k, v) :: a) b k = Some (k, DLeft v).
Proof. intros H. unfold diff_at. by rewrite assoc_get_head, (assoc_get_lt_None b). Qed.
Lemma diff_at_head_r a b k v : Forall (λ j, k < j)%Z (keys a) ->
  diff_at a ((k, v) :: b) k = Some (k, DRight v).
Proof. intros H. unfold diff_at. by rewrite assoc_get_head, (assoc_get_lt_None a). Qed.
Lemma diff_at_head_both a b k v w :
  diff_at ((k, v) :: a) ((k, w) :: b) k = if bool_decide (v = w) then None else Some (k, DUnequal v w).
Proof. unfold diff_at. by rewrite !assoc_get_head. Qed.

Lemma omap_diff_nil_l b : sorted_map b ->
  omap (diff_at [] b) (keys b) = (λ kv, (kv.1, DRight kv.2)) <$> b.
Proof.
  induction b as [|[k v] b IH]; [done|]. intros [Hs Hk]%sorted_map_cons.
  change (keys ((k, v) :: b)) with (k :: keys b).
  rewrite omap_cons, diff_at_head_r by constructor.
  rewrite fmap_cons. f_equal. rewrite diff_at_drop_r by done. by apply IH.
Qed.
Lemma omap_diff_nil_r a : sorted_map a ->
  omap (diff_at a []) (keys a) = (λ kv, (kv.1, DLeft kv.2)) <$> a.
Proof.
  induction a as [|[k v] a IH]; [done|]. intros [Hs Hk]%sorted_map_cons.
  change (keys ((k, v) :: a)) with (k :: keys a).
  rewrite omap_cons, diff_at_head_l by constructor.
  rewrite fmap_cons. f_equal. rewrite diff_at_drop_l by done. by apply IH.
Qed.

Lemma Forall_merge_keys (P : Z -> Prop) l1 l2 :
  Forall P l1 -> Forall P l2 -> Forall P (merge_keys l1 l2).
Proof.
  intros H1 H2. apply Forall_forall. intros k [Hk|Hk]%merge_keys_elem.
  - by eapply Forall_forall in H1. - by eapply Forall_forall in H2.
Qed.

Lemma Forall_lt_cons (k k' : Z) l : (k < k')%Z -> Forall (λ j, k' < j)%Z l ->
  Forall (λ j, k < j)%Z (k' :: l).
Proof. intros ? H. constructor; [done|]. eapply Forall_impl; [done|]. simpl. lia. Qed.

Lemma omap_diff_spec a : forall b, sorted_map a -> sorted_map b ->
  omap (diff_at a b) (merge_keys (keys a) (keys b)) = diff_spec a b.
Proof.
  induction a as [|[ka va] a' IHa]; intros b Ha Hb.
  - rewrite merge_keys_nil_l. destruct b; [done|]. by apply omap_diff_nil_l.
  - induction b as [|[kb vb] b' IHb].
    + rewrite merge_keys_nil_r. by apply (omap_diff_nil_r ((ka,va)::a')).
    + pose proof Ha as [Ha' Hka]%sorted_map_cons. pose proof Hb as [Hb' Hkb]%sorted_map_cons.
      change (keys ((ka, va) :: a')) with (ka :: keys a') in *.
      change (keys ((kb, vb) :: b')) with (kb :: keys b') in *.
      cbn [merge_keys diff_spec]. repeat case_bool_decide.
      * (* ka < kb *)
        rewrite omap_cons, diff_at_head_l by (by apply Forall_lt_cons).
        f_equal. rewrite diff_at_drop_l.
        { apply (IHa ((kb,vb)::b')); done. }
        apply Forall_merge_keys; [done|]. by apply Forall_lt_cons.
      * (* kb < ka *)
        rewrite omap_cons, diff_at_head_r by (by apply Forall_lt_cons).
        f_equal. rewrite diff_at_drop_r.
        { apply IHb. done. }
        change (Forall (λ k, kb < k)%Z (merge_keys (ka :: keys a') (keys b'))).
        apply Forall_merge_keys; [|done]. by apply Forall_lt_cons.
      * (* equal keys, equal values *)
        assert (ka = kb) as -> by lia.
        rewrite omap_cons, diff_at_head_both, bool_decide_eq_true_2 by done.
        rewrite diff_at_drop_l, diff_at_drop_r by (apply Forall_merge_keys; done).
        by apply IHa.
      * assert (ka = kb) as -> by lia.
        rewrite omap_cons, diff_at_head_both, bool_decide_eq_false_2 by done.
        f_equal.
        rewrite diff_at_drop_l, diff_at_drop_r by (apply Forall_merge_keys; done).
        by apply IHa.
Qed.

Lemma covered_init a b : covered a b (MO (keys a) (keys b) None).
Proof. intros k [Hk|Hk]; simpl in Hk; [left|right]; by apply assoc_get_is_Some. Qed.

Theorem symmetric_diff_correct a b : sorted_map a -> sorted_map b ->
  symmetric_diff a b = Some (diff_spec a b).
Proof.
  intros Ha Hb. unfold symmetric_diff, symmetric_diff_init.
  rewrite sd_collect_spec.
  - simpl. by rewrite omap_diff_spec.
  - done.
  - apply covered_init.
  - unfold mo_len, keys. simpl. rewrite !fmap_length. lia.
Qed.

(* ---- what diff_spec contains ---- *)
Lemma diff_at_key a b k x : diff_at a b k = Some x -> x.1 = k.
Proof. unfold diff_at. repeat case_match; naive_solver. Qed.

Lemma diff_at_Some_covered a b k x : diff_at a b k = Some x -> k ∈ keys a \/ k ∈ keys b.
Proof.
  rewrite <-!assoc_get_is_Some. unfold diff_at. repeat case_match; naive_solver.
Qed.

Lemma diff_spec_elem a b k e : sorted_map a -> sorted_map b ->
  (k, e) ∈ diff_spec a b <-> diff_at a b k = Some (k, e).
Proof.
  intros Ha Hb. rewrite <-omap_diff_spec by done. rewrite elem_of_list_omap. split.
  - intros (k' & Hk' & Hd). pose proof (diff_at_key _ _ _ _ Hd). simpl in *. by subst.
  - intros Hd. exists k. split; [|done]. apply merge_keys_elem. by eapply diff_at_Some_covered.
Qed.

Lemma omap_keys_sublist (f : Z -> option (Z * diff_elem V)) l :
  (forall k x, f k = Some x -> x.1 = k) -> sublist (fst <$> omap f l) l.
Proof.
  intros Hf. induction l as [|k l IH]; [done|]. simpl.
  destruct (f k) as [x|] eqn:E.
  - simpl. rewrite (Hf _ _ E). by apply sublist_skip.
  - by apply sublist_cons.
Qed.

Lemma diff_spec_sorted a b : sorted_map a -> sorted_map b ->
  StronglySorted Z.lt (fst <$> diff_spec a b).
Proof.
  intros Ha Hb. rewrite <-omap_diff_spec by done.
  eapply (sublist_StronglySorted Z.lt _ (merge_keys (keys a) (keys b))); [by apply merge_keys_sorted|apply omap_keys_sublist; intros ??; apply diff_at_key].
Qed.

Lemma diff_spec_refl a : sorted_map a -> diff_spec a a = [].
Proof.
  intros Ha. destruct (diff_spec a a) as [|[k e] l] eqn:E; [done|].
  assert ((k, e) ∈ diff_spec a a) as Hin by (rewrite E; left).
  apply diff_spec_elem in Hin; [|done|done]. unfold diff_at in Hin.
  destruct (assoc_get a k); [|done]. by rewrite bool_decide_eq_true_2 in Hin.
Qed.

(* key-wise extensional equality of sorted maps *)
Lemma diff_spec_nil_inv a b : sorted_map a -> sorted_map b -> diff_spec a b = [] ->
  forall k, assoc_get a k = assoc_get b k.
Proof.
  intros Ha Hb E k. pose proof (diff_spec_elem a b k) as H. rewrite E in H.
  unfold diff_at in H.
  destruct (assoc_get a k) as [x|], (assoc_get b k) as [y|]; try done.
  - case_bool_decide; [by subst|]. exfalso. eapply elem_of_nil, H; done.
  - exfalso. eapply elem_of_nil, H; done.
  - exfalso. eapply elem_of_nil, H; done.
Qed.

(* ---- SymmetricDiffOwned ---- *)
Definition own (x : Z * diff_elem V) : diff_elem (Z * V) :=
  match x.2 with
  | DLeft v => DLeft (x.1, v) | DRight v => DRight (x.1, v)
  | DUnequal v w => DUnequal (x.1, v) (x.1, w)
  end.

Definition sdo_fused_ok (s : @sdo V) : Prop :=
  match sdo_fused s with
  | None => True
  | Some true => sdo_other s = []
  | Some false => sdo_self s = []
  end.

Lemma diff_spec_nil_r a : diff_spec a [] = (λ kv, (kv.1, DLeft kv.2)) <$> a.
Proof. by destruct a as [|[??]?]. Qed.
Lemma diff_spec_nil_l b : diff_spec [] b = (λ kv, (kv.1, DRight kv.2)) <$> b.
Proof. by destruct b. Qed.

Lemma sdo_next_spec fuel : forall s, sdo_fused_ok s ->
  length (sdo_self s) + length (sdo_other s) < fuel ->
  match sdo_next fuel s with
  | None => False
  | Some None => diff_spec (sdo_self s) (sdo_other s) = []
  | Some (Some (x, s')) =>
      sdo_fused_ok s'
      /\ length (sdo_self s') + length (sdo_other s') < length (sdo_self s) + length (sdo_other s)
      /\ own <$> diff_spec (sdo_self s) (sdo_other s)
         = x :: (own <$> diff_spec (sdo_self s') (sdo_other s'))
  end.
Proof.
  Local Ltac fin := unfold sdo_fused_ok; cbn -[diff_spec]; rewrite ?diff_spec_nil_r, ?diff_spec_nil_l;
    split_and?; cbn -[diff_spec]; try done; try lia.
  induction fuel as [|fuel IH]; intros [a b fu] Hok Hlen; [simpl in *; lia|].
  unfold sdo_fused_ok in Hok. cbn -[diff_spec] in *.
  destruct fu as [[|]|].
  - subst b. destruct a as [|[k v] a']; fin.
  - subst a. destruct b as [|[k v] b']; fin.
  - destruct a as [|[ka va] a'], b as [|[kb vb] b']; try (by fin).
    cbn [diff_spec].
    repeat case_bool_decide; try (by fin).
    + specialize (IH (SDO a' b' None) I ltac:(simpl in *; lia)). cbn -[diff_spec] in IH.
      destruct (sdo_next fuel (SDO a' b' None)) as [[[x s']|]|]; [|done|done].
      destruct IH as (?&?&?). split_and?; [done|simpl; lia|done].
    + assert (ka = kb) as -> by lia. fin.
Qed.

Lemma sdo_collect_S n (s : @sdo V) : sdo_collect (S n) s =
  match sdo_next (S (length (sdo_self s) + length (sdo_other s))) s with
  | None => None
  | Some None => Some []
  | Some (Some (x, s')) => (x ::.) <$> sdo_collect n s'
  end.
Proof. done. Qed.

Lemma sdo_collect_spec n : forall s, sdo_fused_ok s ->
  length (sdo_self s) + length (sdo_other s) < n ->
  sdo_collect n s = Some (own <$> diff_spec (sdo_self s) (sdo_other s)).
Proof.
  induction n as [|n IH]; intros s Hok Hlen; [lia|].
  rewrite sdo_collect_S.
  pose proof (sdo_next_spec (S (length (sdo_self s) + length (sdo_other s))) s Hok
                       ltac:(lia)) as Hn.
  destruct (sdo_next (S (length (sdo_self s) + length (sdo_other s))) s) as [[[x s']|]|];
    [|by rewrite Hn|done].
  destruct Hn as (Hok' & Hl & ->). rewrite IH; [done|done|lia].
Qed.

Theorem symmetric_diff_owned_correct a b :
  symmetric_diff_owned a b = Some (own <$> diff_spec a b).
Proof. unfold symmetric_diff_owned. rewrite sdo_collect_spec; [done|done|simpl; lia]. Qed.

End values.

(* ---- MergeOnceWith ---- *)
Section mow.
Context {L R : Type}.

Definition mow_fused_ok (s : @mow L R) : Prop :=
  match mow_fused s with
  | None => True
  | Some true => mow_b s = []
  | Some false => mow_a s = []
  end.

Lemma merge_spec_nil_r (a : list (Z * L)) : merge_spec a ([] : list (Z * R)) = MLeft <$> a.
Proof. by destruct a as [|[??]?]. Qed.

Lemma merge_spec_nil_l (b : list (Z * R)) : merge_spec ([] : list (Z * L)) b = MRight <$> b.
Proof. by destruct b. Qed.

Lemma mow_collect_spec n : forall s : @mow L R, mow_fused_ok s ->
  length (mow_a s) + length (mow_b s) < n ->
  mow_collect n s = Some (merge_spec (mow_a s) (mow_b s)).
Proof.
  Local Ltac go IH := rewrite IH; [|done|simpl in *; lia]; cbn -[merge_spec];
    rewrite ?merge_spec_nil_r, ?merge_spec_nil_l; done.
  induction n as [|n IH]; intros [a b fu] Hok Hlen; [lia|].
  unfold mow_fused_ok in Hok. cbn -[merge_spec] in *. unfold mow_next. cbn -[merge_spec].
  destruct fu as [[|]|].
  - subst b. rewrite merge_spec_nil_r. destruct a as [|[k x] a']; cbn -[merge_spec]; [done|]. go IH.
  - subst a. rewrite merge_spec_nil_l. destruct b as [|[k y] b']; cbn -[merge_spec]; [done|]. go IH.
  - destruct a as [|[ka x] a'], b as [|[kb y] b']; cbn -[merge_spec].
    + done.
    + rewrite merge_spec_nil_l. go IH.
    + rewrite merge_spec_nil_r. go IH.
    + cbn [merge_spec].
      destruct (Z.compare_spec ka kb); cbn -[merge_spec]; repeat case_bool_decide; try lia; go IH.
Qed.

Theorem merge_once_with_correct (a : list (Z * L)) (b : list (Z * R)) :
  merge_once_with a b = Some (merge_spec a b).
Proof. unfold merge_once_with. apply (mow_collect_spec _ (MOW a b None)); simpl; [done|lia]. Qed.

(* what merge_spec contains: key-wise pairing, in global key order *)
Definition merge_at (a : list (Z * L)) (b : list (Z * R)) (k : Z)
  : option (merge_elem (Z * L) (Z * R)) :=
  match assoc_get a k, assoc_get b k with
  | Some x, Some y => Some (MBoth (k, x) (k, y))
  | Some x, None => Some (MLeft (k, x))
  | None, Some y => Some (MRight (k, y))
  | None, None => None
  end.

Lemma merge_at_drop_l a b k0 v l : Forall (λ k, k0 < k)%Z l ->
  omap (merge_at ((k0, v) :: a) b) l = omap (merge_at a b) l.
Proof.
  induction 1 as [|k l Hk _ IH]; [done|]. rewrite !omap_cons, IH. unfold merge_at.
  simpl. rewrite bool_decide_eq_false_2 by lia. done.
Qed.
Lemma merge_at_drop_r a b k0 v l : Forall (λ k, k0 < k)%Z l ->
  omap (merge_at a ((k0, v) :: b)) l = omap (merge_at a b) l.
Proof.
  induction 1 as [|k l Hk _ IH]; [done|]. rewrite !omap_cons, IH. unfold merge_at.
  simpl. rewrite bool_decide_eq_false_2 by lia. done.
Qed.

Lemma assoc_get_lt_None' {X} (a : list (Z * X)) k :
  Forall (λ j, k < j)%Z (keys a) -> assoc_get a k = None.
Proof.
  induction a as [|[k' v] a IH]; [done|]. intros [H1 H2]%Forall_cons. simpl in *.
  rewrite bool_decide_eq_false_2 by lia. by apply IH.
Qed.
Lemma assoc_get_head' {X} (a : list (Z * X)) k v : assoc_get ((k, v) :: a) k = Some v.
Proof. simpl. by rewrite bool_decide_eq_true_2. Qed.

Lemma merge_at_head_l a b k v : Forall (λ j, k < j)%Z (keys b) ->
  merge_at ((k, v) :: a) b k = Some (MLeft (k, v)).
Proof. intros H. unfold merge_at. by rewrite assoc_get_head', (assoc_get_lt_None' b). Qed.
Lemma merge_at_head_r a b k v : Forall (λ j, k < j)%Z (keys a) ->
  merge_at a ((k, v) :: b) k = Some (MRight (k, v)).
Proof. intros H. unfold merge_at. by rewrite assoc_get_head', (assoc_get_lt_None' a). Qed.
Lemma merge_at_head_both a b k v w :
  merge_at ((k, v) :: a) ((k, w) :: b) k = Some (MBoth (k, v) (k, w)).
Proof. unfold merge_at. by rewrite !assoc_get_head'. Qed.

Lemma omap_merge_nil_l (b : list (Z * R)) : StronglySorted Z.lt (keys b) ->
  omap (merge_at [] b) (keys b) = MRight <$> b.
Proof.
  induction b as [|[k v] b IH]; [done|]. intros [Hs Hk]%StronglySorted_inv.
  change (keys ((k, v) :: b)) with (k :: keys b).
  rewrite omap_cons, merge_at_head_r by constructor.
  rewrite fmap_cons. f_equal. rewrite merge_at_drop_r by done. by apply IH.
Qed.
Lemma omap_merge_nil_r (a : list (Z * L)) : StronglySorted Z.lt (keys a) ->
  omap (merge_at a []) (keys a) = MLeft <$> a.
Proof.
  induction a as [|[k v] a IH]; [done|]. intros [Hs Hk]%StronglySorted_inv.
  change (keys ((k, v) :: a)) with (k :: keys a).
  rewrite omap_cons, merge_at_head_l by constructor.
  rewrite fmap_cons. f_equal. rewrite merge_at_drop_l by done. by apply IH.
Qed.

Lemma omap_merge_spec (a : list (Z * L)) : forall b : list (Z * R),
  StronglySorted Z.lt (keys a) -> StronglySorted Z.lt (keys b) ->
  omap (merge_at a b) (merge_keys (keys a) (keys b)) = merge_spec a b.
Proof.
  induction a as [|[ka va] a' IHa]; intros b Ha Hb.
  - rewrite merge_keys_nil_l. destruct b; [done|]. by apply omap_merge_nil_l.
  - induction b as [|[kb vb] b' IHb].
    + rewrite merge_keys_nil_r. by apply (omap_merge_nil_r ((ka,va)::a')).
    + pose proof Ha as [Ha' Hka]%StronglySorted_inv. pose proof Hb as [Hb' Hkb]%StronglySorted_inv.
      change (keys ((ka, va) :: a')) with (ka :: keys a') in *.
      change (keys ((kb, vb) :: b')) with (kb :: keys b') in *.
      cbn [merge_keys merge_spec]. repeat case_bool_decide.
      * rewrite omap_cons, merge_at_head_l by (by apply Forall_lt_cons).
        f_equal. rewrite merge_at_drop_l.
        { apply (IHa ((kb,vb)::b')); done. }
        apply Forall_merge_keys; [done|]. by apply Forall_lt_cons.
      * rewrite omap_cons, merge_at_head_r by (by apply Forall_lt_cons).
        f_equal. rewrite merge_at_drop_r.
        { apply IHb. done. }
        change (Forall (λ k, kb < k)%Z (merge_keys (ka :: keys a') (keys b'))).
        apply Forall_merge_keys; [|done]. by apply Forall_lt_cons.
      * assert (ka = kb) as -> by lia.
        rewrite omap_cons, merge_at_head_both.
        f_equal.
        rewrite merge_at_drop_l, merge_at_drop_r by (apply Forall_merge_keys; done).
        by apply IHa.
Qed.

Lemma merge_at_key a b k x : merge_at a b k = Some x -> merge_elem_key x = k.
Proof. unfold merge_at. repeat case_match; naive_solver. Qed.

Lemma assoc_get_is_Some' {X} (a : list (Z * X)) k : is_Some (assoc_get a k) <-> k ∈ keys a.
Proof.
  induction a as [|[k' v] a IH]; simpl.
  - split; [by intros [? ?]|by intros ?%elem_of_nil].
  - case_bool_decide; subst.
    + split; [intros _; apply elem_of_cons; by left|by eexists].
    + rewrite IH. unfold keys. simpl. rewrite elem_of_cons. naive_solver.
Qed.

Lemma merge_spec_elem (a : list (Z * L)) (b : list (Z * R)) x :
  StronglySorted Z.lt (keys a) -> StronglySorted Z.lt (keys b) ->
  x ∈ merge_spec a b <-> merge_at a b (merge_elem_key x) = Some x.
Proof.
  intros Ha Hb. rewrite <-omap_merge_spec by done. rewrite elem_of_list_omap. split.
  - intros (k' & Hk' & Hd). pose proof (merge_at_key _ _ _ _ Hd). by subst.
  - intros Hd. eexists. split; [|done]. apply merge_keys_elem.
    rewrite <-!assoc_get_is_Some'. unfold merge_at in Hd. repeat case_match; naive_solver.
Qed.

Lemma merge_spec_sorted (a : list (Z * L)) (b : list (Z * R)) :
  StronglySorted Z.lt (keys a) -> StronglySorted Z.lt (keys b) ->
  StronglySorted Z.lt (merge_elem_key <$> merge_spec a b).
Proof.
  intros Ha Hb. rewrite <-omap_merge_spec by done.
  eapply (sublist_StronglySorted Z.lt _ (merge_keys (keys a) (keys b))); [by apply merge_keys_sorted|].
  generalize (merge_keys (keys a) (keys b)). intros l.
  induction l as [|k l IH]; [done|]. simpl.
  destruct (merge_at a b k) as [x|] eqn:E.
  - simpl. rewrite (merge_at_key _ _ _ _ E). by apply sublist_skip.
  - by apply sublist_cons.
Qed.
End mow.
