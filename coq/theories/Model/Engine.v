(* Engine model E, part 2: the algorithms.  Each function carries the Rust location it
   transcribes.  Recursion is on explicit fuel; exhaustion yields OutOfFuel, never a value. *)
From stdpp Require Import base list option numbers.
From RecordUpdate Require Import RecordUpdate.
From Incr.Model Require Import Base Live.
Local Open Scope Z_scope.

(* ------------------------------------------------------------ pure queries *)
(* Node::kind(): None when invalid (node.rs:1655) *)
Definition node_kind (x : node) : option kind := if n_valid x then Some (n_kind x) else None.

(* try_fold_children (node.rs:1492): children in index order *)
Definition children_of (s : state) (x : node) : list nid :=
  match node_kind x with
  | None => []
  | Some (KConst _) | Some (KVar _) => []
  | Some (KMap _ cs) => cs
  | Some (KMapRef _ c) => [c]
  | Some (KMapWithOld _ c) => [c]
  | Some (KFold _ _ cs) => cs
  | Some (KBindLhs b) => match binds s !! b with Some bd => [b_lhs bd] | None => [] end
  | Some (KBindMain b lc) =>
      lc :: match binds s !! b with
            | Some bd => match b_rhs bd with Some r => [r] | None => [] end
            | None => []
            end
  | Some (KExpert x) =>
      match experts s !! x with
      | Some ex => omap (fun e => ed_child <$> edges s !! e) (ex_children ex)
      | None => []
      end
  end.

Definition indexed {A} (l : list A) : list (Z * A) := imap (fun i x => (Z.of_nat i, x)) l.

(* is_necessary (node.rs:509) *)
Definition is_necessary (x : node) : bool :=
  negb (bool_decide (n_parents x = [])) || negb (bool_decide (n_observers x = [])) || n_force_necessary x.

Definition in_rch (x : node) : bool := bool_decide (0 <= n_height_in_rch x).

(* is_stale (node.rs:462), is_stale_with_respect_to_a_child (node.rs:496) *)
Definition stale_wrt_child (s : state) (x : node) : bool :=
  existsb (fun c => match nodes s !! c with
                    | Some cx => bool_decide (n_recomputed_at x < n_changed_at cx)
                    | None => false end) (children_of s x).

Definition is_stale (s : state) (x : node) : bool :=
  match node_kind x with
  | None => false
  | Some (KVar v) => match vars s !! v with
                     | Some vr => bool_decide (n_recomputed_at x < v_set_at vr)
                     | None => false end
  | Some (KConst _) => bool_decide (n_recomputed_at x = -1)
  | Some (KExpert e) =>
      match experts s !! e with Some ex => ex_force_stale ex | None => false end
      || bool_decide (n_recomputed_at x = -1) || stale_wrt_child s x
  | Some _ => bool_decide (n_recomputed_at x = -1) || stale_wrt_child s x
  end.

(* needs_to_be_computed (node.rs:515) *)
Definition needs_to_be_computed (s : state) (x : node) : bool := is_necessary x && is_stale s x.

(* value_as_any (node.rs:369): map_ref reads through to its input *)
Fixpoint node_value (fuel : nat) (s : state) (n : nid) : option val :=
  match fuel with
  | O => None
  | S f =>
    match nodes s !! n with
    | None => None
    | Some x =>
      match node_kind x with
      | Some (KMapRef p c) =>
          (* the input of a map_ref is an older node *)
          if bool_decide (c < n)%nat then proj_sem p <$> node_value f s c else None
      | _ => n_value x
      end
    end
  end.
Definition value_of (n : nid) : M (option val) :=
  s <- get ;; ret (node_value (S n) s n).    (* inputs have smaller ranks: S n steps suffice *)

(* has_invalid_child / should_be_invalidated (node.rs:382-433) *)
Definition should_be_invalidated (s : state) (x : node) : bool :=
  match node_kind x with
  | None => false
  | Some (KConst _) | Some (KVar _) => false
  | Some (KBindLhs b) =>
      match binds s !! b with
      | Some bd => match nodes s !! b_lhs bd with Some l => negb (n_valid l) | None => false end
      | None => false end
  | Some (KBindMain _ lc) => match nodes s !! lc with Some l => negb (n_valid l) | None => false end
  | Some (KExpert _) => false
  | Some _ => existsb (fun c => match nodes s !! c with Some cx => negb (n_valid cx) | None => false end)
                      (children_of s x)
  end.

(* ------------------------------------------------------------ user code *)
(* every invocation of a user closure is a crash point *)
Definition user_call : M unit :=
  modify (fun s => s <| inv_count := S (inv_count s) |>) ;;;
  s <- get ;;
  if bool_decide (crash_at s = Some (inv_count s)) then panic PInjected else ret tt.

(* ------------------------------------------------------------ expert nodes, part 1 (kind/expert.rs) *)
(* key-sorted association lists with integer values (BTreeMap / OrdMap) *)
Fixpoint zm_get (k : Z) (m : list (Z * Z)) : option Z :=
  match m with
  | [] => None
  | (k', v) :: m' => if bool_decide (k' = k) then Some v else zm_get k m'
  end.
Fixpoint zm_set (k v : Z) (m : list (Z * Z)) : list (Z * Z) :=
  match m with
  | [] => [(k, v)]
  | (k', v') :: m' =>
      if bool_decide (k < k') then (k, v) :: m
      else if bool_decide (k = k') then (k, v) :: m'
      else (k', v') :: zm_set k v m'
  end.
Definition zm_del (k : Z) (m : list (Z * Z)) : list (Z * Z) := filter (fun kv => kv.1 <> k) m.

(* ExpertEdge::on_change (kind/expert.rs:49): the callback gets the child's current value *)
Definition edge_on_change (p : nid) (e : nat) : M unit :=
  ed <- get_edge e ;;
  match ed_cb ed with
  | CbNone => ret tt
  | CbLog =>
    v <- value_of (ed_child ed) ;;
    match v with
    | None => ret tt              (* linked before the child has a value, or the child is invalid *)
    | Some v => user_call ;;; emit (EvEdgeCb p e v) ;;; upd_edge e (fun ed => ed <| ed_seen := Some v |>)
    end
  | CbPerKey pk key =>
    (* on_inner_change (btree_map.rs:157): O::as_opt(value): None => acc.remove(key), Some(x) => acc.insert(key, x).
       For the filter flavour the harness' per-key function returns None as () *)
    v <- value_of (ed_child ed) ;;
    match v with
    | None => ret tt
    | Some v =>
        r <- get_perkey pk ;;
        if pk_filter r && (match v with VUnit => true | _ => false end)
        then upd_perkey pk (fun r => r <| pk_acc := zm_del key (pk_acc r) |>)
        else upd_perkey pk (fun r => r <| pk_acc := zm_set key (as_int v) (pk_acc r) |>)
    end
  end.

(* ExpertNode::run_edge_callback (kind/expert.rs:198) *)
Definition run_edge_callback (p : nid) (x : nat) (ci : Z) : M unit :=
  ex <- get_expert x ;;
  if ex_fire_all ex then ret tt else
  match zget (ex_children ex) ci with
  | None => ret tt
  | Some e => edge_on_change p e
  end.

(* ExpertNode::observability_change (kind/expert.rs:185) *)
Definition observability_change (p : nid) (x : nat) (b : bool) : M unit :=
  ex <- get_expert x ;;
  (* the nodes of a per-key operator pass a handler that does nothing *)
  (if bool_decide (2 <= ex_mode ex) then ret tt else user_call ;;; emit (EvObsChange p b)) ;;;
  if b then ret tt
  else upd_expert x (fun ex => ex <| ex_fire_all := true |> <| ex_num_invalid := 0 |>).

(* ------------------------------------------------------------ recompute heap (recompute_heap.rs) *)
Definition rch_max_allowed (s : state) : Z := zlen (rch_queues s) - 1.

(* link (recompute_heap.rs:85) *)
Definition rch_link (n : nid) : M unit :=
  x <- get_node n ;;
  let h := n_height x in
  massert (bool_decide (0 <= h)) (PAssert 101) ;;;
  s <- get ;;
  massert (bool_decide (h <= rch_max_allowed s)) (PAssert 102) ;;;
  upd_node n (fun x => x <| n_height_in_rch := h |>) ;;;
  match zget (rch_queues s) h with
  | None => panic (PIndex 103)
  | Some q => modify (fun s => s <| rch_queues := <[Z.to_nat h := q ++ [n]]> (rch_queues s) |>)
  end.

Definition find_pos (n : nid) (q : list nid) : option nat :=
  fst <$> list_find (fun y => y = n) q.

(* unlink (recompute_heap.rs:95) *)
Definition rch_unlink (n : nid) : M unit :=
  x <- get_node n ;;
  s <- get ;;
  let h := n_height_in_rch x in
  match zget (rch_queues s) h with
  | None => panic (PIndex 104)
  | Some q =>
    match find_pos n q with
    | None => panic PNotInRch
    | Some i => modify (fun s => s <| rch_queues := <[Z.to_nat h := swap_remove q i]> (rch_queues s) |>)
    end
  end.

(* insert (recompute_heap.rs:105) *)
Definition rch_insert (n : nid) : M unit :=
  dassert (x <- get_node n ;; s <- get ;; ret (negb (in_rch x) && needs_to_be_computed s x)) 105 ;;;
  dassert (x <- get_node n ;; s <- get ;; ret (bool_decide (n_height x <= rch_max_allowed s))) 106 ;;;
  x <- get_node n ;;
  s <- get ;;
  when (bool_decide (n_height x < rch_lower s)) (modify (fun s => s <| rch_lower := n_height x |>)) ;;;
  rch_link n ;;;
  modify (fun s => s <| rch_len := rch_len s + 1 |>).

(* remove (recompute_heap.rs:119) *)
Definition rch_remove (n : nid) : M unit :=
  dassert (x <- get_node n ;; s <- get ;; ret (in_rch x && negb (needs_to_be_computed s x))) 107 ;;;
  rch_unlink n ;;;
  upd_node n (fun x => x <| n_height_in_rch := -1 |>) ;;;
  modify (fun s => s <| rch_len := rch_len s - 1 |>).

(* the scanning loop of remove_min (recompute_heap.rs:166-180) *)
Fixpoint rch_scan (fuel : nat) : M (option (list nid)) :=
  match fuel with
  | O => out_of_fuel
  | S f =>
    s <- get ;;
    match zget (rch_queues s) (rch_lower s) with
    | None => ret None                                   (* `queues.get(..)?` *)
    | Some q =>
      if bool_decide (q = []) then
        modify (fun s => s <| rch_lower := rch_lower s + 1 |>) ;;;
        dassert (s <- get ;; ret (bool_decide (rch_lower s < zlen (rch_queues s)))) 109 ;;;
        rch_scan f
      else ret (Some q)
    end
  end.

(* remove_min (recompute_heap.rs:160) *)
Definition rch_remove_min : M (option nid) :=
  s <- get ;;
  if bool_decide (rch_len s = 0) then ret None else
  dassert (s <- get ;; ret (bool_decide (0 <= rch_lower s))) 108 ;;;
  oq <- rch_scan (S (S (length (rch_queues s)))) ;;
  match oq with
  | None => ret None
  | Some q =>
    match q with
    | [] => ret None
    | n :: q' =>
      s <- get ;;
      modify (fun s => s <| rch_queues := <[Z.to_nat (rch_lower s) := q']> (rch_queues s) |>) ;;;
      upd_node n (fun x => x <| n_height_in_rch := -1 |>) ;;;
      modify (fun s => s <| rch_len := rch_len s - 1 |>) ;;;
      ret (Some n)
    end
  end.

(* raise_min_height (recompute_heap.rs:135) *)
Fixpoint rch_raise (fuel : nat) : M unit :=
  match fuel with
  | O => out_of_fuel
  | S f =>
    s <- get ;;
    match zget (rch_queues s) (rch_lower s) with
    | Some [] => modify (fun s => s <| rch_lower := rch_lower s + 1 |>) ;;; rch_raise f
    | _ => ret tt
    end
  end.

(* min_height (recompute_heap.rs:130) *)
Definition rch_min_height : M Z :=
  s <- get ;;
  (if bool_decide (rch_len s = 0) then modify (fun s => s <| rch_lower := zlen (rch_queues s) |>)
   else rch_raise (S (S (length (rch_queues s))))) ;;;
  gets rch_lower.

(* increase_height (recompute_heap.rs:150) *)
Definition rch_increase_height (n : nid) : M unit :=
  dassert (x <- get_node n ;; ret (bool_decide (n_height_in_rch x < n_height x))) 110 ;;;
  dassert (x <- get_node n ;; ret (in_rch x)) 111 ;;;
  dassert (x <- get_node n ;; s <- get ;; ret (bool_decide (n_height x <= rch_max_allowed s))) 112 ;;;
  rch_unlink n ;;;
  rch_link n.

Definition resize {A} (l : list A) (n : nat) (d : A) : list A :=
  take n l ++ replicate (n - length l) d.

(* set_max_height_allowed (recompute_heap.rs:194) *)
Definition rch_set_max_height_allowed (new_max : Z) : M unit :=
  s <- get ;;
  (* #[cfg(debug_assertions)] the queues about to be removed must be empty *)
  (if debug s && negb (forallb (fun q => bool_decide (q = [])) (drop (Z.to_nat (new_max + 1)) (rch_queues s)))
   then panic (PAssert 113) else ret tt) ;;;
  modify (fun s => s <| rch_queues := resize (rch_queues s) (Z.to_nat (new_max + 1)) [] |>) ;;;
  modify (fun s => s <| rch_lower := Z.min (rch_lower s) (zlen (rch_queues s) + 1) |>).

(* ------------------------------------------------------------ adjust-heights heap (adjust_heights_heap.rs) *)
Definition ahh_max_allowed (s : state) : Z := zlen (ahh_queues s) - 1.

(* set_max_height_allowed (adjust_heights_heap.rs:40) *)
Definition ahh_set_max_height_allowed (new_max : Z) : M unit :=
  s <- get ;;
  (if bool_decide (new_max < ahh_max_seen s) then panic PSetMaxBelowSeen else ret tt) ;;;
  dassert (s <- get ;; ret (bool_decide (ahh_len s = 0))) 114 ;;;
  dassert (s <- get ;; ret (forallb (fun q => bool_decide (q = [])) (ahh_queues s))) 115 ;;;
  modify (fun s => s <| ahh_queues := resize (ahh_queues s) (Z.to_nat (new_max + 1)) [] |>).

(* add_unless_mem (adjust_heights_heap.rs:49) *)
Definition ahh_add_unless_mem (n : nid) : M unit :=
  x <- get_node n ;;
  if bool_decide (n_height_in_ahh x = -1) then
    let h := n_height x in
    dassert (s <- get ;; ret (bool_decide (ahh_lower s <= h))) 120 ;;;
    dassert (s <- get ;; ret (bool_decide (h <= ahh_max_allowed s))) 121 ;;;
    upd_node n (fun x => x <| n_height_in_ahh := h |>) ;;;
    modify (fun s => s <| ahh_len := ahh_len s + 1 |>) ;;;
    s <- get ;;
    match zget (ahh_queues s) h with
    | None => panic (PUnwrapNone 122)
    | Some q => modify (fun s => s <| ahh_queues := <[Z.to_nat h := q ++ [n]]> (ahh_queues s) |>)
    end
  else ret tt.

(* the scanning loop of AdjustHeightsHeap::remove_min: returns the height found *)
Fixpoint ahh_scan (fuel : nat) (h : Z) : M (option (Z * list nid)) :=
  match fuel with
  | O => out_of_fuel
  | S f =>
    s <- get ;;
    match zget (ahh_queues s) h with
    | None => ret None
    | Some q => if bool_decide (q = []) then ahh_scan f (h + 1) else ret (Some (h, q))
    end
  end.

(* remove_min (adjust_heights_heap.rs:64) *)
Definition ahh_remove_min : M (option nid) :=
  s <- get ;;
  if bool_decide (ahh_len s = 0) then ret None else
  r <- ahh_scan (S (S (length (ahh_queues s)))) (ahh_lower s) ;;
  match r with
  | None => ret None
  | Some (h, q) =>
    modify (fun s => s <| ahh_lower := h |>) ;;;
    match q with
    | [] => ret None
    | n :: q' =>
      modify (fun s => s <| ahh_queues := <[Z.to_nat h := q']> (ahh_queues s) |>) ;;;
      upd_node n (fun x => x <| n_height_in_ahh := -1 |>) ;;;
      modify (fun s => s <| ahh_len := ahh_len s - 1 |>) ;;;
      ret (Some n)
    end
  end.

(* set_height (adjust_heights_heap.rs:83); State::set_height (state.rs:459) *)
Definition set_height (n : nid) (h : Z) : M unit :=
  s <- get ;;
  (if bool_decide (ahh_max_seen s < h) then
     modify (fun s => s <| ahh_max_seen := h |>) ;;;
     (if bool_decide (ahh_max_allowed s < h) then panic PHeightLimit else ret tt)
   else ret tt) ;;;
  upd_node n (fun x => x <| n_height := h |>).

(* ensure_height_requirement (adjust_heights_heap.rs:95) *)
Definition ensure_height_requirement (oc op child parent : nid) : M unit :=
  dassert (x <- get_node child ;; ret (is_necessary x)) 123 ;;;
  dassert (x <- get_node parent ;; ret (is_necessary x)) 124 ;;;
  (if bool_decide (parent = oc) then panic PCycle else ret tt) ;;;
  c <- get_node child ;;
  p <- get_node parent ;;
  if bool_decide (n_height p <= n_height c) then
    ahh_add_unless_mem parent ;;;
    set_height parent (n_height c + 1)
  else ret tt.

(* ensure_parent_height_requirements (node.rs:446) + adjust_heights_bind_lhs_change (node.rs:908) *)
Definition ahh_visit (oc op child : nid) : M unit :=
  c <- get_node child ;;
  forM_ (n_parents c) (fun p =>
    px <- get_node p ;;
    (if n_live px then ret tt else panic (PUnwrapNone 130)) ;;;
    ensure_height_requirement oc op child p) ;;;
  match node_kind c with
  | Some (KBindLhs b) =>
      bd <- get_bind b ;;
      forM_ (b_created bd) (fun r =>
        rx <- get_node r ;;
        if n_live rx && is_necessary rx then ensure_height_requirement oc op child r else ret tt)
  | _ => ret tt
  end.

Fixpoint adjust_heights_loop (fuel : nat) (oc op : nid) : M unit :=
  match fuel with
  | O => out_of_fuel
  | S f =>
    o <- ahh_remove_min ;;
    match o with
    | None => ret tt
    | Some child =>
      c <- get_node child ;;
      (if in_rch c then rch_increase_height child else ret tt) ;;;
      ahh_visit oc op child ;;;
      adjust_heights_loop f oc op
    end
  end.

(* adjust_heights (adjust_heights_heap.rs:125) *)
Definition adjust_heights (fuel : nat) (oc op : nid) : M unit :=
  dassert (s <- get ;; ret (bool_decide (ahh_len s = 0))) 125 ;;;
  dassert (c <- get_node oc ;; p <- get_node op ;; ret (bool_decide (n_height p <= n_height c))) 126 ;;;
  p <- get_node op ;;
  modify (fun s => s <| ahh_lower := n_height p |>) ;;;
  ensure_height_requirement oc op oc op ;;;
  adjust_heights_loop fuel oc op ;;;
  dassert (s <- get ;; ret (bool_decide (ahh_len s = 0))) 127 ;;;
  dassert (c <- get_node oc ;; p <- get_node op ;; ret (bool_decide (n_height c < n_height p))) 128.

(* ------------------------------------------------------------ edges (node.rs:1782, 1400) *)
Definition zset {A} (l : list A) (i : Z) (x : A) : list A := <[Z.to_nat i := x]> l.

(* add_parent (node.rs:1782) *)
Definition add_parent (child : nid) (ci : Z) (parent : nid) : M unit :=
  (* child.parent_child_indices and parent.parent_child_indices are both mutably borrowed *)
  (if bool_decide (child = parent) then panic (PBorrow 140) else ret tt) ;;;
  c <- get_node child ;;
  let pi := zlen (n_parents c) in
  upd_node child (fun c => c <| n_cix_in_parent := zset (pad_to (n_cix_in_parent c) pi (-1)) pi ci |>) ;;;
  upd_node parent (fun p => p <| n_pix_in_child := zset (pad_to (n_pix_in_child p) ci (-1)) ci pi |>) ;;;
  upd_node child (fun c => c <| n_parents := n_parents c ++ [parent] |>).

(* remove_parent (node.rs:1400) *)
Definition remove_parent (child : nid) (ci : Z) (parent : nid) : M unit :=
  (if bool_decide (child = parent) then panic (PBorrow 141) else ret tt) ;;;
  p <- get_node parent ;;
  c <- get_node child ;;
  match zget (n_pix_in_child p) ci with
  | None => panic (PIndex 142)
  | Some pi =>
    dassert (ret (bool_decide (1 <= zlen (n_parents c)) && bool_decide (0 <= pi))) 143 ;;;
    dassert (ret (bool_decide (zget (n_parents c) pi = Some parent))) 144 ;;;
    upd_node parent (fun p => p <| n_pix_in_child := zset (n_pix_in_child p) ci (-1) |>) ;;;
    let nparents := zlen (n_parents c) in
    s <- get ;;
    (* `child_parents.len() - 1` on usize *)
    (if bool_decide (nparents = 0) then
       (if debug s then panic (POverflow 145) else panic (PIndex 146))
     else ret tt) ;;;
    let last := nparents - 1 in
    (if bool_decide (0 <= pi) && bool_decide (pi < last) then
       match zget (n_parents c) last with
       | None => panic (PIndex 147)
       | Some end_p =>
         ex <- get_node end_p ;;
         if n_live ex then
           (if bool_decide (end_p = child) then panic (PBorrow 148) else ret tt) ;;;
           match zget (n_cix_in_parent c) last with
           | None => panic (PIndex 149)
           | Some eci =>
             ex <- get_node end_p ;;
             (if bool_decide (0 <= eci) && bool_decide (eci < zlen (n_pix_in_child ex)) then ret tt
              else panic (PIndex 150)) ;;;
             upd_node end_p (fun e => e <| n_pix_in_child := zset (n_pix_in_child e) eci pi |>) ;;;
             (if bool_decide (pi < zlen (n_cix_in_parent c)) then ret tt else panic (PIndex 151)) ;;;
             upd_node child (fun c => c <| n_cix_in_parent := zset (n_cix_in_parent c) pi eci |>)
           end
         else ret tt
       end
     else ret tt) ;;;
    c <- get_node child ;;
    (if bool_decide (last < zlen (n_cix_in_parent c)) then ret tt else panic (PIndex 152)) ;;;
    upd_node child (fun c => c <| n_cix_in_parent := zset (n_cix_in_parent c) last (-1) |>) ;;;
    (if bool_decide (0 <= pi) && bool_decide (pi < nparents) then ret tt else panic (PIndex 153)) ;;;
    upd_node child (fun c => c <| n_parents := swap_remove (n_parents c) (Z.to_nat pi) |>)
  end.

(* ------------------------------------------------------------ scopes (scope.rs, kind/bind.rs) *)
Definition scope_height (sc : scope) : M Z :=
  match sc with
  | STop => ret 0
  | SBind b =>
    bd <- get_bind b ;;
    (if b_live bd then ret tt else panic (PUnwrapNone 160)) ;;;
    lc <- get_node (b_lhs_change bd) ;;
    (if n_live lc then ret tt else panic (PUnwrapNone 161)) ;;;
    ret (n_height lc)
  end.

Definition scope_is_necessary (sc : scope) : M bool :=
  match sc with
  | STop => ret true
  | SBind b =>
    bd <- get_bind b ;;
    (if b_live bd then ret tt else panic (PUnwrapNone 162)) ;;;
    m <- get_node (b_main bd) ;;
    ret (n_live m && is_necessary m)
  end.

Definition scope_is_valid (sc : scope) : M bool :=
  match sc with
  | STop => ret true
  | SBind b =>
    bd <- get_bind b ;;
    (if b_live bd then ret tt else panic (PUnwrapNone 163)) ;;;
    m <- get_node (b_main bd) ;;
    ret (n_live m && n_valid m)
  end.

(* ------------------------------------------------------------ handle_after_stabilisation (node.rs:947-960) *)
Definition handle_after_stabilisation (n : nid) : M unit :=
  x <- get_node n ;;
  if n_in_has x then ret tt else
    upd_node n (fun x => x <| n_in_has := true |>) ;;;
    modify (fun s => s <| has_stack := has_stack s ++ [n] |>).

Definition maybe_handle_after_stabilisation (n : nid) : M unit :=
  x <- get_node n ;;
  if bool_decide (0 < n_num_handlers x) then handle_after_stabilisation n else ret tt.

(* ------------------------------------------------------------ necessity *)
Definition incr_field (f : state -> state) : M unit := modify f.

(* became_necessary (node.rs:529) and add_parent_without_adjusting_heights (node.rs:1350) *)
Fixpoint became_necessary (fuel : nat) (n : nid) : M unit :=
  match fuel with
  | O => out_of_fuel
  | S f =>
    x <- get_node n ;;
    sn <- (if n_valid x then scope_is_necessary (n_created_in x) else ret true) ;;
    (if n_valid x && negb sn then panic PScopeNotNecessary else ret tt) ;;;
    emit (EvBecameNecessary n) ;;;
    modify (fun s => s <| num_became_necessary := num_became_necessary s + 1 |>) ;;;
    maybe_handle_after_stabilisation n ;;;
    sh <- scope_height (n_created_in x) ;;
    set_height n (sh + 1) ;;;
    s <- get ;;
    x <- get_node n ;;
    h <- foldM (fun h ic =>
           add_parent_without_adjusting_heights f ic.2 ic.1 n ;;;
           cx <- get_node ic.2 ;;
           ret (if bool_decide (h <= n_height cx) then n_height cx + 1 else h))
         (indexed (children_of s x)) (n_height x) ;;
    set_height n h ;;;
    dassert (x <- get_node n ;; ret (negb (in_rch x))) 201 ;;;
    dassert (x <- get_node n ;; ret (is_necessary x)) 202 ;;;
    s <- get ;;
    x <- get_node n ;;
    (if is_stale s x then rch_insert n else ret tt) ;;;
    x <- get_node n ;;
    match node_kind x with
    | Some (KExpert e) => observability_change n e true
    | _ => ret tt
    end
  end
with add_parent_without_adjusting_heights (fuel : nat) (child : nid) (ci : Z) (parent : nid) : M unit :=
  match fuel with
  | O => out_of_fuel
  | S f =>
    dassert (p <- get_node parent ;; ret (is_necessary p)) 210 ;;;
    c <- get_node child ;;
    let was_necessary := is_necessary c in
    add_parent child ci parent ;;;
    (if n_valid c then ret tt
     else modify (fun s => s <| prop_inv := prop_inv s ++ [parent] |>)) ;;;
    (if was_necessary then ret tt else became_necessary f child) ;;;
    (* an expert parent that has already run hears about the new child at once *)
    p <- get_node parent ;;
    match node_kind p with
    | Some (KExpert e) => run_edge_callback parent e ci
    | _ => ret tt
    end
  end.

(* remove_children (node.rs:1810), check_if_unnecessary (node.rs:560), became_unnecessary (node.rs:566) *)
Fixpoint remove_children (fuel : nat) (n : nid) : M unit :=
  match fuel with
  | O => out_of_fuel
  | S f =>
    s <- get ;;
    x <- get_node n ;;
    forM_ (indexed (children_of s x)) (fun ic =>
      remove_parent ic.2 ic.1 n ;;;
      check_if_unnecessary f ic.2)
  end
with check_if_unnecessary (fuel : nat) (n : nid) : M unit :=
  match fuel with
  | O => out_of_fuel
  | S f =>
    x <- get_node n ;;
    if is_necessary x then ret tt else became_unnecessary f n
  end
with became_unnecessary (fuel : nat) (n : nid) : M unit :=
  match fuel with
  | O => out_of_fuel
  | S f =>
    emit (EvBecameUnnecessary n) ;;;
    modify (fun s => s <| num_became_unnecessary := num_became_unnecessary s + 1 |>) ;;;
    maybe_handle_after_stabilisation n ;;;
    set_height n (-1) ;;;
    remove_children f n ;;;
    x <- get_node n ;;
    (match node_kind x with
     | Some (KExpert e) => observability_change n e false
     | _ => ret tt
     end) ;;;
    (match node_kind x with
     | Some (KMapRef _ _) => upd_node n (fun x => x <| n_mapref_did_change := true |>)
     | _ => ret tt
     end) ;;;
    dassert (x <- get_node n ;; s <- get ;; ret (negb (needs_to_be_computed s x))) 203 ;;;
    x <- get_node n ;;
    if in_rch x then rch_remove n else ret tt
  end.

(* remove_child (node.rs:1296, 1810): the edge is taken away, then the child is asked whether anything
   still needs it *)
Definition remove_child_edge (fuel : nat) (child : nid) (ci : Z) (parent : nid) : M unit :=
  remove_parent child ci parent ;;;
  check_if_unnecessary fuel child.

(* invalidate_node (node.rs:857), invalidate_nodes_created_on_rhs (node.rs:1588) *)
Fixpoint invalidate_node (fuel : nat) (n : nid) : M unit :=
  match fuel with
  | O => out_of_fuel
  | S f =>
    x <- get_node n ;;
    if negb (n_valid x) then ret tt else
    emit (EvInvalidate n) ;;;
    maybe_handle_after_stabilisation n ;;;
    stamp_node n (fun st x => x <| n_value := None |> <| n_changed_at := st |> <| n_recomputed_at := st |>) ;;;
    modify (fun s => s <| num_invalidated := num_invalidated s + 1 |>) ;;;
    (if is_necessary x then
       remove_children f n ;;;
       sh <- scope_height (n_created_in x) ;;
       set_height n (sh + 1)
     else ret tt) ;;;
    (match node_kind x with
     | Some (KBindMain b _) =>
         bd <- get_bind b ;;
         let all := b_created bd in
         upd_bind b (fun bd => bd <| b_created := [] |>) ;;;     (* drain(..) *)
         forM_ all (fun r => rx <- get_node r ;; if n_live rx then invalidate_node f r else ret tt)
     | _ => ret tt
     end) ;;;
    upd_node n (fun x => x <| n_valid := false |>) ;;;
    x <- get_node n ;;
    forM_ (n_parents x) (fun p =>
      px <- get_node p ;;
      if n_live px then modify (fun s => s <| prop_inv := prop_inv s ++ [p] |>) else ret tt) ;;;
    dassert (x <- get_node n ;; s <- get ;; ret (negb (needs_to_be_computed s x))) 204 ;;;
    x <- get_node n ;;
    if in_rch x then rch_remove n else ret tt
  end.

Definition invalidate_nodes_created_on_rhs (fuel : nat) (all : list nid) : M unit :=
  forM_ all (fun r => rx <- get_node r ;; if n_live rx then invalidate_node fuel r else ret tt).

(* propagate_invalidity (state.rs:399) *)
Fixpoint propagate_invalidity (fuel : nat) : M unit :=
  match fuel with
  | O => out_of_fuel
  | S f =>
    s <- get ;;
    match stdpp.list.last (prop_inv s) with
    | None => ret tt
    | Some n =>
      modify (fun s => s <| prop_inv := removelast (prop_inv s) |>) ;;;
      x <- get_node n ;;
      (if n_live x && n_valid x then
         s <- get ;;
         if should_be_invalidated s x then invalidate_node f n
         else
           dassert (x <- get_node n ;; s <- get ;; ret (needs_to_be_computed s x)) 205 ;;;
           (* propagate_invalidity_helper (node.rs:410): debug builds panic for kinds other than BindMain *)
           (match node_kind x with
            | Some (KBindMain _ _) => ret tt
            | Some (KExpert e) => upd_expert e (fun ex => ex <| ex_num_invalid := ex_num_invalid ex + 1 |>)
            | _ => d <- gets debug ;; if d : bool then panic (PDebugAssert 206) else ret tt
            end) ;;;
           x <- get_node n ;;
           if in_rch x then ret tt else rch_insert n
       else ret tt) ;;;
      propagate_invalidity f
    end
  end.

(* state_add_parent (node.rs:1372) *)
Definition state_add_parent (fuel : nat) (child : nid) (ci : Z) (parent : nid) : M unit :=
  dassert (p <- get_node parent ;; ret (is_necessary p)) 220 ;;;
  add_parent_without_adjusting_heights fuel child ci parent ;;;
  c <- get_node child ;;
  p <- get_node parent ;;
  (if bool_decide (n_height p <= n_height c) then adjust_heights fuel child parent else ret tt) ;;;
  propagate_invalidity fuel ;;;
  dassert (p <- get_node parent ;; ret (is_necessary p)) 221 ;;;
  c <- get_node child ;;
  p <- get_node parent ;;
  if negb (in_rch p) && (bool_decide (n_recomputed_at p = -1) || bool_decide (n_recomputed_at p < n_changed_at c))
  then rch_insert parent else ret tt.

(* change_child_bind_rhs (node.rs:1307) *)
Definition change_child_bind_rhs (fuel : nat) (main : nid) (old_child : option nid) (new_child : nid) (ci : Z)
  : M unit :=
  m <- get_node main ;;
  match node_kind m with
  | Some (KBindMain _ _) =>
    match old_child with
    | None => state_add_parent fuel new_child ci main
    | Some old =>
      if bool_decide (old = new_child) then ret tt else
      remove_parent old ci main ;;;
      upd_node old (fun x => x <| n_force_necessary := true |>) ;;;
      state_add_parent fuel new_child ci main ;;;
      upd_node old (fun x => x <| n_force_necessary := false |>) ;;;
      check_if_unnecessary fuel old
    end
  | _ => ret tt
  end.

(* ------------------------------------------------------------ vars (var.rs) *)
(* did_set_var_while_not_stabilising (var.rs:209) *)
Definition did_set_var_while_not_stabilising (x : vid) : M unit :=
  v <- get_var x ;;
  match v_node v with
  | None => panic PAbandonedWatch
  | Some watch =>
    modify (fun s => s <| num_var_sets := num_var_sets s + 1 |>) ;;;
    st <- gets stab_num ;;
    if bool_decide (v_set_at v < st) then
      stamp_var x (fun st v => v <| v_set_at := st |>) ;;;
      dassert (w <- get_node watch ;; s <- get ;; ret (is_stale s w)) 230 ;;;
      w <- get_node watch ;;
      if is_necessary w && negb (in_rch w) then rch_insert watch else ret tt
    else ret tt
  end.

Definition set_var_while_not_stabilising (x : vid) (value : val) : M unit :=
  upd_var x (fun v => v <| v_value := value |>) ;;;
  did_set_var_while_not_stabilising x.

(* a write `new = f(old)`; returns the old logical value (what replace/replace_with return).
   set (var.rs:187), update (var.rs:103), modify (var.rs:162), replace_with (var.rs:131) all have
   this shape: outside Stabilising the write is immediate, inside it goes to the pending slot. *)
Definition var_write (x : vid) (f : val -> val) : M val :=
  v <- get_var x ;;
  st <- gets st_status ;;
  match st with
  | NotStabilising | RunningOnUpdateHandlers =>
      let old := v_value v in
      upd_var x (fun v => v <| v_value := f old |>) ;;;
      did_set_var_while_not_stabilising x ;;;
      ret old
  | Stabilising =>
      match v_pending v with
      | Some delayed =>
          upd_var x (fun v => v <| v_pending := Some (f delayed) |>) ;;; ret delayed
      | None =>
          modify (fun s => s <| set_during := set_during s ++ [x] |>) ;;;
          upd_var x (fun v => v <| v_pending := Some (f (v_value v)) |>) ;;; ret (v_value v)
      end
  end.

(* try_get_value / value_inner (internal_observer.rs:176-201); errors as codes *)
Definition ERR_CURRENTLY_STABILISING : Z := 1.
Definition ERR_NEVER_STABILISED : Z := 2.
Definition ERR_DISALLOWED : Z := 3.
Definition ERR_OBSERVING_INVALID : Z := 4.
Definition ERR_MISMATCH : Z := 5.

Definition observer_read (o : oid) : M (val + Z) :=
  ob <- get_obs o ;;
  st <- gets st_status ;;
  match st with
  | Stabilising => ret (inr ERR_CURRENTLY_STABILISING)
  | _ =>
    match o_state ob with
    | OCreated => ret (inr ERR_NEVER_STABILISED)
    | OInUse => v <- value_of (o_observing ob) ;;
                ret (match v with Some v => inl v | None => inr ERR_OBSERVING_INVALID end)
    | ODisallowed | OUnlinked => ret (inr ERR_DISALLOWED)
    end
  end.

(* impl Drop for Var (public.rs:272): the last handle queues the var on dead_vars *)
Definition drop_var_handle (x : vid) : M unit :=
  v <- get_var x ;;
  upd_var x (fun v => v <| v_handles := pred (v_handles v) |>) ;;;
  (if bool_decide (v_handles v = 1%nat) then modify (fun s => s <| dead_vars := dead_vars s ++ [x] |>)
   else ret tt).

(* a closure reaches a variable through the handle the program holds; once that is gone (an earlier
   EDropVar) the closure finds nothing and does nothing *)
Definition with_var_handle (x : vid) (m : M unit) : M unit :=
  v <- get_var x ;; if bool_decide (v_handles v = 0%nat) then ret tt else m.

(* ------------------------------------------------------------ node creation (node.rs:1598-1653, scope.rs:73) *)
Definition new_node (k : kind) (sc : scope) : node :=
  Node k true None CPartialEq (-1) (-1) 0 [] sc [] [-1] (-1) (-1) (-1) false false [] true true [].

Definition create_node (k : kind) : M nid :=
  s <- get ;;
  let n := length (nodes s) in
  modify (fun s => s <| num_created := num_created s + 1 |>
                     <| nodes := nodes s ++ [new_node k (cur_scope s)] |>) ;;;
  match cur_scope s with
  | STop => ret n
  | SBind b =>
      bd <- get_bind b ;;
      (if b_live bd then ret tt else panic (PUnwrapNone 330)) ;;;
      upd_bind b (fun bd => bd <| b_created := b_created bd ++ [n] |>) ;;; ret n
  end.

(* Incr::bind (incr.rs:257): BindNode, then lhs_change, then main; lhs_change never cuts off *)
Definition create_bind (lhs : nid) (f : bindfn) : M nid :=
  s <- get ;;
  let b := length (binds s) in
  modify (fun s => s <| binds := binds s ++ [Bind lhs f None 0 0 [] 0 true] |>) ;;;
  lc <- create_node (KBindLhs b) ;;
  main <- create_node (KBindMain b lc) ;;
  upd_bind b (fun bd => bd <| b_lhs_change := lc |> <| b_main := main |>) ;;;
  upd_node lc (fun x => x <| n_cutoff := CNever |>) ;;;
  ret main.

(* resolve the operands of a nested closure against the locals of the enclosing template run *)
Definition subst_operand (locals : list nid) (o : operand) : operand :=
  match o with
  | OOuter n => OOuter n
  | OLocal O i => OLocal O i
  | OLocal (S d) i =>
      match d with
      | O => match locals !! i with Some n => OOuter n | None => OLocal (S d) i end
      | S d' => OLocal d i
      end
  | OLate h => OLate h
  | OForeign => OForeign
  end.

(* operands at depth >= 1 inside a nested template refer outwards; shift them by one level
   while descending, resolving those that point at [locals] *)
Fixpoint subst_tinstr (lv : nat) (locals : list nid) (t : tinstr) : tinstr :=
  let so (o : operand) : operand :=
    match o with
    | OOuter n => OOuter n
    | OLocal d i =>
        if bool_decide (d = S lv) then
          match locals !! i with Some n => OOuter n | None => o end
        else if bool_decide (S lv < d)%nat then OLocal (pred d) i
        else o
    | OLate h => o
    | OForeign => o
    end in
  match t with
  | TConst v => TConst v
  | TConstLhs => TConstLhs
  | TMap fid effs args => TMap fid effs (so <$> args)
  | TMapRef p a => TMapRef p (so a)
  | TMapWithOld fid a => TMapWithOld fid (so a)
  | TFold fid init args => TFold fid init (so <$> args)
  | TCutoff tg c => TCutoff (so tg) c
  | TExport o => TExport (so o)
  | TMemoCall m k => TMemoCall m k
  | TMemoNew f => TMemoNew (subst_bindfn (S lv) locals f)
  | TBind lhs f => TBind (so lhs) (subst_bindfn (S lv) locals f)
  end
with subst_bindfn (lv : nat) (locals : list nid) (f : bindfn) : bindfn :=
  match f with
  | BindFn effs ts =>
      BindFn effs ((fix go (ts : list (list tinstr * operand)) :=
                      match ts with
                      | [] => []
                      | (body, r) :: ts' =>
                          ((fix gob (b : list tinstr) := match b with [] => [] | t :: b' => subst_tinstr lv locals t :: gob b' end) body,
                           match r with
                           | OOuter n => OOuter n
                           | OLocal d i =>
                               if bool_decide (d = S lv) then
                                 match locals !! i with Some n => OOuter n | None => r end
                               else if bool_decide (S lv < d)%nat then OLocal (pred d) i
                               else r
                           | OLate h => r
                           | OForeign => r
                           end) :: go ts'
                      end) ts)
  end.

Fixpoint assoc_find (k : Z) (l : list (Z * nid)) : option nid :=
  match l with
  | [] => None
  | (k', n) :: l' => if bool_decide (k' = k) then Some n else assoc_find k l'
  end.
Definition assoc_set (k : Z) (n : nid) (l : list (Z * nid)) : list (Z * nid) :=
  (k, n) :: filter (fun kn => kn.1 <> k) l.

(* state.weak_memoize_fn(f) (public.rs:342): remembers the current scope *)
Definition memo_new (f : bindfn) : M unit :=
  match f with
  | BindFn _ [(body, r)] => modify (fun s => s <| memos := memos s ++ [Memo (cur_scope s) body r []] |>)
  | _ => panic (PModelGap 52)
  end.

(* storage.get(&i).upgrade() (public.rs:360-366) *)
Definition memo_lookup (mm : memo) (key : Z) : M (option nid) :=
  match assoc_find key (m_table mm) with
  | Some n => x <- get_node n ;; ret (if n_live x then Some n else None)
  | None => ret None
  end.
(* storage.insert(i, val.weak()) *)
Definition memo_store (m : nat) (key : Z) (n : nid) : M unit :=
  modify (fun s => s <| memos := alter (fun mm => mm <| m_table := assoc_set key n (m_table mm) |>) m (memos s) |>).
(* State::within_scope (state.rs:112): the old scope is not restored when f panics *)
Definition within_scope {A} (sc : scope) (f : M A) : M A :=
  ok <- scope_is_valid sc ;;
  (if ok : bool then ret tt else panic PInvalidScope) ;;;
  old <- gets cur_scope ;;
  modify (fun s => s <| cur_scope := sc |>) ;;;
  r <- f ;;
  modify (fun s => s <| cur_scope := old |>) ;;;
  ret r.

Definition resolve (locals : list nid) (o : operand) : M nid :=
  match o with
  | OOuter n => ret n
  | OLocal O i => match locals !! i with Some n => ret n | None => panic (PModelGap 20) end
  | OLocal (S _) _ => panic (PModelGap 21)
  | OLate h => s <- get ;; match handles s !! h with Some (Some n) => ret n | _ => panic (PModelGap 22) end
  | OForeign => panic (PModelGap 23)
  end.

(* run one template: the body of a bind closure ([lhsv] is the left-hand value) or of a memoised
   function ([lhsv] is the key).  Memoised calls (public.rs:342-375) recurse into templates.
   [pins]: the nodes held by local variables of the enclosing frames (and the node being recomputed).
   When a memoised function returns, its own locals are dropped: everything only they kept alive is
   freed at that moment, which a later lookup in a weak table can observe. *)
Fixpoint instantiate (fuel : nat) (pins : list nid) (lhsv : val) (body : list tinstr) (r : operand) : M (option nid) :=
  match fuel with
  | O => out_of_fuel
  | S f =>
    let cap := as_int lhsv in
    locals <- foldM (fun locals t =>
      n <- match t with
           | TConst v => create_node (KConst (VInt v))
           | TConstLhs => create_node (KConst lhsv)
           | TMap fid effs args =>
               cs <- mapM (resolve locals) args ;; create_node (KMap (Clo fid cap effs false) cs)
           | TMapRef p a => c <- resolve locals a ;; create_node (KMapRef p c)
           | TMapWithOld fid a => c <- resolve locals a ;; create_node (KMapWithOld (Clo fid cap [] false) c)
           | TFold fid init args =>
               cs <- mapM (resolve locals) args ;;
               (match cs with
                | [] => create_node (KConst (VInt init))
                | _ => create_node (KFold (Clo fid cap [] false) (VInt init) cs)
                end)
           | TCutoff tg c => n <- resolve locals tg ;; upd_node n (fun x => x <| n_cutoff := c |>) ;;; ret n
           | TExport o => n <- resolve locals o ;; modify (fun s => s <| exports := exports s ++ [n] |>) ;;; ret n
           | TMemoCall m k => memo_call f (pins ++ locals) m (match k with Some k => k | None => cap end)
           | TMemoNew fn => memo_new (subst_bindfn 0 locals fn) ;;; ret 0%nat
           | TBind lhs fn => l <- resolve locals lhs ;; create_bind l (subst_bindfn 0 locals fn)
           end ;;
      ret (match t with TCutoff _ _ | TExport _ | TMemoNew _ => locals | _ => locals ++ [n] end))
    body [] ;;
    (* None: the closure returned a node of another state *)
    match r with OForeign => ret None | _ => n <- resolve locals r ;; ret (Some n) end
  end
with memo_call (fuel : nat) (pins : list nid) (m : nat) (key : Z) : M nid :=
  match fuel with
  | O => out_of_fuel
  | S f =>
    s <- get ;;
    match memos s !! m with
    | None => panic (PModelGap 50)
    | Some mm =>
      found <- memo_lookup mm key ;;
      match found with
      | Some n => ret n
      | None =>
        r <- within_scope (m_scope mm)
               (user_call ;;; emit (EvMemoFn m key) ;;; instantiate f pins (VInt key) (m_body mm) (m_ret mm)) ;;
        match r with
        | None => panic (PModelGap 51)
        | Some n => memo_store m key n ;;; collect (ONode n :: (ONode <$> pins)) ;;; ret n
        end
      end
    end
  end.

(* ------------------------------------------------------------ expert nodes, part 2 (node.rs:1140-1300, state/expert.rs) *)
(* assert_currently_running_node_is_child (node.rs:1146): debug builds only *)
Definition assert_running_is_child (n : nid) : M unit :=
  d <- gets debug ;;
  if d : bool then
    s <- get ;;
    match cur_running s with
    | None => panic POnlyDuringStabilise
    | Some c =>
        cx <- get_node c ;;
        x <- get_node n ;;
        if n_live cx && bool_decide (c ∈ children_of s x) then ret tt else panic PNotAChild
    end
  else ret tt.

(* expert_make_stale (node.rs:1167) *)
Definition expert_make_stale (n : nid) : M unit :=
  x <- get_node n ;;
  match node_kind x with
  | Some (KExpert e) =>
    assert_running_is_child n ;;;
    ex <- get_expert e ;;
    if ex_force_stale ex then ret tt else
    upd_expert e (fun ex => ex <| ex_force_stale := true |>) ;;;
    x <- get_node n ;;
    if is_necessary x && negb (in_rch x) then rch_insert n else ret tt
  | _ => ret tt
  end.

(* Node::add_dependency(_with) + expert_add_dependency (node.rs:1187).  Returns the edge (what the
   Dependency points to); when the node is not a valid expert node the edge is dropped at once. *)
Definition expert_add_dependency (fuel : nat) (n child : nid) (cb : cbk) : M nat :=
  s <- get ;;
  let eid := length (edges s) in
  x <- get_node n ;;
  match node_kind x with
  | Some (KExpert e) =>
    ex <- get_expert e ;;
    let ci := zlen (ex_children ex) in
    modify (fun s => s <| edges := edges s ++ [Edge child cb (Some ci) None] |>) ;;;
    upd_expert e (fun ex => ex <| ex_children := ex_children ex ++ [eid] |> <| ex_force_stale := true |>) ;;;
    x <- get_node n ;;
    (if is_necessary x then
       state_add_parent fuel child ci n ;;;
       dassert (x <- get_node n ;; s <- get ;; ret (needs_to_be_computed s x)) 410 ;;;
       x <- get_node n ;;
       if in_rch x then ret tt else rch_insert n
     else ret tt) ;;;
    ret eid
  | _ =>
    modify (fun s => s <| edges := edges s ++ [Edge child cb None None] |>) ;;; ret eid
  end.

(* expert_swap_children_except_in_kind (node.rs:1267) *)
Definition expert_swap_children_except_in_kind (n child1 : nid) (ci1 : Z) (child2 : nid) (ci2 : Z) : M unit :=
  dassert (s <- get ;; x <- get_node n ;;
           ret (bool_decide (zget (children_of s x) ci1 = Some child1) && bool_decide (zget (children_of s x) ci2 = Some child2))) 430 ;;;
  (* the index arrays of parent, child1 and child2 are mutably borrowed together (one borrow when the two
     edges lead to the same child) *)
  (if bool_decide (n = child1) || bool_decide (n = child2) then panic (PBorrow 431) else ret tt) ;;;
  p <- get_node n ;;
  c1 <- get_node child1 ;;
  c2 <- get_node child2 ;;
  match zget (n_pix_in_child p) ci1, zget (n_pix_in_child p) ci2 with
  | Some i1, Some i2 =>
    dassert (ret (bool_decide (zget (n_cix_in_parent c1) i1 = Some ci1))) 432 ;;;
    dassert (ret (bool_decide (zget (n_cix_in_parent c2) i2 = Some ci2))) 433 ;;;
    (if bool_decide (0 <= i1 < zlen (n_cix_in_parent c1)) && bool_decide (0 <= i2 < zlen (n_cix_in_parent c2))
     then ret tt else panic (PIndex 434)) ;;;
    upd_node child1 (fun c => c <| n_cix_in_parent := zset (n_cix_in_parent c) i1 ci2 |>) ;;;
    upd_node child2 (fun c => c <| n_cix_in_parent := zset (n_cix_in_parent c) i2 ci1 |>) ;;;
    upd_node n (fun p => p <| n_pix_in_child := zset (zset (n_pix_in_child p) ci1 i2) ci2 i1 |>)
  | _, _ => panic (PIndex 435)
  end.

(* ExpertNode::swap_children (kind/expert.rs:141): the two index cells and the two vector entries *)
Definition ex_swap_children (x : nat) (one two : Z) : M unit :=
  ex <- get_expert x ;;
  match zget (ex_children ex) one, zget (ex_children ex) two with
  | Some a, Some b =>
      ea <- get_edge a ;;
      eb <- get_edge b ;;
      upd_edge a (fun d => d <| ed_index := ed_index eb |>) ;;;
      upd_edge b (fun d => d <| ed_index := ed_index ea |>) ;;;
      upd_expert x (fun ex => ex <| ex_children := zset (zset (ex_children ex) one b) two a |>)
  | _, _ => panic (PIndex 423)
  end.

(* ExpertNode::pop_child_edge (kind/expert.rs:158) *)
Definition ex_pop_child_edge (x : nat) : M (option nat) :=
  ex <- get_expert x ;;
  match stdpp.list.last (ex_children ex) with
  | None => ret None
  | Some popped =>
      upd_expert x (fun ex => ex <| ex_children := removelast (ex_children ex) |> <| ex_force_stale := true |>) ;;;
      upd_edge popped (fun d => d <| ed_index := None |>) ;;;
      ret (Some popped)
  end.

(* Node::remove_dependency + expert_remove_dependency (node.rs:1215) *)
Definition expert_remove_dependency (fuel : nat) (n : nid) (eid : nat) : M unit :=
  ed <- get_edge eid ;;
  (* dep.edge.upgrade(): the edge lives as long as it is among some node's children; an edge that is gone
     (the node was invalid when the dependency was added) leaves nothing to remove *)
  match ed_index ed with
  | None => ret tt
  | Some edge_index =>
    x <- get_node n ;;
    match node_kind x with
    | Some (KExpert e) =>
      assert_running_is_child n ;;;
      ex <- get_expert e ;;
      match stdpp.list.last (ex_children ex) with
      | None => panic (PUnwrapNone 421)
      | Some last_edge =>
        led <- get_edge last_edge ;;
        match ed_index led with
        | None => panic (PUnwrapNone 422)
        | Some last_index =>
          (if bool_decide (edge_index = last_index) then ret tt else
             x <- get_node n ;;
             (if is_necessary x
              then expert_swap_children_except_in_kind n (ed_child ed) edge_index (ed_child led) last_index
              else ret tt) ;;;
             ex_swap_children e edge_index last_index) ;;;
          upd_expert e (fun ex => ex <| ex_force_stale := true |>) ;;;
          dassert (x <- get_node n ;; s <- get ;; ret (is_stale s x)) 424 ;;;
          x <- get_node n ;;
          (if is_necessary x then
             (* expert_remove_child (node.rs:1296) *)
             remove_child_edge fuel (ed_child ed) last_index n ;;;
             x <- get_node n ;;
             (if in_rch x then ret tt else rch_insert n) ;;;
             c <- get_node (ed_child ed) ;;
             (* decr_invalid_children (kind/expert.rs:118) *)
             if n_valid c then ret tt else upd_expert e (fun ex => ex <| ex_num_invalid := ex_num_invalid ex - 1 |>)
           else ret tt) ;;;
          popped <- ex_pop_child_edge e ;;
          match popped with
          | None => panic (PUnwrapNone 425)
          | Some popped => dassert (ret (bool_decide (popped = eid))) 426
          end
        end
      end
    | _ => ret tt
    end
  end.

(* expert::invalidate (state/expert.rs:63) *)
Definition expert_invalidate (fuel : nat) (n : nid) : M unit :=
  assert_running_is_child n ;;;
  invalidate_node fuel n ;;;
  propagate_invalidity fuel.

(* ------------------------------------------------------------ per-key operators (incremental-map btree_map.rs:138-232, im_rc.rs:463-560) *)
(* the differing keys of two key-sorted maps, ascending: what symmetric_fold visits (C18) *)
Inductive dkind := DLeft | DRight | DUnequal.
Fixpoint zm_diff_aux (fuel : nat) (a b : list (Z * Z)) : list (Z * dkind) :=
  match fuel with
  | O => []
  | S f =>
    match a, b with
    | [], [] => []
    | (k, _) :: a', [] => (k, DLeft) :: zm_diff_aux f a' []
    | [], (k, _) :: b' => (k, DRight) :: zm_diff_aux f [] b'
    | (k1, v1) :: a', (k2, v2) :: b' =>
        if bool_decide (k1 < k2) then (k1, DLeft) :: zm_diff_aux f a' b
        else if bool_decide (k2 < k1) then (k2, DRight) :: zm_diff_aux f a b'
        else if bool_decide (v1 = v2) then zm_diff_aux f a' b'
        else (k1, DUnequal) :: zm_diff_aux f a' b'
    end
  end.
Definition zm_diff (a b : list (Z * Z)) : list (Z * dkind) := zm_diff_aux (length a + length b) a b.

Fixpoint pk_find (k : Z) (l : list (Z * (nid * nat))) : option (nid * nat) :=
  match l with
  | [] => None
  | (k', x) :: l' => if bool_decide (k' = k) then Some x else pk_find k l'
  end.

(* WeakNode::upgrade().unwrap() *)
Definition upgrade_unwrap (n : nid) (site : Z) : M unit :=
  x <- get_node n ;; if n_live x then ret tt else panic (PUnwrapNone site).

(* the closure given to map_cyclic: one pass over the difference between the previous and the new map *)
Definition perkey_visit (fuel : nat) (pk : nat) (kd : Z * dkind) : M unit :=
    let key := kd.1 in
    r <- get_perkey pk ;;
    match kd.2 with
    | DUnequal =>
        match pk_find key (pk_nodes r) with
        | None => panic (PUnwrapNone 500)
        | Some (node, _) =>
            (* the per-key node is gone when the user's function never used its input *)
            x <- get_node node ;; if n_live x then expert_make_stale node else ret tt
        end
    | DLeft =>
        match pk_find key (pk_nodes r) with
        | None => panic (PUnwrapNone 502)
        | Some (node, dep) =>
            upd_perkey pk (fun r => r <| pk_nodes := filter (fun kx => kx.1 <> key) (pk_nodes r) |>) ;;;
            x <- get_node node ;;
            upgrade_unwrap (pk_result r) 504 ;;;
            expert_remove_dependency fuel (pk_result r) dep ;;;
            upd_perkey pk (fun r => r <| pk_acc := zm_del key (pk_acc r) |>) ;;;
            if n_live x then expert_invalidate fuel node else ret tt
        end
    | DRight =>
        s <- get ;;
        modify (fun s => s <| experts := experts s ++ [Expert 3 [] false 0 true pk key] |>) ;;;
        node <- create_node (KExpert (length (experts s))) ;;
        (match pk_cutoff r with
         | Some c => upd_node node (fun x => x <| n_cutoff := c |>)
         | None => ret tt
         end) ;;;
        upgrade_unwrap (pk_lhs_change r) 505 ;;;
        expert_add_dependency fuel node (pk_lhs_change r) CbNone ;;;
        (* the user's function: harness code *)
        user_call ;;;
        emit (EvPerKeyFn pk key) ;;;
        mapped <- (match subst_bindfn 0 [node] (pk_fn r) with
                   | BindFn _ [(body, ret_)] => instantiate fuel [node] (VInt key) body ret_
                   | _ => panic (PModelGap 60)
                   end) ;;
        match mapped with
        | None => panic (PModelGap 61)
        | Some mapped =>
            (* filter flavour: the harness' function ends with `.map(|v| keep(v).then(|| v.clone()))` *)
            mapped <- (if pk_filter r then create_node (KMap (Clo 11 0 [] true) [mapped]) else ret mapped) ;;
            upgrade_unwrap (pk_result r) 506 ;;;
            dep <- expert_add_dependency fuel (pk_result r) mapped (CbPerKey pk key) ;;
            upd_perkey pk (fun r => r <| pk_nodes := (key, (node, dep)) :: pk_nodes r |>)
        end
    end.

Definition perkey_step (fuel : nat) (pk : nat) (new : list (Z * Z)) : M unit :=
  r0 <- get_perkey pk ;;
  forM_ (zm_diff (pk_prev r0) new) (perkey_visit fuel pk) ;;;
  upd_perkey pk (fun r => r <| pk_prev := new |>).

(* Observer::try_subscribe (public.rs:95) + InternalObserver::subscribe (internal_observer.rs:203) *)
Definition subscribe (o : oid) (h : hfn) : M (Z + Z) :=
  ob <- get_obs o ;;
  now <- gets stab_num ;;
  match o_state ob with
  | ODisallowed | OUnlinked => ret (inr ERR_DISALLOWED)
  | _ =>
    let token := o_next_token ob in
    upd_obs o (fun ob => ob <| o_next_token := token + 1 |>) ;;;
    (* run_all holds on_update_handlers mutably borrowed while this observer's handlers run *)
    s <- get ;;
    (if bool_decide (running_obs s = Some o) then panic (PBorrow 450) else ret tt) ;;;
    upd_obs o (fun ob => ob <| o_handlers := o_handlers ob ++ [Handler token h PNever now] |>) ;;;
    (match o_state ob with
     | OInUse => upd_node (o_observing ob) (fun x => x <| n_num_handlers := n_num_handlers x + 1 |>)
     | _ => ret tt
     end) ;;;
    handle_after_stabilisation (o_observing ob) ;;;
    ret (inl token)
  end.

(* InternalObserver::unsubscribe (internal_observer.rs:117); token = (observer id, number) *)
Definition unsubscribe (o : oid) (tok_obs : oid) (tok : Z) : M Z :=
  if negb (bool_decide (tok_obs = o)) then ret ERR_MISMATCH else
  ob <- get_obs o ;;
  match o_state ob with
  | ODisallowed | OUnlinked => ret 0
  | _ =>
    s <- get ;;
    (if bool_decide (running_obs s = Some o) then panic (PBorrow 451) else ret tt) ;;;
    if negb (existsb (fun h => bool_decide (hd_token h = tok)) (o_handlers ob)) then ret 0 else   (* already removed *)
    upd_obs o (fun ob => ob <| o_handlers := filter (fun h => hd_token h ≠ tok) (o_handlers ob) |>) ;;;
    (match o_state ob with
     | OInUse =>
         upd_node (o_observing ob) (fun x => x <| n_num_handlers := n_num_handlers x - 1 |>)
     | _ => ret tt
     end) ;;;
    ret 0
  end.


(* a closure reaches a node through the program's handle table when it runs *)
Definition with_handle (h : nat) (k : nid -> M unit) : M unit :=
  s <- get ;; match handles s !! h with Some (Some n) => k n | _ => ret tt end.
Definition slot_get (sl : nat) : M (option nat) := s <- get ;; ret (mjoin (dep_slots s !! sl)).
Definition slot_set (sl : nat) (v : option nat) : M unit :=
  modify (fun s => s <| dep_slots := <[sl := v]> (dep_slots s ++ replicate (S sl - length (dep_slots s)) None) |>).

(* set_max_height_allowed (state.rs:449) *)
Definition set_max_height_allowed (new_max : Z) : M unit :=
  st <- gets st_status ;;
  match st with
  | Stabilising => panic PSetMaxDuringStabilise
  | _ => ahh_set_max_height_allowed new_max ;;; rch_set_max_height_allowed new_max
  end.

Definition run_effect (fuel : nat) (arg : val) (e : effect) : M unit :=
  match e with
  | EDropVar x => with_var_handle x (drop_var_handle x)
  | ESet x v => with_var_handle x (var_write x (fun _ => VInt v) ;;; ret tt)
  | ESetArg x => with_var_handle x (var_write x (fun _ => arg) ;;; ret tt)
  | EUpdate x d => with_var_handle x (var_write x (fun o => VInt (as_int o + d)) ;;; ret tt)
  | EModify x d => with_var_handle x (var_write x (fun o => VInt (as_int o + d)) ;;; ret tt)
  | EReplace x v => with_var_handle x (old <- var_write x (fun _ => VInt v) ;; emit (EvEffReplace x old))
  | EReplaceWith x d => with_var_handle x (old <- var_write x (fun o => VInt (as_int o + d)) ;; emit (EvEffReplace x old))
  | EGet x => with_var_handle x (v <- get_var x ;; emit (EvEffGet x (v_value v)))
  | ERead o => r <- observer_read o ;;
               emit (EvEffRead o (match r with inl v => inl (Ok v) | inr c => inr c end))
  | EAddDep e h sl cb =>
      with_handle e (fun en => with_handle h (fun child =>
        d <- expert_add_dependency fuel en child (if cb then CbLog else CbNone) ;; slot_set sl (Some d)))
  | ERemoveDep e sl =>
      with_handle e (fun en =>
        d <- slot_get sl ;;
        match d with
        | Some d => slot_set sl None ;;; expert_remove_dependency fuel en d
        | None => ret tt
        end)
  | ESwapDep e sl hs cb =>
      with_handle e (fun en =>
        match hs !! Z.to_nat (as_int arg `mod` zlen hs) with
        | Some h =>
          with_handle h (fun child =>
            new <- expert_add_dependency fuel en child (if cb then CbLog else CbNone) ;;
            prev <- slot_get sl ;;
            slot_set sl None ;;;
            (match prev with Some p => expert_remove_dependency fuel en p | None => ret tt end) ;;;
            slot_set sl (Some new))
        | None => ret tt
        end)
  | EPerKeyStep pk => match arg with VMap m => perkey_step fuel pk m | _ => panic (PModelGap 62) end
  | ESubscribe o hid => s <- get ;; (match obss s !! o with
                                     | Some ob => if bool_decide (o_handles ob = 0%nat) then ret tt else subscribe o (HFn hid []) ;;; ret tt
                                     | None => ret tt end)
  | EUnsubscribe o tok => s <- get ;; (match obss s !! o with
                                       | Some ob =>
                                           (* the closure needs a handle of the observer and a token it was given *)
                                           if bool_decide (o_handles ob = 0%nat) || negb (bool_decide (1 <= tok < o_next_token ob))
                                           then ret tt else unsubscribe o o tok ;;; ret tt
                                       | None => ret tt end)
  | EMakeStale e => with_handle e expert_make_stale
  | EInvalidateExpert e => with_handle e (expert_invalidate fuel)
  | ESetMaxHeight n => set_max_height_allowed n
  | EStabilise => st <- gets st_status ;;
                  match st with NotStabilising => panic (PModelGap 10) | _ => panic PNestedStabilise end
  | EPanic => panic PInjected
  end.

Definition run_effects (fuel : nat) (arg : val) (effs : list effect) : M unit := forM_ effs (run_effect fuel arg).

(* Cutoff::should_cutoff (cutoff.rs:64) *)
Definition should_cutoff (n : nid) (c : cutoff) (old new : val) : M bool :=
  match c with
  | CAlways => ret true
  | CNever => ret false
  | CPartialEq => ret (val_eqb old new)
  | CFn cid | CBoxed cid =>
      user_call ;;;
      let r := cut_sem cid old new in
      emit (EvCut n old new r) ;;; ret r
  | CPreserve i =>
      ix <- get_node i ;; x <- get_node n ;;
      (if n_live ix && n_live x then ret tt else panic (PAssert 240)) ;;;
      ret (bool_decide (n_changed_at ix = n_changed_at x))
  end.

(* child_changed (node.rs:1268) *)
Fixpoint child_changed (fuel : nat) (p child : nid) (ci : Z) (old : option val) : M unit :=
  match fuel with
  | O => out_of_fuel
  | S f =>
    px <- get_node p ;;
    match node_kind px with
    | None => panic (PUnwrapNone 301)                  (* Err(ParentInvalidated).unwrap() *)
    | Some (KMapRef pr _) =>
      let self_old := proj_sem pr <$> old in
      cv <- value_of child ;;
      match cv with
      | None => panic (PUnwrapNone 302)                (* Err(ChildHasNoValue).unwrap() *)
      | Some child_new =>
        let self_new := proj_sem pr child_new in
        did_change <- match self_old with
                      | None => ret true
                      | Some o => r <- should_cutoff p (n_cutoff px) o self_new ;; ret (negb r)
                      end ;;
        (* never lowers a raised flag: the node may be stale for an older reason *)
        upd_node p (fun x => x <| n_mapref_did_change := n_mapref_did_change x || did_change |>) ;;;
        px <- get_node p ;;
        forM_ (indexed (n_parents px)) (fun ipp =>
          ppx <- get_node ipp.2 ;;
          if n_live ppx then
            match zget (n_cix_in_parent px) ipp.1 with
            | None => panic (PIndex 303)
            | Some ci' => child_changed f ipp.2 p ci' self_old
            end
          else ret tt)
      end
    | Some (KExpert e) => run_edge_callback p e ci
    | Some _ => ret tt
    end
  end.

(* parent_iter_can_recompute_now (node.rs:783) *)
Definition parent_iter_can_recompute_now (parent child : nid) : M bool :=
  p <- get_node parent ;;
  c <- get_node child ;;
  match node_kind p with
  | None => ret false
  | Some k =>
    (* the scope's lhs-change node must have left the heap: scope height < min_height *)
    let settled (h : Z) : M bool :=
      if bool_decide (h < n_height c) then mh <- rch_min_height ;; ret (bool_decide (h < mh))
      else ret false in
    crn <- match k with
           | KConst _ | KVar _ => panic (PAssert 310)
           | KFold _ _ _ | KExpert _ => ret false
           | KMap _ cs =>
               if bool_decide (length cs = 1%nat) then
                 sh <- scope_height (n_created_in p) ;; settled sh
               else ret false
           | KBindLhs _ | KMapRef _ _ | KMapWithOld _ _ =>
               sh <- scope_height (n_created_in p) ;; settled sh
           | KBindMain _ lc =>
               l <- get_node lc ;; settled (n_height l)
           end ;;
    ok <- (if crn : bool then ret true
           else mh <- rch_min_height ;; ret (bool_decide (n_height p <= mh))) ;;
    if ok : bool then ret true
    else
      dassert (p <- get_node parent ;; s <- get ;; ret (needs_to_be_computed s p)) 311 ;;;
      dassert (p <- get_node parent ;; ret (negb (in_rch p))) 312 ;;;
      rch_insert parent ;;;
      ret false
  end.

(* maybe_change_value_manual (node.rs:1681) *)
Definition maybe_change_value_manual (fuel : nat) (n : nid) (old : option val) (did_change run_cc : bool)
  : M (option nid) :=
  if negb did_change then ret None else
  stamp_node n (fun st x => x <| n_changed_at := st |>) ;;;
  modify (fun s => s <| num_changed := num_changed s + 1 |>) ;;;
  maybe_handle_after_stabilisation n ;;;
  x <- get_node n ;;
  let parents := indexed (n_parents x) in
  (* child_changed + the needs_to_be_computed assertion, common to both loops; false = the parent's
     weak reference was dead (`return None`) *)
  let visit (ip : Z * nid) (site : Z) : M bool :=
    match zget (n_cix_in_parent x) ip.1 with
    | None => panic (PIndex 320)
    | Some ci =>
      px <- get_node ip.2 ;;
      if negb (n_live px) then ret false else
      (if run_cc then child_changed fuel ip.2 n ci old else ret tt) ;;;
      dassert (p <- get_node ip.2 ;; s <- get ;; ret (needs_to_be_computed s p)) site ;;;
      ret true
    end in
  match parents with
  | [] => ret None
  | first :: rest =>
    (* all parents but the first: queue them *)
    continue <- forM_break rest (fun ip =>
      ok <- visit ip 321 ;;
      if ok : bool then
        p <- get_node ip.2 ;;
        (if in_rch p then ret tt else rch_insert ip.2) ;;; ret true
      else ret false) ;;
    if continue : bool then
      (* the first parent may be recomputed directly *)
      ok <- visit first 322 ;;
      if ok : bool then
        p <- get_node first.2 ;;
        if in_rch p then ret None
        else ok <- parent_iter_can_recompute_now first.2 n ;; ret (if ok : bool then Some first.2 else None)
      else ret None
    else ret None
  end.

(* maybe_change_value (node.rs:1662) *)
Definition maybe_change_value (fuel : nat) (n : nid) (value : val) : M (option nid) :=
  x <- get_node n ;;
  let old := n_value x in
  upd_node n (fun x => x <| n_value := None |>) ;;;
  should_change <- match old with
                   | None => ret true
                   | Some o => r <- should_cutoff n (n_cutoff x) o value ;; ret (negb r)
                   end ;;
  upd_node n (fun x => x <| n_value := Some value |>) ;;;
  maybe_change_value_manual fuel n old should_change true.

(* ------------------------------------------------------------ recompute (node.rs:590-779) *)
Definition unwrap_value (n : nid) (site : Z) : M val :=
  v <- value_of n ;; match v with Some v => ret v | None => panic (PUnwrapNone site) end.

(* copy_child_bindrhs (node.rs:1771) *)
Definition copy_child_bindrhs (fuel : nat) (n child : nid) : M (option nid) :=
  c <- get_node child ;;
  if n_valid c then
    v <- value_of child ;;
    match v with
    | None => ret None                                 (* `child.value_as_any()?` *)
    | Some v => maybe_change_value fuel n v
    end
  else
    invalidate_node fuel n ;;; propagate_invalidity fuel ;;; ret None.

(* the rest of recompute_one, after the node has been stamped as recomputed *)
Definition recompute_body (fuel : nat) (n : nid) : M (option nid) :=
  x <- get_node n ;;
  match node_kind x with
  | None => panic PRecomputeInvalid
  | Some (KMap f cs) =>
      args <- mapM (fun c => unwrap_value c 340) cs ;;
      let r := fn_sem (c_fid f) (c_cap f) args in
      (* a closure the library supplies is neither a crash point nor logged; it may still have an effect
         (the map_cyclic closure of a per-key operator) *)
      (if c_internal f then ret tt else user_call) ;;;
      run_effects fuel (default VUnit (args !! 0%nat)) (c_effs f) ;;;
      (if c_internal f then ret tt else emit (EvInv n (c_cap f) args r)) ;;;
      maybe_change_value fuel n r
  | Some (KVar v) =>
      vr <- get_var v ;; maybe_change_value fuel n (v_value vr)
  | Some (KConst v) => maybe_change_value fuel n v
  | Some (KMapRef _ _) =>
      (* the flag is consumed: did_change.replace(false) *)
      upd_node n (fun x => x <| n_value := None |> <| n_mapref_did_change := false |>) ;;;
      maybe_change_value_manual fuel n None (n_mapref_did_change x) false
  | Some (KMapWithOld f c) =>
      input <- unwrap_value c 341 ;;
      let old := n_value x in
      upd_node n (fun x => x <| n_value := None |>) ;;;     (* current_value.take() *)
      user_call ;;;
      run_effects fuel input (c_effs f) ;;;
      let '(new, did_change) := wo_sem (c_fid f) (c_cap f) old input in
      emit (EvInv n (c_cap f) (match old with Some o => [o; input] | None => [input] end) new) ;;;
      upd_node n (fun x => x <| n_value := Some new |>) ;;;
      maybe_change_value_manual fuel n None did_change true
  | Some (KFold f init cs) =>
      acc <- foldM (fun acc c =>
                  v <- unwrap_value c 342 ;;
                  user_call ;;;
                  let r := fold_sem (c_fid f) (c_cap f) acc v in
                  emit (EvFoldCall n acc v r) ;;;
                  ret r) cs init ;;
      maybe_change_value fuel n acc
  | Some (KBindLhs b) =>
      bd <- get_bind b ;;
      let old_created := b_created bd in
      upd_bind b (fun bd => bd <| b_created := [] |>) ;;;              (* .take() *)
      lhsv <- unwrap_value (b_lhs bd) 343 ;;
      old_scope <- gets cur_scope ;;
      modify (fun s => s <| cur_scope := SBind b |>) ;;;
      user_call ;;;
      emit (EvBindRun n (b_gen bd) lhsv) ;;;
      upd_bind b (fun bd => bd <| b_gen := b_gen bd + 1 |>) ;;;
      run_effects fuel lhsv (bf_effs (b_fn bd)) ;;;
      rhs <- (match bf_templates (b_fn bd) with
              | [] => panic (PModelGap 30)
              | ts => match ts !! (Z.to_nat (as_int lhsv `mod` zlen ts)) with
                      | Some (body, r) => instantiate fuel [n] lhsv body r
                      | None => panic (PModelGap 31)
                      end
              end) ;;
      modify (fun s => s <| cur_scope := old_scope |>) ;;;
      (* assert!(weak_thin_ptr_eq(rhs.weak_state(), &state.weak_self)) (node.rs:710) *)
      rhs <- (match rhs with Some r => ret r | None => panic PCrossState end) ;;
      (* the closure's temporaries are gone; only the returned node is still held *)
      collect [ONode n; ONode rhs] ;;;
      upd_bind b (fun bd => bd <| b_rhs := Some rhs |>) ;;;
      let old_rhs := b_rhs bd in
      stamp_node n (fun st x => x <| n_changed_at := st |>) ;;;
      main <- get_node (b_main bd) ;;
      (if n_live main then change_child_bind_rhs fuel (b_main bd) old_rhs rhs 1 else ret tt) ;;;
      (match old_rhs with
       | Some old =>
           (* `old_rhs` is still held by a local while the old generation is invalidated *)
           collect [ONode n; ONode old] ;;;
           invalidate_nodes_created_on_rhs fuel old_created ;;; propagate_invalidity fuel
       | None => ret tt
       end) ;;;
      dassert (x <- get_node n ;; ret (n_valid x)) 344 ;;;
      maybe_change_value fuel n VUnit
  | Some (KBindMain b _) =>
      bd <- get_bind b ;;
      match b_rhs bd with
      | None => panic (PUnwrapNone 345)
      | Some rhs => copy_child_bindrhs fuel n rhs
      end
  | Some (KExpert e) =>
      (* before_main_computation (kind/expert.rs:166) *)
      ex <- get_expert e ;;
      if bool_decide (0 < ex_num_invalid ex) then
        invalidate_node fuel n ;;; propagate_invalidity fuel ;;; ret None
      else
        upd_expert e (fun ex => ex <| ex_force_stale := false |> <| ex_fire_all := false |>) ;;;
        (if ex_fire_all ex then forM_ (ex_children ex) (edge_on_change n) else ret tt) ;;;
        ex <- get_expert e ;;
        if bool_decide (ex_mode ex = 2) then
          (* the result node of a per-key operator: acc.clone() *)
          r <- get_perkey (ex_pk ex) ;; maybe_change_value fuel n (VMap (pk_acc r))
        else if bool_decide (ex_mode ex = 3) then
          (* a per-key node: prev_map.get(&key).unwrap().clone() *)
          r <- get_perkey (ex_pk ex) ;;
          match zm_get (ex_key ex) (pk_prev r) with
          | None => panic (PUnwrapNone 441)
          | Some v => maybe_change_value fuel n (VInt v)
          end
        else
        (* the recompute function of the harness *)
        user_call ;;;
        total <- foldM (fun acc eid =>
                   ed <- get_edge eid ;;
                   if bool_decide (ex_mode ex = 0)
                   then ret (acc + match ed_seen ed with Some v => as_int v | None => 0 end)
                   else v <- unwrap_value (ed_child ed) 440 ;; ret (acc + as_int v))
                 (ex_children ex) 0 ;;
        emit (EvExpertRun n (VInt total)) ;;;
        maybe_change_value fuel n (VInt total)
  end.

(* recompute_one (node.rs:604) *)
Definition recompute_one (fuel : nat) (n : nid) : M (option nid) :=
  emit (EvRecompute n) ;;;
  (* debug builds also note the currently running node (only_in_debug, node.rs:617) *)
  modify (fun s => s <| num_recomputed := num_recomputed s + 1 |>
                     <| cur_running := if debug s then Some n else cur_running s |>) ;;;
  stamp_node n (fun st x => x <| n_recomputed_at := st |>) ;;;
  recompute_body fuel n.

(* recompute (node.rs:590): the flattened chain *)
Fixpoint recompute (fuel : nat) (n : nid) : M unit :=
  match fuel with
  | O => out_of_fuel
  | S f =>
    next <- recompute_one f n ;;
    match next with
    | None => ret tt
    | Some p => recompute f p
    end
  end.
