(* The concrete families of user functions used by the correspondence check for the
   incremental-map operators.  The Rust harness mirrors these (harness/src/fns.rs); a
   mismatch between the two shows up as a disagreement on the first case that calls it.
   In the theorems user functions are universally quantified; these instances are only
   what the executable model runs. *)
From stdpp Require Import base list option numbers.
From Incr.Model Require Import SymDiff MapOps.
Local Open Scope Z_scope.

Definition fm_fn (id : Z) (k v : Z) : option Z :=
  if bool_decide (id = 0) then Some (v + 1)
  else if bool_decide (id = 1) then (if bool_decide (v `mod` 2 = 0) then Some (v * 10) else None)
  else if bool_decide (id = 2) then Some (k * 100 + v)
  else if bool_decide ((k + v) `mod` 3 = 0) then None else Some (k + v).

Definition uf_add (id : Z) (acc k v : Z) : Z :=
  if bool_decide (id = 0) then acc + v
  else if bool_decide (id = 1) then acc + k * v
  else acc + (k * 7 + v * v).
Definition uf_remove (id : Z) (acc k v : Z) : Z :=
  if bool_decide (id = 0) then acc - v
  else if bool_decide (id = 1) then acc - k * v
  else acc - (k * 7 + v * v).
Definition uf_update (id : Z) (acc k old new : Z) : Z :=
  if bool_decide (id = 0) then acc - old + new
  else if bool_decide (id = 1) then acc + k * (new - old)
  else acc + (new * new - old * old).

Definition mg_fn (id : Z) (k : Z) (m : merge_elem Z Z) : option Z :=
  if bool_decide (id = 0) then
    Some (match m with MLeft x => x | MRight y => 1000 + y | MBoth x y => x * y + 5 end)
  else if bool_decide (id = 1) then
    match m with MBoth x y => Some (x + y) | _ => None end
  else
    match m with
    | MLeft x => if bool_decide (k `mod` 2 = 0) then Some x else None
    | MRight y => Some (k + y)
    | MBoth x y => if bool_decide (x = y) then None else Some (x - y)
    end.

Definition pt_fn (id : Z) (k v : Z) : either Z Z :=
  if bool_decide (id = 0) then (if bool_decide (v `mod` 2 = 0) then ELeft v else ERight (v + 1))
  else if bool_decide (k `mod` 2 = 0) then ELeft (k + v) else ERight (k - v).

(* entry points at type Z, for extraction *)
Definition z_symmetric_diff := @symmetric_diff Z _.
Definition z_symmetric_diff_owned := @symmetric_diff_owned Z _.
Definition z_fm_run (id : Z) := wo_run (fm_step (fm_fn id)) (WO None None).
Definition z_uf_run (id : Z) (upd revert : bool) (init : Z) :=
  wo_run (uf_step (uf_add id) (uf_remove id) (if upd then Some (uf_update id) else None) revert init)
         (WO None None).
Definition z_mg_run (id : Z) := wo_run (mg_step (mg_fn id)) (WO None None).
Definition z_pt_run (id : Z) := wo_run (pt_step (pt_fn id)) (WO None None).
