(* Model of the diff-based operators of incremental-map (lib.rs, btree_map.rs, im_rc.rs):
   each operator is the closure the Rust code hands to map_with_old via
   with_old_input_output(2), as a step function

       step : option (old inputs, old output) -> new input(s) -> option (output, did_change, calls)

   [calls] is the list of user-function invocations, in order, that the step made.
   The outer option is None only when an inner iterator runs out of fuel (shown impossible).
   Maps are key-sorted association lists (BTreeMap / Rc<BTreeMap> / OrdMap all iterate in
   key order; OrdMap::diff is taken to be its specification = the same diff sequence).
   Definitions only. *)
From stdpp Require Import base list option numbers.
From Incr.Model Require Import SymDiff.

(* BTreeMap::insert / remove on sorted association lists *)
Fixpoint m_insert {V} (k : Z) (v : V) (m : list (Z * V)) : list (Z * V) :=
  match m with
  | [] => [(k, v)]
  | (k', v') :: m' =>
      if bool_decide (k < k')%Z then (k, v) :: m
      else if bool_decide (k = k') then (k, v) :: m'
      else (k', v') :: m_insert k v m'
  end.

Fixpoint m_remove {V} (k : Z) (m : list (Z * V)) : list (Z * V) :=
  match m with
  | [] => []
  | (k', v') :: m' =>
      if bool_decide (k = k') then m'
      else (k', v') :: m_remove k m'
  end.

(* filter_map_collect (symmetric_fold.rs:479-489): iter().filter_map(..).collect() *)
Definition filter_map_collect {V V2} (f : Z -> V -> option V2) (m : list (Z * V)) : list (Z * V2) :=
  omap (λ kv, (λ v2, (kv.1, v2)) <$> f kv.1 kv.2) m.

(* with_old_input_output (lib.rs:96-109): the old pair is available iff the node had a value
   and old_input was set; both are set by every call, so after the first call it is Some. *)
Record wo_state (T R : Type) := WO { wo_old_input : option T; wo_value : option R }.
Arguments WO {T R}. Arguments wo_old_input {T R}. Arguments wo_value {T R}.

Definition wo_call {T R C} (step : option (T * R) -> T -> option (R * bool * C))
    (st : wo_state T R) (a : T) : option (wo_state T R * bool * C) :=
  let old := x ← wo_value st; oi ← wo_old_input st; Some (oi, x) in
  '(b, didchange, calls) ← step old a;
  Some (WO (Some a) (Some b), didchange, calls).

(* a whole sequence of recomputes: thread the state, collect outputs *)
Fixpoint wo_run {T R C} (step : option (T * R) -> T -> option (R * bool * C))
    (st : wo_state T R) (ins : list T) : option (list (R * bool * C)) :=
  match ins with
  | [] => Some []
  | a :: ins' =>
      '(st', d, c) ← wo_call step st a;
      rest ← wo_run step st' ins';
      match wo_value st' with Some b => Some ((b, d, c) :: rest) | None => None end
  end.

Section filter_mapi.
Context {V V2 : Type} `{EqDecision V}.
Variable f : Z -> V -> option V2.

(* the symmetric_fold body of incr_filter_mapi (lib.rs:294-316) for one diff element *)
Definition fm_apply (acc : list (Z * V2) * list Z) (x : Z * diff_elem V) : list (Z * V2) * list Z :=
  let '(out, calls) := acc in
  let '(k, d) := x in
  match d with
  | DLeft _ => (m_remove k out, calls)
  | DRight nv | DUnequal _ nv =>
      match f k nv with
      | Some v2 => (m_insert k v2 out, calls ++ [k])
      | None => (m_remove k out, calls ++ [k])
      end
  end.

(* incr_filter_mapi closure (lib.rs:288-319) *)
Definition fm_step (old : option (list (Z * V) * list (Z * V2))) (input : list (Z * V))
  : option (list (Z * V2) * bool * list Z) :=
  match old, length input with
  | _, 0 | None, _ => Some (filter_map_collect f input, true, keys input)
  | Some (old_in, old_out), _ =>
      d ← symmetric_diff old_in input;
      let '(out, calls) := foldl fm_apply (old_out, []) d in
      Some (out, bool_decide (d ≠ []), calls)
  end.
End filter_mapi.

(* roles of user-function calls of unordered_fold *)
Inductive uf_role := RAdd | RRemove | RUpdate.
Global Instance uf_role_eq_dec : EqDecision uf_role.
Proof. solve_decision. Defined.

Section unordered_fold.
Context {V R : Type} `{EqDecision V}.
(* the UnorderedFold trait object (lib.rs:433-463) *)
Variable add : R -> Z -> V -> R.
Variable remove : R -> Z -> V -> R.
Variable update : option (R -> Z -> V -> V -> R).   (* None: default = remove then add *)
Variable revert_to_init_when_empty : bool.
Variable init : R.

Definition uf_apply (acc : R * list (uf_role * Z)) (x : Z * diff_elem V) : R * list (uf_role * Z) :=
  let '(r, calls) := acc in
  let '(k, d) := x in
  match d with
  | DLeft v => (remove r k v, calls ++ [(RRemove, k)])
  | DRight v => (add r k v, calls ++ [(RAdd, k)])
  | DUnequal lv rv =>
      match update with
      | Some u => (u r k lv rv, calls ++ [(RUpdate, k)])
      | None => (add (remove r k lv) k rv, calls ++ [(RRemove, k); (RAdd, k)])
      end
  end.

(* incr_unordered_fold_with closure (lib.rs:397-417) *)
Definition uf_step (old : option (list (Z * V) * R)) (new_in : list (Z * V))
  : option (R * bool * list (uf_role * Z)) :=
  match old with
  | None =>
      Some (foldl (λ acc kv, add acc kv.1 kv.2) init new_in, true, (λ k, (RAdd, k)) <$> keys new_in)
  | Some (old_in, old_out) =>
      if revert_to_init_when_empty && bool_decide (length new_in = 0) then
        Some (init, negb (bool_decide (length old_in = 0)), [])
      else
        d ← symmetric_diff old_in new_in;
        let '(r, calls) := foldl uf_apply (old_out, []) d in
        Some (r, bool_decide (d ≠ []), calls)
  end.
End unordered_fold.

Section merge.
Context {V1 V2 R : Type} `{EqDecision V1} `{EqDecision V2}.
Variable f : Z -> merge_elem V1 V2 -> option R.

(* the closure passed to merge_shared_impl by incr_merge (btree_map.rs:104-125) *)
Definition mg_apply (new_left : list (Z * V1)) (new_right : list (Z * V2))
    (acc : list (Z * R) * list Z)
    (x : merge_elem (Z * diff_elem V1) (Z * diff_elem V2)) : list (Z * R) * list Z :=
  let '(out, calls) := acc in
  let key := merge_elem_key x in
  let data := match x with
              | MBoth (_, ld) (_, rd) => (new_data ld, new_data rd)
              | MLeft (_, ld) => (new_data ld, assoc_get new_right key)
              | MRight (_, rd) => (assoc_get new_left key, new_data rd)
              end in
  let '(res, calls') :=
    match data with
    | (None, None) => (None, calls)
    | (Some x, None) => (f key (MLeft x), calls ++ [key])
    | (None, Some y) => (f key (MRight y), calls ++ [key])
    | (Some x, Some y) => (f key (MBoth x y), calls ++ [key])
    end in
  match res with
  | None => (m_remove key out, calls')
  | Some r => (m_insert key r out, calls')
  end.

(* incr_merge closure (btree_map.rs:98-128) over merge_shared_impl (btree_map.rs:232-266) *)
Definition mg_step (old : option ((list (Z * V1) * list (Z * V2)) * list (Z * R)))
    (new_in : list (Z * V1) * list (Z * V2))
  : option (list (Z * R) * bool * list Z) :=
  let '(new_left, new_right) := new_in in
  let '(old_left, old_right, old_out) :=
    match old with None => ([], [], []) | Some (ol, or, oo) => (ol, or, oo) end in
  ld ← symmetric_diff old_left new_left;
  rd ← symmetric_diff old_right new_right;
  m ← merge_once_with ld rd;
  let '(out, calls) := foldl (mg_apply new_left new_right) (old_out, []) m in
  Some (out, bool_decide (m ≠ []), calls).
End merge.

(* Either<A,B> of im_rc.rs:247-252 *)
Inductive either (A B : Type) := ELeft (a : A) | ERight (b : B).
Arguments ELeft {A B}. Arguments ERight {A B}.

Section partition.
Context {V A B : Type} `{EqDecision V}.
Variable f : Z -> V -> either A B.
Notation acc := (list (Z * A) * list (Z * B))%type.

(* PartitionMapi (im_rc.rs:409-463) *)
Definition pt_add (lr : acc) (k : Z) (v : V) : acc :=
  match f k v with
  | ELeft a => (m_insert k a lr.1, lr.2)
  | ERight b => (lr.1, m_insert k b lr.2)
  end.
Definition pt_remove (lr : acc) (k : Z) (_ : V) : acc := (m_remove k lr.1, m_remove k lr.2).
Definition pt_update (lr : acc) (k : Z) (_ v : V) : acc :=
  match f k v with
  | ELeft a => (m_insert k a lr.1, m_remove k lr.2)
  | ERight b => (m_remove k lr.1, m_insert k b lr.2)
  end.

Definition pt_step := uf_step pt_add pt_remove (Some pt_update) true (([], []) : acc).
End partition.
