(* Engine model E: Rc/Weak liveness.  The Rust structs hold strong (Rc) and weak references; an
   object is freed when its strong count reaches zero, so objects on a strong cycle with no outside
   reference stay allocated.  [collect] recomputes the live flags as the greatest set closed under
   "is a root or is strongly referenced by a live object"; it is run at the points where the Rust
   code can observe liveness (Weak::upgrade) with the locals that pin objects there. *)
From stdpp Require Import base list option numbers.
From RecordUpdate Require Import RecordUpdate.
From Incr.Model Require Import Base.

Inductive obj := ONode (n : nid) | OBind (b : bid) | OVar (x : vid) | OObs (o : oid).
Global Instance obj_eq_dec : EqDecision obj.
Proof. solve_decision. Defined.

(* nodes captured (as Incr clones) by a bind closure: the outer operands of its templates *)
Fixpoint captured_tinstr (t : tinstr) : list nid :=
  let co (o : operand) : list nid := match o with OOuter n => [n] | _ => [] end in
  match t with
  | TConst _ | TConstLhs => []
  | TMap _ _ args => concat (co <$> args)
  | TMapRef _ a => co a
  | TMapWithOld _ a => co a
  | TFold _ _ args => concat (co <$> args)
  | TCutoff tg _ => co tg
  | TExport o => co o
  | TMemoCall _ _ => []
  | TMemoNew f => captured_bindfn f
  | TBind lhs f => co lhs ++ captured_bindfn f
  end
with captured_bindfn (f : bindfn) : list nid :=
  match f with
  | BindFn _ ts =>
      (fix go (ts : list (list tinstr * operand)) : list nid :=
         match ts with
         | [] => []
         | (body, r) :: ts' =>
             (fix gob (b : list tinstr) : list nid :=
                match b with [] => [] | t :: b' => captured_tinstr t ++ gob b' end) body
             ++ match r with OOuter n => [n] | _ => [] end
             ++ go ts'
         end) ts
  end.

(* strong references held by the fields of each struct *)
Definition out_edges (s : state) (x : obj) : list obj :=
  match x with
  | ONode n =>
      match nodes s !! n with
      | None => []
      | Some nd =>
        (* the Kind keeps its references after invalidation *)
        match n_kind nd with
        | KConst _ => []
        | KVar v => [OVar v]
        | KMap f cs =>
            (* the map_cyclic closure of a per-key operator owns the user's function and what it captured *)
            (ONode <$> cs)
            ++ (ONode <$> concat ((fun e => match e with
                                            | EPerKeyStep pk => match perkeys s !! pk with
                                                                | Some r => captured_bindfn (pk_fn r)
                                                                | None => [] end
                                            | _ => [] end) <$> c_effs f))
        | KMapRef _ c => [ONode c]
        | KMapWithOld _ c => [ONode c]
        | KFold _ _ cs => ONode <$> cs
        | KBindLhs b => [OBind b]
        | KBindMain b lc => [OBind b; ONode lc]
        | KExpert x =>
            (* the ExpertNode holds its edges, each edge its child *)
            match experts s !! x with
            | Some ex => ONode <$> omap (fun e => ed_child <$> edges s !! e) (ex_children ex)
            | None => []
            end
        end
      end
  | OBind b =>
      match binds s !! b with
      | None => []
      | Some bd => ONode (b_lhs bd) :: (match b_rhs bd with Some r => [ONode r] | None => [] end)
                   ++ (ONode <$> captured_bindfn (b_fn bd))
      end
  | OVar v =>
      match vars s !! v with
      | None => []
      | Some vr => match v_node vr with Some n => [ONode n] | None => [] end
      end
  | OObs o =>
      match obss s !! o with
      | None => []
      | Some ob => [ONode (o_observing ob)]
      end
  end.

Definition obj_live (s : state) (x : obj) : bool :=
  match x with
  | ONode n => match nodes s !! n with Some nd => n_live nd | None => false end
  | OBind b => match binds s !! b with Some bd => b_live bd | None => false end
  | OVar v => match vars s !! v with Some vr => v_live vr | None => false end
  | OObs o => match obss s !! o with Some ob => o_live ob | None => false end
  end.

(* references held from outside the object graph: the test program's handles, the state's
   strong containers, and [pins] (locals of the running engine function) *)
Definition roots (s : state) (pins : list obj) : list obj :=
  pins
  ++ (ONode <$> omap id (handles s))
  ++ (ONode <$> exports s)
  (* the memoised closures are held by the program; they capture the outer operands of their body *)
  ++ (ONode <$> concat ((fun m => captured_bindfn (BindFn [] [(m_body m, m_ret m)])) <$> memos s))
  ++ concat (imap (fun i (vr : var) =>
               if bool_decide (v_handles vr = O) then []
               else [OVar i; ONode (v_node_id vr)]) (vars s))      (* public::Var holds the Rc<Var> and a watch Incr *)
  ++ concat (imap (fun i (ob : obs) => if bool_decide (o_handles ob = O) then [] else [OObs i]) (obss s))
  ++ (OObs <$> all_obs s)
  ++ (ONode <$> concat (rch_queues s))
  ++ (ONode <$> concat (ahh_queues s)).

Definition all_objs (s : state) : list obj :=
  (ONode <$> seq 0 (length (nodes s))) ++ (OBind <$> seq 0 (length (binds s)))
  ++ (OVar <$> seq 0 (length (vars s))) ++ (OObs <$> seq 0 (length (obss s))).

Fixpoint live_fix (fuel : nat) (s : state) (rts : list obj) (cur : list obj) : list obj :=
  match fuel with
  | O => cur
  | S f =>
    let referenced := rts ++ concat (out_edges s <$> cur) in
    let nxt := filter (fun x => x ∈ referenced) cur in
    if bool_decide (length nxt = length cur) then cur else live_fix f s rts nxt
  end.

Definition live_set (s : state) (pins : list obj) : list obj :=
  let cur := filter (fun x => obj_live s x = true) (all_objs s) in
  live_fix (S (length cur)) s (roots s pins) cur.

Definition collect (pins : list obj) : M unit :=
  modify (fun s =>
    let ls := live_set s pins in
    s <| nodes := imap (fun i nd => if bool_decide (ONode i ∈ ls) then nd else nd <| n_live := false |>) (nodes s) |>
      <| binds := imap (fun i bd => if bool_decide (OBind i ∈ ls) then bd else bd <| b_live := false |>) (binds s) |>
      <| vars := imap (fun i vr => if bool_decide (OVar i ∈ ls) then vr else vr <| v_live := false |>) (vars s) |>
      <| obss := imap (fun i ob => if bool_decide (OObs i ∈ ls) then ob else ob <| o_live := false |>) (obss s) |>).
