(* Model of incremental-map/src/symmetric_fold.rs: the merge iterators and the
   symmetric diff, as iterator state machines.  Definitions only (no proofs) so the
   executable model still builds when a proof breaks.

   Maps are association lists; the theorems assume they are strictly sorted by key
   (what BTreeMap iteration provides).  Keys are Z.  Values are any type with a
   decidable equality (Rust: V: PartialEq, assumed to be structural equality). *)
From stdpp Require Import base list option numbers.

Notation key := Z (only parsing).

(* DiffElement<V>  (symmetric_fold.rs:270-275) *)
Inductive diff_elem (V : Type) :=
  | DLeft (v : V) | DRight (v : V) | DUnequal (old new : V).
Arguments DLeft {V}. Arguments DRight {V}. Arguments DUnequal {V}.

(* MergeElement<L,R>  (symmetric_fold.rs:219-227) *)
Inductive merge_elem (L R : Type) :=
  | MLeft (l : L) | MRight (r : R) | MBoth (l : L) (r : R).
Arguments MLeft {L R}. Arguments MRight {L R}. Arguments MBoth {L R}.

(* DiffElement::new_data  (symmetric_fold.rs:277-284) *)
Definition new_data {V} (d : diff_elem V) : option V :=
  match d with DLeft _ => None | DRight r => Some r | DUnequal _ r => Some r end.

(* BTreeMap::get on the sorted association list *)
Fixpoint assoc_get {V} (m : list (Z * V)) (k : Z) : option V :=
  match m with
  | [] => None
  | (k', v) :: m' => if bool_decide (k' = k) then Some v else assoc_get m' k
  end.

Definition keys {V} (m : list (Z * V)) : list Z := fst <$> m.

(* ---- MergeOnce  (symmetric_fold.rs:16-76) ---- *)
Record mo := MO { mo_a : list Z; mo_b : list Z; mo_fused : option bool }.

Definition mo_next (s : mo) : option (Z * mo) :=
  match (match mo_fused s with
         | Some lt => Some (lt, false, s)
         | None => match mo_a s, mo_b s with
                   | a :: _, b :: _ => Some (bool_decide (a ≤ b)%Z, bool_decide (a = b), s)
                   | _ :: _, [] => Some (true, false, MO (mo_a s) (mo_b s) (Some true))
                   | [], _ :: _ => Some (false, false, MO (mo_a s) (mo_b s) (Some false))
                   | [], [] => None
                   end
         end) with
  | None => None
  | Some (lt, both, s) =>
     if lt : bool then
       let b' := if both : bool then tail (mo_b s) else mo_b s in
       match mo_a s with [] => None | a :: a' => Some (a, MO a' b' (mo_fused s)) end
     else
       let a' := if both : bool then tail (mo_a s) else mo_a s in
       match mo_b s with [] => None | b :: b' => Some (b, MO a' b' (mo_fused s)) end
  end.

Fixpoint mo_collect (fuel : nat) (s : mo) : option (list Z) :=
  match fuel with
  | 0 => None
  | S f => match mo_next s with
           | None => Some []
           | Some (k, s') => (k ::.) <$> mo_collect f s'
           end
  end.

Section values.
Context {V : Type} `{EqDecision V}.

(* ---- SymmetricDiff (borrowed)  (symmetric_fold.rs:190-217) ---- *)
Record sd := SD { sd_self : list (Z * V); sd_other : list (Z * V); sd_keys : mo }.

(* one `next()`: the inner `loop` runs on fuel; None = iterator exhausted (or the `?`),
   the outer option distinguishes "out of fuel" (None) from a proper answer. *)
Fixpoint sd_next (fuel : nat) (s : sd) : option (option ((Z * diff_elem V) * sd)) :=
  match fuel with
  | 0 => None
  | S f =>
    match mo_next (sd_keys s) with
    | None => Some None                                   (* self.keys.next()? *)
    | Some (k, ks) =>
      let s' := SD (sd_self s) (sd_other s) ks in
      match assoc_get (sd_self s) k, assoc_get (sd_other s) k with
      | Some a, Some b => if bool_decide (a = b) then sd_next f s'      (* continue *)
                          else Some (Some ((k, DUnequal a b), s'))
      | Some a, None => Some (Some ((k, DLeft a), s'))
      | None, Some b => Some (Some ((k, DRight b), s'))
      | None, None => Some None                            (* `_ => return None` *)
      end
    end
  end.

Definition sd_fuel (s : sd) : nat := S (length (mo_a (sd_keys s)) + length (mo_b (sd_keys s))).

Fixpoint sd_collect (fuel : nat) (s : sd) : option (list (Z * diff_elem V)) :=
  match fuel with
  | 0 => None
  | S f => match sd_next (sd_fuel s) s with
           | None => None
           | Some None => Some []
           | Some (Some (x, s')) => (x ::.) <$> sd_collect f s'
           end
  end.

(* BTreeMap::symmetric_diff  (symmetric_fold.rs:359-368) *)
Definition symmetric_diff_init (a b : list (Z * V)) : sd :=
  SD a b (MO (keys a) (keys b) None).

Definition symmetric_diff (a b : list (Z * V)) : option (list (Z * diff_elem V)) :=
  sd_collect (S (S (length a + length b))) (symmetric_diff_init a b).

(* ---- SymmetricDiffOwned  (symmetric_fold.rs:139-188) ---- *)
Record sdo := SDO { sdo_self : list (Z * V); sdo_other : list (Z * V); sdo_fused : option bool }.

Fixpoint sdo_next (fuel : nat) (s : sdo)
  : option (option (diff_elem (Z * V) * sdo)) :=
  match fuel with
  | 0 => None
  | S f =>
    let finish (lt : bool) (s : sdo) :=
      if lt then match sdo_self s with
                 | [] => Some None
                 | x :: r => Some (Some (DLeft x, SDO r (sdo_other s) (sdo_fused s))) end
      else match sdo_other s with
           | [] => Some None
           | x :: r => Some (Some (DRight x, SDO (sdo_self s) r (sdo_fused s))) end in
    match sdo_fused s with
    | Some lt => finish lt s
    | None =>
      match sdo_self s, sdo_other s with
      | (ka, va) :: ra, (kb, vb) :: rb =>
          if bool_decide (ka < kb)%Z then finish true s
          else if bool_decide (kb < ka)%Z then finish false s
          else if bool_decide (va = vb) then sdo_next f (SDO ra rb None)
          else Some (Some (DUnequal (ka, va) (kb, vb), SDO ra rb None))
      | _ :: _, [] => finish true (SDO (sdo_self s) (sdo_other s) (Some true))
      | [], _ :: _ => finish false (SDO (sdo_self s) (sdo_other s) (Some false))
      | [], [] => Some None
      end
    end
  end.

Fixpoint sdo_collect (fuel : nat) (s : sdo) : option (list (diff_elem (Z * V))) :=
  match fuel with
  | 0 => None
  | S f => match sdo_next (S (length (sdo_self s) + length (sdo_other s))) s with
           | None => None
           | Some None => Some []
           | Some (Some (x, s')) => (x ::.) <$> sdo_collect f s'
           end
  end.

Definition symmetric_diff_owned (a b : list (Z * V)) : option (list (diff_elem (Z * V))) :=
  sdo_collect (S (S (length a + length b))) (SDO a b None).

(* ---- the specification: what a symmetric diff is ---- *)
Fixpoint diff_spec (a : list (Z * V)) : list (Z * V) -> list (Z * diff_elem V) :=
  fix go (b : list (Z * V)) : list (Z * diff_elem V) :=
  match a, b with
  | [], _ => (λ kv, (kv.1, DRight kv.2)) <$> b
  | _, [] => (λ kv, (kv.1, DLeft kv.2)) <$> a
  | (ka, va) :: a', (kb, vb) :: b' =>
      if bool_decide (ka < kb)%Z then (ka, DLeft va) :: diff_spec a' b
      else if bool_decide (kb < ka)%Z then (kb, DRight vb) :: go b'
      else if bool_decide (va = vb) then diff_spec a' b'
      else (ka, DUnequal va vb) :: diff_spec a' b'
  end.

End values.

(* ---- MergeOnceWith over two keyed streams, comparator = key order
        (symmetric_fold.rs:79-137; comparator of merge_shared_impl) ---- *)
Section mow.
Context {L R : Type}.
Record mow := MOW { mow_a : list (Z * L); mow_b : list (Z * R); mow_fused : option bool }.

Definition mow_next (s : mow) : option (merge_elem (Z * L) (Z * R) * mow) :=
  match (match mow_fused s with
         | Some true => Some (Lt, s)
         | Some false => Some (Gt, s)
         | None => match mow_a s, mow_b s with
                   | (ka, _) :: _, (kb, _) :: _ => Some (Z.compare ka kb, s)
                   | _ :: _, [] => Some (Lt, MOW (mow_a s) (mow_b s) (Some true))
                   | [], _ :: _ => Some (Gt, MOW (mow_a s) (mow_b s) (Some false))
                   | [], [] => None
                   end
         end) with
  | None => None
  | Some (Eq, s) =>
      (* self.a.next().zip(self.b.next()) : both sides are advanced *)
      match mow_a s, mow_b s with
      | x :: a', y :: b' => Some (MBoth x y, MOW a' b' (mow_fused s))
      | _, _ => None
      end
  | Some (Lt, s) =>
      match mow_a s with [] => None | x :: a' => Some (MLeft x, MOW a' (mow_b s) (mow_fused s)) end
  | Some (Gt, s) =>
      match mow_b s with [] => None | y :: b' => Some (MRight y, MOW (mow_a s) b' (mow_fused s)) end
  end.

Fixpoint mow_collect (fuel : nat) (s : mow) : option (list (merge_elem (Z * L) (Z * R))) :=
  match fuel with
  | 0 => None
  | S f => match mow_next s with
           | None => Some []
           | Some (x, s') => (x ::.) <$> mow_collect f s'
           end
  end.

Definition merge_once_with (a : list (Z * L)) (b : list (Z * R)) :=
  mow_collect (S (length a + length b)) (MOW a b None).

Fixpoint merge_spec (a : list (Z * L)) : list (Z * R) -> list (merge_elem (Z * L) (Z * R)) :=
  fix go (b : list (Z * R)) :=
  match a, b with
  | [], _ => MRight <$> b
  | _, [] => MLeft <$> a
  | (ka, x) :: a', (kb, y) :: b' =>
      if bool_decide (ka < kb)%Z then MLeft (ka, x) :: merge_spec a' b
      else if bool_decide (kb < ka)%Z then MRight (kb, y) :: go b'
      else MBoth (ka, x) (kb, y) :: merge_spec a' b'
  end.
End mow.

Definition merge_elem_key {L R} (m : merge_elem (Z * L) (Z * R)) : Z :=
  match m with MLeft (k, _) => k | MRight (k, _) => k | MBoth (k, _) _ => k end.

(* sortedness of association lists, as a boolean (used by the harness-side oracle too) *)
Fixpoint sorted_keys_b (l : list Z) : bool :=
  match l with
  | [] => true
  | x :: l' => match l' with [] => true | y :: _ => bool_decide (x < y)%Z && sorted_keys_b l' end
  end.
