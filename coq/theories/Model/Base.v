(* Engine model E, part 1: values, user-function families, DSL, state records, execution monad.
   Faithful transcription targets: src/node.rs, state.rs, recompute_heap.rs, adjust_heights_heap.rs,
   var.rs, internal_observer.rs, node_update.rs, scope.rs, kind/*.rs, incr.rs, public.rs.
   Definitions only. *)
From stdpp Require Import base list option numbers.
From RecordUpdate Require Import RecordUpdate.
Local Open Scope Z_scope.

Notation nid := nat (only parsing).   (* node = creation rank in the state's registry *)
Notation bid := nat (only parsing).   (* BindNode *)
Notation vid := nat (only parsing).   (* internal Var *)
Notation oid := nat (only parsing).   (* InternalObserver *)

(* ---------------------------------------------------------------- values *)
(* [VMap]: a key-sorted association list with integer values (the inputs and outputs of the per-key
   operators of incremental-map) *)
Inductive val := VInt (z : Z) | VPair (a b : val) | VUnit | VMap (m : list (Z * Z)).

Fixpoint val_eqb (a b : val) : bool :=
  match a, b with
  | VInt x, VInt y => bool_decide (x = y)
  | VPair a1 a2, VPair b1 b2 => val_eqb a1 b1 && val_eqb a2 b2
  | VUnit, VUnit => true
  | VMap m1, VMap m2 => bool_decide (m1 = m2)
  | _, _ => false
  end.

Definition as_int (v : val) : Z :=
  match v with VInt z => z | VPair (VInt z) _ => z | _ => 0 end.

(* the family of node functions; [cap] is the value captured by the closure (0 at top level,
   the bind's left-hand value inside a bind closure).  harness/src/fns.rs mirrors this. *)
Definition fn_sem (fid : Z) (cap : Z) (args : list val) : val :=
  let ints := as_int <$> args in
  let a := default 0 (ints !! 0%nat) in
  let b := default 0 (ints !! 1%nat) in
  if bool_decide (fid = 0) then default VUnit (args !! 0%nat)                (* identity / clone *)
  else if bool_decide (fid = 1) then VInt (foldr Z.add 0 ints + cap)         (* sum + captured *)
  else if bool_decide (fid = 2) then VInt (a * 2 + cap)
  else if bool_decide (fid = 3) then VInt (a - b)
  else if bool_decide (fid = 4) then VInt (Z.max a b)
  else if bool_decide (fid = 5) then VInt ((foldr Z.add 0 ints) `mod` 3)
  else if bool_decide (fid = 6) then VInt cap                                 (* ignores its inputs *)
  else if bool_decide (fid = 7) then VPair (default VUnit (args !! 0%nat)) (default VUnit (args !! 1%nat))
  else if bool_decide (fid = 8) then VInt (100 * cap + a)
  else if bool_decide (fid = 10) then VUnit                                   (* a closure returning () *)
  else if bool_decide (fid = 11) then                                         (* Some(x) unless 3 | x, else None (as ()) *)
    (if bool_decide (a `mod` 3 = 0) then VUnit else default VUnit (args !! 0%nat))
  else VInt (a `div` 2).

(* fold functions: acc, x -> acc *)
Definition fold_sem (fid : Z) (cap : Z) (acc x : val) : val :=
  if bool_decide (fid = 0) then VInt (as_int acc + as_int x)
  else if bool_decide (fid = 1) then VInt (Z.max (as_int acc) (as_int x))
  else VInt (as_int acc * 3 + as_int x + cap).

(* map_with_old functions: old output, input -> (new, did_change) *)
Definition wo_sem (fid : Z) (cap : Z) (old : option val) (x : val) : val * bool :=
  if bool_decide (fid = 0) then
    let new := VInt (as_int x * 2 + cap) in (new, negb (match old with Some o => val_eqb o new | None => false end))
  else if bool_decide (fid = 1) then (x, true)
  else if bool_decide (fid = 2) then
    let new := VInt (as_int x `mod` 2) in (new, negb (match old with Some o => val_eqb o new | None => false end))
  else (* accumulates: not a function of the input alone *)
    (VInt (as_int x + match old with Some o => as_int o | None => 0 end), true).

(* map_ref projections *)
Definition proj_sem (p : Z) (v : val) : val :=
  match v with
  | VPair a b => if bool_decide (p = 0) then a else b
  | _ => v
  end.

(* cutoff functions (old, new) -> suppress? *)
Definition cut_sem (cid : Z) (old new : val) : bool :=
  if bool_decide (cid = 0) then val_eqb old new
  else if bool_decide (cid = 1) then bool_decide (Z.abs (as_int old - as_int new) < 2)   (* suppresses unequal values *)
  else bool_decide (as_int old `mod` 2 = as_int new `mod` 2).

(* ---------------------------------------------------------------- DSL *)
(* side effects a user closure may perform when it runs *)
Inductive effect :=
  | EDropVar (x : vid)                (* the closure takes the program's handle of the variable and drops it *)
  | ESet (x : vid) (v : Z)            (* var.set(v) *)
  | ESetArg (x : vid)                 (* var.set(<first argument / delivered value>) *)
  | EUpdate (x : vid) (d : Z)         (* var.update(|v| v + d) *)
  | EModify (x : vid) (d : Z)         (* var.modify(|v| *v += d) *)
  | EReplace (x : vid) (v : Z)        (* var.replace(v), result logged *)
  | EReplaceWith (x : vid) (d : Z)    (* var.replace_with(|v| *v + d), result logged *)
  | EGet (x : vid)                    (* var.get(), logged *)
  | ERead (o : oid)                   (* observer.try_get_value(), logged *)
  (* expert nodes (expert.rs).  [e], [h]: indices into the program's table of node handles, looked up when the
     closure runs; [slot]: a cell of the program holding a Dependency *)
  | EAddDep (e : nat) (h : nat) (slot : nat) (cb : bool)      (* slot := e.add_dependency(_with)(h) *)
  | ERemoveDep (e : nat) (slot : nat)                         (* e.remove_dependency(slot.take()) *)
  | ESwapDep (e : nat) (slot : nat) (hs : list nat) (cb : bool)
      (* the join/bind idiom: new := e.add_dependency(hs[arg mod n]); if let Some(prev) = slot.take() { e.remove_dependency(prev) }; slot := new *)
  | EPerKeyStep (pk : nat)           (* the map_cyclic closure of a per-key operator (incremental-map) *)
  | EMakeStale (e : nat)
  | EInvalidateExpert (e : nat)
  | ESubscribe (o : oid) (hid : Z)        (* observer.subscribe(<handler that only logs>) from inside a closure *)
  | EUnsubscribe (o : oid) (tok : Z)      (* observer.unsubscribe(token number tok of that observer) *)
  | ESetMaxHeight (n : Z)             (* state.set_max_height_allowed(n) from inside a closure *)
  | EStabilise                        (* nested stabilise: misuse *)
  | EPanic.                           (* panic unconditionally *)

(* [c_internal]: a closure the library itself supplies (zip, depend_on): not user code, so it is
   neither a crash point nor logged *)
Record closure := Clo { c_fid : Z; c_cap : Z; c_effs : list effect; c_internal : bool }.

Inductive cutoff :=
  | CPartialEq | CNever | CAlways
  | CFn (cid : Z) | CBoxed (cid : Z)
  | CPreserve (input : nid).           (* depend_on's preserve_cutoff *)

(* operands inside a bind template: an outer node captured by the closure, or the i-th node
   created by the template [depth] levels up (0 = the template being instantiated) *)
(* [OLate h]: the closure looks the node up in the program's handle table when it runs (a shared cell
   filled in later: how user code ties a bind to a node built after it) *)
Inductive operand := OOuter (n : nid) | OLocal (depth : nat) (i : nat) | OLate (h : nat)
  | OForeign.   (* a node of another IncrState (only meaningful as the result of a bind closure) *)

Inductive tinstr :=
  | TConst (v : Z)
  | TConstLhs                                   (* constant(lhs value) *)
  | TMap (fid : Z) (effs : list effect) (args : list operand)   (* map .. map6 by arity; captures lhs value *)
  | TMapRef (p : Z) (arg : operand)
  | TMapWithOld (fid : Z) (arg : operand)
  | TFold (fid : Z) (init : Z) (args : list operand)
  | TCutoff (target : operand) (c : cutoff)
  | TExport (o : operand)                       (* the closure hands the node out: it gets a user handle *)
  | TMemoCall (m : nat) (key : option Z)        (* call the m-th memoised function (key: a constant, or the lhs value) *)
  | TMemoNew (f : bindfn)                      (* weak_memoize_fn called inside a closure; f has one template, the function's body *)
  | TBind (lhs : operand) (f : bindfn)
with bindfn :=
  | BindFn (effs : list effect) (templates : list (list tinstr * operand)).

Definition bf_effs (f : bindfn) := match f with BindFn e _ => e end.
Definition bf_templates (f : bindfn) := match f with BindFn _ t => t end.

(* subscription handler: an id for the log plus effects *)
Record hfn := HFn { h_id : Z; h_effs : list effect }.

(* ---------------------------------------------------------------- engine state *)
Inductive scope := STop | SBind (b : bid).

(* a function memoised with weak_memoize_fn (public.rs:342): the scope it was created in, what the
   underlying function builds for a key (a template whose captured value is the key), and the table
   of weak references to the nodes returned so far *)
Record memo := Memo { m_scope : scope; m_body : list tinstr; m_ret : operand; m_table : list (Z * nid) }.
Global Instance eta_memo : Settable _ := settable! Memo <m_scope; m_body; m_ret; m_table>.

Inductive kind :=
  | KConst (v : val)
  | KVar (x : vid)
  | KMap (f : closure) (children : list nid)      (* Map .. Map6 *)
  | KMapRef (p : Z) (c : nid)
  | KMapWithOld (f : closure) (c : nid)
  | KFold (f : closure) (init : val) (children : list nid)
  | KBindLhs (b : bid)
  | KBindMain (b : bid) (lhs_change : nid)
  | KExpert (x : nat).                              (* index into [experts] *)

Inductive previously := PNever | PNecessary | PChanged | PInvalidated | PUnnecessary.
Inductive node_update := NUNecessary | NUChanged | NUInvalidated | NUUnnecessary.

Record handler := Handler { hd_token : Z; hd_fn : hfn; hd_prev : previously; hd_created_at : Z }.
Global Instance eta_handler : Settable _ := settable! Handler <hd_token; hd_fn; hd_prev; hd_created_at>.

Record node := Node {
  n_kind : kind;
  n_valid : bool;
  n_value : option val;
  n_cutoff : cutoff;
  n_recomputed_at : Z;
  n_changed_at : Z;
  n_num_handlers : Z;
  n_parents : list nid;
  n_created_in : scope;
  n_pix_in_child : list Z;        (* my_parent_index_in_child_at_index *)
  n_cix_in_parent : list Z;       (* my_child_index_in_parent_at_index *)
  n_height : Z;
  n_height_in_rch : Z;
  n_height_in_ahh : Z;
  n_in_has : bool;                (* is_in_handle_after_stabilisation *)
  n_force_necessary : bool;
  n_observers : list oid;
  n_mapref_did_change : bool;
  n_live : bool;
  n_handlers : list handler;      (* on_update_handlers: handlers attached to the node itself (Incr::on_update) *)
}.
Global Instance eta_node : Settable _ := settable! Node
  <n_kind; n_valid; n_value; n_cutoff; n_recomputed_at; n_changed_at; n_num_handlers; n_parents;
   n_created_in; n_pix_in_child; n_cix_in_parent; n_height; n_height_in_rch; n_height_in_ahh;
   n_in_has; n_force_necessary; n_observers; n_mapref_did_change; n_live; n_handlers>.

Record bind := Bind {
  b_lhs : nid;
  b_fn : bindfn;
  b_rhs : option nid;
  b_lhs_change : nid;
  b_main : nid;
  b_created : list nid;           (* all_nodes_created_on_rhs *)
  b_gen : Z;                      (* number of times the closure ran; for the trace only *)
  b_live : bool;
}.
Global Instance eta_bind : Settable _ := settable! Bind
  <b_lhs; b_fn; b_rhs; b_lhs_change; b_main; b_created; b_gen; b_live>.

(* kind/expert.rs: an edge (child, optional on_change callback, its index among the children); the
   callback of the harness remembers the last value it was given ([ed_seen]) *)
(* the change callback of an edge: none, the harness's (logs and remembers the value), or the one a
   per-key operator installs (writes the key's output into the operator's accumulator) *)
Inductive cbk := CbNone | CbLog | CbPerKey (pk : nat) (key : Z).
Record edge := Edge { ed_child : nid; ed_cb : cbk; ed_index : option Z; ed_seen : option val }.
Global Instance eta_edge : Settable _ := settable! Edge <ed_child; ed_cb; ed_index; ed_seen>.
(* ExpertNode; [ex_mode]: what the recompute function of the harness returns (0: the sum of the values its
   callbacks were last given, 1: the sum of the dependencies' current values); the nodes a per-key
   operator builds are library code (2: the operator's result = its accumulator, 3: the reader of one
   key of the previous input), identified by [ex_pk] and [ex_key] *)
Record expert := Expert {
  ex_mode : Z;
  ex_children : list nat;         (* Vec<PackedEdge>, as indices into [edges] *)
  ex_force_stale : bool;
  ex_num_invalid : Z;
  ex_fire_all : bool;             (* will_fire_all_callbacks *)
  ex_pk : nat;
  ex_key : Z;
}.
Global Instance eta_expert : Settable _ := settable! Expert <ex_mode; ex_children; ex_force_stale; ex_num_invalid; ex_fire_all; ex_pk; ex_key>.

(* incr_filter_mapi_generic (incremental-map btree_map.rs:138, im_rc.rs:463): what the closures of one
   per-key operator share.  The user's per-key function is a template whose input node is [l1.0] and
   whose captured value is the key. *)
Record perkey := PerKey {
  pk_result : nid;                        (* the expert node returned to the user *)
  pk_lhs_change : nid;                    (* the map_cyclic node *)
  pk_prev : list (Z * Z);                 (* prev_map *)
  pk_acc : list (Z * Z);                  (* acc *)
  pk_nodes : list (Z * (nid * nat));      (* prev_nodes: key -> (weak per-key node, dependency) *)
  pk_fn : bindfn;
  pk_cutoff : option cutoff;
  pk_filter : bool;                       (* incr_filter_mapi_: the per-key result is an Option, None removes the key *)
}.
Global Instance eta_perkey : Settable _ := settable! PerKey <pk_result; pk_lhs_change; pk_prev; pk_acc; pk_nodes; pk_fn; pk_cutoff; pk_filter>.

Record var := Var {
  v_value : val;
  v_pending : option val;         (* value_set_during_stabilisation *)
  v_set_at : Z;
  v_node : option nid;            (* None after break_rc_cycle *)
  v_node_id : nid;
  v_handles : nat;                (* public::Var clones alive *)
  v_live : bool;
}.
Global Instance eta_var : Settable _ := settable! Var
  <v_value; v_pending; v_set_at; v_node; v_node_id; v_handles; v_live>.

Inductive ostate := OCreated | OInUse | ODisallowed | OUnlinked.

Record obs := Obs {
  o_state : ostate;
  o_observing : nid;
  o_handlers : list handler;      (* HashMap<SubscriptionToken, _>; insertion order here *)
  o_next_token : Z;
  o_handles : nat;                (* public::Observer clones alive *)
  o_live : bool;
}.
Global Instance eta_obs : Settable _ := settable! Obs
  <o_state; o_observing; o_handlers; o_next_token; o_handles; o_live>.

Inductive status := NotStabilising | Stabilising | RunningOnUpdateHandlers.

(* panic sites.  harness/src/panics.rs maps a Rust panic (message, file:line) to these tags. *)
Inductive ptag :=
  | PNestedStabilise        (* state.rs: assert_eq!(status, NotStabilising) *)
  | PHeightLimit            (* "node with too large height" *)
  | PCycle                  (* "adding edge made graph cyclic" *)
  | PCrossState             (* node.rs: assert!(weak_thin_ptr_eq(rhs.weak_state(), ..)) *)
  | PSetMaxDuringStabilise  (* "tried to set_max_height_allowed during stabilisation" *)
  | PSetMaxBelowSeen        (* "cannot set max_height_allowed less than max height already seen" *)
  | PScopeNotNecessary      (* "trying to make a node necessary whose defining bind is not necessary" *)
  | PRecomputeInvalid       (* "recomputing invalid node" *)
  | PNotInRch               (* "node was not in recompute heap" *)
  | PAbandonedWatch         (* "uninitialised var or abandoned watch node" *)
  | PInjected               (* user closure panicked *)
  | PInvalidScope           (* "Attempted to run a closure within an invalid scope" *)
  | POnlyDuringStabilise    (* "can only call {} during stabilisation" (debug builds) *)
  | PNotAChild              (* "currently running node was not a child" (debug builds) *)
  | PUnwrapNone (site : Z)  (* Option::unwrap() on None / expect *)
  | PIndex (site : Z)       (* index out of bounds *)
  | PBorrow (site : Z)      (* RefCell already borrowed *)
  | PAssert (site : Z)      (* assert! *)
  | PDebugAssert (site : Z) (* debug_assert!, only when debug = true *)
  | POverflow (site : Z)    (* arithmetic overflow: debug builds only *)
  | PModelGap (site : Z).   (* the model does not cover this situation (never expected) *)

Inductive res (A : Type) := Ok (a : A) | Panic (t : ptag) | OutOfFuel.
Arguments Ok {A}. Arguments Panic {A}. Arguments OutOfFuel {A}.

(* trace events *)
Inductive event :=
  | EvRecompute (n : nid)                                   (* recompute_one entry *)
  | EvInv (n : nid) (cap : Z) (args : list val) (r : val)   (* map/map_with_old function call *)
  | EvFoldCall (n : nid) (acc x r : val)
  | EvBindRun (n : nid) (gen : Z) (lhs : val)               (* bind closure call (n = lhs_change node) *)
  | EvCut (n : nid) (old new : val) (r : bool)              (* user cutoff function call *)
  | EvUpd (o : oid) (token : Z) (hid : Z) (u : node_update) (v : option val)   (* subscription callback *)
  | EvNodeUpd (n : nid) (ix : Z) (hid : Z) (u : node_update) (v : option val)  (* Incr::on_update callback *)
  | EvEffRead (o : oid) (r : res val + Z)                   (* ERead result: value or error code *)
  | EvEffGet (x : vid) (v : val)
  | EvEffReplace (x : vid) (v : val)
  | EvInvalidate (n : nid)
  | EvBecameNecessary (n : nid)
  | EvBecameUnnecessary (n : nid)
  | EvMemoFn (m : nat) (key : Z)                            (* the underlying function of a memoised fn ran *)
  | EvEdgeCb (n : nid) (e : nat) (v : val)                  (* on_change callback of edge e of expert node n *)
  | EvExpertRun (n : nid) (v : val)                         (* recompute function of an expert node *)
  | EvObsChange (n : nid) (b : bool)                        (* on_observability_change of an expert node *)
  | EvPerKeyFn (pk : nat) (key : Z).                        (* the user's per-key function ran *)

Record state := State {
  nodes : list node;
  binds : list bind;
  vars : list var;
  obss : list obs;
  rch_queues : list (list nid);
  rch_lower : Z;
  rch_len : Z;
  ahh_queues : list (list nid);
  ahh_lower : Z;
  ahh_len : Z;
  ahh_max_seen : Z;
  st_status : status;
  stab_num : Z;
  prop_inv : list nid;            (* propagate_invalidity stack: push = append, pop = last *)
  has_stack : list nid;           (* handle_after_stabilisation *)
  run_ouh : list (nid * node_update);
  new_obs : list oid;
  all_obs : list oid;
  disallowed_obs : list oid;
  cur_scope : scope;
  set_during : list vid;
  dead_vars : list vid;
  num_var_sets : Z;
  num_recomputed : Z;
  num_created : Z;
  num_changed : Z;
  num_became_necessary : Z;
  num_became_unnecessary : Z;
  num_invalidated : Z;
  num_active_observers : Z;
  debug : bool;
  events : list event;            (* newest first *)
  handles : list (option nid);    (* the user's node handles (Incr clones held by the test program); None once dropped *)
  exports : list nid;             (* nodes handed out by bind closures (TExport), also held by the program *)
  memos : list memo;              (* functions memoised with weak_memoize_fn (the program holds the closures) *)
  experts : list expert;
  edges : list edge;
  dep_slots : list (option nat);  (* the program's cells holding a Dependency (an edge) *)
  perkeys : list perkey;
  cur_running : option nid;       (* only_in_debug.currently_running_node *)
  running_obs : option oid;       (* the observer whose handler table run_all has borrowed *)
  inv_count : nat;                (* user-function invocations so far *)
  crash_at : option nat;          (* inject a panic at this invocation *)
}.
Global Instance eta_state : Settable _ := settable! State
  <nodes; binds; vars; obss; rch_queues; rch_lower; rch_len; ahh_queues; ahh_lower; ahh_len;
   ahh_max_seen; st_status; stab_num; prop_inv; has_stack; run_ouh; new_obs; all_obs;
   disallowed_obs; cur_scope; set_during; dead_vars; num_var_sets; num_recomputed; num_created;
   num_changed; num_became_necessary; num_became_unnecessary; num_invalidated;
   num_active_observers; debug; events; handles; exports; memos; experts; edges; dep_slots; perkeys; cur_running; running_obs;
   inv_count; crash_at>.

(* ---------------------------------------------------------------- monad *)
Definition M (A : Type) : Type := state -> res A * state.

Definition ret {A} (a : A) : M A := fun s => (Ok a, s).
Definition bindM {A B} (m : M A) (k : A -> M B) : M B :=
  fun s => match m s with
           | (Ok a, s') => k a s'
           | (Panic t, s') => (Panic t, s')       (* the state reached at the failure is kept *)
           | (OutOfFuel, s') => (OutOfFuel, s')
           end.
Definition panic {A} (t : ptag) : M A := fun s => (Panic t, s).
Definition out_of_fuel {A} : M A := fun s => (OutOfFuel, s).
Definition get : M state := fun s => (Ok s, s).
Definition gets {A} (f : state -> A) : M A := fun s => (Ok (f s), s).
Definition modify (f : state -> state) : M unit := fun s => (Ok tt, f s).

Notation "x <- m ;; k" := (bindM m (fun x => k))
  (at level 100, m at next level, right associativity).
Notation "m ;;; k" := (bindM m (fun _ => k))
  (at level 100, right associativity).

Definition when (b : bool) (m : M unit) : M unit := if b then m else ret tt.
Definition massert (b : bool) (t : ptag) : M unit := if b then ret tt else panic t.
(* debug_assert!: only exists when debug assertions are compiled in *)
Definition dassert (b : M bool) (site : Z) : M unit :=
  d <- gets debug ;;
  if d : bool then (ok <- b ;; if ok : bool then ret tt else panic (PDebugAssert site)) else ret tt.

Fixpoint mapM {A B} (f : A -> M B) (l : list A) : M (list B) :=
  match l with
  | [] => ret []
  | x :: l' => y <- f x ;; ys <- mapM f l' ;; ret (y :: ys)
  end.
Fixpoint forM_ {A} (l : list A) (f : A -> M unit) : M unit :=
  match l with
  | [] => ret tt
  | x :: l' => f x ;;; forM_ l' f
  end.

Fixpoint foldM {A B} (f : B -> A -> M B) (l : list A) (b : B) : M B :=
  match l with
  | [] => ret b
  | x :: l' => b' <- f b x ;; foldM f l' b'
  end.
(* a loop with `return`: stops at the first element for which the body answers false *)
Fixpoint forM_break {A} (l : list A) (f : A -> M bool) : M bool :=
  match l with
  | [] => ret true
  | x :: l' => c <- f x ;; if c : bool then forM_break l' f else ret false
  end.

(* Z-indexed vector access, as Rust's `v[i as usize]` *)
Definition zget {A} (l : list A) (i : Z) : option A :=
  if bool_decide (i < 0) then None else l !! Z.to_nat i.
Definition zlen {A} (l : list A) : Z := Z.of_nat (length l).
(* while v.len() <= idx { v.push(-1) } *)
Definition pad_to {A} (l : list A) (idx : Z) (d : A) : list A :=
  l ++ replicate (Z.to_nat (idx + 1) - length l) d.
(* Vec::swap_remove / VecDeque::swap_remove_back *)
Definition swap_remove {A} (l : list A) (i : nat) : list A :=
  match stdpp.list.last l with
  | None => l
  | Some x => if bool_decide (i = length l - 1)%nat then removelast l
              else removelast (<[i := x]> l)
  end.

Definition emit (e : event) : M unit := modify (fun s => s <| events := e :: events s |>).

(* accessors that panic like an unwrap/index would *)
Definition get_node (n : nid) : M node :=
  s <- get ;; match nodes s !! n with Some x => ret x | None => panic (PModelGap 1) end.
Definition upd_node (n : nid) (f : node -> node) : M unit :=
  modify (fun s => s <| nodes := alter f n (nodes s) |>).
(* writes that record the current stabilisation number (`state.stabilisation_num.get()` at the moment of
   the write) *)
Definition stamp_node (n : nid) (f : Z -> node -> node) : M unit :=
  modify (fun s => s <| nodes := alter (f (stab_num s)) n (nodes s) |>).
Definition get_bind (b : bid) : M bind :=
  s <- get ;; match binds s !! b with Some x => ret x | None => panic (PModelGap 2) end.
Definition upd_bind (b : bid) (f : bind -> bind) : M unit :=
  modify (fun s => s <| binds := alter f b (binds s) |>).
Definition get_var (x : vid) : M var :=
  s <- get ;; match vars s !! x with Some v => ret v | None => panic (PModelGap 3) end.
Definition upd_var (x : vid) (f : var -> var) : M unit :=
  modify (fun s => s <| vars := alter f x (vars s) |>).
Definition stamp_var (x : vid) (f : Z -> var -> var) : M unit :=
  modify (fun s => s <| vars := alter (f (stab_num s)) x (vars s) |>).
Definition get_expert (x : nat) : M expert :=
  s <- get ;; match experts s !! x with Some v => ret v | None => panic (PModelGap 5) end.
Definition upd_expert (x : nat) (f : expert -> expert) : M unit :=
  modify (fun s => s <| experts := alter f x (experts s) |>).
Definition get_edge (e : nat) : M edge :=
  s <- get ;; match edges s !! e with Some v => ret v | None => panic (PModelGap 6) end.
Definition upd_edge (e : nat) (f : edge -> edge) : M unit :=
  modify (fun s => s <| edges := alter f e (edges s) |>).
Definition get_perkey (x : nat) : M perkey :=
  s <- get ;; match perkeys s !! x with Some v => ret v | None => panic (PModelGap 7) end.
Definition upd_perkey (x : nat) (f : perkey -> perkey) : M unit :=
  modify (fun s => s <| perkeys := alter f x (perkeys s) |>).
Definition get_obs (o : oid) : M obs :=
  s <- get ;; match obss s !! o with Some v => ret v | None => panic (PModelGap 4) end.
Definition upd_obs (o : oid) (f : obs -> obs) : M unit :=
  modify (fun s => s <| obss := alter f o (obss s) |>).
