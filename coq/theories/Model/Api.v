(* Engine model E, part 3: observers, subscriptions, stabilise, and the interpreter of
   operation histories (the public API surface the harness drives). *)
From stdpp Require Import base list option numbers.
From RecordUpdate Require Import RecordUpdate.
From Incr.Model Require Import Base Live Engine.
Local Open Scope Z_scope.

(* ------------------------------------------------------------ observers (internal_observer.rs, state.rs, public.rs) *)
(* State::observe (state.rs:215) + Observer::new *)
Definition observe (n : nid) : M oid :=
  s <- get ;;
  let o := length (obss s) in
  modify (fun s => s <| obss := obss s ++ [Obs OCreated n [] 1 1 true] |>
                     <| num_active_observers := num_active_observers s + 1 |>
                     <| new_obs := new_obs s ++ [o] |>) ;;;
  ret o.

(* add_new_observers (state.rs:223) *)
Definition add_new_observers (fuel : nat) : M unit :=
  s <- get ;;
  modify (fun s => s <| new_obs := [] |>) ;;;        (* drain(..) *)
  forM_ (new_obs s) (fun o =>
    ob <- get_obs o ;;
    if negb (o_live ob) then ret tt else
    match o_state ob with
    | OInUse | ODisallowed => panic (PAssert 400)
    | OUnlinked => ret tt
    | OCreated =>
      upd_obs o (fun ob => ob <| o_state := OInUse |>) ;;;
      let n := o_observing ob in
      x <- get_node n ;;
      let was_necessary := is_necessary x in
      modify (fun s => s <| all_obs := all_obs s ++ [o] |>) ;;;
      (* add_to_observed_node (internal_observer.rs:104) *)
      upd_node n (fun x => x <| n_observers := n_observers x ++ [o] |>
                             <| n_num_handlers := n_num_handlers x + zlen (o_handlers ob) |>) ;;;
      handle_after_stabilisation n ;;;
      dassert (x <- get_node n ;; ret (is_necessary x)) 401 ;;;
      if was_necessary then ret tt
      else became_necessary fuel n ;;; propagate_invalidity fuel    (* became_necessary_propagate *)
    end).

Definition remove_from_list (o : nat) (l : list nat) : list nat := filter (fun y => y ≠ o) l.

(* remove_from_observed_node (internal_observer.rs:110), the removal from all_observers and
   check_if_unnecessary (state.rs:270-280) *)
Definition unlink_observer (fuel : nat) (o : oid) (ob : obs) : M unit :=
  let n := o_observing ob in
  upd_node n (fun x => x <| n_observers := remove_from_list o (n_observers x) |>
                         <| n_num_handlers := n_num_handlers x - zlen (o_handlers ob) |>) ;;;
  modify (fun s => s <| all_obs := remove_from_list o (all_obs s) |>) ;;;
  check_if_unnecessary fuel n.

(* unlink_disallowed_observers (state.rs:256) *)
Definition unlink_disallowed_observers (fuel : nat) : M unit :=
  s <- get ;;
  modify (fun s => s <| disallowed_obs := [] |>) ;;;
  forM_ (disallowed_obs s) (fun o =>
    ob <- get_obs o ;;
    if negb (o_live ob) then ret tt else
    dassert (ret (match o_state ob with ODisallowed => true | _ => false end)) 402 ;;;
    upd_obs o (fun ob => ob <| o_state := OUnlinked |>) ;;;
    unlink_observer fuel o ob).

(* disallow_future_use (internal_observer.rs:82) *)
Definition disallow_future_use (o : oid) : M unit :=
  ob <- get_obs o ;;
  match o_state ob with
  | ODisallowed | OUnlinked => ret tt
  | OCreated =>
      modify (fun s => s <| num_active_observers := num_active_observers s - 1 |>) ;;;
      upd_obs o (fun ob => ob <| o_state := OUnlinked |> <| o_handlers := [] |>)
  | OInUse =>
      modify (fun s => s <| num_active_observers := num_active_observers s - 1 |>
                         <| disallowed_obs := disallowed_obs s ++ [o] |>) ;;;
      upd_obs o (fun ob => ob <| o_state := ODisallowed |>)
  end.

(* State::unsubscribe (state.rs:438) *)
Definition state_unsubscribe (tok_obs : oid) (tok : Z) : M unit :=
  s <- get ;;
  if bool_decide (tok_obs ∈ all_obs s) then unsubscribe tok_obs tok_obs tok ;;; ret tt else ret tt.

(* ------------------------------------------------------------ update handlers (node_update.rs, node.rs:931,966) *)
(* node_update (node.rs:966) *)
Definition node_update_of (n : nid) : M node_update :=
  x <- get_node n ;;
  if negb (n_valid x) then ret NUInvalidated
  else if negb (is_necessary x) then ret NUUnnecessary
  else
    v <- value_of n ;;
    now <- gets stab_num ;;
    (* Changed only if the value changed in the stabilisation that just ended *)
    ret (match v with
         | Some _ => if bool_decide (n_changed_at x + 1 = now) then NUChanged else NUNecessary
         | None => NUNecessary
         end).

(* really_run_downcast (node_update.rs:61) + the public wrapper of try_subscribe (public.rs:99) *)
Definition really_run (o : oid) (hix : nat) (h : handler) (n : nid) (nu : node_update) : M unit :=
  upd_obs o (fun ob => ob <| o_handlers :=
     alter (fun h => h <| hd_prev := match nu with
                                     | NUChanged => PChanged | NUNecessary => PNecessary
                                     | NUInvalidated => PInvalidated | NUUnnecessary => PUnnecessary end |>)
           hix (o_handlers ob) |>) ;;;
  v <- value_of n ;;
  arg <- match nu with
         | NUChanged | NUNecessary =>
             match v with Some v => ret (Some v) | None => panic (PUnwrapNone 410) end
         | NUInvalidated => ret None
         | NUUnnecessary => ret None
         end ;;
  match nu with
  | NUUnnecessary => panic (PAssert 411)     (* "Incremental bug -- Observer subscription got NodeUpdate::Unnecessary" *)
  | _ =>
    user_call ;;;
    emit (EvUpd o (hd_token h) (h_id (hd_fn h)) nu arg) ;;;
    (* handlers of the DSL write variables and read observers; the expert-dependency effects need the
       engine's fuel and are not available here (they would end in OutOfFuel) *)
    run_effects 0 (default VUnit arg) (h_effs (hd_fn h))
  end.

(* OnUpdateHandler::run (node_update.rs:97) *)
Definition handler_run (o : oid) (hix : nat) (h : handler) (n : nid) (nu : node_update) (now : Z) : M unit :=
  if bool_decide (hd_created_at h < now) then
    match hd_prev h, nu with
    | PInvalidated, _ => ret tt
    | PChanged, NUNecessary | PNecessary, NUNecessary | PUnnecessary, NUUnnecessary => ret tt
    | PNever, NUChanged | PUnnecessary, NUChanged => really_run o hix h n NUNecessary
    | _, nu => really_run o hix h n nu
    end
  else ret tt.

(* ErasedObserver::run_all (internal_observer.rs:143) *)
Definition run_all (o : oid) (n : nid) (nu : node_update) (now : Z) : M unit :=
  ob <- get_obs o ;;
  forM_ (seq 0 (length (o_handlers ob))) (fun ix =>
    ob <- get_obs o ;;
    match o_handlers ob !! ix with
    | None => ret tt
    | Some h =>
      match o_state ob with
      | OCreated | OUnlinked => panic (PAssert 420)
      | ODisallowed => ret tt
      | OInUse =>
          modify (fun s => s <| running_obs := Some o |>) ;;;
          handler_run o ix h n nu now ;;;
          modify (fun s => s <| running_obs := None |>)
      end
    end).

(* handlers attached to the node itself (Incr::on_update, incr.rs:402; Node::add_on_update_handler, node.rs:183):
   the same OnUpdateHandler, but the user's closure also hears Unnecessary *)
Definition add_on_update_handler (n : nid) (h : hfn) : M unit :=
  now <- gets stab_num ;;
  upd_node n (fun x => x <| n_num_handlers := n_num_handlers x + 1 |>
                         <| n_handlers := n_handlers x ++ [Handler 0 h PNever now] |>).

Definition node_really_run (n : nid) (hix : nat) (h : handler) (nu : node_update) : M unit :=
  upd_node n (fun x => x <| n_handlers :=
     alter (fun h => h <| hd_prev := match nu with
                                     | NUChanged => PChanged | NUNecessary => PNecessary
                                     | NUInvalidated => PInvalidated | NUUnnecessary => PUnnecessary end |>)
           hix (n_handlers x) |>) ;;;
  v <- value_of n ;;
  arg <- match nu with
         | NUChanged | NUNecessary =>
             match v with Some v => ret (Some v) | None => panic (PUnwrapNone 412) end
         | NUInvalidated | NUUnnecessary => ret None
         end ;;
  user_call ;;;
  emit (EvNodeUpd n (Z.of_nat hix) (h_id (hd_fn h)) nu arg) ;;;
  run_effects 0 (default VUnit arg) (h_effs (hd_fn h)).

Definition node_handler_run (n : nid) (hix : nat) (h : handler) (nu : node_update) (now : Z) : M unit :=
  if bool_decide (hd_created_at h < now) then
    match hd_prev h, nu with
    | PInvalidated, _ => ret tt
    | PChanged, NUNecessary | PNecessary, NUNecessary | PUnnecessary, NUUnnecessary => ret tt
    | PNever, NUChanged | PUnnecessary, NUChanged => node_really_run n hix h NUNecessary
    | _, nu => node_really_run n hix h nu
    end
  else ret tt.

(* Node::run_on_update_handlers (node.rs:958): the node's own handlers, then every observer's *)
Definition run_on_update_handlers (n : nid) (nu : node_update) (now : Z) : M unit :=
  x <- get_node n ;;
  forM_ (seq 0 (length (n_handlers x))) (fun ix =>
    x <- get_node n ;;
    match n_handlers x !! ix with
    | None => ret tt
    | Some h => node_handler_run n ix h nu now
    end) ;;;
  x <- get_node n ;;
  forM_ (n_observers x) (fun o =>
    ob <- get_obs o ;; if o_live ob then run_all o n nu now else ret tt).

(* ------------------------------------------------------------ stabilise (state.rs:278-397) *)
Definition stabilise_start_links (fuel : nat) : M unit :=
  add_new_observers fuel ;;;
  unlink_disallowed_observers fuel ;;;
  collect [].                       (* observers just unlinked may have been the last owners of subgraphs *)

Definition stabilise_start (fuel : nat) : M unit :=
  modify (fun s => s <| st_status := Stabilising |>) ;;;
  stabilise_start_links fuel.

(* stabilise_end (state.rs:285), in its three phases *)
(* phase 1: bump the stabilisation number, apply deferred var writes, release dropped vars,
   decide what each queued node will tell its handlers *)
Definition stabilise_end_prepare : M unit :=
  modify (fun s => s <| stab_num := stab_num s + 1 |>) ;;;
  (* only_in_debug.currently_running_node.take() *)
  modify (fun s => s <| cur_running := None |>) ;;;
  (* set_during_stabilisation: `while let Some(var) = stack.pop()` *)
  s <- get ;;
  modify (fun s => s <| set_during := [] |>) ;;;
  forM_ (rev (set_during s)) (fun x =>
    v <- get_var x ;;
    if negb (v_live v) then ret tt else
    match v_pending v with
    | None => ret tt
    | Some value => upd_var x (fun v => v <| v_pending := None |>) ;;; set_var_while_not_stabilising x value
    end) ;;;
  (* dead_vars: break_rc_cycle *)
  s <- get ;;
  modify (fun s => s <| dead_vars := [] |>) ;;;
  forM_ (dead_vars s) (fun x => upd_var x (fun v => v <| v_node := None |>)) ;;;
  (* handle_after_stabilisation -> run queue *)
  s <- get ;;
  modify (fun s => s <| has_stack := [] |>) ;;;
  forM_ (has_stack s) (fun n =>
    x <- get_node n ;;
    if negb (n_live x) then ret tt else
    upd_node n (fun x => x <| n_in_has := false |>) ;;;
    nu <- node_update_of n ;;
    modify (fun s => s <| run_ouh := run_ouh s ++ [(n, nu)] |>)).

(* phase 2 (status = RunningOnUpdateHandlers): the callbacks *)
Definition stabilise_end_run_handlers : M unit :=
  now <- gets stab_num ;;
  s <- get ;;
  modify (fun s => s <| run_ouh := [] |>) ;;;
  forM_ (run_ouh s) (fun nnu =>
    x <- get_node nnu.1 ;;
    if n_live x then run_on_update_handlers nnu.1 nnu.2 now else ret tt).

Definition stabilise_end : M unit :=
  stabilise_end_prepare ;;;
  modify (fun s => s <| st_status := RunningOnUpdateHandlers |>) ;;;
  stabilise_end_run_handlers ;;;
  modify (fun s => s <| st_status := NotStabilising |>).

Fixpoint stabilise_loop (fuel : nat) : M unit :=
  match fuel with
  | O => out_of_fuel
  | S f =>
    o <- rch_remove_min ;;
    match o with
    | None => ret tt
    | Some n => collect [ONode n] ;;; recompute f n ;;; stabilise_loop f
    end
  end.

(* stabilise (state.rs:358) *)
Definition stabilise (fuel : nat) : M unit :=
  st <- gets st_status ;;
  match st with
  | NotStabilising =>
    stabilise_start fuel ;;;
    stabilise_loop fuel ;;;
    stabilise_end
  | _ => panic PNestedStabilise
  end.

(* is_stable (state.rs:352) *)
Definition is_stable (s : state) : bool :=
  bool_decide (rch_len s = 0) && bool_decide (dead_vars s = []) && bool_decide (new_obs s = []).

(* State::new_with_height (state.rs:124) *)
Definition init_state (max_height : Z) (dbg : bool) : state :=
  State [] [] [] []
        (replicate (Z.to_nat (max_height + 1)) []) (max_height + 1) 0
        (replicate (Z.to_nat (max_height + 1)) []) (max_height + 1) 0 0
        NotStabilising 0 [] [] [] [] [] [] STop [] []
        0 0 0 0 0 0 0 0 dbg [] [] [] [] [] [] [] [] None None 0%nat None.

(* ------------------------------------------------------------ histories *)
Notation hnode := nat (only parsing).   (* index into the table of node handles *)

Inductive op :=
  | OpVar (v : Z)
  | OpConst (v : Z)
  | OpMap (fid : Z) (effs : list effect) (args : list hnode)
  | OpMapRef (p : Z) (arg : hnode)
  | OpMapWithOld (fid : Z) (arg : hnode)
  | OpFold (fid : Z) (init : Z) (args : list hnode)
  | OpZip (a b : hnode)
  | OpDependOn (a b : hnode)
  | OpBind (lhs : hnode) (f : bindfn)          (* OOuter operands inside f are node handles *)
  | OpSetCutoff (n : hnode) (c : cutoff)       (* CPreserve's argument is a node handle *)
  | OpPair (a b : Z)                           (* var holding a pair; for map_ref *)
  | OpObserve (n : hnode)
  | OpObserveExport (k : nat)                  (* observe exports[k mod len] (a fresh constant if there are none) *)
  | OpMapExport (fid : Z) (k : nat)            (* map over exports[k mod len] (a constant if there are none) *)
  | OpExportHandle (k : nat)                   (* a program handle on exports[k mod len] itself (a fresh constant if there are none) *)
  | OpCloneObs (o : oid)
  | OpDropObs (o : oid)
  | OpDisallow (o : oid)
  | OpRead (o : oid)
  | OpSubscribe (o : oid) (h : hfn)
  | OpOnUpdate (n : hnode) (h : hfn)
  | OpUnsubscribe (o : oid) (sub : nat)        (* sub = index into the table of subscription tokens *)
  | OpStateUnsubscribe (sub : nat)
  | OpSet (x : vid) (v : Z)
  | OpSetPair (x : vid) (a b : Z)
  | OpUpdate (x : vid) (d : Z)
  | OpModify (x : vid) (d : Z)
  | OpReplace (x : vid) (v : Z)
  | OpReplaceWith (x : vid) (d : Z)
  | OpGet (x : vid)
  | OpStabilise
  | OpIsStable
  | OpStats
  | OpSetMaxHeight (n : Z)
  | OpExpert (mode : Z)                            (* expert::Node::new: yields a node handle *)
  | OpAddDep (e h : hnode) (slot : nat) (cb : bool)   (* slot := e.add_dependency(_with)(h), from top level *)
  | OpRemoveDep (e : hnode) (slot : nat)
  | OpMakeStale (e : hnode)
  | OpInvalidateExpert (e : hnode)
  | OpVarMap (m : list (Z * Z))                    (* a variable holding a map *)
  | OpSetMap (x : vid) (m : list (Z * Z))
  | OpPerMapi (inp : hnode) (c : option cutoff) (f : bindfn) (flt : bool)
      (* incr_mapi_ / incr_mapi_cutoff on `inp` (the harness wraps it between two conversion nodes) *)
  | OpMemoNew (f : bindfn)                         (* weak_memoize_fn at top level; outer operands are node handles *)
  | OpMemoCall (m : nat) (key : Z)                 (* call it from top level: yields a node handle *)
  | OpDropNode (n : hnode)                     (* drop the program's handle (Incr clone) *)
  | OpDropVar (x : vid)                        (* drop a public::Var handle *)
  | OpDropExports                              (* drop every node handle that bind closures handed out *)
  | OpCrashAt (k : nat).                       (* arm the panic injection: k-th user invocation from now *)

(* the expert API's graph surgery (expert.rs).  In debug builds make_stale, remove_dependency and
   invalidate refuse to run outside a stabilisation; release builds perform them on the spot.
   (Building a per-key operator goes through add_dependency too.) *)
Definition expert_op (o : op) : bool :=
  match o with
  | OpAddDep _ _ _ _ | OpRemoveDep _ _ | OpMakeStale _ | OpInvalidateExpert _ | OpPerMapi _ _ _ _ => true
  | _ => false
  end.

Inductive out :=
  | OutUnit
  | OutNode (n : nid)
  | OutObs (o : oid)
  | OutRead (r : val + Z)
  | OutTok (r : Z + Z)
  | OutCode (c : Z)
  | OutVal (v : val)
  | OutBool (b : bool)
  | OutStats (created changed recomputed invalidated became_nec became_unnec : Z).

(* the interpreter's own state: subscription tokens handed out so far.  Node handles live in the
   engine state ([handles]) because bind closures can hand nodes out (TExport). *)
Record istate := IState {
  hsubs : list (oid * Z);
}.

(* replace node handles by the nodes they denote, throughout a bind closure *)
Fixpoint handles_tinstr (tbl : list (option nid)) (t : tinstr) : tinstr :=
  let so (o : operand) : operand :=
    match o with
    | OOuter h => OOuter (default 0%nat (mjoin (tbl !! h)))
    | _ => o
    end in
  match t with
  | TConst v => TConst v
  | TConstLhs => TConstLhs
  | TMap fid effs args => TMap fid effs (so <$> args)
  | TMapRef p a => TMapRef p (so a)
  | TMapWithOld fid a => TMapWithOld fid (so a)
  | TFold fid init args => TFold fid init (so <$> args)
  | TCutoff tg c => TCutoff (so tg) c
  | TExport o => TExport (so o)
  | TMemoCall m k => TMemoCall m k
  | TMemoNew f => TMemoNew (handles_bindfn tbl f)
  | TBind lhs f => TBind (so lhs) (handles_bindfn tbl f)
  end
with handles_bindfn (tbl : list (option nid)) (f : bindfn) : bindfn :=
  match f with
  | BindFn effs ts =>
      BindFn effs ((fix go (ts : list (list tinstr * operand)) :=
                      match ts with
                      | [] => []
                      | (body, r) :: ts' =>
                          ((fix gob (b : list tinstr) := match b with [] => [] | t :: b' => handles_tinstr tbl t :: gob b' end) body,
                           match r with
                           | OOuter h => OOuter (default 0%nat (mjoin (tbl !! h)))
                           | _ => r
                           end) :: go ts'
                      end) ts)
  end.

Definition hnode_get (st : istate) (h : hnode) : M nid :=
  s <- get ;; match handles s !! h with Some (Some n) => ret n | _ => panic (PModelGap 40) end.

(* every node-creating op yields exactly one new node handle *)
Definition step (fuel : nat) (st : istate) (o : op) : M (istate * out) :=
  let mk (m : M nid) : M (istate * out) :=
    n <- m ;; modify (fun s => s <| handles := handles s ++ [Some n] |>) ;;; ret (st, OutNode n) in
  match o with
  | OpVar v =>
      (* State::var_in_scope (state.rs:193): the Var, then its watch node *)
      s <- get ;;
      let x := length (vars s) in
      let n := length (nodes s) in
      modify (fun s => s <| vars := vars s ++ [Var (VInt v) None (stab_num s) (Some n) n 1 true] |>) ;;;
      mk (create_node (KVar x))
  | OpPair a b =>
      s <- get ;;
      let x := length (vars s) in
      let n := length (nodes s) in
      modify (fun s => s <| vars := vars s ++ [Var (VPair (VInt a) (VInt b)) None (stab_num s) (Some n) n 1 true] |>) ;;;
      mk (create_node (KVar x))
  | OpConst v => mk (create_node (KConst (VInt v)))
  | OpMap fid effs args =>
      mk (cs <- mapM (hnode_get st) args ;; create_node (KMap (Clo fid 0 effs false) cs))
  | OpMapRef p a => mk (c <- hnode_get st a ;; create_node (KMapRef p c))
  | OpMapWithOld fid a => mk (c <- hnode_get st a ;; create_node (KMapWithOld (Clo fid 0 [] false) c))
  | OpFold fid init args =>
      mk (cs <- mapM (hnode_get st) args ;;
          match cs with
          | [] => create_node (KConst (VInt init))            (* State::fold (state.rs:178) *)
          | _ => create_node (KFold (Clo fid 0 [] false) (VInt init) cs)
          end)
  | OpZip a b =>
      (* Incr::zip (incr.rs:135): constant-folds two constants.  The harness works at one value
         type, so the zip node (a tuple) is followed by an identity map back to that type. *)
      mk (ca <- hnode_get st a ;; cb <- hnode_get st b ;;
          xa <- get_node ca ;; xb <- get_node cb ;;
          z <- match node_kind xa, node_kind xb with
               | Some (KConst va), Some (KConst vb) => create_node (KConst (VPair va vb))
               | _, _ => create_node (KMap (Clo 7 0 [] true) [ca; cb])
               end ;;
          create_node (KMap (Clo 0 0 [] false) [z]))
  | OpDependOn a b =>
      (* Incr::depend_on (incr.rs:355) *)
      mk (ca <- hnode_get st a ;; cb <- hnode_get st b ;;
          n <- create_node (KMap (Clo 0 0 [] true) [ca; cb]) ;;
          upd_node n (fun x => x <| n_cutoff := CPreserve ca |>) ;;; ret n)
  | OpBind lhs f =>
      mk (l <- hnode_get st lhs ;; s <- get ;; create_bind l (handles_bindfn (handles s) f))
  | OpSetCutoff h c =>
      n <- hnode_get st h ;;
      c' <- match c with
            | CPreserve hi => i <- hnode_get st hi ;; ret (CPreserve i)
            | _ => ret c
            end ;;
      upd_node n (fun x => x <| n_cutoff := c' |>) ;;; ret (st, OutUnit)
  | OpObserve h => n <- hnode_get st h ;; o <- observe n ;; ret (st, OutObs o)
  | OpObserveExport k =>
      s <- get ;;
      match exports s !! (k mod length (exports s))%nat with
      | Some n => o <- observe n ;; ret (st, OutObs o)
      | None => n <- create_node (KConst (VInt 0)) ;; o <- observe n ;; ret (st, OutObs o)
      end
  | OpMapExport fid k =>
      s <- get ;;
      mk (match exports s !! (k mod length (exports s))%nat with
          | Some n => create_node (KMap (Clo fid 0 [] false) [n])
          | None => create_node (KConst (VInt 0))
          end)
  | OpExportHandle k =>
      s <- get ;;
      mk (match exports s !! (k mod length (exports s))%nat with
          | Some n => ret n
          | None => create_node (KConst (VInt 0))
          end)
  | OpCloneObs o => upd_obs o (fun ob => ob <| o_handles := S (o_handles ob) |>) ;;; ret (st, OutUnit)
  | OpDropObs o =>
      (* impl Drop for Observer (public.rs:155): only the last clone disallows *)
      ob <- get_obs o ;;
      upd_obs o (fun ob => ob <| o_handles := pred (o_handles ob) |>) ;;;
      (if bool_decide (o_handles ob = 1%nat) then disallow_future_use o else ret tt) ;;;
      ret (st, OutUnit)
  | OpDisallow o => disallow_future_use o ;;; ret (st, OutUnit)
  | OpRead o => r <- observer_read o ;; ret (st, OutRead r)
  | OpOnUpdate h hf => n <- hnode_get st h ;; add_on_update_handler n hf ;;; ret (st, OutUnit)
  | OpSubscribe o h =>
      r <- subscribe o h ;;
      ret (match r with
           | inl tok => (IState (hsubs st ++ [(o, tok)]), OutTok r)
           | inr _ => (IState (hsubs st ++ [(o, -1)]), OutTok r)
           end)
  | OpUnsubscribe o sub =>
      match hsubs st !! sub with
      | Some (to, tok) => c <- unsubscribe o to tok ;; ret (st, OutCode c)
      | None => panic (PModelGap 41)
      end
  | OpStateUnsubscribe sub =>
      match hsubs st !! sub with
      | Some (to, tok) => state_unsubscribe to tok ;;; ret (st, OutUnit)
      | None => panic (PModelGap 42)
      end
  | OpSet x v => var_write x (fun _ => VInt v) ;;; ret (st, OutUnit)
  | OpSetPair x a b => var_write x (fun _ => VPair (VInt a) (VInt b)) ;;; ret (st, OutUnit)
  | OpUpdate x d => var_write x (fun o => VInt (as_int o + d)) ;;; ret (st, OutUnit)
  | OpModify x d => var_write x (fun o => VInt (as_int o + d)) ;;; ret (st, OutUnit)
  | OpReplace x v => old <- var_write x (fun _ => VInt v) ;; ret (st, OutVal old)
  | OpReplaceWith x d => old <- var_write x (fun o => VInt (as_int o + d)) ;; ret (st, OutVal old)
  | OpGet x => v <- get_var x ;; ret (st, OutVal (v_value v))
  | OpStabilise => stabilise fuel ;;; ret (st, OutUnit)
  | OpIsStable => s <- get ;; ret (st, OutBool (is_stable s))
  | OpStats =>
      s <- get ;;
      ret (st, OutStats (num_created s) (num_changed s) (num_recomputed s) (num_invalidated s)
                        (num_became_necessary s) (num_became_unnecessary s))
  | OpSetMaxHeight n => set_max_height_allowed n ;;; ret (st, OutUnit)
  | OpVarMap m =>
      s <- get ;;
      let x := length (vars s) in
      let n := length (nodes s) in
      modify (fun s => s <| vars := vars s ++ [Var (VMap m) None (stab_num s) (Some n) n 1 true] |>) ;;;
      mk (create_node (KVar x))
  | OpSetMap x m => var_write x (fun _ => VMap m) ;;; ret (st, OutUnit)
  | OpPerMapi inp c f flt =>
      (* the harness: inp.map(to map type).incr_mapi_(f).map(back to the value type);
         incr_filter_mapi_generic: Node::new (result), lhs.map_cyclic (lhs_change), result.add_dependency *)
      mk (i <- hnode_get st inp ;;
          s <- get ;;
          let pk := length (perkeys s) in
          conv_in <- create_node (KMap (Clo 0 0 [] true) [i]) ;;
          s <- get ;;
          modify (fun s => s <| experts := experts s ++ [Expert 2 [] false 0 true pk 0] |>) ;;;
          result <- create_node (KExpert (length (experts s))) ;;
          lhs_change <- create_node (KMap (Clo 10 0 [EPerKeyStep pk] true) [conv_in]) ;;
          s <- get ;;
          modify (fun s => s <| perkeys := perkeys s ++ [PerKey result lhs_change [] [] [] (handles_bindfn (handles s) f) c flt] |>) ;;;
          expert_add_dependency fuel result lhs_change CbNone ;;;
          create_node (KMap (Clo 0 0 [] true) [result]))
  | OpMemoNew f => s <- get ;; memo_new (handles_bindfn (handles s) f) ;;; ret (st, OutUnit)
  | OpMemoCall m key => mk (memo_call fuel [] m key)
  | OpExpert mode =>
      mk (s <- get ;;
          modify (fun s => s <| experts := experts s ++ [Expert mode [] false 0 true 0%nat 0] |>) ;;;
          create_node (KExpert (length (experts s))))
  | OpAddDep e h sl cb => run_effect fuel VUnit (EAddDep e h sl cb) ;;; ret (st, OutUnit)
  | OpRemoveDep e sl => run_effect fuel VUnit (ERemoveDep e sl) ;;; ret (st, OutUnit)
  | OpMakeStale e => run_effect fuel VUnit (EMakeStale e) ;;; ret (st, OutUnit)
  | OpInvalidateExpert e => run_effect fuel VUnit (EInvalidateExpert e) ;;; ret (st, OutUnit)
  | OpDropNode h =>
      modify (fun s => s <| handles := <[h := None]> (handles s) |>) ;;; ret (st, OutUnit)
  | OpDropVar x =>
      (* impl Drop for Var (public.rs:272): the last handle queues the var on dead_vars *)
      drop_var_handle x ;;; ret (st, OutUnit)
  | OpDropExports => modify (fun s => s <| exports := [] |>) ;;; ret (st, OutUnit)
  | OpCrashAt k =>
      modify (fun s => s <| crash_at := Some (inv_count s + k)%nat |>) ;;; ret (st, OutUnit)
  end.

(* run a history; a panicking op leaves the state it reached (catch_unwind in the harness)
   and the history continues.  The trace is one entry per op: its result and the events it emitted
   (oldest first). *)
(* between two operations of the program: whatever the operation did (including unwinding from a panic),
   its temporaries are gone and no handler table is borrowed any more *)
Definition end_of_op (s : state) : state := (collect [] s).2 <| running_obs := None |>.

Fixpoint run (fuel : nat) (ops : list op) (st : istate) (s : state)
  : list (res out * list event * state) :=
  match ops with
  | [] => []
  | o :: ops' =>
    let s0 := s <| events := [] |> in
    let '(r, s1) := step fuel st o s0 in
    let '(st', ro) := match r with
                      | Ok (st', out) => (st', Ok out)
                      | Panic t => (st, Panic t)
                      | OutOfFuel => (st, OutOfFuel)
                      end in
    (* whatever the op did (including unwinding from a panic), its temporaries are gone now *)
    let s1 := end_of_op s1 in
    (ro, rev (events s1), s1) :: run fuel ops' st' s1
  end.

Definition run_history (fuel : nat) (max_height : Z) (dbg : bool) (ops : list op) :=
  run fuel ops (IState []) (init_state max_height dbg).
