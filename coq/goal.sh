#!/bin/bash
# usage: goal.sh FILE LINE  -- show proof state after LINE lines of FILE
f=$1; n=$2
(head -n $n "$f"; echo; echo "Show.") | timeout 120 coqtop -Q /verif/coq/theories Incr -w none 2>&1 | tail -${3:-40}
