"""Reference semantics in python, independent of the engine model: a from-scratch evaluator of node
expressions over the current variable store, and the observer lifecycle automaton.  Used by the
oracles that look for a concrete failing input when model and implementation disagree (and, in
every run, as a sanity check of both)."""
from checks import trace as T


# ---- mirror of Model/Base.v function families
def as_int(v):
    if isinstance(v, int):
        return v
    if isinstance(v, tuple) and len(v) == 2 and isinstance(v[0], int):
        return v[0]
    return 0


def fn_sem(fid, cap, args):
    ints = [as_int(a) for a in args]
    a = ints[0] if ints else 0
    b = ints[1] if len(ints) > 1 else 0
    if fid == 0:
        return args[0] if args else ()
    if fid == 1:
        return sum(ints) + cap
    if fid == 2:
        return a * 2 + cap
    if fid == 3:
        return a - b
    if fid == 4:
        return max(a, b)
    if fid == 5:
        return sum(ints) % 3
    if fid == 6:
        return cap
    if fid == 7:
        return (args[0] if args else (), args[1] if len(args) > 1 else ())
    if fid == 8:
        return 100 * cap + a
    return a // 2


def fold_sem(fid, cap, acc, x):
    if fid == 0:
        return as_int(acc) + as_int(x)
    if fid == 1:
        return max(as_int(acc), as_int(x))
    return as_int(acc) * 3 + as_int(x) + cap


def wo_pure(fid, cap, x):
    """map_with_old functions whose result is a function of the input alone"""
    if fid == 0:
        return as_int(x) * 2 + cap
    if fid == 1:
        return x
    if fid == 2:
        return as_int(x) % 2
    return None


def proj(p, v):
    if isinstance(v, tuple) and len(v) == 2:
        return v[0] if p == 0 else v[1]
    return v


def show(v):
    if isinstance(v, dict):
        return "{" + ",".join(f"{k}:{v[k]}" for k in sorted(v)) + "}"
    if isinstance(v, tuple):
        if len(v) == 0:
            return "()"
        return "(" + ",".join(show(x) for x in v) + ")"
    return str(v)


class Impure(Exception):
    pass


class Ref:
    """interprets history source lines; node handles denote expressions"""

    def __init__(self):
        self.store = []          # var values
        self.handles = []        # expressions
        self.obs = []            # dict(expr, state, handles, export)
        self.subs = []           # dict(obs, ok, unsub)
        self.cutoffs = {}        # handle -> cutoff string
        self.experts = {}        # handle of an expert node -> dict(mode, static=[(child handle, cb)], ctrl=[...], ok)
        self.memos = []          # functions memoised at top level (captured bindfn with one template)
        self.dynamic_memos = False   # some closure calls weak_memoize_fn itself: indices are not static

    # ---- expressions
    def eval(self, e, store, depth=0):
        if depth > 200:
            raise Impure("too deep")
        k = e[0]
        if k == "var":
            return store[e[1]]
        if k == "const":
            return e[1]
        if k == "map":
            _, fid, cap, args = e
            return fn_sem(fid, cap, [self.eval(a, store, depth + 1) for a in args])
        if k == "mapref":
            return proj(e[1], self.eval(e[2], store, depth + 1))
        if k == "mapold":
            r = wo_pure(e[1], e[2], self.eval(e[3], store, depth + 1))
            if r is None:
                raise Impure("map_with_old not a function of its input")
            return r
        if k == "fold":
            _, fid, cap, init, args = e
            acc = init
            for a in args:
                acc = fold_sem(fid, cap, acc, self.eval(a, store, depth + 1))
            return acc
        if k == "bind":
            _, lhs, f, env = e
            v = self.eval(lhs, store, depth + 1)
            body, r = f["templates"][as_int(v) % len(f["templates"])]
            return self.eval(self.instantiate(v, body, r, env), store, depth + 1)
        if k in ("permapi", "perfilter"):
            # incr_mapi_ / incr_filter_mapi_: the user's per-key computation applied to every entry of the current
            # input map; the filter flavour of the harness drops the keys whose result is divisible by 3
            _, inp, f = e
            m = self.eval(inp, store, depth + 1)
            out = {}
            body, r = f["templates"][0]
            for key in sorted(m):
                v = as_int(self.eval(self.instantiate(key, body, r, [[("const", m[key])]]), store, depth + 1))
                if k == "permapi" or v % 3 != 0:
                    out[key] = v
            return out
        if k == "expert":
            ex = self.experts[e[1]]
            if not ex["ok"]:
                raise Impure("expert node rewired in a way the reference does not follow")
            total = 0
            deps = list(ex["static"])
            # a candidate the reference cannot follow (a node that a bind may invalidate): once the expert node
            # has depended on it while invalid it is invalid for good, which the reference does not track
            if any(self.handles[h][0] == "unknown" for h, _ in ex["static"]):
                raise Impure("a dependency is a node the reference does not track")
            for c in ex["ctrl"]:
                if any(self.handles[h][0] == "unknown" for h in c["hs"]) or any(self.handles[h][0] == "unknown" for h, _ in c["extra"]):
                    raise Impure("a possible dependency is a node the reference does not track")
            for c in ex["ctrl"]:
                v = self.eval(self.handles[c["sel"]], store, depth + 1)
                deps.append((c["hs"][as_int(v) % len(c["hs"])], c["cb"]))
                deps.extend(c["extra"])
            for (h, cb) in deps:
                if ex["mode"] == 1 or cb:
                    total += as_int(self.eval(self.handles[h], store, depth + 1))
            return total
        if k == "unknown":
            raise Impure("expression not tracked")
        raise ValueError(k)

    def instantiate(self, lhsv, body, r, env):
        """env: list of local-expression lists of the enclosing templates (innermost first)"""
        cap = as_int(lhsv)
        locals_ = []

        def res(o):
            if o[0] == "outer":
                return o[1] if isinstance(o[1], tuple) else self.handles[o[1]]
            if o[0] == "late":
                # a handle looked up when the closure runs; handles are only ever appended
                return self.handles[o[1]] if o[1] < len(self.handles) else ("unknown",)
            if o[0] == "foreign":
                return ("unknown",)
            _, d, i = o
            return locals_[i] if d == 0 else env[d - 1][i]
        for t in body:
            k = t[0]
            if k == "const":
                locals_.append(("const", t[1]))
            elif k == "constlhs":
                locals_.append(("const", lhsv))
            elif k == "map":
                locals_.append(("map", t[1], cap, [res(a) for a in t[3]]))
            elif k == "mapref":
                locals_.append(("mapref", t[1], res(t[2])))
            elif k == "mapold":
                locals_.append(("mapold", t[1], cap, res(t[2])))
            elif k == "fold":
                args = [res(a) for a in t[3]]
                locals_.append(("fold", t[1], cap, t[2], args) if args else ("const", t[2]))
            elif k == "bind":
                locals_.append(("bind", res(t[1]), t[2], [locals_] + env))
            elif k == "memocall":
                locals_.append(self.memo_expr(t[1], cap if t[2] is None else t[2]))
            elif k in ("cutoff", "export", "memonew"):
                pass
        return res(r)

    def memo_expr(self, m, key):
        """the node a memoised function denotes for a key: its body instantiated with the key"""
        if self.dynamic_memos or m >= len(self.memos):
            return ("unknown",)
        body, r = self.memos[m]["templates"][0]
        return self.instantiate(key, body, r, [])

    # ---- ops
    def step(self, line):
        op = T.parse_op(line)
        k = op[0]
        H = self.handles
        if k == "var":
            self.store.append(op[1])
            H.append(("var", len(self.store) - 1))
        elif k == "pair":
            self.store.append((op[1], op[2]))
            H.append(("var", len(self.store) - 1))
        elif k == "const":
            H.append(("const", op[1]))
        elif k == "varmap":
            self.store.append(dict(op[1]))
            H.append(("var", len(self.store) - 1))
        elif k == "setmap":
            self.store[op[1]] = dict(op[2])
        elif k in ("permapi", "perfilter"):
            H.append((k, H[op[1]], self.capture(op[3])))
        elif k == "expert":
            self.experts[len(H)] = dict(mode=op[1], static=[], ctrl=[], ok=True)
            H.append(("expert", len(H)))
        elif k == "adddep":
            if op[1] in self.experts:
                self.experts[op[1]]["static"].append((op[2], op[4]))
        elif k in ("rmdep", "makestale", "invalidateexpert"):
            if op[1] in self.experts:
                self.experts[op[1]]["ok"] = False
        elif k == "map":
            for e in op[2]:
                self.note_effect(e, op[3])
            H.append(("map", op[1], 0, [H[a] for a in op[3]]))
        elif k == "mapref":
            H.append(("mapref", op[1], H[op[2]]))
        elif k == "mapold":
            H.append(("mapold", op[1], 0, H[op[2]]))
        elif k == "fold":
            args = [H[a] for a in op[3]]
            H.append(("fold", op[1], 0, op[2], args) if args else ("const", op[2]))
        elif k == "zip":
            H.append(("map", 7, 0, [H[op[1]], H[op[2]]]))
        elif k == "dependon":
            H.append(("map", 0, 0, [H[op[1]], H[op[2]]]))
            # its built-in cutoff compares timestamps, not values: it may pass an unchanged value on
            self.cutoffs[len(H) - 1] = "preserve"
        elif k == "bind":
            # outer operands are handle indices; they are resolved now (the closure captures the nodes)
            H.append(("bind", H[op[1]], self.capture(op[2]), []))
        elif k == "mapexport":
            H.append(("unknown",))
        elif k == "exporthandle":
            H.append(("unknown",))
        elif k == "memonew":
            self.memos.append(self.capture(op[1]))
        elif k == "memocall":
            H.append(self.memo_expr(op[1], op[2]))
        elif k == "cutoff":
            self.cutoffs[op[1]] = op[2]
        elif k == "observe":
            self.obs.append(dict(expr=H[op[1]], handle=op[1], state="created", handles=1))
        elif k == "observeexport":
            self.obs.append(dict(expr=("unknown",), handle=None, state="created", handles=1))
        elif k == "cloneobs":
            self.obs[op[1]]["handles"] += 1
        elif k == "dropobs":
            o = self.obs[op[1]]
            o["handles"] -= 1
            if o["handles"] == 0:
                self.disallow(o)
        elif k == "disallow":
            self.disallow(self.obs[op[1]])
        elif k == "subscribe":
            o = self.obs[op[1]]
            ok = o["state"] in ("created", "inuse")
            self.subs.append(dict(obs=op[1], ok=ok, unsub=False, hid=op[2], got=[], created_round=None))
        elif k == "unsubscribe":
            s = self.subs[op[2]]
            o = self.obs[op[1]]
            if s["obs"] == op[1] and o["state"] in ("created", "inuse"):
                s["unsub"] = True
        elif k == "stateunsub":
            s = self.subs[op[1]]
            if self.obs[s["obs"]]["state"] == "inuse":
                s["unsub"] = True
        elif k == "set":
            self.store[op[1]] = op[2]
        elif k == "setpair":
            self.store[op[1]] = (op[2], op[3])
        elif k in ("update", "modify", "replacewith"):
            self.store[op[1]] = as_int(self.store[op[1]]) + op[2]
        elif k == "replace":
            self.store[op[1]] = op[2]
        elif k == "stabilise":
            for o in self.obs:
                if o["state"] == "created":
                    o["state"] = "inuse"
                elif o["state"] == "disallowed":
                    o["state"] = "unlinked"
        return op

    def note_effect(self, e, args):
        """effects of a top-level map closure that rewire an expert node (the closure's first input selects)"""
        if e[0] == "swapdep":
            ex = self.experts.get(int(e[1]))
            if ex is not None:
                ex["ctrl"].append(dict(sel=args[0], hs=[int(x) for x in e[4].split(",")], cb=e[3] == "1", extra=[]))
        elif e[0] == "adddep":
            # [rmdep:E:s adddep:E:h:s:cb] in one closure: the dependency is simply there after every run
            ex = self.experts.get(int(e[1]))
            if ex is not None and ex["ctrl"]:
                ex["ctrl"][-1]["extra"].append((int(e[2]), e[4] == "1"))
            elif ex is not None:
                ex["ok"] = False
        elif e[0] == "invalidate":
            ex = self.experts.get(int(e[1]))
            if ex is not None:
                ex["ok"] = False

    def capture(self, f):
        def op_(o):
            return ("outer", self.handles[o[1]]) if o[0] == "outer" else o

        def ins(t):
            k = t[0]
            if k == "map":
                return ("map", t[1], t[2], [op_(a) for a in t[3]])
            if k in ("mapref", "mapold"):
                return (k, t[1], op_(t[2]))
            if k == "fold":
                return ("fold", t[1], t[2], [op_(a) for a in t[3]])
            if k == "cutoff":
                return ("cutoff", op_(t[1]), t[2])
            if k == "export":
                return ("export", op_(t[1]))
            if k == "bind":
                return ("bind", op_(t[1]), self.capture(t[2]))
            if k == "memonew":
                self.dynamic_memos = True
                return ("memonew", self.capture(t[1]))
            return t
        return dict(effs=f["effs"], templates=[([ins(t) for t in body], op_(r)) for body, r in f["templates"]])

    @staticmethod
    def disallow(o):
        if o["state"] == "created":
            o["state"] = "unlinked"
        elif o["state"] == "inuse":
            o["state"] = "disallowed"
