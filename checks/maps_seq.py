"""C15 / C17: the diff-based operators of incremental-map under sequences of input maps with
observe/unobserve periods, on every map type each operator is defined for."""
import random
import time

import vlib
from checks import maps_common as mc


def run(pid, oracle, what, tier, seed):
    t0 = time.time()
    pinned = vlib.pinned_theorems(pid)
    ob, di, problems = vlib.proof_stage(pid, pinned)
    model = vlib.build_ocaml("mapsrun", "ExtractMaps.v", "mapsrun.ml", "mapmodel")
    impl = vlib.build_harness(["maps"])["maps"]
    rng = random.Random(seed * 7919 + int(pid[1:]))
    n = 350 if tier == "quick" else 6000
    seqs = []
    for op, types in mc.OP_TYPES.items():
        for ty in types:
            for _ in range(n):
                seqs.append(mc.gen_seq(rng, op, ty, nkeys=rng.choice([3, 5, 8]), nvals=rng.choice([2, 4]),
                                       maxrounds=rng.choice([4, 8, 12])))
    if tier == "thorough":
        # exhaustive edit sequences of length <= 3 over 3 keys x 2 values for filter_mapi on BTreeMap
        small = mc.all_maps([1, 2, 3], [0, 1])
        for a in small:
            for b in small:
                for c in small[::3]:
                    seqs.append(mc.Seq("bt", "fm", ["3"], [(True, a), (True, b), (True, c)]))
    impl_out = vlib.run_lines(impl, [s.harness_line() for s in seqs])
    model_out = vlib.run_lines(model, [s.model_line() for s in seqs])
    mismatches, violations, nontrivial = [], [], set()
    for s, io, mo in zip(seqs, impl_out, model_out):
        exp = s.expected(mo)
        hl = s.harness_line()
        if len(s.step_rounds()) >= 2:
            nontrivial.add(hl)
        if exp != io:
            mismatches.append(dict(input=hl, implementation=io, model=exp))
        why = oracle(s, io) if not io.startswith(("PANIC", "<no output")) else "implementation panicked: " + io
        if why:
            violations.append(dict(input=hl, implementation=io, model=exp, oracle=why))
    rc = 0
    if violations:
        v = min(violations, key=lambda v: len(v["input"]))
        path = vlib.write_replay(pid, dict(property=pid, kind="failing-input", replay_cmd="echo '<input>' | .build/cargo-target/debug/maps",
                                           **v, other_failures=len(violations) - 1))
        vlib.report_violation(pid, path, True)
        rc = 1
    elif mismatches or problems:
        path = vlib.write_replay(pid, dict(property=pid, kind="proof-or-correspondence-broken", broken_proof_obligations=problems,
                                           correspondence="MapOps step models vs the crate's operators" if mismatches else None,
                                           first_disagreements=mismatches[:3]))
        vlib.report_violation(pid, path, False)
        rc = 1
    ops = {}
    for s in seqs:
        ops[(s.op, s.ty)] = ops.get((s.op, s.ty), 0) + 1
    cov = dict(obligations=ob, discharged=di, checker_cmd=f"make -C coq && coqc theories/Properties/{pid}.v (Print Assumptions)",
               trusted_base=vlib.TRUSTED_BASE + ["im_rc::OrdMap behaves as a sorted map (insert/remove/iter/diff)"],
               evaluations=len(seqs), distinct_nontrivial=len(nontrivial),
               rule="edit sequences (insert, delete, change, empty, refill, no-op) of 2-12 rounds with observe/unobserve periods, per "
                    "operator/map-type pair " + str({f"{k[0]}/{k[1]}": v for k, v in ops.items()}) + "; " + what +
                    "; non-trivial = the operator recomputed at least twice; distinct by text",
               traces_validated_against_impl=len(seqs), disagreements=len(mismatches), oracle_failures=len(violations),
               samples=[seqs[0].harness_line(), seqs[-1].harness_line()], proof_problems=problems)
    vlib.write_evidence(pid, tier, seed, "proof" if not problems else "other", cov,
                        ["user functions are the families of Model/Fns.v mirrored in harness/src/fns.rs",
                         "the model sees the subsequence of inputs at which the operator recomputes (observed and input changed)"],
                        time.time() - t0, len(violations) if violations else (1 if rc else 0))
    return rc
