"""C13 — a panic escaping stabilise poisons the state.  Proofs (Properties/C13.v) + fault enumeration:
for every generated history, a panic is injected at every individual invocation of a user function
(node function, fold function, bind closure, cutoff function, update handler) of every stabilise;
model and crate are compared on the whole trace, and the oracle checks reads / second stabilise /
drops on the crate's trace."""
import hashlib
import random
import time

import vlib
from checks import engine_common as ec
from checks import trace as T
import histories

PID = "C13"
USER_EVENTS = ("inv", "foldcall", "bindrun", "cut", "upd", "nodeupd", "edgecb", "exrun", "memofn", "obschange", "perkeyfn")
HANDLER_EVENTS = ("upd", "nodeupd")


def variants(lines, base_ops, max_per_history):
    """(variant id suffix, lines, crash op index, in_handler)"""
    out = []
    for op in base_ops:
        if op.idx >= len(lines) or lines[op.idx] != "stabilise" or not op.result.startswith("ok"):
            continue
        handles = []
        for l in lines[:op.idx]:
            t = l.split()
            if t[0] in ("observe", "observeexport"):
                handles.append(1)
            elif t[0] == "cloneobs":
                handles[int(t[1])] += 1
            elif t[0] == "dropobs":
                handles[int(t[1])] -= 1
        live = [o for o, h in enumerate(handles) if h > 0]
        calls = [e for e in op.events if e.split()[0] in USER_EVENTS]
        for k in range(1, len(calls) + 1):
            in_handler = calls[k - 1].split()[0] in HANDLER_EVENTS
            # callbacks of one stabilise run in HashMap order: with several of them the k-th differs run to run
            ambiguous = in_handler and sum(1 for c in calls if c.split()[0] in HANDLER_EVENTS) > 1
            tail = [f"read {o}" for o in live] + ["stabilise"] + [f"read {o}" for o in live] + ["isstable"]
            v = lines[:op.idx] + [f"crashat {k}"] + [lines[op.idx]] + tail
            out.append((f"s{op.idx}k{k}", v, op.idx + 1, in_handler, ambiguous))
    if len(out) > max_per_history:
        step = len(out) / max_per_history
        out = [out[int(i * step)] for i in range(max_per_history)]
    return out


def oracle(vlines, crash_idx, in_handler, ops, tail, base_reads):
    if crash_idx >= len(ops):
        return "trace too short"
    if ops[crash_idx].result != "panic Injected":
        return f"op {crash_idx}: expected the injected panic, got {ops[crash_idx].result}"
    seen_second = False
    for op in ops[crash_idx + 1:]:
        line = vlines[op.idx]
        if line.startswith("read"):
            res = op.result.split(" ", 1)[1] if " " in op.result else op.result
            if res == "nohandle":
                continue
            if in_handler:
                # propagation had finished: the fully propagated values (or lifecycle errors) are fine,
                # CurrentlyStabilising is not expected because the status is RunningOnUpdateHandlers
                want = base_reads.get(line)
                if want is not None and res != want:
                    return f"op {op.idx} `{line}` after a panic in an update handler: read {res}, fully propagated value is {want}"
            elif res != "e:1":
                return f"op {op.idx} `{line}` after a panic during propagation: read {res}, expected CurrentlyStabilising"
        elif line == "stabilise":
            seen_second = True
            if op.result != "panic NestedStabilise":
                return f"op {op.idx}: a further stabilise returned {op.result} instead of refusing"
    if not seen_second:
        return "no second stabilise in the trace"
    for l in tail:
        if l.startswith("ABORT") or l.startswith("end panic"):
            return "dropping every handle and the state after the panic: " + l
    return None


def run(tier, seed):
    t0 = time.time()
    pinned = vlib.pinned_theorems(PID)
    ob, di, problems = vlib.proof_stage(PID, pinned)
    model, impl = ec.build(("debug",))
    rng = random.Random(seed * 7919 + 13)
    nbase = 120 if tier == "quick" else 2500
    per = 25 if tier == "quick" else 60
    base = []
    for i in range(nbase):
        s = rng.randrange(1 << 30)
        prof = rng.choice(["basic", "binds", "subs", "c01", "expert"])
        base.append((f"{prof}-{s}", histories.history(s, 22, prof)))
    texts = [(hid, ec.history_text(hid, lines)) for hid, lines in base]
    bo = ec.run_all(impl["debug"], texts)
    var = []
    meta = {}
    for hid, lines in base:
        ops, _ = T.parse_trace(bo.get(hid, []))
        for suffix, vl, ci, ih, amb in variants(lines, ops, per):
            vid = f"{hid}-{suffix}"
            # reads right after the crashing stabilise in the un-crashed run (for handler panics)
            var.append((vid, vl))
            meta[vid] = (ci, ih, hid, amb)
    # the un-crashed reference run of each variant (same ops without crashat) gives the propagated values
    ref_texts = [(vid, ec.history_text(vid, [l for l in vl if not l.startswith("crashat")])) for vid, vl in var if meta[vid][1]]
    ro = ec.run_all(impl["debug"], ref_texts) if ref_texts else {}
    vtexts = [(vid, ec.history_text(vid, vl)) for vid, vl in var]
    mo = ec.run_all(model, vtexts)
    io = ec.run_all(impl["debug"], vtexts)
    mismatches, violations = [], []
    nontrivial = set()
    for vid, vl in var:
        ci, ih, hid, amb = meta[vid]
        ml = ec.normalise(mo.get(vid, []))
        il = ec.normalise(io.get(vid, []))
        d = ec.first_diff(ml, il)
        if d and not amb:
            mismatches.append(dict(history=vid, at=d[0], model=d[1], implementation=d[2], source=vl))
        ops, tail = T.parse_trace(io.get(vid, []))
        base_reads = {}
        if ih:
            rops, _ = T.parse_trace(ro.get(vid, []))
            # ops after the crash index shift by one (no crashat line in the reference run)
            for op in rops:
                if op.idx >= ci and op.idx + 1 < len(vl) and vl[op.idx + 1].startswith("read") and vl[op.idx + 1] not in base_reads:
                    base_reads[vl[op.idx + 1]] = op.result.split(" ", 1)[1]
        why = oracle(vl, ci, ih, ops, tail, base_reads)
        if why:
            violations.append(dict(history=vid, source=vl, oracle=why))
        nontrivial.add(hashlib.sha1("\n".join(vl).encode()).hexdigest())
    rc = 0
    if violations:
        v = min(violations, key=lambda v: len(v["source"]))
        path = vlib.write_replay(PID, dict(property=PID, kind="failing-input", **v, other_failures=len(violations) - 1))
        vlib.report_violation(PID, path, True)
        rc = 1
    elif mismatches or problems:
        path = vlib.write_replay(PID, dict(property=PID, kind="proof-or-correspondence-broken", broken_proof_obligations=problems,
                                           correspondence="engine model E vs crate under panic injection" if mismatches else None,
                                           first_disagreements=mismatches[:3]))
        vlib.report_violation(PID, path, False)
        rc = 1
    cov = dict(obligations=ob, discharged=di,
               checker_cmd="make -C coq && coqc theories/Properties/C13.v (Print Assumptions)",
               trusted_base=vlib.TRUSTED_BASE,
               evaluations=len(var), distinct_nontrivial=len(nontrivial),
               rule=f"{nbase} generated base histories; for each stabilise of each, a panic injected at every user-function invocation (expert callbacks included) "
                    f"(capped at {per} crash points per history, evenly spread), followed by reads of every observer, a second stabilise, "
                    "reads again, and dropping everything; every (history, crash point) is non-trivial; distinct by hash",
               traces_validated_against_impl=len(var), disagreements=len(mismatches), oracle_failures=len(violations),
               crash_points_in_handlers=sum(1 for v in meta.values() if v[1]),
               samples=[var[0][1]] if var else [], proof_problems=problems)
    vlib.write_evidence(PID, tier, seed, "proof" if not problems else "other", cov,
                        ["a panic is injected at the start of the user function (before its effects)",
                         "real unwinding/abort behaviour is observed through the harness process, not modelled"],
                        time.time() - t0, len(violations) if violations else (1 if rc else 0))
    return rc
