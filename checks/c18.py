"""C18 — symmetric diff and ordered merge: proofs (Properties/C18.v) + correspondence of the
SymDiff model with symmetric_fold / incr_merge of the real crate on all three map types."""
import random
import time

import vlib
from checks import maps_common as mc

PID = "C18"
PINNED = ["C18_symmetric_diff_exact", "C18_nothing_when_equal", "C18_symmetric_diff_owned_same",
          "C18_merge_once_with_exact", "C18_merge_once_exact"]


def oracle_symdiff(a, b, out):
    """the property itself, evaluated on the implementation's visit sequence"""
    if out.startswith("PANIC") or out.startswith("<no output"):
        return "implementation panicked: " + out
    ents = [] if out == "-" else out.split(";")
    seen = []
    for e in ents:
        p = e.split()
        k = int(p[1])
        if seen and k <= seen[-1]:
            return f"keys not strictly ascending: {seen[-1]} then {k}"
        seen.append(k)
        if p[0] == "L":
            ok = k in a and k not in b and a[k] == int(p[2])
        elif p[0] == "R":
            ok = k in b and k not in a and b[k] == int(p[2])
        else:
            ok = k in a and k in b and a[k] != b[k] and a[k] == int(p[2]) and b[k] == int(p[3])
        if not ok:
            return f"wrong element {e!r}"
    want = sorted(mc.symdiff_keys(a, b))
    if seen != want:
        return f"visited keys {seen}, differing keys are {want}"
    return None


def run(tier, seed):
    t0 = time.time()
    rng = random.Random(seed)
    ob, di, problems = vlib.proof_stage(PID, PINNED)
    model = vlib.build_ocaml("mapsrun", "ExtractMaps.v", "mapsrun.ml", "mapmodel")
    impl = vlib.build_harness(["maps"])["maps"]

    # ---- cases: exhaustive small domain + random larger pairs, on the three map types
    keys, vals = ([1, 2, 3, 4], [0, 1]) if tier == "quick" else ([1, 2, 3, 4, 5], [0, 1, 2])
    small = mc.all_maps(keys, vals)
    pairs = [(a, b) for a in small for b in small]
    if tier == "thorough":
        rng.shuffle(pairs)
        pairs = pairs[:300000]
    nrand = 2000 if tier == "quick" else 100000
    for _ in range(nrand):
        n = rng.choice([6, 10, 20, 40])
        a = mc.rand_map(rng, n, 3, density=rng.choice([0.3, 0.6, 0.9]))
        b = mc.edit_map(rng, a, n, 3) if rng.random() < 0.7 else mc.rand_map(rng, n, 3)
        pairs.append((a, b))
    cases = []   # (kind, harness line, model line, data)
    for a, b in pairs:
        ml = f"symdiff {mc.show_map(a)} {mc.show_map(b)}"
        for ty in ("bt", "rc", "om"):
            cases.append(("symdiff", f"{ty} {ml}", ml, (a, b)))
    # merge order through incr_merge: two rounds, logging merge function
    nmerge = 2000 if tier == "quick" else 50000
    merges = []
    for i in range(nmerge):
        nk = rng.choice([4, 6, 10])
        r0 = (mc.rand_map(rng, nk, 3), mc.rand_map(rng, nk, 3))
        r1 = (mc.edit_map(rng, r0[0], nk, 3), mc.edit_map(rng, r0[1], nk, 3))
        s = mc.Seq(rng.choice(["bt", "om"]), "mg", [str(rng.choice([0, 2]))], [(True, r0), (True, r1)])
        merges.append(s)
        cases.append(("merge", s.harness_line(), s.model_line(), s))

    impl_out = vlib.run_lines(impl, [c[1] for c in cases])
    model_out = vlib.run_lines(model, [c[2] for c in cases])

    mismatches, violations, nontrivial = [], [], set()
    for (kind, hl, ml, data), io, mo in zip(cases, impl_out, model_out):
        if kind == "symdiff":
            if data[0] != data[1]:
                nontrivial.add(ml)
            if io != mo:
                mismatches.append((hl, io, mo))
                why = oracle_symdiff(data[0], data[1], io)
                if why:
                    violations.append({"input": hl, "implementation": io, "model": mo, "oracle": why})
        else:
            exp = data.expected(mo)
            nontrivial.add(hl)
            if exp != io:
                mismatches.append((hl, io, exp))
                # merge order oracle: calls in strictly ascending key order, each changed key once
                why = mc.oracle_values(data, io) or mc.oracle_work(data, io) or oracle_merge_order(io)
                if why:
                    violations.append({"input": hl, "implementation": io, "model": exp, "oracle": why})

    rc = 0
    if violations:
        v = violations[0]
        path = vlib.write_replay(PID, {"property": PID, "kind": "failing-input", "replay_cmd": "echo '<input>' | .build/cargo-target/debug/maps",
                                       **v, "other_failures": len(violations) - 1})
        vlib.report_violation(PID, path, True)
        rc = 1
    elif mismatches or problems:
        path = vlib.write_replay(PID, {"property": PID, "kind": "proof-or-correspondence-broken",
                                       "broken_proof_obligations": problems,
                                       "correspondence": "SymDiff model vs symmetric_fold/incr_merge" if mismatches else None,
                                       "first_disagreements": [dict(input=h, implementation=i, model=m) for h, i, m in mismatches[:5]]})
        vlib.report_violation(PID, path, False)
        rc = 1

    cov = {
        "obligations": ob, "discharged": di,
        "checker_cmd": "make -C coq (coqc 8.16.1, full .vo) && coqc theories/Properties/C18.v (Print Assumptions)",
        "trusted_base": vlib.TRUSTED_BASE + ["im_rc::OrdMap::diff modelled by its specification (same diff sequence)"],
        "evaluations": len(cases), "distinct_nontrivial": len(nontrivial),
        "rule": f"symmetric_fold on BTreeMap/Rc<BTreeMap>/OrdMap for every pair of maps over keys {keys} x values {vals} "
                f"(exhaustive: {len(small)}^2 pairs{' sampled to 300000' if tier == 'thorough' else ''}) plus {nrand} random larger pairs; "
                f"{nmerge} two-round incr_merge runs with a logging merge function; non-trivial = maps differ; distinct by text",
        "exhaustive": tier == "quick",
        "traces_validated_against_impl": len(cases),
        "disagreements": len(mismatches),
        "samples": [cases[len(small) + 7][1], cases[-1][1]],
        "proof_problems": problems,
    }
    vlib.write_evidence(PID, tier, seed, "proof", cov,
                        ["Rust PartialEq on values is structural equality", "BTreeMap iteration is in ascending key order",
                         "OrdMap::diff yields the symmetric difference in key order (checked here only by correspondence)"],
                        time.time() - t0, len(violations) if violations else (1 if rc else 0))
    return rc


def oracle_merge_order(io):
    for ent in io.split(" | "):
        if " calls=" not in ent:
            return "unparsable " + ent
        calls = [int(c) for c in ent.split(" calls=")[1].split(",") if c]
        if any(x >= y for x, y in zip(calls, calls[1:])):
            return f"merge function called out of key order or twice: {calls}"
    return None
