"""Parsing of engine traces (the text format shared by ocaml/enginerun and the Rust harness) and of
history source lines."""
import re

KV_RE = re.compile(r"(\w+)=(\[[^\]]*\]|\S+)")


class Op:
    __slots__ = ("idx", "result", "events", "dump", "nodes", "obs", "comment")

    def __init__(self, idx, result):
        self.idx, self.result = idx, result
        self.events, self.dump, self.nodes, self.obs, self.comment = [], {}, {}, {}, None


def ints(s):
    s = s.strip("[]").split()
    return [int(x) for x in s]


def parse_kind(k):
    """kind string -> (tag, children ranks, extra dict)"""
    m = re.match(r"^(\w+?)(\d*)\[([^\]]*)\]$", k)
    if m:
        return m.group(1), [int(x) for x in m.group(3).split()], {}
    if k.startswith("Var("):
        kv = dict(x.split("=", 1) for x in k[4:-1].split(",", 2))
        return "Var", [], kv
    if k.startswith("BindLhs("):
        m = re.match(r"BindLhs\(lhs=(\d+),rhs=(-|\d+),created=\[([^\]]*)\]\)", k)
        return "BindLhs", [int(m.group(1))], dict(rhs=None if m.group(2) == "-" else int(m.group(2)),
                                                   created=[int(x) for x in m.group(3).split()])
    if k.startswith("Expert("):
        m = re.match(r"Expert\(children=\[([^\]]*)\],force_stale=(\d),invalid_children=(-?\d+),fire_all=(\d)\)", k)
        return "Expert", [int(x) for x in m.group(1).split()], dict(force_stale=m.group(2) == "1", invalid=int(m.group(3)),
                                                                     fire_all=m.group(4) == "1")
    if k.startswith("BindMain("):
        m = re.match(r"BindMain\(lhs_change=(\d+)\)", k)
        return "BindMain", [int(m.group(1))], {}
    return k, [], {}


def parse_node_line(l):
    # "n <i> <kind> valid=... "
    head, rest = l.split(" valid=", 1)
    _, rank, kind = head.split(" ", 2)
    if kind == "dead":
        return int(rank), None
    d = dict(KV_RE.findall("valid=" + rest))
    tag, children, extra = parse_kind(kind)
    node = dict(rank=int(rank), kind=tag, kindstr=kind, children=children, extra=extra,
                valid=d["valid"] == "1", val=d["val"], rec=int(d["rec"]), chg=int(d["chg"]), nh=int(d["nh"]),
                parents=ints(d["parents"]), pix=ints(d["pix"]), cix=ints(d["cix"]),
                h=int(d["h"]), hr=int(d["hr"]), ha=int(d["ha"]), has=d["has"] == "1", fn=d["fn"] == "1",
                obs=int(d["obs"]), mrdc=d["mrdc"], scope=d["scope"])
    return int(rank), node


def parse_trace(lines):
    """lines of one history from one side -> list of Op"""
    ops = []
    tail = []
    for l in lines:
        if l.startswith("op "):
            _, idx, res = l.split(" ", 2)
            ops.append(Op(int(idx), res))
        elif not ops:
            continue
        elif l.startswith("e "):
            ops[-1].events.append(l[2:])
        elif l.startswith("# "):
            ops[-1].comment = l[2:]
        elif l.startswith("d n "):
            if l.endswith(" dead"):
                ops[-1].nodes[int(l.split()[2])] = None
            else:
                r, n = parse_node_line(l[2:])
                ops[-1].nodes[r] = n
        elif l.startswith("d o "):
            t = l.split()
            ops[-1].obs[int(t[2])] = dict(state=t[3], handlers=int(t[4].split("=")[1]))
        elif l.startswith("d "):
            body = l[2:]
            key = body.split(" ", 1)[0]
            if "=" in key:
                ops[-1].dump.update(dict(KV_RE.findall(body)))
            elif key == "rch":
                qs = {}
                for m in re.finditer(r"(\d+):\[([^\]]*)\]", body):
                    qs[int(m.group(1))] = [int(x) for x in m.group(2).split()]
                ops[-1].dump["rch"] = qs
            else:
                ops[-1].dump.update(dict(KV_RE.findall(body)))
        else:
            tail.append(l)
    return ops, tail


# ---------------------------------------------------------------- history source
def tokenize(s):
    out, cur = [], ""
    for c in s:
        if c in " \t\r":
            if cur:
                out.append(cur)
                cur = ""
        elif c in "{}|;[]":
            if cur:
                out.append(cur)
                cur = ""
            out.append(c)
        else:
            cur += c
    if cur:
        out.append(cur)
    return out


class Parser:
    def __init__(self, toks):
        self.t, self.i = toks, 0

    def peek(self):
        return self.t[self.i] if self.i < len(self.t) else None

    def next(self):
        x = self.t[self.i]
        self.i += 1
        return x

    def zmap(self):
        assert self.next() == "{"
        m = {}
        while True:
            x = self.next()
            if x == "}":
                return m
            a, b = x.split(":")
            m[int(a)] = int(b)

    def effs(self):
        assert self.next() == "["
        out = []
        while True:
            x = self.next()
            if x == "]":
                return out
            out.append(tuple(x.split(":")))

    @staticmethod
    def is_operand(t):
        return t == "foreign" or (len(t) >= 2 and t[0] in "olt" and t[1].isdigit())

    @staticmethod
    def operand(t):
        if t == "foreign":
            return ("foreign",)
        if t[0] == "t":
            return ("late", int(t[1:]))
        if t[0] == "o":
            return ("outer", int(t[1:]))
        d, i = t[1:].split(".")
        return ("local", int(d), int(i))

    def operands(self):
        out = []
        while self.peek() is not None and self.is_operand(self.peek()):
            out.append(self.operand(self.next()))
        return out

    def bindfn(self):
        assert self.next() == "{"
        effs = self.effs()
        ts = []
        while True:
            ts.append(self.template())
            x = self.next()
            if x == "}":
                break
            assert x == "|"
        return dict(effs=effs, templates=ts)

    def template(self):
        body = []
        while True:
            if self.peek() == "ret":
                self.next()
                return (body, self.operand(self.next()))
            body.append(self.instr())
            assert self.next() == ";"

    def instr(self):
        k = self.next()
        if k == "const":
            return ("const", int(self.next()))
        if k == "constlhs":
            return ("constlhs",)
        if k == "map":
            fid = int(self.next())
            effs = self.effs()
            return ("map", fid, effs, self.operands())
        if k == "mapref":
            p = int(self.next())
            return ("mapref", p, self.operand(self.next()))
        if k == "mapold":
            f = int(self.next())
            return ("mapold", f, self.operand(self.next()))
        if k == "fold":
            f, init = int(self.next()), int(self.next())
            return ("fold", f, init, self.operands())
        if k == "cutoff":
            tg = self.operand(self.next())
            return ("cutoff", tg, self.next())
        if k == "export":
            return ("export", self.operand(self.next()))
        if k == "memocall":
            m = int(self.next())
            key = self.next()
            return ("memocall", m, None if key == "lhs" else int(key))
        if k == "memonew":
            return ("memonew", self.bindfn())
        if k == "bind":
            lhs = self.operand(self.next())
            return ("bind", lhs, self.bindfn())
        raise ValueError("instr " + k)


def parse_op(line):
    """-> tuple (name, args...)"""
    p = Parser(tokenize(line))
    k = p.next()
    if k in ("var", "const", "observe", "cloneobs", "dropobs", "disallow", "read", "stateunsub", "get", "setmaxheight",
             "crashat", "observeexport", "exporthandle", "dropnode", "dropvar", "expert", "makestale", "invalidateexpert"):
        return (k, int(p.next()))
    if k in ("pair", "zip", "dependon", "mapref", "mapold", "set", "update", "modify", "replace", "replacewith",
             "unsubscribe", "mapexport"):
        return (k, int(p.next()), int(p.next()))
    if k == "varmap":
        return (k, p.zmap())
    if k == "setmap":
        return (k, int(p.next()), p.zmap())
    if k == "onupdate":
        return (k, int(p.next()), int(p.next()), p.effs())
    if k in ("permapi", "permapiom"):
        return ("permapi", int(p.next()), p.next(), p.bindfn())
    if k in ("perfilter", "perfilterom"):
        return ("perfilter", int(p.next()), p.next(), p.bindfn())
    if k == "adddep":
        return (k, int(p.next()), int(p.next()), int(p.next()), p.next() == "1")
    if k == "rmdep":
        return (k, int(p.next()), int(p.next()))
    if k == "setpair":
        return (k, int(p.next()), int(p.next()), int(p.next()))
    if k == "map":
        fid = int(p.next())
        effs = p.effs()
        return (k, fid, effs, [int(x) for x in p.t[p.i:]])
    if k == "fold":
        f, init = int(p.next()), int(p.next())
        return (k, f, init, [int(x) for x in p.t[p.i:]])
    if k == "bind":
        lhs = int(p.next())
        return (k, lhs, p.bindfn())
    if k == "cutoff":
        return (k, int(p.next()), p.next())
    if k == "subscribe":
        o, hid = int(p.next()), int(p.next())
        return (k, o, hid, p.effs())
    if k == "memonew":
        return (k, p.bindfn())
    if k == "memocall":
        return (k, int(p.next()), int(p.next()))
    if k in ("stabilise", "isstable", "stats", "dropexports"):
        return (k,)
    raise ValueError("op " + line)
