"""C12 — nothing leaks and no drop order is unsafe.  Proofs (Properties/C12.v) + correspondence of the
ownership model with the crate (per-node liveness after every op, via weak upgrades in the hook dump)
on histories that drop handles in random orders and end by dropping everything, plus the oracle:
after the last stabilise every node is released, every closure has been dropped, and nothing panicked."""
import hashlib
import random
import re
import time

import vlib
from checks import engine_common as ec
from checks import trace as T
import histories

PID = "C12"


def oracle(lines, ops, tail):
    for op in ops:
        if op.result.startswith("panic") and "Injected" not in op.result:
            if "ScopeNotNecessary" in op.result or (op.comment and "scope.rs" in op.comment):
                return None      # known finding F-6.9 (C04); the state is poisoned, leaks are not judged
            return f"op {op.idx} `{lines[op.idx]}` panicked: {op.result} ({op.comment})"
    last = ops[-1] if ops else None
    if last is None or not last.nodes:
        return "no final dump"
    alive = [r for r, n in last.nodes.items() if n is not None]
    if alive:
        return f"after dropping every handle and stabilising, nodes {alive} are still allocated"
    for l in tail:
        if l.startswith("ABORT") or l.startswith("end panic"):
            return "dropping the state: " + l
        m = re.match(r"end ok closures_before_drop=(-?\d+) closures_after_drop=(-?\d+)", l)
        if m and (int(m.group(1)) != 0 or int(m.group(2)) != 0):
            return f"closures still alive after everything was dropped: {l}"
    return None


def run(tier, seed):
    t0 = time.time()
    pinned = vlib.pinned_theorems(PID)
    ob, di, problems = vlib.proof_stage(PID, pinned)
    model, impl = ec.build(("debug",))
    rng = random.Random(seed * 7919 + 12)
    n = 1500 if tier == "quick" else 40000
    hist = []
    for i in range(n):
        s = rng.randrange(1 << 30)
        hist.append((f"teardown-{s}", histories.history(s, rng.choice([15, 25, 35]), "teardown")))
    mismatches, violations, nontrivial = [], [], set()
    CHUNK = 1500      # dumps after every op: never hold more than one chunk of outputs
    for chunk in [hist[i:i + CHUNK] for i in range(0, len(hist), CHUNK)]:
      texts = [(hid, ec.history_text(hid, lines, dump=1)) for hid, lines in chunk]
      mo = ec.run_all(model, texts)
      io = ec.run_all(impl["debug"], texts)
      del texts
      for hid, lines in chunk:
        ml, il = ec.normalise(mo.get(hid, [])), ec.normalise(io.get(hid, []))
        d = ec.first_diff(ml, il)
        if d:
            mismatches.append(dict(history=hid, at=d[0], model=d[1], implementation=d[2], source=lines))
        ops, tail = T.parse_trace(io.get(hid, []))
        why = oracle(lines, ops, tail)
        if why:
            violations.append(dict(history=hid, source=lines, oracle=why))
        if any(o.nodes and any(v is None for v in o.nodes.values()) for o in ops[:-1]):
            nontrivial.add(hashlib.sha1("\n".join(lines).encode()).hexdigest())
    rc = 0
    if violations:
        v = min(violations, key=lambda v: len(v["source"]))
        path = vlib.write_replay(PID, dict(property=PID, kind="failing-input", **v, other_failures=len(violations) - 1))
        vlib.report_violation(PID, path, True)
        rc = 1
    elif mismatches or problems:
        path = vlib.write_replay(PID, dict(property=PID, kind="proof-or-correspondence-broken", broken_proof_obligations=problems,
                                           correspondence="ownership model (Live.v) vs crate: per-node liveness after every op" if mismatches else None,
                                           first_disagreements=mismatches[:3]))
        vlib.report_violation(PID, path, False)
        rc = 1
    cov = dict(obligations=ob, discharged=di, checker_cmd="make -C coq && coqc theories/Properties/C12.v (Print Assumptions)",
               trusted_base=vlib.TRUSTED_BASE, evaluations=len(hist), distinct_nontrivial=len(nontrivial),
               rule="histories of the 'teardown' stream: binds with exported and dangling nodes, handle/var/observer drops in random order "
                    "interleaved with stabilises, ending with every handle dropped, a stabilise, and the state dropped; liveness of every "
                    "created node compared after every op; non-trivial = some node was released before the final teardown; distinct by hash",
               traces_validated_against_impl=len(hist), disagreements=len(mismatches), oracle_failures=len(violations),
               samples=[hist[0][1]], proof_problems=problems)
    vlib.write_evidence(PID, tier, seed, "proof" if not problems else "other", cov,
                        ["real deallocation is observed through Weak::upgrade in the hook dump and drop-counting closure guards, not proved",
                         "strong references are those listed in Model/Live.v (hand transcription of the struct fields)"],
                        time.time() - t0, len(violations) if violations else (1 if rc else 0))
    return rc
