"""Checks of the engine properties: proofs about the engine model E (coq/theories/Properties/Cxx.v)
plus the correspondence of E with the real crate on generated histories, projected per property,
plus an oracle that looks for a concrete failing history."""
import glob
import hashlib
import json
import os
import random
import re
import time

import vlib
from checks import engine_common as ec
from checks import oracles as O
from checks import trace as T

import histories


# ---------------------------------------------------------------- projections (what is compared per property)
def sort_runs(lines, pred):
    out, run = [], []
    for l in lines:
        if pred(l):
            run.append(l)
        else:
            out.extend(sorted(run))
            run = []
            out.append(l)
    out.extend(sorted(run))
    return out


def proj(lines, src, keep_ops=None, keep_events=(), dump=False, sort_events=True, classes=False):
    """keep the result line of ops whose source starts with one of keep_ops (None = all), the events
    whose kind is in keep_events (sorted within an op: no global order), and optionally the dumps"""
    out = []
    cur_keep = False
    for l in lines:
        if l.startswith("op "):
            idx = int(l.split()[1])
            word = src[idx].split()[0] if idx < len(src) else "?"
            cur_keep = keep_ops is None or word in keep_ops
            if l.split()[2] in ("panic", "OUT-OF-FUEL"):
                cur_keep = True
            if cur_keep:
                out.append(re.sub(r"^(op \d+ panic \w+).*", r"\1", l) if classes else l)
            else:
                out.append(f"op {idx}")
        elif l.startswith("e "):
            if l.split()[1] in keep_events:
                out.append(l)
        elif l.startswith("d ") and dump:
            out.append(l)
        elif l.startswith("ABORT"):
            out.append(l)
    if sort_events:
        out = sort_runs(out, lambda l: l.startswith("e "))
    return out


SPECS = {
    "C01": dict(
        title="observed values equal a from-scratch evaluation",
        streams=[("c01", 1500, 60000, 40), ("reobserve", 1500, 40000, 0), ("joinexport", 400, 10000, 0)],
        proj=dict(keep_ops=("read",), keep_events=()),
        oracle=lambda s, o, t: O.oracle_values(s, o, t, check_frame=False),
        profiles=("debug",), dump=False,
        nontrivial=lambda src, ops: any(o.result.startswith("read v:") for o in ops) and sum(1 for l in src if l == "stabilise") >= 2,
        rule_nt="at least two stabilises and one observer read returning a value",
    ),
    "C02": dict(
        title="glitch freedom",
        streams=[("binds", 400, 13000, 40), ("basic", 150, 7000, 30), ("glitch", 300, 10000, 40), ("direct", 400, 13000, 0),
                 ("rhsheights", 200, 7000, 0)],
        proj=dict(keep_ops=("stabilise",), keep_events=("inv", "foldcall", "bindrun", "rec")),
        oracle=O.oracle_glitch_free, profiles=("debug", "release"), dump=True,
        nontrivial=lambda src, ops: any(len([e for e in o.events if e.startswith("inv")]) >= 2 for o in ops),
        rule_nt="some stabilise invoked at least two node functions",
    ),
    "C03": dict(
        title="bind scopes",
        streams=[("binds", 500, 16000, 40), ("exports", 400, 12000, 40), ("direct", 300, 12000, 0), ("rhsheights", 150, 6000, 0),
                 ("joinexport", 200, 6000, 0)],
        proj=dict(keep_ops=("stabilise", "read"), keep_events=("inv", "bindrun", "foldcall", "upd", "invalidate")),
        oracle=O.oracle_bind_scopes, profiles=("debug", "release"), dump=True,
        nontrivial=lambda src, ops: any("gen=" in e and "gen=0" not in e for o in ops for e in o.events if e.startswith("bindrun")),
        rule_nt="some bind closure ran a second time (left-hand side changed)",
    ),
    "C04": dict(
        title="no panics on well-formed programs (both profiles)",
        streams=[("basic", 700, 23000, 40), ("binds", 700, 23000, 40), ("drops", 700, 23000, 40), ("subs", 400, 15000, 40),
                 ("vardrops", 500, 15000, 40), ("subsmax", 250, 8000, 40)],
        proj=dict(keep_ops=None, keep_events=(), classes=True),
        oracle=O.oracle_no_panic, profiles=("debug", "release"), dump=False,
        nontrivial=lambda src, ops: sum(1 for l in src if l == "stabilise") >= 2,
        rule_nt="at least two stabilises",
    ),
    "C05": dict(
        title="only needed nodes are computed",
        streams=[("observers", 700, 40000, 40), ("basic", 200, 20000, 30), ("exports", 300, 20000, 40), ("direct", 400, 20000, 0)],
        proj=dict(keep_ops=("stabilise", "stats"), keep_events=("inv", "foldcall", "bindrun", "rec")),
        oracle=O.oracle_only_needed, profiles=("debug",), dump=True,
        nontrivial=lambda src, ops: any(l.startswith(("dropobs", "disallow")) for l in src) and any(o.events for o in ops),
        rule_nt="an observer was dropped or disallowed and some stabilise did work",
    ),
    "C06": dict(
        title="cutoffs gate propagation",
        streams=[("cutoffs", 1200, 50000, 40)],
        proj=dict(keep_ops=("stabilise",), keep_events=("inv", "cut", "foldcall", "bindrun", "rec"), sort_events=False),
        oracle=O.oracle_cutoffs, profiles=("debug",), dump=True,
        nontrivial=lambda src, ops: any(l.startswith("cutoff") for l in src) and any(o.events for o in ops),
        rule_nt="some cutoff was assigned and some stabilise did work",
    ),
    "C07": dict(
        title="observer values move only at stabilise boundaries",
        streams=[("reads", 1200, 40000, 40), ("writes", 600, 30000, 35)],
        # closures that write variables: the python value reference does not follow those writes; on that stream
        # model and crate are compared (reads from top level and from inside closures) and the write machine's
        # oracle checks what observers of variables return
        oracle_by_profile={"writes": lambda s, o, t: O.oracle_vars(s, o, t, check_reads=True)},
        proj=dict(keep_ops=("read",), keep_events=("effread",)),
        oracle=lambda s, o, t: O.oracle_values(s, o, t, check_frame=True),
        profiles=("debug",), dump=False,
        nontrivial=lambda src, ops: sum(1 for l in src if l.startswith("read")) >= 4,
        rule_nt="at least four reads",
    ),
    "C08": dict(
        title="var writes: program order, deferral during stabilise",
        streams=[("writes", 2000, 50000, 35)],
        proj=dict(keep_ops=("get", "replace", "replacewith", "isstable", "read"), keep_events=("inv", "effget", "effreplace"),
                  sort_events=False),
        oracle=O.oracle_vars, profiles=("debug",), dump=False,
        nontrivial=lambda src, ops: any(e.startswith(("effget", "effreplace")) for o in ops for e in o.events)
        or any("update:" in l or "set:" in l for l in src),
        rule_nt="some node function, bind closure or handler wrote or read a variable",
    ),
    "C09": dict(
        title="subscriptions",
        streams=[("subs", 1500, 40000, 40), ("subsub", 800, 30000, 40)],
        proj=dict(keep_ops=("subscribe", "unsubscribe", "read", "onupdate"), keep_events=("upd", "nodeupd")),
        oracle=O.oracle_subscriptions, profiles=("debug",), dump=False,
        nontrivial=lambda src, ops: sum(1 for o in ops for e in o.events if e.startswith("upd")) >= 2,
        rule_nt="at least two subscription callbacks",
    ),
    "C10": dict(
        title="observer lifecycle",
        streams=[("lifecycle", 2000, 40000, 30)],
        proj=dict(keep_ops=("read", "subscribe", "unsubscribe", "stateunsub", "observe", "dropobs", "disallow", "cloneobs"),
                  keep_events=("upd",)),
        oracle=O.oracle_lifecycle, profiles=("debug",), dump=False,
        nontrivial=lambda src, ops: any(l.startswith(("dropobs", "disallow")) for l in src),
        rule_nt="an observer was dropped or disallowed",
    ),
    "C11": dict(
        title="bookkeeping audit after every action",
        streams=[("basic", 300, 13000, 40), ("binds", 300, 13000, 40), ("drops", 300, 13000, 40), ("subs", 250, 13000, 40),
                 ("direct", 300, 13000, 0), ("rhsheights", 150, 10000, 0)],
        proj=dict(keep_ops=None, keep_events=("rec", "nec", "unnec", "invalidate"), dump=True, sort_events=False),
        oracle=O.oracle_audit, profiles=("debug",), dump=True,
        nontrivial=lambda src, ops: sum(1 for l in src if l == "stabilise") >= 2,
        rule_nt="at least two stabilises (the audit runs after every op)",
    ),
    "C14": dict(
        title="expert nodes with dynamic dependencies",
        streams=[("expert", 1500, 46000, 0)],
        proj=dict(keep_ops=("stabilise", "read", "adddep"), keep_events=("edgecb", "exrun", "obschange", "inv", "invalidate"),
                  dump=True),
        oracle=O.oracle_expert, profiles=("debug", "release"), dump=True,
        nontrivial=lambda src, ops: sum(1 for o in ops for e in o.events if e.startswith("exrun")) >= 2,
        rule_nt="the recompute function of an expert node ran at least twice",
    ),
    "C16": dict(
        title="incremental-map per-key graph operators equal their definitions on every round",
        streams=[("perkey", 1500, 50000, 0), ("perkeycut", 500, 15000, 0)],
        # perkeycut: cutoffs that swallow changes between unequal values; the output may then lag behind the input by
        # design, so only model and crate are compared on that stream
        no_oracle_profiles=("perkeycut",),
        proj=dict(keep_ops=("stabilise", "read"), keep_events=("perkeyfn", "inv", "invalidate", "bindrun"), dump=True),
        oracle=O.oracle_perkey,
        profiles=("debug", "release"), dump=True,
        nontrivial=lambda src, ops: sum(1 for l in src if l.startswith("setmap")) >= 2
        and any(e.startswith("perkeyfn") for o in ops for e in o.events),
        rule_nt="the input map was edited at least twice and the per-key function ran",
    ),
    "C20": dict(
        title="weak_memoize_fn: one shared node per live key, created in the scope of weak_memoize_fn",
        streams=[("memo", 900, 50000, 40), ("memo-dynamic", 300, 10000, 0)],
        proj=dict(keep_ops=("memocall", "stabilise", "read"), keep_events=("memofn", "bindrun", "invalidate"), dump=True),
        oracle=O.oracle_memo, profiles=("debug",), dump=True,
        nontrivial=lambda src, ops: sum(1 for l in src if l.startswith("memocall") or " memocall " in l) >= 2
        and any(e.startswith("memofn") for o in ops for e in o.events),
        rule_nt="at least two memoised calls in the source and the underlying function ran at least once",
    ),
}


HANDLE_MAKERS = ("var", "pair", "const", "map", "mapref", "mapold", "fold", "zip", "dependon", "bind", "observe", "observeexport",
                 "mapexport", "exporthandle", "subscribe", "memonew", "memocall", "expert", "varmap", "permapi", "permapiom", "perfilter", "perfilterom", "adddep")


def oracle_for(spec, hid):
    """the oracle used for a history: per stream when the spec says so"""
    return spec.get("oracle_by_profile", {}).get(str(hid).rsplit("-", 1)[0], spec["oracle"])


def shrink(pid, spec, impl, v, rounds=6):
    """greedy reduction of a failing history: cut the tail after the failing operation, then drop, one at a time,
    operations that create no handle (writes, stabilises, reads, drops, cutoffs ...) as long as the oracle still fails on
    the crate.  Every candidate is run on the real library; nothing is assumed."""
    prof = v["profile"]
    dbg = 1 if prof == "debug" else 0
    dump = 1 if spec["dump"] else 0

    def failing(cands):
        texts = [(f"s{i}", ec.history_text(f"s{i}", c, debug=dbg, dump=dump)) for i, c in enumerate(cands)]
        out = ec.run_all(impl[prof], texts)
        res = []
        for i, c in enumerate(cands):
            ops, tail = T.parse_trace(out.get(f"s{i}", []))
            try:
                why = oracle_for(spec, v.get("history", ""))(c, ops, tail)
            except Exception:
                why = None
            res.append(why)
        return res
    cur = list(v["source"])
    why = v["oracle"]
    # 1. truncate: shortest prefix that still fails
    prefixes = [cur[:k] for k in range(1, len(cur))]
    rs = failing(prefixes)
    for c, r in zip(prefixes, rs):
        if r:
            cur, why = c, r
            break
    # 2. drop single operations
    for _ in range(rounds):
        idx = [i for i, l in enumerate(cur) if l.split()[0] not in HANDLE_MAKERS]
        cands = [cur[:i] + cur[i + 1:] for i in idx]
        if not cands:
            break
        rs = failing(cands)
        progress = False
        # apply as many removals as stay failing, from the end so that indices remain valid
        for i, c, r in sorted(zip(idx, cands, rs), key=lambda x: -x[0]):
            if r:
                trial = cur[:i] + cur[i + 1:]
                if failing([trial])[0]:
                    cur, progress = trial, True
        if not progress:
            break
        why = failing([cur])[0] or why
    if len(cur) < len(v["source"]):
        v = dict(v, source=cur, oracle=why, shrunk_from=len(v["source"]))
    return v


def load_known(pid):
    return [k for k in vlib.known_findings(pid) if k.get("status") == "open"]


def matches_known(k, why, src):
    pat = k.get("signature", {}).get("message_regex")
    return bool(pat) and re.search(pat, why or "") is not None


def run(pid, tier, seed):
    t0 = time.time()
    spec = SPECS[pid]
    pinned = vlib.pinned_theorems(pid)
    ob, di, problems = vlib.proof_stage(pid, pinned) if pinned else (0, 0, ["no theorem file yet for this property"])
    model, impl = ec.build(spec["profiles"])

    # ---- histories: corpus first, then generated streams
    hist = []      # (id, src lines)
    for f in sorted(glob.glob(os.path.join(vlib.ROOT, "gen", "corpus", pid, "*.txt")) +
                    glob.glob(os.path.join(vlib.ROOT, "gen", "corpus", "all", "*.txt"))):
        lines = [l.strip() for l in open(f) if l.strip() and not l.startswith("#")]
        hist.append(("corpus-" + os.path.basename(f)[:-4], lines))
    rng = random.Random(seed * 7919 + int(pid[1:]))
    for (profile, nq, nt, nops) in spec["streams"]:
        n = nq if tier == "quick" else nt
        for i in range(n):
            s = rng.randrange(1 << 30)
            hist.append((f"{profile}-{s}", histories.history(s, nops, profile)))
    src = dict(hist)

    mismatches, violations, known_hits = [], [], {}
    nontrivial, evaluated = set(), 0
    dist_ops, dist_outcomes, dist_len, dist_stream = {}, {}, {}, {}      # what the generated inputs look like
    samples = []
    CHUNK = 1500       # outputs with state dumps are large: never hold more than one chunk of them
    for prof, chunk in [(p_, hist[i:i + CHUNK]) for p_ in spec["profiles"] for i in range(0, len(hist), CHUNK)]:
        dbg = 1 if prof == "debug" else 0
        texts = [(hid, ec.history_text(hid, lines, debug=dbg, dump=1 if spec["dump"] else 0)) for hid, lines in chunk]
        mo = ec.run_all(model, texts)
        io = ec.run_all(impl[prof], texts)
        del texts
        for hid, lines in chunk:
            evaluated += 1
            ml = ec.normalise(mo.get(hid, []))
            il = ec.normalise(io.get(hid, []))
            iops, itail = T.parse_trace(io.get(hid, []))
            if prof == spec["profiles"][0]:
                dist_stream[hid.rsplit("-", 1)[0]] = dist_stream.get(hid.rsplit("-", 1)[0], 0) + 1
                b = min(len(lines) // 10 * 10, 90)
                dist_len[f"{b}-{b + 9}" if b < 90 else "90+"] = dist_len.get(f"{b}-{b + 9}" if b < 90 else "90+", 0) + 1
                for l in lines:
                    w = l.split(" ", 1)[0]
                    dist_ops[w] = dist_ops.get(w, 0) + 1
            for o_ in iops:
                k_ = "ok" if not o_.result.startswith("panic") else "panic:" + (o_.result.split()[1] if len(o_.result.split()) > 1 else "?")
                dist_outcomes[k_] = dist_outcomes.get(k_, 0) + 1
            if spec["nontrivial"](lines, iops):
                nontrivial.add(hashlib.sha1("\n".join(lines).encode()).hexdigest())
            pm = proj(ml, lines, **spec["proj"])
            pi = proj(il, lines, **spec["proj"])
            d = ec.first_diff(pm, pi)
            try:
                pname = hid.rsplit("-", 1)[0]
                why = None if pname in spec.get("no_oracle_profiles", ()) else oracle_for(spec, hid)(lines, iops, itail)
            except Exception as e:     # an oracle that cannot parse the trace is itself a finding
                why = f"oracle could not evaluate the trace: {type(e).__name__}: {e}"
            if why:
                k = next((k for k in load_known(pid) if matches_known(k, why, lines)), None)
                if k:
                    known_hits[k["id"]] = k
                else:
                    violations.append(dict(history=hid, profile=prof, source=lines, oracle=why))
            if d:
                mismatches.append(dict(history=hid, profile=prof, at=d[0], model=d[1], implementation=d[2], source=lines))
            if len(samples) < 2 and spec["nontrivial"](lines, iops):
                samples.append(lines)

    for k in known_hits.values():
        print(f"KNOWN-FINDING: property={pid} {k['what']}", flush=True)
    rc = 0
    if violations:
        v = min(violations, key=lambda v: len(v["source"]))
        try:
            v = shrink(pid, spec, impl, v)
        except Exception as e:       # shrinking is a convenience: never let it hide the violation
            v["shrink_error"] = repr(e)
        path = vlib.write_replay(pid, dict(property=pid, kind="failing-input", **v,
                                           replay_cmd="./verify replay <this file>", other_failures=len(violations) - 1))
        vlib.report_violation(pid, path, True)
        rc = 1
    elif mismatches or (problems and pinned):
        path = vlib.write_replay(pid, dict(property=pid, kind="proof-or-correspondence-broken",
                                           broken_proof_obligations=problems if pinned else [],
                                           correspondence=f"engine model E vs crate, projection of {pid}" if mismatches else None,
                                           first_disagreements=mismatches[:3]))
        vlib.report_violation(pid, path, False)
        rc = 1

    level = "proof" if pinned and not problems else "other"
    cov = dict(
        obligations=ob, discharged=di,
        checker_cmd="make -C coq (coqc 8.16.1, full .vo) && coqc theories/Properties/%s.v (Print Assumptions)" % pid,
        trusted_base=vlib.TRUSTED_BASE,
        evaluations=evaluated, distinct_nontrivial=len(nontrivial),
        rule="histories from gen/histories.py streams %s (seeded), each run through the extracted model E and the Rust harness "
             "for build profiles %s; compared on the projection of %s; non-trivial = %s; distinct by hash of the source"
             % ([s[0] for s in spec["streams"]], list(spec["profiles"]), pid, spec["rule_nt"]),
        traces_validated_against_impl=evaluated, disagreements=len(mismatches),
        oracle_failures=len(violations), known_findings_hit=sorted(known_hits),
        samples=samples or [hist[0][1]],
        explanation="Correspondence of the Gallina engine model with the crate on generated histories plus the python oracle "
                    "for %s; %s" % (spec["title"], "theorems: " + ", ".join(pinned) if pinned else "no Coq theorem is claimed for this property yet"),
        proof_problems=problems if pinned else [],
        input_distribution=dict(histories_per_stream=dist_stream, history_length=dict(sorted(dist_len.items())),
                                operations=dict(sorted(dist_ops.items(), key=lambda kv: -kv[1])),
                                operation_outcomes_on_the_crate=dict(sorted(dist_outcomes.items(), key=lambda kv: -kv[1])[:25])),
    )
    vlib.write_evidence(pid, tier, seed, level, cov,
                        ["user functions are the pure families of Model/Base.v mirrored in the harness",
                         "the hooks' dump prints the real fields",
                         "HashMap iteration order is not compared (callbacks are sorted within a stabilise)"],
                        time.time() - t0, len(violations) if violations else (1 if rc else 0))
    return rc


def replay(path):
    """./verify replay <file>: run the history of a replay file through the model and the crate again and
    print what each did, where they differ on the property's projection, and the oracle's verdict"""
    import json
    r = json.load(open(path))
    pid = r["property"]
    spec = SPECS[pid]
    cases = []
    if "source" in r:
        cases.append((r.get("profile", "debug"), r["source"]))
    for d in r.get("first_disagreements") or []:
        cases.append((d.get("profile", "debug"), d["source"]))
    if not cases:
        print(json.dumps(r, indent=1)[:4000])
        print("this replay names a broken proof obligation or build failure; there is no history to run")
        return 0
    profiles = sorted({p for p, _ in cases})
    model, impl = ec.build(profiles)
    rc = 0
    for prof, lines in cases:
        dbg = 1 if prof == "debug" else 0
        texts = [("replay", ec.history_text("replay", lines, debug=dbg, dump=1 if spec["dump"] else 0))]
        mo = ec.run_all(model, texts).get("replay", [])
        io = ec.run_all(impl[prof], texts).get("replay", [])
        iops, itail = T.parse_trace(io)
        print(f"== {pid} {prof}: {len(lines)} operations")
        for i, l in enumerate(lines):
            print(f"  {i:3d}  {l}")
        pm = proj(ec.normalise(mo), lines, **spec["proj"])
        pi = proj(ec.normalise(io), lines, **spec["proj"])
        d = ec.first_diff(pm, pi)
        if d:
            rc = 1
            print(f"model and crate differ on the projection of {pid} at line {d[0]}:\n  model: {d[1]}\n  crate: {d[2]}")
        else:
            print(f"model and crate agree on the projection of {pid} ({len(pi)} lines)")
        try:
            why = oracle_for(spec, r.get("history", ""))(lines, iops, itail)
        except Exception as e:
            why = f"oracle could not evaluate the trace: {type(e).__name__}: {e}"
        if why:
            k = next((k for k in load_known(pid) if matches_known(k, why, lines)), None)
            print(("known finding %s: " % k["id"] if k else "oracle: ") + why)
            rc = rc or (0 if k else 1)
        else:
            print("oracle: the property holds on this history")
    return rc
