from checks import maps_seq, maps_common as mc
def run(tier, seed):
    return maps_seq.run("C15", mc.oracle_values, "oracle: every observed output equals the plain function of the current input", tier, seed)
