"""Property oracles evaluated on an implementation (or model) trace.  Each returns None when the
property holds on this history, or a string describing the failure."""
from checks import trace as T
from checks.ref import Ref, Impure, show


def ev_kind(e):
    return e.split(" ", 1)[0]


def ev_node(e):
    return int(e.split(" ")[1])


# ---------------------------------------------------------------- C04 / C19: panics
def oracle_no_panic(src, ops, tail):
    for op in ops:
        if op.result.startswith("panic"):
            return f"op {op.idx} `{src[op.idx]}` panicked: {op.result} ({op.comment})"
        if op.result.startswith("OUT-OF-FUEL"):
            return f"op {op.idx}: model ran out of fuel"
    for l in tail:
        if l.startswith("ABORT") or l.startswith("end panic"):
            return "dropping the handles/state: " + l
    return None


def _mentions_untracked(ref, expr, seen=None):
    """does the expression reach a node the reference does not track (a node handed out by a bind closure, reached
    through a program handle)?  Such a node may have been invalidated by its bind, and a bind main that once copied
    an invalid right-hand side stays invalid: C01 speaks about observers of valid nodes only."""
    seen = set() if seen is None else seen
    if isinstance(expr, (list, tuple)):
        if len(expr) >= 1 and expr[0] == "unknown":
            return True
        if len(expr) == 2 and expr[0] in ("late", "outer") and isinstance(expr[1], int):
            h = expr[1]
            if h in seen:
                return False
            seen.add(h)
            return h >= len(ref.handles) or _mentions_untracked(ref, ref.handles[h], seen)
        return any(_mentions_untracked(ref, x, seen) for x in expr)
    if isinstance(expr, dict):
        return any(_mentions_untracked(ref, x, seen) for x in expr.values())
    return False


# ---------------------------------------------------------------- C01 / C07: values
def oracle_values(src, ops, tail, check_frame=True):
    """C01: after a completed stabilise every in-use observer reads the from-scratch value of its node
    on the variable values current when stabilise was called.  C07: reads do not move between stabilises;
    new observers are NeverStabilised."""
    ref = Ref()
    snapshot = None           # store at the last completed stabilise
    last_read = {}            # observer -> last read result since the last stabilise / lifecycle change
    poisoned = False
    for op in ops:
        if op.idx >= len(src):
            break
        line = src[op.idx]
        parsed = ref.step(line)
        k = parsed[0]
        if op.result.startswith("panic"):
            poisoned = True
        if poisoned:
            continue
        if k == "stabilise":
            snapshot = list(ref.store)
            last_read = {}
        elif k in ("dropobs", "disallow"):
            last_read.pop(parsed[1], None)
        elif k == "read":
            o = ref.obs[parsed[1]]
            res = op.result.split(" ", 1)[1]
            if o["handles"] <= 0:
                continue
            st = o["state"]
            if st == "created":
                want = "e:2"
            elif st in ("disallowed", "unlinked"):
                want = "e:3"
            else:
                want = None
                if snapshot is not None:
                    try:
                        want = "v:" + show(ref.eval(o["expr"], snapshot))
                    except Impure:
                        want = None
            if want is not None and res != want and not (res == "e:4" and _mentions_untracked(ref, o["expr"])):
                return f"op {op.idx} `{line}`: observer reads {res}, reference says {want}"
            if check_frame:
                prev = last_read.get(parsed[1])
                if prev is not None and prev != res:
                    return f"op {op.idx} `{line}`: observer read {res} but read {prev} earlier with no stabilise in between"
                last_read[parsed[1]] = res
    return None


# ---------------------------------------------------------------- C02: glitch freedom
def children_of(nodes, r):
    n = nodes.get(r)
    if n is None:
        return []
    if not n["valid"]:
        return []
    if n["kind"] == "BindMain":
        lc = n["children"][0]
        out = [lc]
        l = nodes.get(lc)
        if l is not None and l["extra"].get("rhs") is not None:
            out.append(l["extra"]["rhs"])
        return out
    return n["children"]


def oracle_glitch_free(src, ops, tail):
    for op in ops:
        if not src[op.idx].startswith("stabilise") or not op.result.startswith("ok"):
            continue
        seen = {}
        folds = {}
        for e in op.events:
            k = ev_kind(e)
            if k in ("inv", "bindrun", "rec"):
                key = (k, ev_node(e))
                seen[key] = seen.get(key, 0) + 1
                if seen[key] > 1:
                    return f"op {op.idx}: node {ev_node(e)} had {seen[key]} `{k}` events in one stabilise"
            elif k == "foldcall":
                folds.setdefault(ev_node(e), []).append(e)
        if not op.nodes:
            continue
        # arguments are the final values of the inputs
        for e in op.events:
            if ev_kind(e) != "inv":
                continue
            n = ev_node(e)
            node = op.nodes.get(n)
            if node is None or not node["valid"]:
                continue
            args = e[e.index("[") + 1:e.index("]")].split()
            kids = node["children"]
            if node["kind"] == "MapWithOld":
                args = args[-1:]
            if len(args) != len(kids):
                continue
            for a, c in zip(args, kids):
                cn = op.nodes.get(c)
                if cn is None or not cn["valid"] or cn["val"] == "-":
                    continue
                if cn["val"] != a:
                    return (f"op {op.idx}: function of node {n} ran with argument {a} for input {c}, "
                            f"whose value at the end of the stabilise is {cn['val']}")
        for n, calls in folds.items():
            node = op.nodes.get(n)
            if node is None or not node["valid"]:
                continue
            if len(calls) != len(node["children"]):
                return f"op {op.idx}: fold node {n} made {len(calls)} calls for {len(node['children'])} inputs"
            for e, c in zip(calls, node["children"]):
                x = e.split(" ")[3]
                cn = op.nodes.get(c)
                if cn is not None and cn["valid"] and cn["val"] != "-" and cn["val"] != x:
                    return f"op {op.idx}: fold node {n} saw {x} for input {c} whose final value is {cn['val']}"
    return None


# ---------------------------------------------------------------- C03: bind scopes
def oracle_bind_scopes(src, ops, tail):
    stale = {}        # node rank -> (bind lhs_change rank, op idx) : created by a superseded run
    prev_nodes = {}
    for op in ops:
        reruns = []
        for e in op.events:
            if ev_kind(e) == "bindrun":
                gen = int(e.split("gen=")[1].split()[0])
                if gen >= 1:
                    reruns.append(ev_node(e))
        newly = {}
        for L in reruns:
            ln = prev_nodes.get(L)
            if ln:
                for r in ln["extra"].get("created", []):
                    newly[r] = (L, op.idx)
        unneeded = set()      # nodes that became unnecessary earlier in this operation (and not necessary again since)
        reran = set()         # lhs-change nodes that have already re-run in this operation
        for e in op.events:
            k = ev_kind(e)
            if k == "unnec":
                unneeded.add(ev_node(e))
            elif k == "nec":
                unneeded.discard(ev_node(e))
            if k == "bindrun" and int(e.split("gen=")[1].split()[0]) >= 1:
                reran.add(ev_node(e))
            if k in ("inv", "foldcall", "rec", "bindrun"):
                n = ev_node(e)
                if n in stale or n in newly:
                    L, at = stale.get(n) or newly.get(n)
                    if n in newly and n not in stale and L in unneeded and L not in reran:
                        return (f"op {op.idx}: `{e}` — node {n}, created by the previous run of bind {L} and kept alive from "
                                f"outside, was recomputed while that bind was not needed; the bind's left-hand side had changed "
                                f"and the bind re-ran later in the same stabilise")
                    return (f"op {op.idx}: `{e}` — node {n} was created by a run of bind {L} that was superseded "
                            f"(left-hand side changed at op {at})")
        stale.update(newly)
        if op.nodes:
            for r in stale:
                n = op.nodes.get(r)
                if n is not None and n["valid"] and src[op.idx].startswith("stabilise") and op.result.startswith("ok"):
                    return f"op {op.idx}: node {r} of a superseded bind run is still valid"
            # (nested binds) when a bind's main node is invalid, every node its closure created is invalid too
            if src[op.idx].startswith("stabilise") and op.result.startswith("ok"):
                main_of = {n["children"][0]: r for r, n in op.nodes.items()
                           if n is not None and n["kind"] == "BindMain" and n["children"]}
                for r, n in op.nodes.items():
                    if n is None or not n["valid"]:
                        continue
                    sc = n.get("scope", "T")
                    if sc.startswith("B") and sc[1:].isdigit():
                        m = op.nodes.get(main_of.get(int(sc[1:])))
                        if m is not None and not m["valid"]:
                            return (f"op {op.idx}: node {r} was created by the closure of bind {sc[1:]}, whose main node "
                                    f"{main_of[int(sc[1:])]} is invalid, but it is still valid")
            # observed map-like nodes with an invalid input must be invalid
            if src[op.idx].startswith("stabilise") and op.result.startswith("ok"):
                for r, n in op.nodes.items():
                    if n is None or not n["valid"] or n["obs"] == 0:
                        continue
                    if n["kind"] in ("Map", "MapRef", "MapWithOld", "Fold"):
                        for c in n["children"]:
                            cn = op.nodes.get(c)
                            if cn is not None and not cn["valid"]:
                                return f"op {op.idx}: observed node {r} is valid although its input {c} is invalid"
            prev_nodes = op.nodes
    return None


# ---------------------------------------------------------------- C05: only needed nodes are computed
def cone(nodes, roots):
    seen, todo = set(), list(roots)
    while todo:
        r = todo.pop()
        if r in seen:
            continue
        seen.add(r)
        n = nodes.get(r)
        if n is None:
            continue
        kids = list(n["children"])
        if n["kind"] == "BindMain":
            l = nodes.get(n["children"][0])
            if l is not None and l["extra"].get("rhs") is not None:
                kids.append(l["extra"]["rhs"])
        todo.extend(kids)
    return seen


def cone2(nodes_a, nodes_b, roots):
    """reachable from roots following the child edges (and bind right-hand sides) recorded in either dump"""
    seen, todo = set(), list(roots)
    while todo:
        r = todo.pop()
        if r in seen:
            continue
        seen.add(r)
        for nodes in (nodes_a, nodes_b):
            n = nodes.get(r)
            if n is None:
                continue
            kids = list(n["children"])
            if n["kind"] == "BindMain" and n["children"]:
                l = nodes.get(n["children"][0])
                if l is not None and l["extra"].get("rhs") is not None:
                    kids.append(l["extra"]["rhs"])
            todo.extend(kids)
    return seen


def oracle_only_needed(src, ops, tail):
    ref = Ref()
    prev = None
    rank_of_handle = {}
    nhandles = 0
    obs_rank = []
    for op in ops:
        line = src[op.idx]
        before_states = [dict(o) for o in ref.obs]
        parsed = ref.step(line)
        if op.result.startswith("node "):
            rank_of_handle[len(ref.handles) - 1] = int(op.result.split()[1])
        if parsed[0] == "observe":
            obs_rank.append(rank_of_handle.get(parsed[1]))
        elif parsed[0] == "observeexport":
            obs_rank.append(None)
        if parsed[0] == "stabilise" and op.result.startswith("ok") and op.nodes and prev is not None:
            ran = {ev_node(e) for e in op.events if ev_kind(e) in ("inv", "foldcall", "bindrun", "rec")}
            live_before = [obs_rank[i] for i, o in enumerate(before_states) if o["state"] in ("created", "inuse")]
            if any(r is None for r in live_before):
                prev = op
                continue
            roots_end = [r for r, n in op.nodes.items() if n is not None and n["obs"] > 0]
            allowed = cone(prev.nodes, live_before) | cone(op.nodes, roots_end) | cone(op.nodes, live_before)
            # a bind that becomes necessary again has its previous right-hand side relinked (an edge of the graph at
            # call time) and may be reached through nodes built during this stabilise (edges of the graph at return):
            # follow the edges of both graphs
            allowed |= cone2(prev.nodes, op.nodes, list(live_before) + roots_end)
            # nodes a bind closure created during this very stabilise: the bind was in a cone when its closure ran (its
            # lhs-change node is allowed), even if a later switch in the same stabilise took the bind out of every cone
            grew = True
            while grew:
                grew = False
                for r, n in op.nodes.items():
                    if r in allowed or n is None or r in prev.nodes:
                        continue
                    sc = n.get("scope", "T")
                    if sc.startswith("B") and sc[1:].isdigit() and int(sc[1:]) in allowed:
                        allowed.add(r)
                        grew = True
            extra = ran - allowed
            if extra:
                return (f"op {op.idx}: nodes {sorted(extra)} were computed but are in the cone of no live observer "
                        f"(observed nodes: {sorted(set(live_before))})")
            if not live_before and ran:
                return f"op {op.idx}: no live observers, yet nodes {sorted(ran)} were computed"
        if op.nodes:
            prev = op
    return None


# ---------------------------------------------------------------- C09 / C10: subscriptions and lifecycle
def oracle_lifecycle(src, ops, tail):
    """C10: result classes of read / subscribe / unsubscribe follow the lifecycle automaton"""
    ref = Ref()
    poisoned = False
    for op in ops:
        line = src[op.idx]
        pre = [dict(o) for o in ref.obs]
        presubs = [dict(s) for s in ref.subs]
        parsed = ref.step(line)
        k = parsed[0]
        if op.result.startswith("panic"):
            poisoned = True
        if poisoned:
            continue
        if k == "read":
            o = pre[parsed[1]]
            if o["handles"] <= 0:
                continue
            res = op.result.split(" ", 1)[1]
            want = {"created": "e:2", "disallowed": "e:3", "unlinked": "e:3"}.get(o["state"])
            if want and res != want:
                return f"op {op.idx} `{line}`: read gave {res}, the lifecycle says {want} (observer is {o['state']})"
            if o["state"] == "inuse" and not (res.startswith("v:") or res == "e:4"):
                return f"op {op.idx} `{line}`: in-use observer read {res}"
        elif k == "subscribe":
            o = pre[parsed[1]]
            ok = o["state"] in ("created", "inuse")
            if ok != op.result.startswith("tok "):
                return f"op {op.idx} `{line}`: subscribe on a {o['state']} observer returned {op.result}"
            if not ok and op.result != "tokerr 3":
                return f"op {op.idx} `{line}`: expected Disallowed, got {op.result}"
        elif k == "unsubscribe":
            s = presubs[parsed[2]]
            if not s["ok"]:
                continue
            want = "code 0" if s["obs"] == parsed[1] else "code 5"
            if op.result != want:
                return f"op {op.idx} `{line}`: unsubscribe returned {op.result}, expected {want}"
    return None


def oracle_node_handlers(src, ops):
    """Incr::on_update handlers (the same OnUpdateHandler as a subscription's, attached to the node): per handler the
    first thing heard is never Changed, nothing follows Invalidated, Unnecessary is not repeated, Changed follows only
    Initialised or Changed, and callbacks only run at the end of a stabilise."""
    heard = {}
    for op in ops:
        for e in op.events:
            if ev_kind(e) != "nodeupd":
                continue
            if not src[op.idx].startswith("stabilise"):
                return f"op {op.idx} `{src[op.idx]}`: node handler callback outside stabilise: {e}"
            f = dict(x.split("=") for x in e.split()[1:4])
            key, kind = (f["n"], f["ix"]), e.split()[4]
            h = heard.setdefault(key, [])
            if not h and kind == "Changed":
                return f"op {op.idx}: the first thing a node handler hears is Changed: {e}"
            if h and h[-1] == "Invalidated":
                return f"op {op.idx}: a node handler hears something after Invalidated: {e}"
            if h and h[-1] == "Unnecessary" and kind in ("Unnecessary", "Changed"):
                return f"op {op.idx}: after Unnecessary a node handler hears {kind}: {e}"
            h.append(kind)
    return None


def oracle_subscriptions(src, ops, tail):
    """C09 on observers of top-level nodes with the default cutoff: per subscription the exact sequence
    Initialised(v) once, Changed(v) exactly when the value differs from the previous round, values equal
    to what the observer reads."""
    why = oracle_node_handlers(src, ops)
    if why:
        return why
    ref = Ref()
    got = {}           # sub index -> list of (round, kind, value)
    rnd = 0
    last_val = {}      # observer -> value at end of previous completed stabilise (while in use)
    poisoned = False
    tok_of_sub = {}
    sub_effects = {}   # sub index -> [(kind, observer, arg)] : subscribe / unsub effects of its handler
    pending = []       # subscriptions made from inside a handler: (observer, hid, op index where it was made)
    untracked = set()  # observers on which handler-made subscriptions can no longer be followed
    dyn = []           # those, once their first delivery was seen: dict(obs, ok, unsub); index -(k+1) in got / tok_of_sub
    for op in ops:
        line = src[op.idx]
        pre = [dict(o) for o in ref.obs]
        presubs = [(i, dict(s)) for i, s in enumerate(ref.subs)] + [(-(i + 1), dict(d)) for i, d in enumerate(dyn)]
        parsed = ref.step(line)
        k = parsed[0]
        if op.result.startswith("panic"):
            poisoned = True
        if poisoned:
            continue
        if k == "subscribe" and op.result.startswith("tok "):
            tok_of_sub[(parsed[1], int(op.result.split()[1]))] = len(ref.subs) - 1
            ref.subs[-1]["created_round"] = rnd
            sub_effects[len(ref.subs) - 1] = [(e[0], int(e[1]), int(e[2])) for e in parsed[3] if e[0] in ("subscribe", "unsub")]
        # subscriptions made by handlers in an earlier stabilise receive Initialised now (first stabilise in which
        # their observer is in use and the node has a value)
        if k == "stabilise" and op.result.startswith("ok"):
            snapshot0 = list(ref.store)
            still = []
            for (o2, hid2, made) in pending:
                ob2 = pre[o2] if o2 < len(pre) else None
                evs = [x for x in op.events if ev_kind(x) == "upd" and int(x.split()[1].split("=")[1]) == o2
                       and int(x.split()[3].split("=")[1]) == hid2
                       and (o2, int(x.split()[2].split("=")[1])) not in tok_of_sub]
                if ob2 is None or ob2["state"] not in ("created", "inuse") or ob2["handles"] <= 0:
                    continue
                if not evs:
                    try:
                        v = show(ref.eval(ob2["expr"], snapshot0))
                    except Impure:
                        continue
                    return (f"op {op.idx}: the subscription made on observer {o2} from inside a handler (op {made}, handler id {hid2}) "
                            f"got nothing in the next stabilise; expected Initialised {v}")
                x = evs[0]
                tokn = int(x.split()[2].split("=")[1])
                dyn.append(dict(obs=o2, ok=True, unsub=False))
                si2 = -len(dyn)
                tok_of_sub[(o2, tokn)] = si2
                sub_effects[si2] = []
                if x.split()[4] != "Initialised":
                    return f"op {op.idx}: first delivery to a subscription made inside a handler is not Initialised: {x}"
                try:
                    v = show(ref.eval(ob2["expr"], snapshot0))
                    if ref.cutoffs.get(ob2.get("handle")) in (None, "eq") and x.split()[5] != v:
                        return f"op {op.idx}: {x}: the node's value is {v}"
                except Impure:
                    pass
            pending = still
        unsub_now = set()      # unsubscribed by some handler during this very stabilise
        for e in op.events:
            if ev_kind(e) != "upd":
                continue
            f = dict(x.split("=") for x in e.split()[1:4])
            si = tok_of_sub.get((int(f["obs"]), int(f["tok"])))
            kind, val = e.split()[4], e.split()[5]
            if k != "stabilise":
                return f"op {op.idx} `{line}`: subscription callback outside stabilise: {e}"
            if si is None:
                if int(f["hid"]) >= 1000:
                    continue     # made by a handler, and its bookkeeping was given up (see `pending`)
                return f"op {op.idx}: callback for an unknown subscription: {e}"
            got.setdefault(si, []).append((kind, val))
            # what this handler does to other observers
            for (ek, o2, arg) in sub_effects.get(si, []):
                ob2 = ref.obs[o2] if o2 < len(ref.obs) else None
                if ob2 is None or ob2["handles"] <= 0:
                    continue
                if ek == "subscribe" and ob2["state"] in ("created", "inuse") and o2 not in untracked:
                    pending.append((o2, arg, op.idx))
                elif ek == "unsub":
                    sj = tok_of_sub.get((o2, arg))
                    if sj is not None and ob2["state"] in ("created", "inuse"):
                        (ref.subs[sj] if sj >= 0 else dyn[-sj - 1])["unsub"] = True
                        unsub_now.add(sj)
                    elif sj is None:
                        # the token may be that of a subscription a handler made and we have not seen yet: from here
                        # on the subscriptions handlers make on that observer cannot be told apart
                        pending = [p_ for p_ in pending if p_[0] != o2]
                        untracked.add(o2)
        if k != "stabilise" or not op.result.startswith("ok"):
            continue
        snapshot = list(ref.store)
        # expected deliveries this round
        for si, s in presubs:
            if not s["ok"]:
                continue
            o = pre[s["obs"]]
            delivered = [x for x in op.events if ev_kind(x) == "upd" and tok_of_sub.get(
                (int(x.split()[1].split("=")[1]), int(x.split()[2].split("=")[1]))) == si]
            # in use for this stabilise: was created or in use before it, and not disallowed
            active = o["state"] in ("created", "inuse") and not s["unsub"]
            if not active:
                if delivered:
                    return (f"op {op.idx}: subscription {si} got {delivered} although its observer is {o['state']}"
                            f"{' / it was unsubscribed' if s['unsub'] else ''}")
                continue
            if o["expr"][0] == "unknown" or ref.cutoffs.get(o.get("handle")) not in (None, "eq"):
                continue
            try:
                v = show(ref.eval(o["expr"], snapshot))
            except Impure:
                continue
            hist = got.get(si, [])
            before = hist[:len(hist) - len(delivered)]
            if not before:
                want = [("Initialised", v)]
            else:
                want = [("Changed", v)] if before[-1][1] != v else []
            have = [(x.split()[4], x.split()[5]) for x in delivered]
            if si in unsub_now and have == []:
                continue        # cancelled by another handler before its turn came
            if have != want:
                e_ = o["expr"]
                while e_[0] == "mapref" and e_[2][0] == "mapref":
                    e_ = e_[2]
                if want == [] and have == [("Changed", v)] and e_[0] == "mapref" and e_[2][0] == "mapold":
                    return (f"op {op.idx}: subscription {si} on observer {s['obs']}, whose node is a map_ref over a map_with_old "
                            f"node, received Changed {v} although the value is unchanged")
                return (f"op {op.idx}: subscription {si} on observer {s['obs']} received {have}, expected {want} "
                        f"(earlier deliveries: {before})")
        rnd += 1
    return None


# ---------------------------------------------------------------- C11: bookkeeping audit on a dump
def is_stale(nodes, n):
    if not n["valid"]:
        return False
    if n["kind"] == "Var":
        return int(n["extra"]["set_at"]) > n["rec"]
    if n["kind"] == "Const":
        return n["rec"] == -1
    if n["rec"] == -1:
        return True
    for c in children_of(nodes, n["rank"]):
        cn = nodes.get(c)
        if cn is not None and cn["chg"] > n["rec"]:
            return True
    return False


def necessary(n):
    return bool(n["parents"]) or n["obs"] > 0 or n["fn"]


def audit(op, nq=None):
    """the C11 audit on one dumped state (control is outside stabilise)"""
    nodes = {r: n for r, n in op.nodes.items() if n is not None}
    d = op.dump
    maxh = int(d["nq"]) - 1
    in_heap = {}
    for h, q in d.get("rch", {}).items():
        for r in q:
            if r in in_heap:
                return f"node {r} is queued twice in the recompute heap"
            in_heap[r] = h
    if int(d["rch_len"]) != len(in_heap):
        return f"recompute heap length {d['rch_len']} but {len(in_heap)} queued nodes"
    if int(d["ahh_len"]) != 0:
        return "adjust-heights heap not empty at a quiescent point"
    nnec = 0
    for r, n in nodes.items():
        nec = necessary(n)
        if n["fn"]:
            return f"node {r}: force_necessary set at a quiescent point"
        if nec:
            nnec += 1
            lo = 1 if n["valid"] else 0
            if not (lo <= n["h"] <= maxh):
                return f"necessary node {r} has height {n['h']} outside {lo}..{maxh}"
        else:
            if n["parents"]:
                return f"unnecessary node {r} has parents"
            if n["h"] != -1:
                return f"unnecessary node {r} has height {n['h']}"
            if r in in_heap:
                return f"unnecessary node {r} is in the recompute heap"
            if any(x != -1 for x in n["cix"]):
                return f"unnecessary node {r} has child-index slots {n['cix']}"
        # edges, both directions
        for pi, p in enumerate(n["parents"]):
            pn = nodes.get(p)
            if pn is None:
                return f"node {r} lists dead/unknown parent {p}"
            ci = n["cix"][pi] if pi < len(n["cix"]) else None
            if ci is None or ci < 0:
                return f"node {r}: no child index recorded for parent slot {pi}"
            kids = children_of(nodes, p)
            if ci >= len(kids) or kids[ci] != r:
                return f"node {r} is recorded as child {ci} of {p}, whose children are {kids}"
            if ci >= len(pn["pix"]) or pn["pix"][ci] != pi:
                return f"edge {r}->{p}: parent's index array {pn['pix']} does not point back to slot {pi}"
            if not necessary(pn):
                return f"node {r} has unnecessary parent {p}"
        if nec and n["valid"]:
            for ci, c in enumerate(children_of(nodes, r)):
                cn = nodes.get(c)
                if cn is None:
                    return f"necessary node {r} has dead child {c}"
                if ci >= len(n["pix"]) or n["pix"][ci] < 0:
                    return f"necessary node {r}: child {c} (index {ci}) is not linked"
                pi = n["pix"][ci]
                if pi >= len(cn["parents"]) or cn["parents"][pi] != r:
                    return f"necessary node {r}: child {c} does not list it at slot {pi} (parents {cn['parents']})"
                if cn["h"] >= n["h"]:
                    return f"necessary node {r} (height {n['h']}) is not higher than its input {c} (height {cn['h']})"
            if n["scope"].startswith("B") and n["scope"][1:].isdigit():
                lc = nodes.get(int(n["scope"][1:]))
                if lc is not None and lc["h"] >= n["h"]:
                    return f"node {r} (height {n['h']}) is not higher than the bind that created it ({lc['h']})"
        want_heap = nec and n["valid"] and is_stale(nodes, n)
        if want_heap != (r in in_heap):
            return (f"node {r}: necessary={nec} valid={n['valid']} stale={is_stale(nodes, n)} "
                    f"but in_recompute_heap={r in in_heap}")
        if r in in_heap and (in_heap[r] != n["h"] or n["hr"] != n["h"]):
            return f"node {r} queued at height {in_heap[r]} (recorded {n['hr']}) but has height {n['h']}"
        if r not in in_heap and n["hr"] != -1:
            return f"node {r} not queued but height_in_recompute_heap = {n['hr']}"
        if n["chg"] > n["rec"] and not (n["kind"] == "BindLhs"):
            return f"node {r}: changed_at {n['chg']} later than recomputed_at {n['rec']}"
        if n["rec"] >= int(d["stab"]):
            return f"node {r}: recomputed_at {n['rec']} not before the current stabilisation number {d['stab']}"
    if int(d["nec"]) - int(d["unnec"]) != nnec:
        return f"stats: became_necessary - became_unnecessary = {int(d['nec']) - int(d['unnec'])} but {nnec} nodes are necessary"
    for k in ("prop_inv", "run", "setduring"):
        if int(d[k]) != 0:
            return f"work stack {k} not empty at a quiescent point"
    return None


def oracle_audit(src, ops, tail):
    ref = Ref()
    rank_of_handle = {}
    obs_node = []
    own_handlers = {}
    poisoned = False
    for op in ops:
        line = src[op.idx]
        parsed = ref.step(line)
        if op.result.startswith("node "):
            rank_of_handle[len(ref.handles) - 1] = int(op.result.split()[1])
        if parsed[0] == "observe":
            obs_node.append(rank_of_handle.get(parsed[1]))
        elif parsed[0] == "observeexport":
            obs_node.append(None)
        elif parsed[0] == "onupdate" and op.result.startswith("ok"):
            r_ = rank_of_handle.get(parsed[1])
            own_handlers[r_] = own_handlers.get(r_, 0) + 1       # Incr::on_update: handlers on the node itself
        if op.result.startswith("panic"):
            poisoned = True
        if poisoned or not op.nodes:
            continue
        why = audit(op)
        if why:
            return f"after op {op.idx} `{line}`: {why}"
        # handler counts: node.num_on_update_handlers = its own handlers + handlers of its in-use observers
        if all(r is not None for r in obs_node) and None not in own_handlers:
            per_node = dict(own_handlers)
            for i, o in op.obs.items():
                if o["state"] in ("InUse", "Disallowed") and i < len(obs_node):
                    per_node[obs_node[i]] = per_node.get(obs_node[i], 0) + o["handlers"]
            # observers whose handles are all gone are not dumped; only check nodes whose observers are all visible
            visible = {}
            for i, r in enumerate(obs_node):
                visible.setdefault(r, []).append(i in op.obs or ref.obs[i]["state"] in ("unlinked",))
            for r, n in op.nodes.items():
                if n is None or not all(visible.get(r, [True])):
                    continue
                if n["nh"] != per_node.get(r, 0):
                    return (f"after op {op.idx} `{line}`: node {r} has num_on_update_handlers = {n['nh']} "
                            f"but {per_node.get(r, 0)} handlers are registered on it and on its linked observers")
        if parsed[0] == "stabilise" and op.result.startswith("ok"):
            for r, n in op.nodes.items():
                if n is not None and necessary(n) and n["valid"] and n["val"] == "-":
                    return f"after stabilise (op {op.idx}): necessary valid node {r} has no value"
    return None


# ---------------------------------------------------------------- C08: the variable write machine
def oracle_vars(src, ops, tail, check_reads=False):
    """VarSpec: writes outside stabilise are immediate (get/replace return the logical value); writes from
    node functions / bind closures are deferred, compose in program order, are invisible to every reader
    of the running stabilise and become the value at its end; writes from handlers are immediate.
    Effects are only tracked for top-level maps, top-level bind closures and handlers.
    check_reads (C07): an observer of a variable returns, between stabilisations, the value that variable had
    when the last stabilise was called — never a value the variable did not hold."""
    return _oracle_vars_sim(src, ops, check_reads)


def _apply_effect(e, logical, pending, deferred, arg):
    """returns (observable kind, expected value) or None"""
    k = e[0]
    if k in ("read", "stabilise", "panic"):
        return ("skip", None)
    x = int(e[1])

    def cur():
        return pending[x] if (deferred and x in pending) else logical[x]

    def write(v):
        if deferred:
            pending[x] = v
        else:
            logical[x] = v
    if k == "set":
        write(int(e[2]))
    elif k == "setarg":
        write(arg)
    elif k in ("update", "modify"):
        from checks.ref import as_int
        write(as_int(cur()) + int(e[2]))
    elif k == "replace":
        old = cur()
        write(int(e[2]))
        return ("effreplace", x, old)
    elif k == "replacewith":
        from checks.ref import as_int
        old = cur()
        write(as_int(old) + int(e[2]))
        return ("effreplace", x, old)
    elif k == "get":
        return ("effget", x, logical[x])
    return None


def _oracle_vars_sim(src, ops, check_reads=False):
    ref = Ref()
    rank_of_handle, effs_of_node, effs_of_bind, kids, var_of_rank, subs = {}, {}, {}, {}, {}, {}
    poisoned = False
    last_pre = None      # the variables' values when the last completed stabilise was called
    for op in ops:
        line = src[op.idx]
        k = T.parse_op(line)
        name = k[0]
        if op.result.startswith("panic"):
            poisoned = True
        if check_reads and not poisoned and name == "read" and op.result.startswith("v:") and last_pre is not None:
            ob = ref.obs[k[1]] if k[1] < len(ref.obs) else None
            if ob is not None and ob["expr"][0] == "var" and ob["expr"][1] < len(last_pre) \
                    and ref.cutoffs.get(ob.get("handle")) in (None, "eq", "never"):
                want = show(last_pre[ob["expr"][1]])
                if op.result[2:] != want:
                    return (f"op {op.idx} `{line}`: the observer of variable {ob['expr'][1]} returns {op.result[2:]}; "
                            f"the variable's value when the last stabilise was called is {want}")
        if not poisoned and name in ("get", "replace", "replacewith"):
            want = "val " + show(ref.store[k[1]])
            if op.result != want:
                return f"op {op.idx} `{line}`: returned {op.result}, the variable's logical value is {want[4:]}"
        ref.step(line)
        if op.result.startswith("node "):
            r = int(op.result.split()[1])
            rank_of_handle[len(ref.handles) - 1] = r
            if name in ("var", "pair"):
                var_of_rank[r] = len(ref.store) - 1
            elif name == "map":
                effs_of_node[r] = k[2]
                kids[r] = k[3]
            elif name == "bind":
                effs_of_bind[r - 1] = k[2]["effs"]
        if name == "subscribe" and op.result.startswith("tok "):
            subs[(k[1], int(op.result.split()[1]))] = k[3]
        if poisoned or name != "stabilise":
            continue
        logical = list(ref.store)
        pre = list(ref.store)
        pending = {}
        buffered = []       # observable effect events seen and not yet attributed (they precede their `inv`)
        expect = []         # observable events expected next (after a bindrun / upd)
        applied_pending = False
        for e in op.events:
            kind = e.split(" ", 1)[0]
            if kind in ("effget", "effreplace"):
                t = e.split()
                got = (kind, int(t[1]), t[2])
                if expect:
                    w = expect.pop(0)
                    if (w[0], w[1], show(w[2])) != got:
                        return f"op {op.idx}: `{e}` but the write machine says {w[0]} {w[1]} {show(w[2])}"
                else:
                    buffered.append((got, e))
            elif kind == "inv":
                n = int(e.split()[1])
                # readers of a variable see the pre-stabilise value
                if n in kids:
                    args = e[e.index("[") + 1:e.index("]")].split()
                    for a, h in zip(args, kids[n]):
                        r = rank_of_handle.get(h)
                        if r in var_of_rank and a != show(pre[var_of_rank[r]]):
                            return (f"op {op.idx}: node {n} read variable {var_of_rank[r]} as {a}; its value when stabilise "
                                    f"was called is {show(pre[var_of_rank[r]])}")
                effs = effs_of_node.get(n)
                if effs is None:
                    buffered = []
                    continue
                arg0 = None
                for ef in effs:
                    w = _apply_effect(ef, logical, pending, True, arg0)
                    if w and w[0] != "skip":
                        if not buffered:
                            return f"op {op.idx}: expected an event {w[0]} {w[1]} before `{e}`"
                        got, raw = buffered.pop(0)
                        if (w[0], w[1], show(w[2])) != got:
                            return f"op {op.idx}: `{raw}` but the write machine says {w[0]} {w[1]} {show(w[2])}"
                buffered = []
            elif kind == "bindrun":
                L = int(e.split()[1])
                for ef in effs_of_bind.get(L, []):
                    w = _apply_effect(ef, logical, pending, True, None)
                    if w and w[0] != "skip":
                        expect.append(w)
            elif kind == "upd":
                if not applied_pending:
                    for x, v in pending.items():
                        logical[x] = v
                    pending = {}
                    applied_pending = True
                f = dict(x.split("=") for x in e.split()[1:4])
                effs = subs.get((int(f["obs"]), int(f["tok"])), [])
                for ef in effs:
                    w = _apply_effect(ef, logical, pending, False, None)
                    if w and w[0] != "skip":
                        expect.append(w)
        if not applied_pending:
            for x, v in pending.items():
                logical[x] = v
        ref.store = logical
        if op.result.startswith("ok"):
            last_pre = pre
    return None


# ---------------------------------------------------------------- C06: cutoffs gate propagation
def _mapref_input_has_other_cutoff(nodes, r, nondefault):
    """some node on the chain of inputs of map_ref r (through further map_refs) was given a cutoff"""
    seen = 0
    while seen < 64:
        n = nodes.get(r)
        if n is None or n["kind"] != "MapRef" or not n.get("children"):
            return False
        r = n["children"][0]
        if r in nondefault:
            return True
        seen += 1
    return False


def _mapref_over_map_with_old(nodes, r):
    """node r is a map_ref whose input, through further map_refs, is a map_with_old node"""
    seen = 0
    while seen < 64:
        n = nodes.get(r)
        if n is None or n["kind"] != "MapRef" or not n.get("children"):
            return False
        r = n["children"][0]
        c = nodes.get(r)
        if c is not None and c["kind"] == "MapWithOld":
            return True
        seen += 1
    return False


def oracle_cutoffs(src, ops, tail):
    prev = None
    rank_of_handle = {}
    nh = 0
    always, never = {}, set()        # node rank -> changed_at frozen at; never set
    fncut = set()                    # top-level nodes that currently have a function cutoff
    given_cutoff = set()             # top-level nodes that were ever given a cutoff explicitly
    unnec_since = set()              # map_ref nodes that were unnecessary at some point since they last ran
    plain, nondefault = {}, set()    # top-level nodes made by an ordinary combinator; those ever given a cutoff
    computed = {}                    # node rank -> value it had at the end of the stabilise that last recomputed it
    var_rank, written = [], set()    # variable index -> rank of its watch node; variables written since the last stabilise
    for op in ops:
        line = src[op.idx]
        word = line.split()[0]
        if word in ("var", "pair", "varmap") and op.result.startswith("node "):
            var_rank.append(int(op.result.split()[1]))
        if word in ("set", "setpair", "setmap", "update", "modify", "replace", "replacewith") and not op.result.startswith("panic"):
            x = int(line.split()[1])
            if x < len(var_rank):
                written.add(x)
        if op.result.startswith("node "):
            rank_of_handle[nh] = int(op.result.split()[1])
            if word in ("var", "pair", "const", "map", "mapref", "fold", "zip", "bind"):
                plain.setdefault(rank_of_handle[nh], word)
            else:
                nondefault.add(rank_of_handle[nh])
            nh += 1
        if word == "cutoff":
            nondefault.add(rank_of_handle.get(int(line.split()[1])))
            given_cutoff.add(rank_of_handle.get(int(line.split()[1])))
        if op.result.startswith("panic"):
            return None
        if word == "cutoff" and op.nodes:
            t = line.split()
            r = rank_of_handle.get(int(t[1]))
            always.pop(r, None)
            never.discard(r)
            fncut.discard(r)
            if t[2].startswith("fn:") or t[2].startswith("boxed:"):
                fncut.add(r)
            n = op.nodes.get(r)
            if n is not None:
                if t[2] == "always" and n["val"] != "-":
                    always[r] = n["chg"]
                elif t[2] == "always":
                    always[r] = None
                elif t[2] == "never":
                    never.add(r)
        if word == "stabilise" and op.result.startswith("ok") and op.nodes and prev is not None and prev.nodes:
            t = int(prev.dump["stab"])
            ran = [ev_node(e) for e in op.events if ev_kind(e) == "inv"]
            for d in ran:
                before, after = prev.nodes.get(d), op.nodes.get(d)
                if before is None or after is None or before["rec"] == -1 or not after["valid"]:
                    continue
                if before["kind"] == "BindMain":
                    continue
                kids = before["children"]
                ok = False
                for c in kids:
                    ca = op.nodes.get(c)
                    if ca is None or not ca["valid"] or ca["chg"] > before["rec"]:
                        ok = True
                if not ok:
                    return (f"op {op.idx}: the function of node {d} was re-invoked although none of its inputs {kids} "
                            f"produced an unsuppressed result since it last ran (round {before['rec']})")
            for c, cn in op.nodes.items():
                if cn is None or cn["chg"] != t or not cn["valid"]:
                    continue
                for d in cn["parents"]:
                    dn = op.nodes.get(d)
                    if dn is None or not dn["valid"] or not necessary(dn):
                        continue
                    if dn["kind"] in ("Expert",):
                        continue
                    if dn["rec"] != t:
                        return (f"op {op.idx}: node {c} changed in this stabilise (round {t}) but its needed dependant {d} "
                                f"was not recomputed (recomputed_at {dn['rec']})")
            # a write makes the watch node stale: if it is needed it is recomputed, and Never lets even an equal
            # value through
            for x in sorted(written):
                r = var_rank[x]
                before, after = prev.nodes.get(r), op.nodes.get(r)
                if before is None or after is None or not after["valid"] or not necessary(before) or not necessary(after):
                    continue
                if after["rec"] != t:
                    return (f"op {op.idx}: variable {x} was written since the last stabilise and its watch node {r} is needed, "
                            f"but it was not recomputed (recomputed_at {after['rec']}, round {t})")
                if r in never and after["chg"] != t:
                    return (f"op {op.idx}: variable {x} (Cutoff::Never) was written since the last stabilise but its watch node {r} "
                            f"was not stamped as changed (changed_at {after['chg']}, round {t})")
            # the default cutoff: a result equal to the previous value is not a change
            for r, made in plain.items():
                if r in nondefault:
                    continue
                before, after = prev.nodes.get(r), op.nodes.get(r)
                if before is None or after is None or not before["valid"] or not after["valid"]:
                    continue
                if before["val"] == "-" or before["rec"] == -1 or after["val"] != computed.get(r) or after["rec"] != t or after["chg"] != t:
                    continue
                if after["kind"] in ("MapWithOld", "BindLhs", "Expert"):
                    continue
                if after["kind"] == "MapRef" and _mapref_input_has_other_cutoff(op.nodes, r, given_cutoff):
                    continue     # an input whose own cutoff suppressed a different value changed silently: the map_ref's
                                 # previous value is then not the one it had when it last ran
                if after["kind"] == "MapRef" and r in unnec_since:
                    return (f"op {op.idx}: node {r} is a map_ref that became necessary again after an unobserved period: it was "
                            f"stamped as changed (round {t}) although its value {after['val']} is equal to the one it had when it "
                            f"last ran")
                if after["kind"] == "MapRef" and _mapref_over_map_with_old(op.nodes, r):
                    return (f"op {op.idx}: node {r} is a map_ref whose input is a map_with_old node: it was stamped as changed "
                            f"(round {t}) although its value {after['val']} is equal to the previous one")
                return (f"op {op.idx}: node {r} ({made}, default cutoff) was recomputed to an equal value {after['val']} "
                        f"but stamped as changed (round {t})")
            for r, n in op.nodes.items():
                if n is not None and n["valid"] and n["rec"] == t:
                    computed[r] = n["val"]      # a map_ref's value reads through to its input: remember what it was when it last ran
                    unnec_since.discard(r)
            # function cutoffs see (old, new)
            evs = op.events
            for i, e in enumerate(evs):
                if ev_kind(e) == "cut" and i > 0 and ev_kind(evs[i - 1]) == "inv":
                    n = ev_node(evs[i - 1])
                    if n not in fncut:
                        continue     # the cutoff consulted here is that of a map_ref over n (MapRef::child_changed), not n's
                    res = evs[i - 1].rsplit("-> ", 1)[1]
                    old, new = e.split()[1], e.split()[2]
                    before = prev.nodes.get(n)
                    if new != res:
                        return f"op {op.idx}: cutoff of node {n} was given new value {new}, the function returned {res}"
                    if before is not None and before["val"] != "-" and before["valid"] and old != before["val"]:
                        return f"op {op.idx}: cutoff of node {n} was given old value {old}, the previous value was {before['val']}"
            for r in list(always):
                n = op.nodes.get(r)
                if n is None or not n["valid"] or n["kind"] in ("MapWithOld", "MapRef"):
                    continue       # map_with_old decides by its returned flag; map_ref compares projections
                if always[r] is None:
                    if n["val"] != "-":
                        always[r] = n["chg"]
                elif n["chg"] != always[r]:
                    return f"op {op.idx}: node {r} has Cutoff::Always but its changed_at moved from {always[r]} to {n['chg']}"
            for r in never:
                n = op.nodes.get(r)
                if n is not None and n["valid"] and n["rec"] == t and n["chg"] != t and n["kind"] not in ("MapRef", "MapWithOld"):
                    return f"op {op.idx}: node {r} has Cutoff::Never, was recomputed in round {t} but changed_at is {n['chg']}"
        if word == "stabilise" and op.result.startswith("ok"):
            written = set()
        if op.nodes:
            for r, n in op.nodes.items():
                if n is not None and n["kind"] == "MapRef" and not necessary(n):
                    unnec_since.add(r)
            prev = op
    return None


# ---------------------------------------------------------------- C20: memoised functions
def oracle_memo(src, ops, tail):
    """C20 on a trace with dumps.  For every call of a memoised function from top level: if the node
    last returned for the key is still allocated (the dump before the call lists it as live) the call
    returns that node and the underlying function does not run; if it is gone (or the key is new) the
    function runs.  A node the program still holds a handle to is never recomputed by a call from
    inside a closure either.  Nodes the function creates at top level belong to the scope in which
    weak_memoize_fn was called (top).  Values and validity of everything observed are checked by the
    value oracle."""
    why = oracle_values(src, ops, tail, check_frame=False)
    if why:
        return why
    dynamic = any("memonew" in l and not l.startswith("memonew") for l in src)
    table = {}           # (m, key) -> rank | "?" (changed by a call we could not see the result of)
    handle_rank = []     # per node handle: rank or None; dropped handles -> None
    prev_nodes = {}
    for op in ops:
        if op.idx >= len(src):
            break
        line = src[op.idx]
        word = line.split()[0]
        if op.result.startswith("panic"):
            if "InvalidScope" in op.result and not dynamic:
                return f"op {op.idx} `{line}`: {op.result} although every memoised function was created at top level"
            break
        memofns = [tuple(int(x) for x in e.split()[1:3]) for e in op.events if e.startswith("memofn")]
        held = {r for r in handle_rank if r is not None}
        if word == "memocall":
            m, k = int(line.split()[1]), int(line.split()[2])
            r = int(op.result.split()[1])
            prev = table.get((m, k))
            ran = (m, k) in memofns
            if memofns.count((m, k)) > 1:
                return f"op {op.idx} `{line}`: the underlying function ran {memofns.count((m, k))} times for one call"
            if prev != "?":
                alive = prev is not None and prev_nodes.get(prev) is not None
                if alive and (ran or r != prev):
                    return (f"op {op.idx} `{line}`: node {prev} returned earlier for this key is still allocated, but the call "
                            f"{'ran the underlying function' if ran else ''} and returned node {r}")
                if not alive and not ran:
                    return (f"op {op.idx} `{line}`: no live node for this key (previous: {prev}) but the underlying function "
                            f"did not run; returned node {r}")
                if not alive and prev is not None and r == prev:
                    return f"op {op.idx} `{line}`: returned the dead node {prev}"
            for mk in memofns:
                if mk != (m, k):
                    if table.get(mk) not in (None, "?") and table[mk] in held:
                        return f"op {op.idx} `{line}`: underlying function ran for {mk} although node {table[mk]} is held by the program"
                    table[mk] = "?"
            table[(m, k)] = r
            if ran and not dynamic and op.nodes:
                for rank, n in op.nodes.items():
                    if n is not None and rank not in prev_nodes and n["scope"] != "T":
                        return (f"op {op.idx} `{line}`: node {rank} created by the memoised function at top level has scope "
                                f"{n['scope']} instead of the scope weak_memoize_fn was called in (top)")
        else:
            for mk in memofns:
                if table.get(mk) not in (None, "?") and table[mk] in held:
                    return (f"op {op.idx} `{line}`: underlying function ran for {mk} although node {table[mk]} "
                            "returned earlier is still held by the program")
                table[mk] = "?"
        # handle table
        if op.result.startswith("node "):
            handle_rank.append(int(op.result.split()[1]))
        elif word == "dropnode":
            h = int(line.split()[1])
            if h < len(handle_rank):
                handle_rank[h] = None
        if op.nodes:
            prev_nodes = op.nodes
    return None


# ---------------------------------------------------------------- C14: expert nodes
def oracle_expert(src, ops, tail):
    """C14 on a trace with dumps: no panic; observed values equal the reference (for the callback-fed
    flavour this means every change callback was delivered with the child's current value before the
    recompute); an expert node is invalid only if one of the dependencies it had at that point is
    invalid (or it was invalidated explicitly); make_stale from a child forces one recompute, and no
    stabilise runs the recompute function of one node twice."""
    why = oracle_no_panic(src, ops, tail)
    if why:
        return why
    why = oracle_values(src, ops, tail, check_frame=False)
    if why:
        return why
    explicit = any("invalidate:" in l or l.startswith("invalidateexpert") for l in src)
    for op in ops:
        if op.idx >= len(src):
            break
        runs = {}
        for e in op.events:
            if e.startswith("exrun "):
                n = int(e.split()[1])
                runs[n] = runs.get(n, 0) + 1
                if runs[n] > 1:
                    return f"op {op.idx} `{src[op.idx]}`: the recompute function of expert node {n} ran {runs[n]} times in one stabilise"
        # make_stale from a child's function: the node recomputes in that stabilise (if it is needed and valid)
        if src[op.idx] == "stabilise" and op.nodes:
            for e in op.events:
                if not e.startswith("inv "):
                    continue
                n = int(e.split()[1])
                # which source line created node n? handles are in creation order of `node` results
                line = node_source(src, ops, n)
                if line is None:
                    continue
                for m in _re.finditer(r"invalidate:(\d+)", line):
                    en = handle_rank(src, ops, int(m.group(1)))
                    x = op.nodes.get(en) if en is not None else None
                    if x is not None and x["valid"]:
                        return f"op {op.idx}: node {n} invalidated expert node {en}, which is still valid after the stabilise"
                    for r2, y in op.nodes.items():
                        if y is not None and y["valid"] and en in y["children"] and (y["parents"] or y["obs"] > 0):
                            return (f"op {op.idx}: expert node {en} was invalidated but its needed dependant {r2} is still valid")
                for m in _re.finditer(r"makestale:(\d+)", line):
                    en = handle_rank(src, ops, int(m.group(1)))
                    x = op.nodes.get(en) if en is not None else None
                    if x is not None and x["valid"] and (x["parents"] or x["obs"] > 0) and runs.get(en, 0) != 1:
                        return (f"op {op.idx}: node {n} called make_stale on expert node {en}, which is needed and valid, "
                                f"but its recompute function ran {runs.get(en, 0)} times")
        if not explicit:
            for r, x in op.nodes.items():
                if x is None or x["kind"] != "Expert" or x["valid"]:
                    continue
                kids = x["children"]
                if not any(op.nodes.get(k) is None or not op.nodes[k]["valid"] for k in kids):
                    return (f"op {op.idx} `{src[op.idx]}`: expert node {r} is invalid although all the dependencies it has "
                            f"({kids}) are valid and nothing invalidated it explicitly")
    return None


import re as _re


def handle_rank(src, ops, h):
    """rank of the node behind node handle h (handles are numbered in the order `node <rank>` results appear)"""
    k = 0
    for op in ops:
        if op.result.startswith("node "):
            if k == h:
                return int(op.result.split()[1])
            k += 1
    return None


def node_source(src, ops, rank):
    for op in ops:
        if op.result == f"node {rank}" and op.idx < len(src):
            return src[op.idx]
    return None


# ---------------------------------------------------------------- C16 / C17 (per-key part)
def oracle_perkey(src, ops, tail):
    """no panic; the observed output equals the per-entry computation; the user's per-key function is
    invoked at most once per key and stabilise, only for keys of the current input, and — while the
    output stays observed — only for keys that were not in the input at the previous stabilise."""
    why = oracle_no_panic(src, ops, tail) or oracle_values(src, ops, tail, check_frame=False)
    if why:
        return why
    ref = Ref()
    prev_keys, prev_observed = None, False
    for op in ops:
        if op.idx >= len(src):
            break
        line = src[op.idx]
        ref.step(line)
        if line != "stabilise":
            continue
        cur = ref.store[0] if ref.store and isinstance(ref.store[0], dict) else None
        if cur is None:
            continue
        calls = [int(e.split()[2]) for e in op.events if e.startswith("perkeyfn")]
        if len(set(calls)) != len(calls):
            return f"op {op.idx}: the per-key function ran twice for one key in one stabilise: {calls}"
        for k in calls:
            if k not in cur:
                return f"op {op.idx}: the per-key function ran for key {k}, which is not in the input {show(cur)}"
        observed = any(o["state"] == "inuse" and o["handles"] > 0 and _mentions_permapi(o["expr"]) for o in ref.obs)
        if prev_keys is not None and prev_observed and observed:
            for k in calls:
                if k in prev_keys:
                    return (f"op {op.idx}: the per-key function ran again for key {k}, which was already in the input at the "
                            f"previous stabilise (only added keys need their computation built)")
        prev_keys, prev_observed = set(cur), observed
    return None


def _mentions_permapi(e, depth=0):
    if depth > 50 or not isinstance(e, (tuple, list)):
        return False
    if len(e) > 0 and e[0] in ("permapi", "perfilter"):
        return True
    return any(_mentions_permapi(x, depth + 1) for x in e if isinstance(x, (tuple, list)))
