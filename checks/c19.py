"""C19 — misuse and limits panic with a diagnostic; the height limit is exact.
Proofs (Properties/C19.v) + correspondence on generated limit / cycle / nested-stabilise /
cross-state histories in both build profiles + oracle."""
import hashlib
import random
import time

import vlib
from checks import engine_common as ec
from checks import trace as T
import histories

PID = "C19"


def oracle(lines, fam, plan, N0, ops, tail):
    stabs = [op for op in ops if lines[op.idx] == "stabilise"]
    for l in tail:
        if l.startswith("ABORT") or l.startswith("end panic"):
            return "the handles could not be dropped afterwards: " + l
    if fam == "limit":
        # pure chain: needed height = 1 + number of maps; first failure poisons the state
        limit, seen = N0, 0
        it = iter(plan)
        si = 0
        for op in ops:
            line = lines[op.idx]
            if line == "stabilise":
                kind, need = next(p for p in it if p[0] == "stab")
                seen = max(seen, need)
                want_panic = need > limit
                if want_panic != (op.result == "panic HeightLimit"):
                    return (f"op {op.idx}: graph height {need}, limit {limit}: expected "
                            f"{'a HeightLimit panic' if want_panic else 'success'}, got `{op.result}`")
                if want_panic:
                    return None
            elif line.startswith("setmaxheight"):
                M = int(line.split()[1])
                if M < seen:
                    if op.result != "panic SetMaxBelowSeen":
                        return f"op {op.idx}: set_max_height_allowed({M}) below the greatest height in use ({seen}) returned `{op.result}`"
                else:
                    if op.result != "ok":
                        return f"op {op.idx}: set_max_height_allowed({M}) with greatest height in use {seen} returned `{op.result}`"
                    limit = M
            elif line.startswith("read") and not op.result.startswith("read v:"):
                return f"op {op.idx}: admissible graph but the observer read {op.result}"
        return None
    if fam == "cycle":
        if not stabs or stabs[0].result not in ("panic Cycle", "panic HeightLimit"):
            return f"closing a cycle: the stabilise returned `{stabs[0].result if stabs else None}` instead of a panic naming the cycle"
        return None
    if fam == "scopecycle":
        # the second stabilise closes the cycle; the panic has to name the cycle, not the height limit
        if len(stabs) < 2 or stabs[0].result != "ok":
            return f"building the graph: the first stabilise returned `{stabs[0].result if stabs else None}`"
        if stabs[1].result != "panic Cycle":
            return f"closing a cycle through a bind scope: the stabilise returned `{stabs[1].result}` instead of a panic naming the cycle"
        return None
    if fam == "nested":
        if not stabs or stabs[0].result != "panic NestedStabilise":
            return f"nested stabilise returned `{stabs[0].result if stabs else None}`"
        return None
    if fam == "foreign":
        if not stabs or stabs[0].result != "panic CrossState":
            return f"a bind returning a node of another state: `{stabs[0].result if stabs else None}`"
        return None
    return None


def run(tier, seed):
    t0 = time.time()
    pinned = vlib.pinned_theorems(PID)
    ob, di, problems = vlib.proof_stage(PID, pinned)
    model, impl = ec.build(("debug", "release"))
    rng = random.Random(seed * 7919 + 19)
    n = 1500 if tier == "quick" else 40000
    hist = []
    import glob, os
    for f in sorted(glob.glob(os.path.join(vlib.ROOT, "gen", "corpus", PID, "*.txt"))):
        lines = [l.strip() for l in open(f) if l.strip() and not l.startswith("#")]
        mh = 128
        if lines and lines[0].startswith("max_height"):
            mh = int(lines[0].split()[1])
            lines = lines[1:]
        hist.append(("corpus-" + os.path.basename(f)[:-4], mh, lines, "corpus", None))
    for i in range(n):
        s = rng.randrange(1 << 30)
        N, lines, fam, plan = histories.c19_history(s)
        hist.append((f"{fam}-{s}", N, lines, fam, plan))
    mismatches, violations, nontrivial = [], [], set()
    CHUNK = 1500      # dumps after every op: never hold more than one chunk of outputs
    for prof, chunk in [(p_, hist[i:i + CHUNK]) for p_ in ("debug", "release") for i in range(0, len(hist), CHUNK)]:
        dbg = 1 if prof == "debug" else 0
        texts = [(hid, ec.history_text(hid, lines, max_height=N, debug=dbg, dump=1)) for hid, N, lines, fam, plan in chunk]
        mo = ec.run_all(model, texts)
        io = ec.run_all(impl[prof], texts)
        del texts
        for hid, N, lines, fam, plan in chunk:
            ml, il = ec.normalise(mo.get(hid, [])), ec.normalise(io.get(hid, []))
            d = ec.first_diff(ml, il)
            if d:
                mismatches.append(dict(history=hid, profile=prof, at=d[0], model=d[1], implementation=d[2], source=lines, max_height=N))
            ops, tail = T.parse_trace(io.get(hid, []))
            why = oracle(lines, fam, plan, N, ops, tail)
            if why:
                violations.append(dict(history=hid, profile=prof, source=lines, max_height=N, oracle=why))
            nontrivial.add(hashlib.sha1((str(N) + "\n".join(lines)).encode()).hexdigest())
    rc = 0
    if violations:
        v = min(violations, key=lambda v: len(v["source"]))
        path = vlib.write_replay(PID, dict(property=PID, kind="failing-input", **v, other_failures=len(violations) - 1))
        vlib.report_violation(PID, path, True)
        rc = 1
    elif mismatches or problems:
        path = vlib.write_replay(PID, dict(property=PID, kind="proof-or-correspondence-broken", broken_proof_obligations=problems,
                                           correspondence="engine model E vs crate on limit/misuse histories" if mismatches else None,
                                           first_disagreements=mismatches[:3]))
        vlib.report_violation(PID, path, False)
        rc = 1
    fams = {}
    for h in hist:
        fams[h[3]] = fams.get(h[3], 0) + 1
    cov = dict(obligations=ob, discharged=di, checker_cmd="make -C coq && coqc theories/Properties/C19.v (Print Assumptions)",
               trusted_base=vlib.TRUSTED_BASE, evaluations=2 * len(hist), distinct_nontrivial=len(nontrivial),
               rule="generated histories of five families " + str(fams) + ": chains of height N-3..N+1 for N in 1..8 on new_with_height(N) "
                    "with growing/shrinking set_max_height_allowed at quiescent points, the same through binds, cycles through one or two "
                    "binds and 1-3 other nodes, stabilise from a node function or a handler, a bind returning a node of another state; "
                    "both build profiles, full state compared after every op; every history is non-trivial; distinct by hash",
               traces_validated_against_impl=2 * len(hist), disagreements=len(mismatches), oracle_failures=len(violations),
               samples=[hist[-1][2], hist[-2][2]], proof_problems=problems)
    vlib.write_evidence(PID, tier, seed, "proof" if not problems else "other", cov,
                        ["heights are the engine's notion: 1 + longest path through child and scope edges (a var has height 1)",
                         "the cross-state case uses a second IncrState inside the harness"],
                        time.time() - t0, len(violations) if violations else (1 if rc else 0))
    return rc
