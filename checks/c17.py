from checks import maps_seq, maps_common as mc
def run(tier, seed):
    return maps_seq.run("C17", mc.oracle_work, "oracle: user functions run only for keys that differ between the previous and the current input, once per key and role", tier, seed)
