"""Correspondence machinery for the engine model E: build both sides, run histories through the
extracted model (ocaml/enginerun) and the Rust harness (harness/src/bin/engine.rs), compare traces."""
import os
import re
import subprocess
import sys
import threading

import vlib

sys.path.insert(0, os.path.join(vlib.ROOT, "gen"))


def build(profiles=("debug",)):
    model = vlib.build_ocaml("enginerun", "ExtractEngine.v", "enginerun.ml", "enginemodel")
    impl = {}
    for prof in profiles:
        impl[prof] = vlib.build_harness(["engine"], profile=prof, hooks=True)["engine"]
    return model, impl


def history_text(hid, lines, max_height=128, debug=1, dump=0, fuel=3000):
    return f"history {hid} max_height={max_height} debug={debug} dump={dump} fuel={fuel}\n" + "\n".join(lines) + "\n"


def split_output(text):
    """output of either side -> {history id: [lines]}"""
    out, cur = {}, None
    for line in text.split("\n"):
        if line.startswith("history "):
            cur = line.split()[1]
            out[cur] = []
        elif cur is not None and line != "":
            out[cur].append(line)
    return out


def run_batch(exe, texts, timeout=600):
    """run one process over a batch of histories; returns (stdout, returncode)"""
    p = subprocess.run(["bash", "-c", f"ulimit -s unlimited; exec {exe}"], input="".join(texts), stdout=subprocess.PIPE,
                       stderr=subprocess.DEVNULL, text=True, timeout=timeout)
    return p.stdout, p.returncode


def run_all(exe, hist, shards=None, timeout=900):
    """hist: list of (id, text).  Runs in parallel batches; a batch whose process dies is re-run one
    history per process so that an abort is an outcome of that history only."""
    shards = shards or vlib.NPROC
    shards = max(1, min(shards, len(hist) // 20 + 1))
    chunks = [hist[i::shards] for i in range(shards)]
    results = {}
    lock = threading.Lock()

    def work(ch):
        try:
            out, rc = run_batch(exe, [t for _, t in ch], timeout)
        except subprocess.TimeoutExpired:
            out, rc = "", -9
        got = split_output(out)
        missing = [(i, t) for i, t in ch if i not in got or (rc != 0 and i == list(got)[-1] if got else True)]
        for i, t in missing:
            try:
                o, rc1 = run_batch(exe, [t], 120)
            except subprocess.TimeoutExpired:
                o, rc1 = "", -9
            g = split_output(o).get(i, [])
            if rc1 != 0:
                g = g + [f"ABORT rc={rc1}"]
            got[i] = g
        with lock:
            results.update(got)

    ths = [threading.Thread(target=work, args=(ch,)) for ch in chunks]
    for t in ths:
        t.start()
    for t in ths:
        t.join()
    return results


SITE_RE = re.compile(r"^(op \d+ panic [A-Za-z]+):\d+$")


def normalise(lines, keep_dump=True, keep_events=True):
    out = []
    for l in lines:
        if l.startswith("#"):
            continue
        if l.startswith("end "):
            continue
        if l.startswith("d ") and not keep_dump:
            continue
        if l.startswith("e ") and not keep_events:
            continue
        m = SITE_RE.match(l)
        if m:
            l = m.group(1)
        if l.startswith("d n ") and (" val=Some(" in l or " val=None " in l):
            # the per-key function of incr_filter_mapi_ returns an Option; the model writes None as () and Some(x) as x
            l = re.sub(r" val=Some\((.*)\) cutoff=", r" val=\1 cutoff=", l).replace(" val=None ", " val=() ")
        out.append(l)
    # callbacks of one stabilise run in HashMap order (observers of a node, handlers of an observer):
    # sort maximal runs of consecutive `upd` events
    res, run = [], []
    for l in out:
        if l.startswith("e upd "):
            run.append(l)
        else:
            res.extend(sorted(run))
            run = []
            res.append(l)
    res.extend(sorted(run))
    return res


def dead_ranks(impl_lines):
    """per op index: set of node ranks the implementation reports dead"""
    dead, cur = {}, -1
    for l in impl_lines:
        if l.startswith("op "):
            cur = int(l.split()[1])
            dead[cur] = set()
        elif l.startswith("d n ") and l.endswith(" dead"):
            dead[cur].add(int(l.split()[2]))
    return dead


def drop_dead(lines, dead):
    """remove the dump lines of nodes that are dead in the implementation (the model of this stage
    keeps freed nodes around; nothing can refer to them)"""
    out, cur = [], -1
    for l in lines:
        if l.startswith("op "):
            cur = int(l.split()[1])
        if l.startswith("d n "):
            r = int(l.split()[2])
            if r in dead.get(cur, ()):
                continue
        out.append(l)
    return out


def first_diff(a, b):
    for i, (x, y) in enumerate(zip(a, b)):
        if x != y:
            return i, x, y
    if len(a) != len(b):
        i = min(len(a), len(b))
        return i, (a[i] if i < len(a) else "<end>"), (b[i] if i < len(b) else "<end>")
    return None


def compare(model_lines, impl_lines, keep_dump=True):
    m = normalise(model_lines, keep_dump)
    i = normalise(impl_lines, keep_dump)
    return first_diff(m, i)
