"""Correspondence machinery for the incremental-map operators (C15, C17, C18):
case generation, translation of a harness command into the model command, alignment of
per-round results, and the python-side oracles (the plain definitions)."""
import itertools
import random


def show_map(m):
    return "{" + " ".join(f"{k}:{m[k]}" for k in sorted(m)) + "}"


def all_maps(keys, vals):
    out = []
    for combo in itertools.product([None] + list(vals), repeat=len(keys)):
        out.append({k: v for k, v in zip(keys, combo) if v is not None})
    return out


def rand_map(rng, nkeys, nvals, density=0.6, keybase=0):
    return {keybase + k: rng.randrange(nvals) for k in range(nkeys) if rng.random() < density}


def edit_map(rng, m, nkeys, nvals):
    """one realistic edit: insert, delete, change, empty, refill, or nothing"""
    m = dict(m)
    r = rng.random()
    if r < 0.08:
        return {}
    if r < 0.16:
        return rand_map(rng, nkeys, nvals)
    if r < 0.24:
        return m
    n = rng.choice([1, 1, 1, 2, 3])
    for _ in range(n):
        k = rng.randrange(nkeys)
        c = rng.random()
        if c < 0.35 and k in m:
            del m[k]
        elif c < 0.7 and m:
            k2 = rng.choice(sorted(m))
            m[k2] = rng.randrange(nvals)
        else:
            m[k] = rng.randrange(nvals)
    return m


# ---- python mirror of Model/Fns.v (used only by the oracles) ----
def fm_fn(i, k, v):
    if i == 0:
        return v + 1
    if i == 1:
        return v * 10 if v % 2 == 0 else None
    if i == 2:
        return k * 100 + v
    return None if (k + v) % 3 == 0 else k + v


def uf_add(i, acc, k, v):
    return acc + v if i == 0 else acc + k * v if i == 1 else acc + (k * 7 + v * v)


def mg_fn(i, k, x, y):
    if i == 0:
        return x if y is None else 1000 + y if x is None else x * y + 5
    if i == 1:
        return x + y if x is not None and y is not None else None
    if y is None:
        return x if k % 2 == 0 else None
    if x is None:
        return k + y
    return None if x == y else x - y


def pt_fn(i, k, v):
    if i == 0:
        return ("L", v) if v % 2 == 0 else ("R", v + 1)
    return ("L", k + v) if k % 2 == 0 else ("R", k - v)


def plain_fm(i, m):
    return {k: fm_fn(i, k, v) for k, v in m.items() if fm_fn(i, k, v) is not None}


def plain_uf(i, init, m):
    acc = init
    for k in sorted(m):
        acc = uf_add(i, acc, k, m[k])
    return acc


def plain_mg(i, l, r):
    out = {}
    for k in set(l) | set(r):
        v = mg_fn(i, k, l.get(k), r.get(k))
        if v is not None:
            out[k] = v
    return out


def plain_pt(i, m):
    a, b = {}, {}
    for k, v in m.items():
        s, w = pt_fn(i, k, v)
        (a if s == "L" else b)[k] = w
    return a, b


def symdiff_keys(a, b):
    return {k for k in set(a) | set(b) if a.get(k) != b.get(k)}


# ---- a sequence case ----
class Seq:
    """op in fm|fmv|uf|mg|pt; params: list of strings; rounds: list of (observed, input) where input is a
    dict (or a pair of dicts for mg)"""

    def __init__(self, ty, op, params, rounds, nocut=False):
        self.ty, self.op, self.params, self.rounds = ty, op, params, rounds
        self.nocut = nocut          # the input variables never cut off: the operator also recomputes on an equal input

    def show_in(self, x):
        return show_map(x[0]) + "/" + show_map(x[1]) if self.op == "mg" else show_map(x)

    def harness_line(self):
        toks = [("+" if o else "-") + self.show_in(x) for o, x in self.rounds]
        return " ".join([self.ty + ("!" if self.nocut else ""), self.op] + self.params + toks)

    def step_rounds(self):
        """rounds in which the operator's closure runs: observed and input differs from the input of the
        previous run (the var's PartialEq cutoff), or first observed round"""
        steps, last = [], None
        for i, (o, x) in enumerate(self.rounds):
            if o and (last is None or x != last or self.nocut):
                steps.append(i)
                last = x
        return steps

    def model_line(self):
        op = "fm" if self.op == "fmv" else self.op
        toks = [self.show_in(self.rounds[i][1]) for i in self.step_rounds()]
        return " ".join([op] + self.params + toks)

    def expected(self, model_out):
        """per-round expected harness entries derived from the model's per-step results"""
        steps = self.step_rounds()
        msteps = [s for s in model_out.split(" | ")] if model_out.strip() else []
        if len(msteps) != len(steps):
            return None
        exp, last_out, si = [], None, 0
        for i, (o, x) in enumerate(self.rounds):
            if not o:
                exp.append("unobs calls=")
                continue
            if si < len(steps) and steps[si] == i:
                ent = msteps[si]
                si += 1
                out, c, calls = parse_entry(ent)
                if si == 1:
                    c = "1"      # the downstream probe node always runs the first time it is needed
                calls = self.translate_calls(calls, x)
                last_out = out
                exp.append(f"{out} c={c} calls={calls}")
            else:
                exp.append(f"{last_out} c=0 calls=")
        return " | ".join(exp)

    def translate_calls(self, calls, x):
        if calls == "":
            return calls
        if self.op == "fmv":
            return ",".join("v%d" % x[int(k)] for k in calls.split(","))
        if self.op == "pt":
            return ",".join(c[1:] for c in calls.split(",") if c[0] in "AU")
        return calls


def parse_entry(ent):
    # "<out> c=<b> calls=<...>"
    i = ent.rindex(" c=")
    out = ent[:i]
    rest = ent[i + 3:]
    c, calls = rest.split(" calls=")
    return out, c, calls


def parse_map(s):
    s = s.strip()
    body = s[1:-1].split()
    return {int(kv.split(":")[0]): int(kv.split(":")[1]) for kv in body}


def gen_seq(rng, op, ty, nkeys=5, nvals=4, maxrounds=8, unobserve=True):
    n = rng.randrange(2, maxrounds + 1)
    rounds = []
    if op == "mg":
        cur = (rand_map(rng, nkeys, nvals), rand_map(rng, nkeys, nvals))
    else:
        cur = rand_map(rng, nkeys, nvals)
    obs = True
    for i in range(n):
        if i > 0:
            if op == "mg":
                w = rng.random()
                cur = (edit_map(rng, cur[0], nkeys, nvals) if w < 0.7 else cur[0],
                       edit_map(rng, cur[1], nkeys, nvals) if w > 0.3 else cur[1])
            else:
                cur = edit_map(rng, cur, nkeys, nvals)
        if unobserve and rng.random() < 0.25:
            obs = not obs
        rounds.append((obs if i > 0 or rng.random() < 0.9 else False, cur))
    if op in ("fm",):
        params = [str(rng.choice([0, 1, 2, 3]))]
    elif op == "fmv":
        params = [str(rng.choice([0, 1]))]
    elif op == "uf":
        params = [str(rng.choice([0, 1, 2])), str(rng.choice([0, 1])), str(rng.choice([0, 1])),
                  str(rng.choice([0, 100]))]
    elif op == "mg":
        params = [str(rng.choice([0, 1, 2]))]
    else:
        params = [str(rng.choice([0, 1]))]
    return Seq(ty, op, params, rounds, nocut=rng.random() < 0.3)


OP_TYPES = {
    "fm": ["bt", "rc", "om"], "fmv": ["bt", "rc", "om"], "uf": ["bt", "rc", "om"],
    "mg": ["bt", "om"], "pt": ["om"],
}


def oracle_values(seq, harness_out):
    """C15: every observed round's output equals the plain function of the current input.
    Returns None if fine, else a description."""
    ents = harness_out.split(" | ")
    if len(ents) != len(seq.rounds):
        return f"expected {len(seq.rounds)} round entries, got {len(ents)}: {harness_out[:200]}"
    for i, ((o, x), ent) in enumerate(zip(seq.rounds, ents)):
        if not o:
            if not ent.startswith("unobs"):
                return f"round {i}: expected unobserved entry, got {ent}"
            continue
        try:
            out, c, calls = parse_entry(ent)
        except ValueError:
            return f"round {i}: unparsable entry {ent}"
        p = seq.params
        if seq.op in ("fm", "fmv"):
            want = show_map(plain_fm(int(p[0]), x))
        elif seq.op == "uf":
            want = str(plain_uf(int(p[0]), int(p[3]), x))
        elif seq.op == "mg":
            want = show_map(plain_mg(int(p[0]), x[0], x[1]))
        else:
            a, b = plain_pt(int(p[0]), x)
            want = show_map(a) + "/" + show_map(b)
        if out != want:
            return f"round {i}: output {out} but the plain definition gives {want}"
    return None


def oracle_work(seq, harness_out):
    """C17: user functions are invoked only for keys that differ between the previous and the current
    input, at most once per key and role, except when (re)initialising or emptying; none while unobserved."""
    ents = harness_out.split(" | ")
    if len(ents) != len(seq.rounds):
        return f"expected {len(seq.rounds)} round entries, got {len(ents)}"
    steps = set(seq.step_rounds())
    last = None
    for i, ((o, x), ent) in enumerate(zip(seq.rounds, ents)):
        calls = ent.split(" calls=")[1] if " calls=" in ent else ent.split("calls=")[1]
        calls = [c for c in calls.split(",") if c]
        if not o or i not in steps:
            if calls:
                return f"round {i}: user function invoked ({calls}) although the operator input did not change or it is unobserved"
            continue
        if last is None:
            allowed = set(x[0]) | set(x[1]) if seq.op == "mg" else set(x)
            why = "initial"
        elif seq.op == "mg":
            allowed = symdiff_keys(last[0], x[0]) | symdiff_keys(last[1], x[1])
            why = "diff"
        else:
            if len(x) == 0:
                allowed = set(last)
                why = "emptying"
            else:
                allowed = symdiff_keys(last, x)
                why = "diff"
        seen = set()
        for c in calls:
            if seq.op == "fmv":
                # logged by value: map back to the keys of the current input with that value
                v = int(c[1:])
                ks = {k for k in allowed if x.get(k) == v}
                if not ks:
                    return f"round {i}: call on value {v} which belongs to no changed key ({why}: {sorted(allowed)})"
                continue
            role = c[0] if c[0] in "ARU" else ""
            k = int(c[1:]) if role else int(c)
            if k not in allowed:
                return f"round {i}: user function called for key {k}, not among the changed keys {sorted(allowed)} ({why})"
            if (role, k) in seen:
                return f"round {i}: user function called twice for key {k} role {role or '-'}"
            seen.add((role, k))
        last = x
    return None
