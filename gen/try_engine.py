"""developer tool: run N generated histories through both sides and show the first disagreements"""
import sys, os
sys.path.insert(0, os.path.dirname(os.path.dirname(os.path.abspath(__file__))))
import vlib
from checks import engine_common as ec
import histories

n = int(sys.argv[1]) if len(sys.argv) > 1 else 100
seed0 = int(sys.argv[2]) if len(sys.argv) > 2 else 0
nops = int(sys.argv[3]) if len(sys.argv) > 3 else 25
dump = int(sys.argv[4]) if len(sys.argv) > 4 else 1
model, impl = ec.build()
hist = []
src = {}
for i in range(n):
    lines = histories.history(seed0 + i, nops, os.environ.get('PROFILE','basic'))
    src[str(i)] = lines
    hist.append((str(i), ec.history_text(str(i), lines, dump=dump)))
mo = ec.run_all(model, hist)
io = ec.run_all(impl["debug"], hist)
bad = 0
kinds = {}
for i in range(n):
    d = ec.compare(mo.get(str(i), []), io.get(str(i), []))
    if d:
        bad += 1
        key = (d[1].split()[0:3], d[2].split()[0:3])
        if bad <= int(os.environ.get("SHOW", "3")):
            print(f"--- history {i} (seed {seed0+i}) differs at line {d[0]}:\n  model: {d[1]}\n  impl : {d[2]}")
            ops = [l for l in mo[str(i)][:d[0]+1] if l.startswith("op ")]
            k = int(ops[-1].split()[1]) if ops else 0
            print("  at op", k, ":", src[str(i)][k] if k < len(src[str(i)]) else "?")
            if os.environ.get("FULL"):
                print("\n".join(src[str(i)][:k+1]))
print(f"{bad} / {n} histories disagree")
