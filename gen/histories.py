"""Generator of operation histories in the DSL of coq/theories/Model/Api.v.
Every random choice is drawn from the rng passed in, so a seed replays exactly."""
import random


class Gen:
    def __init__(self, rng, profile=None):
        self.rng = rng
        self.p = dict(DEFAULT_PROFILE)
        if profile:
            self.p.update(profile)
        self.lines = []
        self.nodes = []      # per node handle: dict(kind=...)
        self.vars = []       # per var: dict(node=handle, pair=bool)
        self.obs = []        # per observer: dict(node=handle, handles=int, state='created'|'inuse'|'gone')
        self.subs = []       # per subscription: dict(obs=oid, ok=bool)
        self.n_memos = 0     # functions memoised at top level
        self.memo_limit = None   # while generating the body of memo m: only memos below m may be called
        self.stab = 0

    # ---- helpers
    def emit(self, line):
        self.lines.append(line)

    def pick_node(self, bias_recent=True):
        n = len(self.nodes)
        for _ in range(20):
            if bias_recent and self.rng.random() < 0.5:
                h = self.rng.randrange(max(0, n - 4), n)
            else:
                h = self.rng.randrange(n)
            if not self.nodes[h].get("dropped"):
                return h
        live = [i for i in range(n) if not self.nodes[i].get("dropped")]
        if live:
            return self.rng.choice(live)
        # everything was dropped: make a fresh constant to work with
        self.op_const()
        return len(self.nodes) - 1

    def op_dropnode(self):
        live = [i for i in range(len(self.nodes)) if not self.nodes[i].get("dropped")]
        if len(live) <= 1:
            return
        h = self.rng.choice(live)
        self.emit(f"dropnode {h}")
        self.nodes[h]["dropped"] = True

    def op_dropvar(self):
        live = [i for i, v in enumerate(self.vars) if not v.get("dropped")]
        if len(live) <= 1:
            return
        x = self.rng.choice(live)
        self.emit(f"dropvar {x}")
        self.vars[x]["dropped"] = True

    def effs(self, allow=True):
        out = []
        if allow and self.vars and self.rng.random() < self.p["eff_prob"]:
            for _ in range(self.rng.choice([1, 1, 2])):
                x = self.rng.randrange(len(self.vars))
                if self.vars[x]["pair"]:
                    continue
                k = self.rng.choice(self.p["eff_kinds"])
                if "dropvar" in self.p["eff_kinds"] and self.vars[x].get("dropped"):
                    continue
                if k == "dropvar":
                    # the closure takes over the program's handle and lets it go (after a write, usually)
                    if sum(1 for v in self.vars if not v.get("dropped")) > 1:
                        if self.rng.random() < 0.7:
                            out.append(f"set:{x}:{self.rng.randrange(6)}")
                        out.append(f"dropvar:{x}")
                        self.vars[x]["dropped"] = True
                    continue
                if k == "set":
                    out.append(f"set:{x}:{self.rng.randrange(6)}")
                elif k == "update":
                    out.append(f"update:{x}:{self.rng.choice([1, 2])}")
                elif k == "modify":
                    out.append(f"modify:{x}:{self.rng.choice([1, 3])}")
                elif k == "replace":
                    out.append(f"replace:{x}:{self.rng.randrange(6)}")
                elif k == "replacewith":
                    out.append(f"replacewith:{x}:{self.rng.choice([1, 2])}")
                elif k == "get":
                    out.append(f"get:{x}")
                elif k == "read" and self.obs:
                    live = [i for i, o in enumerate(self.obs) if o["handles"] > 0]
                    if live:
                        out.append(f"read:{self.rng.choice(live)}")
                elif k == "stabilise":
                    out.append("stabilise")
                elif k == "panic":
                    out.append("panic")
        return "[" + " ".join(out) + "]"

    def cutoff(self):
        return self.rng.choice(self.p["cutoffs"])

    # ---- node construction
    def new_node(self, line, kind):
        self.emit(line)
        self.nodes.append(dict(kind=kind))
        return len(self.nodes) - 1

    def op_var(self):
        if len(self.vars) >= self.p["max_vars"]:
            return self.op_map()
        if self.rng.random() < self.p["pair_prob"]:
            h = self.new_node(f"pair {self.rng.randrange(4)} {self.rng.randrange(10, 14)}", "var")
            self.vars.append(dict(node=h, pair=True))
        else:
            h = self.new_node(f"var {self.rng.randrange(6)}", "var")
            self.vars.append(dict(node=h, pair=False))

    def op_const(self):
        self.new_node(f"const {self.rng.randrange(6)}", "const")

    def op_map(self):
        ar = self.rng.choice(self.p["arities"])
        args = [self.pick_node() for _ in range(ar)]
        if self.rng.random() < 0.15 and ar >= 2:
            args[1] = args[0]                      # duplicate inputs
        fid = self.rng.choice(self.p["fids"])
        self.new_node(f"map {fid} {self.effs()} " + " ".join(map(str, args)), "map")

    def op_mapref(self):
        self.new_node(f"mapref {self.rng.choice([0, 1])} {self.pick_node()}", "mapref")

    def op_mapold(self):
        self.new_node(f"mapold {self.rng.choice(self.p['wo_fids'])} {self.pick_node()}", "mapold")

    def op_fold(self):
        k = self.rng.choice([0, 1, 2, 3, 4])
        args = [self.pick_node() for _ in range(k)]
        if k >= 2 and self.rng.random() < 0.3:
            args[1] = args[0]
        self.new_node(f"fold {self.rng.choice([0, 1, 2])} {self.rng.randrange(3)} " + " ".join(map(str, args)), "fold")

    def op_zip(self):
        self.new_node(f"zip {self.pick_node()} {self.pick_node()}", "zip")

    def op_dependon(self):
        self.new_node(f"dependon {self.pick_node()} {self.pick_node()}", "dependon")

    def operand(self, nlocals, depth_locals):
        """an operand for a template instruction: an own local, an enclosing local, or an outer handle"""
        r = self.rng.random()
        if nlocals > 0 and r < 0.5:
            return f"l0.{self.rng.randrange(nlocals)}"
        if depth_locals and r < 0.65:
            d = self.rng.randrange(len(depth_locals))
            if depth_locals[d] > 0:
                return f"l{d + 1}.{self.rng.randrange(depth_locals[d])}"
        return f"o{self.pick_node(bias_recent=False)}"

    def template(self, depth, enclosing):
        """returns text of one template.  Every created node is made reachable from the result: the body
        is built so that each new local is consumed by a later one (or is the result)."""
        if self.p["outer_ret_prob"] > 0 and self.rng.random() < self.p["outer_ret_prob"]:
            # the closure just picks one of the nodes that exist outside it
            return f"ret o{self.pick_node(bias_recent=False)}"
        body = []
        nloc = 0
        n_instr = self.rng.choice([0, 1, 1, 2, 3]) if depth < self.p["max_bind_depth"] else self.rng.choice([0, 1, 2])
        unused = []   # locals not yet consumed
        for _ in range(n_instr):
            k = self.rng.choice(self.p["tinstr_kinds"])
            if k == "bind" and depth >= self.p["max_bind_depth"]:
                k = "map"
            def arg():
                if unused and self.rng.random() < 0.8:
                    i = unused.pop(self.rng.randrange(len(unused)))
                    return f"l0.{i}"
                return self.operand(nloc, enclosing)
            if k == "memocall":
                lim = self.n_memos if self.memo_limit is None else self.memo_limit
                if lim == 0:
                    k = "constlhs"
                else:
                    key = "lhs" if self.rng.random() < 0.5 else str(self.rng.randrange(3))
                    body.append(f"memocall {self.rng.randrange(lim)} {key}")
            if k == "memocall":
                pass
            elif k == "const":
                body.append(f"const {self.rng.randrange(5)}")
            elif k == "constlhs":
                body.append("constlhs")
            elif k == "map":
                ar = self.rng.choice([1, 1, 2, 3])
                args = [arg() for _ in range(ar)]
                body.append(f"map {self.rng.choice(self.p['fids'])} {self.effs(self.p['eff_in_templates'])} " + " ".join(args))
            elif k == "mapref":
                body.append(f"mapref {self.rng.choice([0, 1])} {arg()}")
            elif k == "mapold":
                body.append(f"mapold {self.rng.choice(self.p['wo_fids'])} {arg()}")
            elif k == "fold":
                args = [arg() for _ in range(self.rng.choice([1, 2, 3]))]
                body.append(f"fold {self.rng.choice([0, 1, 2])} {self.rng.randrange(3)} " + " ".join(args))
            elif k == "bind":
                lhs = arg()
                body.append(f"bind {lhs} " + self.bindfn(depth + 1, [nloc] + enclosing))
            nloc += 1
            unused.append(nloc - 1)
            if self.rng.random() < 0.15:
                body.append(f"cutoff l0.{nloc - 1} {self.cutoff()}")
            if self.rng.random() < self.p["export_prob"]:
                body.append(f"export l0.{nloc - 1}")
        # result: must consume all unused locals; if several remain, fold them together
        if unused and self.rng.random() < self.p["dangling_prob"]:
            # leave some nodes unreachable from the result: they die when the closure returns
            ret = f"l0.{self.rng.choice(unused)}" if self.rng.random() < 0.7 else self.operand(0, enclosing)
        elif len(unused) > 1:
            body.append(f"fold 0 0 " + " ".join(f"l0.{i}" for i in unused))
            nloc += 1
            ret = f"l0.{nloc - 1}"
        elif len(unused) == 1:
            ret = f"l0.{unused[0]}"
        else:
            ret = self.operand(0, enclosing)
        return " ; ".join(body + [f"ret {ret}"]) if body else f"ret {ret}"

    def bindfn(self, depth, enclosing):
        nt = self.rng.choice([1, 2, 2, 3])
        ts = [self.template(depth, enclosing) for _ in range(nt)]
        return "{ " + self.effs(self.p["eff_in_templates"] or (depth == 1 and self.p["eff_prob"] > 0)) + " " + " | ".join(ts) + " }"

    def op_bind(self):
        lhs = self.pick_node()
        self.new_node(f"bind {lhs} " + self.bindfn(1, []), "bind")

    def op_memonew(self):
        if self.n_memos >= 3:
            return self.op_memocall()
        self.memo_limit = self.n_memos
        t = self.template(self.p["max_bind_depth"] - 1, [])
        self.memo_limit = None
        self.emit("memonew { [] " + t + " }")
        self.n_memos += 1

    def op_memocall(self):
        if self.n_memos == 0:
            return self.op_memonew()
        self.new_node(f"memocall {self.rng.randrange(self.n_memos)} {self.rng.randrange(3)}", "memo")

    def op_cutoff(self):
        self.emit(f"cutoff {self.pick_node()} {self.cutoff()}")

    # ---- observers
    def op_observe(self):
        h = self.pick_node()
        self.emit(f"observe {h}")
        self.obs.append(dict(node=h, handles=1))

    def op_observeexport(self):
        self.emit(f"observeexport {self.rng.randrange(8)}")
        self.obs.append(dict(node=None, handles=1))

    def op_mapexport(self):
        self.new_node(f"mapexport {self.rng.choice(self.p['fids'])} {self.rng.randrange(8)}", "map")

    def live_obs(self):
        return [i for i, o in enumerate(self.obs) if o["handles"] > 0]

    def op_obs_misc(self):
        live = self.live_obs()
        if not live:
            return self.op_observe()
        o = self.rng.choice(live)
        k = self.rng.choice(self.p["obs_ops"])
        if k == "clone":
            self.emit(f"cloneobs {o}")
            self.obs[o]["handles"] += 1
        elif k == "drop":
            self.emit(f"dropobs {o}")
            self.obs[o]["handles"] -= 1
            if self.obs[o]["handles"] == 0:
                self.obs[o]["dead"] = True
        elif k == "disallow":
            self.emit(f"disallow {o}")
            self.obs[o]["dead"] = True
        elif k == "read":
            self.emit(f"read {o}")
        elif k == "subscribe" and not self.obs[o].get("dead"):
            # callbacks of one node run in HashMap order: at most one of them may have effects
            node = self.obs[o]["node"]
            allow = self.p["eff_in_handlers"] and node is not None and not self.nodes[node].get("eff_handler")
            e = self.effs(allow)
            if self.p.get("sub_in_handlers") and node is not None and not self.nodes[node].get("eff_handler"):
                # the handler subscribes on, or unsubscribes from, another observer (never its own: that is
                # the known finding F-6.10; unsubscribing only on observers of other nodes, whose handlers run
                # at a definite point relative to this one)
                extra = []
                others = [x for x in self.live_obs() if x != o and not self.obs[x].get("dead")]
                if others and self.rng.random() < 0.5:
                    extra.append(f"subscribe:{self.rng.choice(others)}:{1000 + len(self.subs)}")
                far = [x for x in others if self.obs[x]["node"] is not None and self.obs[x]["node"] != node]
                if far and self.rng.random() < 0.25:
                    extra.append(f"unsub:{self.rng.choice(far)}:{self.rng.choice([1, 1, 2])}")
                if extra:
                    e = "[" + " ".join(([] if e == "[]" else e[1:-1].split()) + extra) + "]"
            if self.p.get("setmax_in_handlers") and node is not None and e == "[]" and not self.nodes[node].get("eff_handler") \
                    and self.rng.random() < 0.3:
                # the handler reconfigures the height limit (allowed while handlers run, refused during propagation)
                e = f"[setmaxheight:{self.rng.choice([128, 128, 160, 200, 300])}]"
            if e != "[]":
                self.nodes[node]["eff_handler"] = True
            self.emit(f"subscribe {o} {len(self.subs)} {e}")
            self.subs.append(dict(obs=o))
        elif k == "onupdate":
            # Incr::on_update: a handler on a node itself (the observed one, or any other — then it may hear Unnecessary)
            node = self.obs[o]["node"]
            h = node if (node is not None and self.rng.random() < 0.5) else self.pick_node()
            self.nupd = getattr(self, "nupd", 0) + 1
            self.emit(f"onupdate {h} {2000 + self.nupd} []")
        elif k == "unsubscribe" and self.subs:
            s = self.rng.randrange(len(self.subs))
            target = self.subs[s]["obs"] if self.rng.random() < 0.8 else o
            if self.obs[target]["handles"] > 0:
                self.emit(f"unsubscribe {target} {s}")
        elif k == "stateunsub" and self.subs:
            self.emit(f"stateunsub {self.rng.randrange(len(self.subs))}")

    def read_all(self):
        for o in self.live_obs():
            self.emit(f"read {o}")

    # ---- vars
    def op_write(self):
        if not self.vars:
            return
        if self.p["write_burst"] > 0 and self.rng.random() < self.p["write_burst"]:
            # several variables change before the next stabilise
            for x, v in enumerate(self.vars):
                if not v.get("dropped") and not v["pair"] and self.rng.random() < 0.8:
                    self.emit(f"set {x} {self.rng.randrange(4)}")
            return
        livev = [i for i, v in enumerate(self.vars) if not v.get("dropped")]
        if not livev:
            return
        x = self.rng.choice(livev)
        if self.vars[x]["pair"]:
            self.emit(f"setpair {x} {self.rng.randrange(4)} {self.rng.randrange(10, 14)}")
            return
        k = self.rng.choice(self.p["write_ops"])
        if k == "set":
            self.emit(f"set {x} {self.rng.randrange(6)}")
        elif k == "update":
            self.emit(f"update {x} {self.rng.choice([0, 1, 2])}")
        elif k == "modify":
            self.emit(f"modify {x} {self.rng.choice([0, 1, 3])}")
        elif k == "replace":
            self.emit(f"replace {x} {self.rng.randrange(6)}")
        elif k == "replacewith":
            self.emit(f"replacewith {x} {self.rng.choice([0, 1, 2])}")
        elif k == "get":
            self.emit(f"get {x}")

    def op_stabilise(self):
        self.emit("stabilise")
        self.stab += 1
        if self.rng.random() < self.p["read_after_stabilise"]:
            self.read_all()

    def teardown(self):
        """drop every handle the program holds, in a random order, interleaved with stabilises"""
        todo = []
        for h, n in enumerate(self.nodes):
            if not n.get("dropped"):
                todo.append(f"dropnode {h}")
        for x, v in enumerate(self.vars):
            if not v.get("dropped"):
                todo.append(f"dropvar {x}")
        for o, ob in enumerate(self.obs):
            todo.extend([f"dropobs {o}"] * ob["handles"])
        if self.rng.random() < 0.5:
            todo.append("dropexports")
        self.rng.shuffle(todo)
        for t in todo:
            self.emit(t)
            if self.rng.random() < 0.1:
                self.emit("stabilise")
        self.emit("stabilise")
        # a bind that was still needed may have handed out nodes in that stabilise: drop those handles too
        self.emit("dropexports")
        self.emit("stabilise")
        self.emit("stats")

    def op_misc(self):
        self.emit(self.rng.choice(["isstable", "stats"]))

    # ---- main loop
    def run(self, n_ops):
        for _ in range(self.rng.choice([1, 2, 3])):
            self.op_var()
        w = self.p["weights"]
        kinds = list(w)
        weights = [w[k] for k in kinds]
        for _ in range(n_ops):
            k = self.rng.choices(kinds, weights)[0]
            getattr(self, "op_" + k)()
        if self.rng.random() < 0.8:
            self.op_stabilise()
            self.read_all()
        if self.p.get("teardown"):
            self.teardown()
        return self.lines


DEFAULT_PROFILE = dict(
    weights=dict(var=2, const=1, map=8, mapref=2, mapold=2, fold=2, zip=1, dependon=1, bind=4, cutoff=2,
                 observe=5, obs_misc=8, write=9, stabilise=8, misc=1, observeexport=0, mapexport=0, dropnode=0, dropvar=0,
                 memonew=0, memocall=0),
    arities=[1, 1, 1, 2, 2, 3, 4, 5, 6],
    fids=[0, 1, 2, 3, 4, 5, 6, 8, 9],
    wo_fids=[0, 1, 2],
    cutoffs=["eq", "never", "always", "fn:0", "boxed:0", "fn:2", "boxed:1"],
    tinstr_kinds=["const", "constlhs", "map", "map", "map", "mapref", "mapold", "fold", "bind"],
    obs_ops=["clone", "drop", "drop", "disallow", "read", "read", "subscribe", "subscribe", "unsubscribe", "stateunsub"],
    write_ops=["set", "set", "set", "update", "modify", "replace", "replacewith", "get"],
    eff_kinds=["set", "update", "modify", "replace", "replacewith", "get", "read"],
    eff_prob=0.0, eff_in_templates=False, eff_in_handlers=False, export_prob=0.0, dangling_prob=0.0, outer_ret_prob=0.0,
    write_burst=0.0, max_vars=99,
    pair_prob=0.2, max_bind_depth=2, read_after_stabilise=0.7,
)


W = dict(var=2, const=1, map=8, mapref=2, mapold=2, fold=2, zip=1, dependon=1, bind=4, cutoff=2,
         observe=5, obs_misc=8, write=9, stabilise=8, misc=1, observeexport=0, mapexport=0, dropnode=0, dropvar=0,
         memonew=0, memocall=0)


def w(**kw):
    d = dict(W)
    d.update(kw)
    return d


PROFILES = {
    "basic": {},
    # C04/C12: closures that write variables and drop the program's last handle of a variable while stabilising
    "vardrops": dict(eff_prob=0.4, eff_in_templates=True, eff_in_handlers=False,
                     eff_kinds=["set", "update", "modify", "replace", "get", "dropvar", "dropvar"],
                     cutoffs=["eq", "never"], pair_prob=0.0,
                     weights=w(var=5, map=10, bind=4, write=10, stabilise=10, observe=7, obs_misc=4, mapref=1, mapold=1, fold=1,
                               zip=0, dependon=1, cutoff=1, dropvar=1, dropnode=2),
                     obs_ops=["read", "drop", "clone"]),
    # C02: few variables feeding chains of maps; binds that switch between nodes existing outside the closure;
    # several variables written between stabilises; observers added over time
    "glitch": dict(weights=w(var=1, const=0, map=12, mapref=1, mapold=0, fold=2, zip=0, dependon=0, bind=9, cutoff=0,
                             observe=7, obs_misc=3, write=12, stabilise=9, misc=0),
                   arities=[1, 1, 1, 1, 2, 2, 3], outer_ret_prob=0.6, write_burst=0.6, max_vars=3, pair_prob=0.0,
                   obs_ops=["read", "drop", "clone"], cutoffs=["eq"], max_bind_depth=2),
    # C20: memoised functions called from top level and from bind closures, handles dropped, binds re-run
    "memo": dict(weights=w(memonew=3, memocall=9, bind=9, write=14, stabilise=10, dropnode=5, observe=7, obs_misc=5,
                           map=5, mapref=1, mapold=1, fold=1, zip=0, dependon=0, cutoff=1, observeexport=2),
                 tinstr_kinds=["const", "constlhs", "map", "map", "mapref", "fold", "bind", "memocall", "memocall", "memocall"],
                 obs_ops=["read", "read", "drop", "clone", "disallow"], export_prob=0.15, dangling_prob=0.15,
                 cutoffs=["eq", "never", "fn:0", "boxed:0"], wo_fids=[0, 1, 2], max_bind_depth=3),
    # C01: pure functions, cutoffs that only suppress equal values, much re-observation
    "c01": dict(cutoffs=["eq", "never", "fn:0", "boxed:0"], wo_fids=[0, 1, 2],
                weights=w(bind=6, write=12, stabilise=9, observe=6, obs_misc=9, mapref=3),
                obs_ops=["clone", "drop", "drop", "disallow", "read", "read"]),
    "binds": dict(weights=w(bind=9, write=14, stabilise=10, map=6, observe=6), max_bind_depth=3),
    "observers": dict(weights=w(observe=8, obs_misc=12, write=12, stabilise=10),
                      obs_ops=["clone", "drop", "drop", "drop", "disallow", "read"]),
    "reads": dict(cutoffs=["eq", "never", "fn:0", "boxed:0"], weights=w(observe=7, obs_misc=12, write=12, stabilise=6, map=6),
                  obs_ops=["read", "read", "read", "clone", "drop", "disallow"], read_after_stabilise=0.3),
    # handlers that subscribe and unsubscribe on other observers
    "subsub": dict(cutoffs=["eq", "never", "fn:0", "boxed:0"], sub_in_handlers=True,
                   weights=w(observe=9, obs_misc=16, write=12, stabilise=10, bind=2, cutoff=0, map=6),
                   obs_ops=["subscribe", "subscribe", "subscribe", "unsubscribe", "clone", "drop", "disallow", "read"]),
    # cutoffs that only suppress equal values: the subscription oracle compares delivered values with the reference
    "subs": dict(cutoffs=["eq", "never", "fn:0", "boxed:0"], weights=w(observe=7, obs_misc=16, write=12, stabilise=10, bind=3, cutoff=0),
                 obs_ops=["subscribe", "subscribe", "subscribe", "unsubscribe", "stateunsub", "clone", "drop", "disallow", "read", "onupdate"]),
    "subsmax": dict(cutoffs=["eq", "never", "fn:0", "boxed:0"], setmax_in_handlers=True,
                    weights=w(observe=7, obs_misc=16, write=12, stabilise=10, bind=3, cutoff=0),
                    obs_ops=["subscribe", "subscribe", "subscribe", "unsubscribe", "clone", "drop", "read"]),
    # C08: closures and handlers that write and read variables
    "writes": dict(eff_prob=0.45, eff_in_templates=False, eff_in_handlers=True,
                   eff_kinds=["set", "update", "modify", "replace", "replacewith", "get", "get"],
                   cutoffs=["eq", "never"], pair_prob=0.0,
                   weights=w(var=3, map=10, bind=3, write=12, stabilise=10, observe=6, obs_misc=8, mapref=1, mapold=1, fold=1,
                             zip=0, dependon=1, cutoff=1),
                   obs_ops=["subscribe", "subscribe", "read", "drop", "clone", "unsubscribe"]),
    "cutoffs": dict(weights=w(cutoff=8, write=14, stabilise=10, map=10, bind=3, observe=6, obs_misc=5),
                    write_ops=["set", "set", "set", "update", "modify"], pair_prob=0.1),
    "lifecycle": dict(weights=w(var=1, map=3, bind=1, observe=8, obs_misc=20, write=5, stabilise=7, mapref=0, mapold=0, fold=0,
                                zip=0, dependon=0, cutoff=0),
                      obs_ops=["clone", "drop", "drop", "disallow", "read", "read", "subscribe", "subscribe", "unsubscribe",
                               "unsubscribe", "stateunsub"]),
    "teardown": dict(export_prob=0.25, dangling_prob=0.3, teardown=True,
                     weights=dict(var=3, const=1, map=6, mapref=2, mapold=2, fold=2, zip=1, dependon=1, bind=7,
                                  cutoff=1, observe=5, obs_misc=8, write=10, stabilise=9, misc=1,
                                  observeexport=2, mapexport=2, dropnode=3, dropvar=1)),
    "drops": dict(export_prob=0.25, dangling_prob=0.3,
                  weights=dict(var=3, const=1, map=6, mapref=2, mapold=2, fold=2, zip=1, dependon=1, bind=7,
                               cutoff=1, observe=5, obs_misc=8, write=10, stabilise=9, misc=1,
                               observeexport=2, mapexport=2, dropnode=4, dropvar=1)),
    "exports": dict(export_prob=0.3, weights=dict(var=2, const=1, map=6, mapref=2, mapold=2, fold=2, zip=1, dependon=1, bind=7,
                                                   cutoff=2, observe=4, obs_misc=8, write=12, stabilise=9, misc=1,
                                                   observeexport=3, mapexport=3)),
}


def history(seed, n_ops=25, profile=None):
    if profile == "memo-dynamic":
        return dynamic_memo_history(seed)
    if profile == "direct":
        return direct_recompute_history(seed)
    if profile == "expert":
        return expert_history(seed)
    if profile == "reobserve":
        return reobserve_history(seed)
    if profile == "perkey":
        return perkey_history(seed)
    if profile == "perkeycut":
        return perkey_history(seed, unsound_cutoffs=True)
    if profile == "rhsheights":
        return rhs_heights_history(seed)
    if profile == "joinexport":
        return join_export_history(seed)
    if isinstance(profile, str):
        profile = PROFILES[profile]
    rng = random.Random(seed)
    g = Gen(rng, profile)
    return g.run(n_ops)


def direct_recompute_history(seed):
    """C02/C03, scripted family around the direct-recompute shortcut: binds that switch between nodes living
    outside the closure (at assorted heights) or build nodes over them, a left-hand side that may have older
    dependants, a consumer downstream of the bind, and rounds in which the left-hand side and the inputs of the
    current right-hand side change together, in either order."""
    rng = random.Random(seed)
    L = []
    H = [0]          # number of node handles so far

    def node(line):
        L.append(line)
        H[0] += 1
        return H[0] - 1
    nobs = [0]

    def observe(h):
        L.append(f"observe {h}")
        nobs[0] += 1

    ntempl = rng.choice([2, 2, 3])
    lhs = node(f"var {rng.randrange(ntempl)}")
    data = [node(f"var {rng.randrange(5)}") for _ in range(rng.choice([1, 2, 2, 3]))]
    nvars = 1 + len(data)
    # older dependants of the left-hand side
    for _ in range(rng.choice([0, 1, 1, 2])):
        o = node(f"map {rng.choice([1, 2, 9])} [] {lhs}")
        observe(o)
    if nobs[0] and rng.random() < 0.8:
        L.append("stabilise")
    # chains over the data variables (a bind may pick any node of a chain, also a node and its own dependant)
    ends = []
    for d in data:
        cur = d
        for _ in range(rng.choice([0, 1, 2, 2, 3])):
            if rng.random() < 0.35:
                ends.append(cur)
            cur = node(f"map {rng.choice([0, 1, 2])} [] {cur}")
            if rng.random() < 0.15:
                observe(cur)
        ends.append(cur)
    if rng.random() < 0.3:
        L.append("stabilise")
    # the left-hand side of the bind: the variable itself or a chain over it
    bl = lhs
    for _ in range(rng.choice([0, 0, 0, 1, 2])):
        bl = node(f"map 0 [] {bl}")

    def template(depth):
        r = rng.random()
        e = rng.choice(ends)
        if r < 0.5:
            return f"ret o{e}"
        if r < 0.75:
            return f"map {rng.choice([1, 2, 8])} [] o{e} ; ret l0.0"
        if r < 0.85:
            return f"map 1 [] o{e} o{rng.choice(ends)} ; map 2 [] l0.0 ; ret l0.1"
        if depth < 2:
            inner = " | ".join(template(depth + 1) for _ in range(2))
            return f"bind o{rng.choice(ends + [bl])} {{ [] {inner} }} ; ret l0.0"
        return f"constlhs ; ret l0.0"
    binds = []
    for _ in range(rng.choice([1, 1, 2])):
        ts = " | ".join(template(1) for _ in range(ntempl))
        b = node(f"bind {bl} {{ [] {ts} }}")
        binds.append(b)
        cur = b
        for _ in range(rng.choice([0, 1, 1, 2])):
            args = [cur] + ([rng.choice(ends)] if rng.random() < 0.3 else [])
            cur = node(f"map 1 [] " + " ".join(map(str, args)))
        observe(cur)
        if rng.random() < 0.3:
            observe(b)
        if rng.random() < 0.4:
            L.append("stabilise")
    L.append("stabilise")
    L += [f"read {o}" for o in range(nobs[0])]
    for _ in range(rng.choice([2, 3, 4])):
        ws = []
        if rng.random() < 0.8:
            ws.append(f"set 0 {rng.randrange(ntempl)}")
        for x in range(1, nvars):
            if rng.random() < 0.7:
                ws.append(f"set {x} {rng.randrange(6)}")
        rng.shuffle(ws)
        L += ws
        if rng.random() < 0.15 and nobs[0] > 1:
            L.append(f"dropobs {rng.randrange(nobs[0])}") if f"dropobs" not in " ".join(L[-3:]) else None
        L.append("stabilise")
        L += [f"read {o}" for o in range(nobs[0]) if f"dropobs {o}" not in L]
    if rng.random() < 0.5:
        # nothing is observed any more: later writes must not run anything
        L += [f"dropobs {o}" for o in range(nobs[0]) if f"dropobs {o}" not in L]
        L.append("stabilise")
        L += [f"set {x} {rng.randrange(6)}" for x in range(1, nvars)]
        L += ["stabilise", "stats"]
    return L


def rhs_heights_history(seed):
    """C02/C03/C11, scripted family around adjust_heights_bind_lhs_change: a bind (inner) whose left-hand side is
    another bind (outer) that switches between nodes of different heights with equal values, so that inner's
    lhs-change node is raised without inner's closure running again; inner's closure creates several nodes, some of
    which it does not return (they are freed when it returns) in assorted positions; then rounds in which inner's
    left-hand value and the inputs of its right-hand side change together."""
    rng = random.Random(seed)
    L = []
    H = [0]

    def node(line):
        L.append(line)
        H[0] += 1
        return H[0] - 1
    sel = node("var 0")
    base = node(f"var {rng.randrange(1, 4)}")
    extra = [node(f"var {rng.randrange(5)}") for _ in range(rng.choice([1, 1, 2]))]
    # chains of identity maps of different lengths over base: equal values, different heights
    tops = []
    for ln in rng.sample([0, 1, 2, 4, 6, 9], rng.choice([2, 3])):
        cur = base
        for _ in range(ln):
            cur = node(f"map 0 [] {cur}")
        if cur == base:
            cur = node(f"map 0 [] {base}")
        tops.append(cur)
    outer = node("bind %d { [] %s }" % (sel, " | ".join(f"ret o{x}" for x in tops)))
    # inner: locals in assorted order, some never used in the result
    def inner_template():
        body, keep = [], []
        n = rng.choice([2, 3, 3, 4])
        for i in range(n):
            r = rng.random()
            src = rng.choice([f"o{rng.choice(extra)}"] + [f"l0.{k}" for k in keep])
            if r < 0.4:
                body.append(f"const {rng.randrange(3)}")       # scratch node
            elif r < 0.8:
                body.append(f"map {rng.choice([1, 2, 8])} [] {src}")
                keep.append(i)
            else:
                body.append(f"map 1 [] o{rng.choice(extra)} {src}")
                keep.append(i)
        if not keep:
            body.append(f"map 8 [] o{rng.choice(extra)}")
            keep.append(len(body) - 1)
        return " ; ".join(body) + f" ; ret l0.{keep[-1]}"
    inner = node("bind %d { [] %s }" % (outer, " | ".join(inner_template() for _ in range(rng.choice([1, 2])))))
    cons = inner
    for _ in range(rng.choice([0, 1, 1, 2])):
        cons = node(f"map {rng.choice([0, 1, 2])} [] {cons}")
    L.append(f"observe {cons}")
    if rng.random() < 0.3:
        L.append(f"observe {outer}")
    L.append("stabilise")
    nvars = 2 + len(extra)
    for _ in range(rng.choice([3, 4, 5, 6])):
        r = rng.random()
        if r < 0.45:
            L.append(f"set 0 {rng.randrange(len(tops))}")            # outer switches: same value, other height
        elif r < 0.85:
            order = [f"set 1 {rng.randrange(1, 6)}"] + [f"set {2 + i} {rng.randrange(6)}" for i in range(len(extra)) if rng.random() < 0.8]
            rng.shuffle(order)
            L.extend(order)
            if rng.random() < 0.3:
                L.append(f"set 0 {rng.randrange(len(tops))}")
        else:
            L.append(f"set {rng.randrange(2, nvars)} {rng.randrange(6)}")
        L.append("stabilise")
        if rng.random() < 0.5:
            L.append("read 0")
    return L


def join_export_history(seed):
    """C01/C03, scripted family: a bind (B) whose right-hand side is a node that another bind's closure (A) created
    and handed out -- the program holds a handle on the exported node itself (`exporthandle`) and B's closure
    returns it.  Rounds in which A's left-hand side changes (the exported node is invalidated and a new one is
    made), B's selector changes, both, or only the data; later handles on the newer exports, binds and maps over
    them, and B switching back to a node that has been invalidated meanwhile."""
    rng = random.Random(seed)
    L = []
    H = [0]

    def node(line):
        L.append(line)
        H[0] += 1
        return H[0] - 1
    a_lhs = node(f"var {rng.randrange(3)}")          # var 0
    data = node(f"var {rng.randrange(1, 6)}")        # var 1
    sel = node("var 0")                              # var 2
    other = node(f"var {rng.randrange(1, 6)}")       # var 3
    fid = rng.choice([1, 2, 8])
    if rng.random() < 0.5:
        A = node(f"bind {a_lhs} {{ [] map {fid} [] o{data} ; export l0.0 ; ret l0.0 }}")
    else:
        A = node(f"bind {a_lhs} {{ [] map {fid} [] o{data} ; export l0.0 ; map 1 [] l0.0 o{other} ; ret l0.1 }}")
    nobs = 0
    L.append(f"observe {A}"); nobs += 1
    L.append("stabilise")
    nexp = 1
    eh = [node("exporthandle 0")]
    alts = [f"ret t{eh[0]}", f"ret o{other}"]
    if rng.random() < 0.4:
        m = node(f"map {rng.choice([0, 1, 2])} [] {eh[0]}")
        alts.append(f"ret o{m}")
    rng.shuffle(alts)
    B = node("bind %d { [] %s }" % (sel, " | ".join(alts)))
    cons = B
    for _ in range(rng.choice([0, 1, 1])):
        cons = node(f"map {rng.choice([0, 1, 2])} [] {cons}")
    L.append(f"observe {cons}"); nobs += 1
    if rng.random() < 0.3:
        L.append(f"observe {eh[0]}"); nobs += 1
    L.append("stabilise")
    for o in range(nobs):
        L.append(f"read {o}")
    for _ in range(rng.choice([3, 4, 5, 6])):
        r = rng.random()
        order = []
        if r < 0.35:
            order.append(f"set 0 {rng.randrange(4)}")          # A re-runs
            order.append(f"set 2 {rng.randrange(len(alts))}")  # B switches in the same round
            nexp += 1
        elif r < 0.55:
            order.append(f"set 0 {rng.randrange(4)}")
            nexp += 1
        elif r < 0.75:
            order.append(f"set 2 {rng.randrange(len(alts))}")
        else:
            order.append(f"set {rng.choice([1, 3])} {rng.randrange(1, 7)}")
        if rng.random() < 0.3:
            order.append(f"set {rng.choice([1, 3])} {rng.randrange(1, 7)}")
        rng.shuffle(order)
        L.extend(order)
        L.append("stabilise")
        for o in range(nobs):
            if rng.random() < 0.7:
                L.append(f"read {o}")
        if rng.random() < 0.35:
            k = rng.randrange(nexp + 1)
            h = node(f"exporthandle {k}")
            eh.append(h)
            if rng.random() < 0.6:
                B2 = node("bind %d { [] ret t%d | ret o%d }" % (sel, h, data))
                L.append(f"observe {B2}"); nobs += 1
            else:
                L.append(f"observe {h}"); nobs += 1
    return L


def reobserve_history(seed):
    """C01, scripted family: nodes that stop being needed while their inputs go on changing (something else
    keeps those inputs needed) and are observed again later: depend_on, map_ref, map_with_old, binds, folds
    between an inner layer that stays observed and an outer layer whose observers come and go."""
    rng = random.Random(seed)
    L = []
    H = [0]

    def node(line):
        L.append(line)
        H[0] += 1
        return H[0] - 1
    nobs = [0]

    def observe(h):
        L.append(f"observe {h}")
        nobs[0] += 1
        return nobs[0] - 1
    nv = rng.choice([2, 3])
    vs = [node(f"var {rng.randrange(6)}") for _ in range(nv)]
    if rng.random() < 0.4:
        vs.append(node(f"pair {rng.randrange(4)} {rng.randrange(10, 14)}"))
    inner = []
    for v in vs:
        cur = v
        for _ in range(rng.choice([0, 1, 1, 2])):
            cur = node(f"map {rng.choice([1, 2, 9, 5])} [] {cur}")
        inner.append(cur)
    keep = [observe(x) for x in inner if rng.random() < 0.7]
    outer = []
    for _ in range(rng.choice([2, 3, 4])):
        a, b = rng.choice(inner + outer), rng.choice(inner + vs)
        k = rng.choice(["dependon", "dependon", "mapref", "map", "map2", "mapold", "fold", "bind", "zip"])
        if k == "dependon":
            n = node(f"dependon {a} {b}")
        elif k == "mapref":
            n = node(f"mapref {rng.choice([0, 1])} {a}")
        elif k == "map":
            n = node(f"map {rng.choice([1, 2, 8])} [] {a}")
        elif k == "map2":
            n = node(f"map 1 [] {a} {b}")
        elif k == "mapold":
            n = node(f"mapold {rng.choice([0, 2])} {a}")
        elif k == "fold":
            n = node(f"fold 0 0 {a} {b}")
        elif k == "zip":
            n = node(f"zip {a} {b}")
        else:
            n = node(f"bind {a} {{ [] ret o{b} | map 1 [] o{b} ; ret l0.0 }}")
        outer.append(n)
        if rng.random() < 0.6:
            outer.append(node(f"map 1 [] {n}"))
    tog = {}
    for x in outer:
        if rng.random() < 0.6:
            tog[x] = observe(x)
    L.append("stabilise")
    live = set(range(nobs[0]))
    L += [f"read {o}" for o in sorted(live)]
    nvars = len(vs)
    for _ in range(rng.choice([4, 5, 6, 7])):
        for x in list(tog):
            r = rng.random()
            if tog[x] is not None and r < 0.35:
                L.append(f"dropobs {tog[x]}")
                live.discard(tog[x])
                tog[x] = None
            elif tog[x] is None and r < 0.5:
                tog[x] = observe(x)
                live.add(tog[x])
        for i in range(nvars):
            if rng.random() < 0.5:
                if "pair" in L[i]:
                    L.append(f"setpair {i} {rng.randrange(4)} {rng.randrange(10, 14)}")
                else:
                    L.append(f"set {i} {rng.randrange(6)}")
        L.append("stabilise")
        L += [f"read {o}" for o in sorted(live)]
    return L


def expert_history(seed):
    """C14, scripted family: an expert node whose dependencies are added and removed from the functions of its
    own children (the join / bind / dynamic-sum idiom), static dependencies with and without change callbacks,
    shared and duplicate children, make_stale, observe / unobserve / re-observe, dependencies added from top
    level after the node has run."""
    rng = random.Random(seed)
    L = []
    H = [0]

    def node(line):
        L.append(line)
        H[0] += 1
        return H[0] - 1
    nobs = [0]
    obs_of = {}

    def observe(h):
        L.append(f"observe {h}")
        obs_of[nobs[0]] = h
        nobs[0] += 1
        return nobs[0] - 1

    ndata = rng.choice([2, 3, 4])
    data = [node(f"var {rng.randrange(10)}") for _ in range(ndata)]
    nsel = rng.choice([1, 1, 2, 3])
    sels = [node(f"var {rng.randrange(4)}") for _ in range(nsel)]
    nvars = ndata + nsel
    cands = list(data)
    for d in data:
        cur = d
        for _ in range(rng.choice([0, 0, 1, 2])):
            cur = node(f"map {rng.choice([1, 2, 9])} [] {cur}")
            cands.append(cur)
    if rng.random() < 0.3:
        cands.append(node(f"map 1 [] {rng.choice(cands)} {rng.choice(cands)}"))
    inval_var = None
    if rng.random() < 0.4:
        # a candidate that can become invalid: a map over a node created (and handed out) by a bind closure;
        # when the bind's left-hand side changes that node, and with it the map, is invalidated for good
        a = node(f"var {rng.randrange(3)}")
        inval_var = nvars
        nvars += 1
        B = node(f"bind {a} {{ [] map 1 [] o{data[0]} ; export l0.0 ; ret l0.0 }}")
        observe(B)
        L.append("stabilise")
        cands.append(node("mapexport 1 0"))
    mode = rng.choice([0, 1, 1])
    E = node(f"expert {mode}")
    cbdefault = 1 if mode == 0 else rng.choice([0, 1])
    slot = [0]

    def newslot():
        slot[0] += 1
        return slot[0] - 1
    # static dependencies
    for _ in range(rng.choice([0, 1, 1, 2])):
        cb = cbdefault if rng.random() < 0.85 else 1 - cbdefault
        L.append(f"adddep {E} {rng.choice(cands)} {newslot()} {cb}")
    # controllers: children of E whose function rewires E
    ctrls = []
    for sv in sels:
        k = rng.choice([2, 2, 3])
        hs = [rng.choice(cands) for _ in range(k)]
        if rng.random() < 0.3:
            hs[1] = hs[0]                      # the same child under two selector values
        if inval_var is not None and rng.random() < 0.7:
            hs[rng.randrange(k)] = cands[-1]   # the node that a bind may invalidate
        sl = newslot()
        effs = [f"swapdep:{E}:{sl}:{cbdefault}:" + ",".join(map(str, hs))]
        if rng.random() < 0.25:
            effs.append(f"makestale:{E}")
        if rng.random() < 0.15:
            # a second cell toggled on every run: remove what is there, add again
            sl2 = newslot()
            h2 = rng.choice(cands)
            effs += [f"rmdep:{E}:{sl2}", f"adddep:{E}:{h2}:{sl2}:{cbdefault}"]
        c = node(f"map 0 [{' '.join(effs)}] {sv}")
        ctrls.append(c)
        L.append(f"adddep {E} {c} {newslot()} {cbdefault}")
        if rng.random() < (0.5 if inval_var is not None else 0.3):
            observe(c)          # it keeps rewiring the expert node while that one is not observed
    kill = None
    if rng.random() < 0.15:
        # a child whose function invalidates the expert node; it only becomes a dependency later on
        kv = node(f"var {rng.randrange(3)}")
        nvars += 1
        kill = node(f"map 0 [invalidate:{E}] {kv}")
    down = E
    if rng.random() < 0.5:
        down = node(f"map 1 [] {E}")
    o_main = observe(down)
    if rng.random() < 0.3:
        observe(rng.choice(cands))
    L.append("stabilise")
    L += [f"read {o}" for o in range(nobs[0])]
    live = {o: True for o in range(nobs[0])}
    for _ in range(rng.choice([3, 4, 5, 6] if inval_var is None else [5, 6, 7, 8, 9])):
        r = rng.random()
        if r < (0.12 if inval_var is None else 0.2) and live.get(o_main):
            L.append(f"dropobs {o_main}")
            live[o_main] = False
        elif r < (0.3 if inval_var is None else 0.5) and not live.get(o_main):
            o_main = observe(down)
            live[o_main] = True
        elif r < 0.5 and kill is not None:
            L.append(f"adddep {E} {kill} {newslot()} {cbdefault}")
            kill = None
        elif r < 0.4:
            # a dependency added from top level, possibly after the node has run
            cb = cbdefault
            L.append(f"adddep {E} {rng.choice(cands)} {newslot()} {cb}")
        for x in range(nvars):
            if rng.random() < (0.45 if x != inval_var else 0.3):
                L.append(f"set {x} {rng.randrange(10) if x < ndata else rng.randrange(5)}")
        L.append("stabilise")
        L += [f"read {o}" for o in range(nobs[0]) if live.get(o, True)]
    return L


def perkey_history(seed, unsound_cutoffs=False):
    """C16, scripted family: incr_mapi_ / incr_mapi_cutoff on a BTreeMap or an OrdMap with a per-key function
    that is a pure map of the value, a map2 with an outer variable, a bind on the value, a function ignoring its
    input, or one returning a shared pre-existing node; edits of the input map (insert, remove, change), writes
    to the other variables, unobserve / re-observe of the output."""
    rng = random.Random(seed)
    L = []
    H = [0]

    def node(line):
        L.append(line)
        H[0] += 1
        return H[0] - 1
    nobs = [0]

    def observe(h):
        L.append(f"observe {h}")
        nobs[0] += 1
        return nobs[0] - 1

    def rmap(m=None):
        if m is None or rng.random() < 0.15:
            return {k: rng.randrange(10) for k in range(6) if rng.random() < 0.5}
        m = dict(m)
        for _ in range(rng.choice([1, 1, 2, 3])):
            k = rng.randrange(6)
            c = rng.random()
            if c < 0.35 and k in m:
                del m[k]
            elif c < 0.7 and m:
                m[rng.choice(sorted(m))] = rng.randrange(10)
            else:
                m[k] = rng.randrange(10)
        return m

    def lit(m):
        return "{ " + " ".join(f"{k}:{m[k]}" for k in sorted(m)) + " }"
    cur = rmap()
    inp = node("varmap " + lit(cur))             # var 0
    others = [node(f"var {rng.randrange(10)}") for _ in range(rng.choice([1, 2]))]   # vars 1..
    shared = node(f"map 2 [] {rng.choice(others)}")
    flavour = rng.choice(["pure", "map2", "bind", "ignore", "ignore", "shared", "chain", "condread", "condread"])
    o = rng.choice(others)
    if flavour == "pure":
        f = f"map {rng.choice([2, 9, 8])} [] l1.0 ; ret l0.0"
    elif flavour == "map2":
        f = f"map 1 [] l1.0 o{o} ; ret l0.0"
    elif flavour == "bind":
        f = f"bind l1.0 {{ [] map 1 [] o{o} ; ret l0.0 | constlhs ; ret l0.0 | ret o{shared} }} ; ret l0.0"
    elif flavour == "ignore":
        f = rng.choice([f"map 6 [] o{o} ; ret l0.0", "const 5 ; ret l0.0", f"map 8 [] o{shared} ; ret l0.0"])
    elif flavour == "shared":
        f = f"ret o{rng.choice([shared, o])}"
    elif flavour == "condread":
        # reads its per-key input only while another variable says so: the per-key node is alive but not needed in between
        f = rng.choice([f"bind o{o} {{ [] map 2 [] l2.0 ; ret l0.0 | const 7 ; ret l0.0 }} ; ret l0.0",
                        f"bind o{o} {{ [] const 7 ; ret l0.0 | map 1 [] l2.0 o{shared} ; ret l0.0 | ret l2.0 }} ; ret l0.0"])
    else:
        f = f"map 2 [] l1.0 ; map 1 [] l0.0 o{shared} ; ret l0.1"
    cut = rng.choice(["-", "-", "-", "eq", "never", "fn:0"])
    if unsound_cutoffs:
        # cutoffs that swallow changes between unequal values: the output then legitimately lags behind the input, so
        # these histories are only compared between model and crate
        cut = rng.choice(["fn:1", "fn:2", "boxed:1", "boxed:2", "always"])
        if flavour in ("ignore", "shared", "condread"):
            flavour, f = "map2", f"map 1 [] l1.0 o{o} ; ret l0.0"
    op = rng.choice(["permapi", "permapiom", "perfilter", "perfilterom"])
    out = node(f"{op} {inp} {cut} {{ [] {f} }}")
    down = out
    if rng.random() < 0.3:
        down = node(f"map 0 [] {out}")
    if rng.random() < 0.85:
        o_main = observe(down)
        live = True
    else:
        o_main, live = None, False
    if rng.random() < 0.3:
        observe(shared)
    L.append("stabilise")
    L += [f"read {x}" for x in range(nobs[0])]
    dead = set()
    for _ in range(rng.choice([3, 4, 5, 6, 7])):
        r = rng.random()
        if r < 0.12 and live:
            L.append(f"dropobs {o_main}")
            dead.add(o_main)
            live = False
        elif r < 0.35 and not live:
            o_main = observe(down)
            live = True
        if rng.random() < 0.8:
            cur = rmap(cur)
            L.append(f"setmap 0 {lit(cur)}")
        for i in range(len(others)):
            if rng.random() < 0.35:
                L.append(f"set {1 + i} {rng.randrange(10)}")
        L.append("stabilise")
        L += [f"read {x}" for x in range(nobs[0]) if x not in dead]
    return L


def dynamic_memo_history(seed):
    """C20, scripted family: weak_memoize_fn is called inside a bind closure, so the function's scope is
    that bind; calls from top level then create nodes in the bind's scope, and calling it after the bind
    re-ran finds an invalid scope."""
    rng = random.Random(seed)
    L = []
    v0, v1 = rng.randrange(4), rng.randrange(4)
    L += [f"var {v0}", f"var {v1}"]                       # handles 0, 1
    ntop = rng.choice([0, 1])
    if ntop:
        L.append("memonew { [] constlhs ; map 1 [] l0.0 o1 ; ret l0.1 }")
    fid = rng.choice([1, 2, 8])
    inner = f"memonew {{ [] constlhs ; map {fid} [] l0.0 o1 ; ret l0.1 }}"
    use = rng.choice(["call", "nocall"])
    if use == "call":
        L.append(f"bind 0 {{ [] {inner} ; memocall {ntop} lhs ; ret l0.0 }}")      # handle 2
    else:
        L.append(f"bind 0 {{ [] {inner} ; constlhs ; ret l0.0 }}")
    L += ["observe 2", "stabilise", "read 0"]
    nh = 3
    created = 1          # memos created by the bind so far
    observed = True
    for _ in range(rng.choice([2, 3, 4, 5])):
        r = rng.random()
        if r < 0.45:
            m = ntop + rng.randrange(created)
            L.append(f"memocall {m} {rng.randrange(3)}")
            # the call cannot panic (and so yields a handle) only while the bind has run once and is observed
            if created == 1 and observed:
                if rng.random() < 0.6:
                    L.append(f"observe {nh}")
                nh += 1
        elif r < 0.75:
            v0 = (v0 + rng.choice([1, 2])) % 5
            L += [f"set 0 {v0}", "stabilise"]
            if observed:
                created += 1
        elif r < 0.9:
            L += [f"set 1 {rng.randrange(5)}", "stabilise"]
        elif observed:
            L += ["dropobs 0", "stabilise"]
            observed = False
        if observed:
            L.append("read 0")
    L += ["stabilise", "stats"]
    return L


if __name__ == "__main__":
    import sys
    seed = int(sys.argv[1]) if len(sys.argv) > 1 else 1
    print("\n".join(history(seed)))


# ---------------------------------------------------------------- C19: limits and misuse
def c19_history(seed):
    """returns (max_height, lines, family, info).  Families: chains around the height limit with
    set_max_height_allowed at quiescent points; the same with binds; cycles through one or two binds;
    nested stabilise from a node function or a handler; a bind returning a node of another state."""
    rng = random.Random(seed)
    fam = rng.choice(["limit", "limit", "limit", "limitbind", "cycle", "cycle", "nested", "foreign"])
    L = []
    if fam in ("limit", "limitbind"):
        N = rng.randrange(1, 9)
        L.append("var 1")
        top, nh = 0, 1
        nobs = 0
        plan = []          # for the oracle (pure chains): ("stab", needed height) / ("setmax", M)

        def grow(k):
            nonlocal top, nh
            for _ in range(k):
                if fam == "limitbind" and rng.random() < 0.3:
                    L.append(f"bind {top} {{ [] map 2 [] o{top} ; ret l0.0 | ret o{top} }}")
                else:
                    L.append(f"map 2 [] {top}")
                top = nh
                nh += 1
        grow(max(0, N - 3 + rng.randrange(0, 5)))
        L.append(f"observe {top}")
        nobs += 1
        L.append("stabilise")
        plan.append(("stab", nh))
        L.append(f"read {nobs - 1}")
        for _ in range(rng.choice([0, 1, 2])):
            M = max(1, N + rng.randrange(-3, 4))
            L.append(f"setmaxheight {M}")
            plan.append(("setmax", M))
            grow(rng.randrange(0, 4))
            L.append(f"observe {top}")
            nobs += 1
            L.append("stabilise")
            plan.append(("stab", nh))
            L.append(f"read {nobs - 1}")
        return N, L, fam, plan
    if fam == "cycle":
        L.append(f"var {rng.randrange(3)}")
        if rng.random() < 0.5:
            # one bind: b = a.bind(|_| m), m = f(...f(b))
            k = rng.choice([1, 2, 3])
            L.append(f"bind 0 {{ [] ret t{1 + k} }}")
            for i in range(k):
                L.append(f"map 2 [] {1 + i}")
            L.append(f"observe {1 + k}")
        elif rng.random() < 0.35:
            # a cycle closed through a bind scope: outer's closure creates n and hands it out; a bind that outer's own
            # left-hand side depends on is then switched to n itself (a program handle on the exported node)
            L[:] = ["var 0", f"var {rng.randrange(1, 4)}", f"var {rng.randrange(5, 12)}"]
            L.append("bind 0 { [] ret o1 | ret t6 }")                          # h3 join
            k = rng.choice([0, 1, 2])
            L.append("map 2 [] 3")                                              # h4 upstream
            L.append("bind 4 { [] map 1 [] o2 ; export l0.0 ; ret l0.0 }")      # h5 outer
            L.append("observe 5")
            L.append("stabilise")
            L.append("read 0")
            L.append("exporthandle 0")                                          # h6 = n
            L.append("set 0 1")
            L.append("stabilise")
            L.append("read 0")
            L.append("stabilise")
            return 128, L, "scopecycle", None
        else:
            # two binds: b1 returns a node above b2, b2 returns a node above b1
            L.append("bind 0 { [] ret t4 }")
            L.append("map 2 [] 1")
            L.append("bind 0 { [] ret t2 }")
            L.append("map 1 [] 3 3")
            L.append("observe 4")
        L.append("stabilise")
        L.append("read 0")
        L.append("stabilise")
        return 128, L, fam, None
    if fam == "nested":
        L.append("var 1")
        if rng.random() < 0.5:
            L.append("map 2 [stabilise] 0")
            L.append("observe 1")
        else:
            L.append("map 2 [] 0")
            L.append("observe 1")
            L.append("subscribe 0 0 [stabilise]")
        L.append("stabilise")
        L.append("read 0")
        L.append("stabilise")
        return 128, L, fam, None
    L.append("var 1")
    L.append("bind 0 { [] ret foreign }")
    L.append("observe 1")
    L.append("stabilise")
    L.append("read 0")
    return 128, L, fam, None
